#!/usr/bin/env python3
"""Regenerates MANIFEST.json from the table below (kept in one place so it is always valid)."""
import json, os
HERE = os.path.dirname(os.path.dirname(os.path.abspath(__file__)))
ALL = ["C%02d" % i for i in range(1, 21)]
BASE = open("/root/.vp/BASELINE.json").read() if os.path.exists("/root/.vp/BASELINE.json") else "{}"
baseline_cmd = json.loads(BASE).get("cmd", "cd /repo && cargo test --workspace --no-fail-fast --offline")
LEVEL_NOTE = ("Trusted: Coq 8.16.1 kernel + vm_compute (no native_compute); no axioms (Print Assumptions closed) unless named; "
              "extraction via ExtrOcamlBasic only; hand-written Gallina model tied to /repo by the executed correspondence "
              "(Rust driver compiled into vpncloud under --cfg vpncloud_verif vs extracted model on the same generated cases); "
              "ideal-crypto laws are explicit premises where used. See DESIGN.md section 2.")
CHECKS = {
 "C19": dict(text="Theorems C19_* (Properties/C19.v) characterise Frame::parse and Packet::parse of the Gallina model for every byte string "
                  "(structural proofs, no bound): rejected iff too short / unsupported, otherwise exactly the addresses at the standard "
                  "header positions, 12-bit VLAN id, VLAN 0 folded, never a panic. The model is tied to the code by running both on the "
                  "same generated inputs on every run; an independent reference dissector is the failing-input oracle.",
             technique="Coq proof over a Gallina model of payload.rs + executed model/implementation correspondence", ref="4 (C19)"),
 "C03": dict(text="Theorems C03_* (Properties/C03.v): for EVERY history of deliveries and ticks (induction over the history, no length bound) the "
                  "three-register window of a key slot accepts exactly the deliveries whose counter exceeds every counter accepted before the "
                  "tick preceding the most recent tick (history-only reference), a counter dies for good two ticks after something at least as "
                  "new was accepted, newer-than-seen is always accepted; lifted to CryptoCore.decrypt / every_second / rotate_key. Tied to the "
                  "code by running real CryptoCore pairs and the extracted model on the same histories each run; the history-only reference "
                  "evaluated on the real accept/reject outcomes is the failing-input oracle. Node-level housekeeping tick is covered by the C08/C10 node model.",
             technique="Coq proof (invariant by induction over histories) + executed model/implementation correspondence", ref="4 (C03)"),
 "C11": dict(text="Theorems C11_* (Properties/C11.v): Range::matches equals the bit-by-bit prefix specification for every byte string and every "
                  "prefix 0..255 (byte-level facts by an in-kernel sweep of all 65536 byte pairs lifted with forallb_forall, the rest by induction); an "
                  "uncached lookup returns a claim in the table that matches with maximal prefix length and None iff none matches; the cached decision "
                  "expires no later than now+switch timeout and no later than its claim; the sweep and peer removal leave nothing stale. Tied to the "
                  "code by the executed correspondence on ClaimTable operation sequences; failing-input oracles: bit-by-bit matcher and a history-based "
                  "table reference. The node-level clause (router drops and counts, switch/hub flood) is part of the node model (C10).",
             technique="Coq proof (list induction + finite in-kernel sweep) + executed model/implementation correspondence", ref="4 (C11)"),
 "C12": dict(text="Theorems C12_* (Properties/C12.v): after set_claims the ranges attributed to the peer are exactly the announced ones with fresh expiry, "
                  "other peers' live entries untouched, cached decisions of the peer gone if anything was dropped; unrefreshed claims vanish at the "
                  "first sweep after expiry; remove_claims leaves no claim or cached/learned address for the peer - for every table state, list and "
                  "time > 0 (induction over the claim vector, including swap_remove). Tied to the code by the executed correspondence; oracle: "
                  "history-based reference after every step. Node-level removal paths are covered by the node model.",
             technique="Coq proof (invariant of the set_claims loop by induction) + executed model/implementation correspondence", ref="4 (C12)"),
 "C17": dict(text="Theorems C17_* (Properties/C17.v), with SHA-512 modelled bit-exact in Gallina (no hash oracle): base-62 text round trip to the "
                  "leading-zero-stripped string (canonical numerals, uniqueness), masking involution for every length incl. counter wrap, "
                  "encrypt/decrypt of the body, full peer-list round trip for every key, hour, list and admissible age limit (premise: not all of "
                  "the first six masked bytes are zero, probability 2^-48), scanner finds an embedded beacon where its two find calls hit, sanitised "
                  "text always decodes and all slices are in range (no panic site). 'Different password is ignored' is exercised, not proved. Tied to "
                  "the code by the executed correspondence (real BeaconSerializer vs extracted model incl. SHA-512).",
             technique="Coq proof (numeral-system lemmas, list induction, bit-exact SHA-512 model) + executed correspondence", ref="4 (C17)"),
 "C18": dict(text="Theorems C18_* (Properties/C18.v): every 32-byte key printed with to_base62 is parsed back to the same bytes (leading zeros "
                  "included), parsing is total and always yields 32 bytes; with PBKDF2/Ed25519 as oracle functions the password-only configuration "
                  "selects (kdf pw, pk_of (kdf pw)) trusting exactly its own key, the printed pair is accepted as private/public/trusted key, and two "
                  "password-only nodes trust each other iff the derived public keys are equal. Determinism of ring's PBKDF2/Ed25519 itself is exercised "
                  "(derive twice, two instances), not proved.",
             technique="Coq proof (base-62 canonical-numeral argument) + executed correspondence; determinism of ring by run-twice", ref="4 (C18)"),
 "C06": dict(text="Theorems C06_* (Properties/C06.v) about select_algorithm as written (own-list order, first match in the peer list, minimum of "
                  "the two speeds, maximum with id tie-break): plain iff both allow it; clean failure iff not both plain and no common cipher; "
                  "otherwise a common cipher whose slower side is fastest; both ends obtain the same result and the result is invariant under any "
                  "permutation of either list (uniqueness of the maximum under a strict total order on duplicate-free lists); an edited list "
                  "is an edited signed message and is dropped without touching the handshake. Tied to the code by real handshakes between "
                  "PeerCrypto objects with prescribed speeds vs the extracted model (all 1024 list pairs x speed grid x both initiators).",
             technique="Coq proof (order-independence of a maximum, list induction) + executed correspondence through real handshakes", ref="4 (C06)"),
 "C07": dict(text="Theorem C07_send_key_held: for EVERY schedule (list of arbitrary length, by induction) of rotation cycles at either end, delivery "
                  "of ANY rotation message ever sent (loss, duplication, reordering, delay), window ticks and payload sealing, starting right after any "
                  "handshake, the key each end currently seals with is held by the peer under that key id with identical key material, and the "
                  "agree_ephemeral unwrap is never hit. Proved through an explicit 16-clause shape invariant (largest message id n, whether its receiver "
                  "has processed it, slot arithmetic mod 4, symmetric symbolic ECDH). Plus: duplicates ignored, lost message re-sent in the second "
                  "following cycle, progress by one key id per delivered message, cycle exactly every 120th tick. Tied to the code by real "
                  "PeerCrypto pairs run against the extracted model on exhaustive (depth 6/8) and random 100+-cycle schedules with a probe in both "
                  "directions after every step.",
             technique="Coq proof (inductive invariant over all schedules, symbolic ECDH) + executed correspondence with probes after every step", ref="4 (C07)"),
}
NA_REASON = "check not built yet in this revision of /verif (planned, see DESIGN.md section 4); not claimed"
def main():
    checks = []
    for pid in ALL:
        if pid in CHECKS:
            c = CHECKS[pid]
            checks.append({
                "property_id": pid,
                "quick_cmd": "./vp check %s --tier quick" % pid,
                "thorough_cmd": "./vp check %s --tier thorough" % pid,
                "evidence_file": "/verif/evidence/%s.json" % pid,
                "replay_cmd_template": "./vp replay {path}",
                "engine": "coq-correspondence",
                "level_claimed": {"category": "proof", "text": c["text"], "design_ref": c["ref"]},
                "level_note": c.get("note", LEVEL_NOTE),
                "technique": c["technique"],
            })
    m = {
        "version": 1,
        "setup_cmd": "./vp setup",
        "hooks": {
            "guard": "vpncloud_verif",
            "enable": "RUSTFLAGS=\"--cfg vpncloud_verif\" cargo build --offline --manifest-path /repo/Cargo.toml --target-dir /verif/.cache/target",
            "baseline_off_cmd": baseline_cmd,
            "source_commits": [l.strip() for l in open(os.path.join(HERE, "hook_commits.txt")) if l.strip()],
            "add_only": True,
        },
        "engines": [{"name": "coq-correspondence", "path": "/verif/vp", "serves_properties": sorted(CHECKS),
                     "kind_free_text": "Coq 8.16 theorems about hand-written Gallina models (coq/theories) + differential correspondence run "
                                       "between the extracted models (ocaml/) and the real code (harness/ driver compiled into vpncloud)"}],
        "checks": checks,
        "not_applicable": [{"property_id": p, "reason": NA_REASON} for p in ALL if p not in CHECKS],
        "notes": "Known findings and fixed defects: /verif/known_findings.txt. Seeded breaking changes: /verif/seeded/.",
    }
    json.dump(m, open(os.path.join(HERE, "MANIFEST.json"), "w"), indent=1)
if __name__ == "__main__":
    main()

#!/usr/bin/env python3
"""Regenerates MANIFEST.json from the table below (kept in one place so it is always valid)."""
import json, os
HERE = os.path.dirname(os.path.dirname(os.path.abspath(__file__)))
ALL = ["C%02d" % i for i in range(1, 21)]
BASE = open("/root/.vp/BASELINE.json").read() if os.path.exists("/root/.vp/BASELINE.json") else "{}"
baseline_cmd = json.loads(BASE).get("cmd", "cd /repo && cargo test --workspace --no-fail-fast --offline")
LEVEL_NOTE = ("Trusted: Coq 8.16.1 kernel + vm_compute (no native_compute); no axioms (Print Assumptions closed) unless named; "
              "extraction via ExtrOcamlBasic only; hand-written Gallina model tied to /repo by the executed correspondence "
              "(Rust driver compiled into vpncloud under --cfg vpncloud_verif vs extracted model on the same generated cases); "
              "ideal-crypto laws are explicit premises where used. See DESIGN.md section 2.")
CHECKS = {
 "C19": dict(text="Theorems C19_* (Properties/C19.v) characterise Frame::parse and Packet::parse of the Gallina model for every byte string "
                  "(structural proofs, no bound): rejected iff too short / unsupported, otherwise exactly the addresses at the standard "
                  "header positions, 12-bit VLAN id, VLAN 0 folded, never a panic. The model is tied to the code by running both on the "
                  "same generated inputs on every run; an independent reference dissector is the failing-input oracle.",
             technique="Coq proof over a Gallina model of payload.rs + executed model/implementation correspondence", ref="5 (C19)"),
 "C03": dict(text="Theorems C03_* (Properties/C03.v): for EVERY history of deliveries and ticks (induction over the history, no length bound) the "
                  "three-register window of a key slot accepts exactly the deliveries whose counter exceeds every counter accepted before the "
                  "tick preceding the most recent tick (history-only reference), a counter dies for good two ticks after something at least as "
                  "new was accepted, newer-than-seen is always accepted; lifted to CryptoCore.decrypt / every_second / rotate_key. Tied to the "
                  "code by running real CryptoCore pairs and the extracted model on the same histories each run; the history-only reference "
                  "evaluated on the real accept/reject outcomes is the failing-input oracle. Connection and node level: PeerCrypto::every_second moves the window "
                  "of every key slot whatever handshake object and rotation do in that second (TickProofs.v); in every reachable node state the peer map "
                  "lists no address twice and one housekeeping pass ticks every peer exactly once (TickPeersProofs.v, invariant over all node steps); every core "
                  "of every reachable state is well-formed, hence one housekeeping pass moves every window of every encrypted peer connection (CoreWfProofs.v).",
             technique="Coq proof (invariant by induction over histories) + executed model/implementation correspondence", ref="5 (C03)"),
 "C11": dict(text="Theorems C11_* (Properties/C11.v): Range::matches equals the bit-by-bit prefix specification for every byte string and every "
                  "prefix 0..255 (byte-level facts by an in-kernel sweep of all 65536 byte pairs lifted with forallb_forall, the rest by induction); an "
                  "uncached lookup returns a claim in the table that matches with maximal prefix length and None iff none matches; the cached decision "
                  "expires no later than now+switch timeout and no later than its claim; the sweep and peer removal leave nothing stale. Tied to the "
                  "code by the executed correspondence on ClaimTable operation sequences; failing-input oracles: bit-by-bit matcher and a history-based "
                  "table reference. Node clauses: router mode drops and counts an unknown destination; switch/hub modes send it to every peer exactly once and a "
                  "cached or fresh decision is never for a non-peer - both for every reachable node state (FloodProofs.v, NextHopProofs.v).",
             technique="Coq proof (list induction + finite in-kernel sweep) + executed model/implementation correspondence", ref="5 (C11)"),
 "C12": dict(text="Theorems C12_* (Properties/C12.v): after set_claims the ranges attributed to the peer are exactly the announced ones with fresh expiry, "
                  "other peers' live entries untouched, cached decisions of the peer gone if anything was dropped; unrefreshed claims vanish at the "
                  "first sweep after expiry; remove_claims leaves no claim or cached/learned address for the peer - for every table state, list and "
                  "time > 0 (induction over the claim vector, including swap_remove). Tied to the code by the executed correspondence; oracle: "
                  "history-based reference after every step. Node level: every peer-removal path drops the routes in the same step (RoutesProofs.v), and in EVERY "
                  "reachable node state every claim and every cached/learned address belongs to a current peer, so no lookup ever selects a non-peer "
                  "(NextHopProofs.v: invariant RT /\\ PI preserved by every step of the node model, induction over arbitrary event sequences); processing "
                  "a connected peer's node information (NODE_INFO message or handshake payload) makes its claims exactly the announced ones (ClaimsExactProofs.v).",
             technique="Coq proof (invariant of the set_claims loop by induction) + executed model/implementation correspondence", ref="5 (C12)"),
 "C17": dict(text="Theorems C17_* (Properties/C17.v), with SHA-512 modelled bit-exact in Gallina (no hash oracle): base-62 text round trip to the "
                  "leading-zero-stripped string (canonical numerals, uniqueness), masking involution for every length incl. counter wrap, "
                  "encrypt/decrypt of the body, full peer-list round trip for every key, hour, list and admissible age limit (premise: not all of "
                  "the first six masked bytes are zero, probability 2^-48), scanner finds an embedded beacon where its two find calls hit, sanitised "
                  "text always decodes and all slices are in range (no panic site). 'Different password is ignored' is exercised, not proved. Tied to "
                  "the code by the executed correspondence (real BeaconSerializer vs extracted model incl. SHA-512).",
             technique="Coq proof (numeral-system lemmas, list induction, bit-exact SHA-512 model) + executed correspondence", ref="5 (C17)"),
 "C18": dict(text="Theorems C18_* (Properties/C18.v): every 32-byte key printed with to_base62 is parsed back to the same bytes (leading zeros "
                  "included), parsing is total and always yields 32 bytes; with PBKDF2/Ed25519 as oracle functions the password-only configuration "
                  "selects (kdf pw, pk_of (kdf pw)) trusting exactly its own key, the printed pair is accepted as private/public/trusted key, and two "
                  "password-only nodes trust each other iff the derived public keys are equal. Determinism of ring's PBKDF2/Ed25519 itself is exercised "
                  "(derive twice, two instances), not proved.",
             technique="Coq proof (base-62 canonical-numeral argument) + executed correspondence; determinism of ring by run-twice", ref="5 (C18)"),
 "C06": dict(text="Theorems C06_* (Properties/C06.v) about select_algorithm as written (own-list order, first match in the peer list, minimum of "
                  "the two speeds, maximum with id tie-break): plain iff both allow it; clean failure iff not both plain and no common cipher; "
                  "otherwise a common cipher whose slower side is fastest; both ends obtain the same result and the result is invariant under any "
                  "permutation of either list (uniqueness of the maximum under a strict total order on duplicate-free lists); an edited list "
                  "is an edited signed message and is dropped without touching the handshake; a node that does not allow plain never ends up with an "
                  "unencrypted connection or an unsealed handshake payload, in every reachable state (SealedWireProofs.v). Tied to the code by real handshakes between "
                  "PeerCrypto objects with prescribed speeds vs the extracted model (all 1024 list pairs x speed grid x both initiators).",
             technique="Coq proof (order-independence of a maximum, list induction) + executed correspondence through real handshakes", ref="5 (C06)"),
 "C07": dict(text="Theorem C07_send_key_held: for EVERY schedule (list of arbitrary length, by induction) of rotation cycles at either end, delivery "
                  "of ANY rotation message ever sent (loss, duplication, reordering, delay), window ticks and payload sealing, starting right after any "
                  "handshake, the key each end currently seals with is held by the peer under that key id with identical key material, and the "
                  "agree_ephemeral unwrap is never hit. Proved through an explicit 16-clause shape invariant (largest message id n, whether its receiver "
                  "has processed it, slot arithmetic mod 4, symmetric symbolic ECDH). Plus: duplicates ignored, lost message re-sent in the second "
                  "following cycle, progress by one key id per delivered message, cycle exactly every 120th tick. Tied to the code by real "
                  "PeerCrypto pairs run against the extracted model on exhaustive (depth 6/8) and random 100+-cycle schedules with a probe in both "
                  "directions after every step.",
             technique="Coq proof (inductive invariant over all schedules, symbolic ECDH) + executed correspondence with probes after every step", ref="5 (C07)"),

 "C01": dict(text="Theorems C01_* (Properties/C01.v): a message signed by a key outside the trusted list is rejected with the handshake object "
                  "unchanged and no reply; a handshake object completes, PeerCrypto reports Initialized, and a NODE gains a peer entry (for every "
                  "node state, source and wire value) only for the sender of a handshake message that verified under a trusted key; unverifiable "
                  "datagrams (random bytes, any flip/truncation/edit of a genuine message) leave every stage and the whole node state unchanged "
                  "with no reply, also in sequences; over WHOLE RUNS (induction over arbitrary event sequences) every peer of every reachable node state "
                  "was admitted by a handshake message from that very address that verified under a key of the configured trusted list "
                  "(AdmissionProofs.v via the reusable object-invariant principle PcInvariant.v). PARTIAL: the liveness direction of 'peers exactly when each trusts the other' is decided by "
                  "the executed correspondence over all trust relations of up to 4 key pairs; signature unforgeability is the modelling decision "
                  "WBadInit/WInit. Known finding F11 (stale-buffer parse) is reported as KNOWN-FINDING.",
             technique="Coq proof (case analysis of the handshake/PeerCrypto/node step functions) + executed correspondence at object and node level", ref="5 (C01)"),
 "C02": dict(text="Theorems C02_* (Properties/C02.v), ideal AEAD: what one end seals the other opens byte-identical whenever it holds the key under "
                  "that id, the counter fits 56 bits and the window admits it (the nonce premise proved for every such counter); unless plain every "
                  "PeerCrypto emission is a core seal of (type::body); a datagram opens iff genuine seal under slot key and reconstructed nonce; "
                  "reflected, foreign-key, bit-flipped and truncated datagrams never open, are ordinary errors and leave the core untouched; the node "
                  "writes exactly the body of a DATA message; and for EVERY reachable state of a node that does not allow plain (induction over arbitrary "
                  "event sequences, invariant NE of every node step): no unencrypted message leaves it, its node information never travels unsealed in a "
                  "handshake message, no peer connection is unencrypted (SealedWireProofs.v). PARTIAL: absence of cleartext in real cipher output is checked on the real "
                  "datagrams by the correspondence run (all ciphers, every flip/truncation, reflection, 3-node cross-injection, re-handshake superseding a connection).",
             technique="Coq proof over an ideal-AEAD model of CryptoCore/PeerCrypto + executed correspondence with the real ciphers", ref="5 (C02)"),
 "C04": dict(text="Theorem C04_no_reuse (Properties/C04.v): for EVERY history (induction, any length below 2^95-2^48) of seals, opens, ticks and "
                  "rotations to fresh keys on a CryptoCore as CryptoCore::new creates it, no (key, nonce) pair is used twice and every nonce lies in "
                  "the sender's half; halves are disjoint and the two ends of a handshake take opposite halves; increment is +1 on the big-endian "
                  "value; a rotated-in key starts a fresh sequence; a counter beyond 56 bits makes the seal unopenable instead of wrapping. "
                  "Unpredictability of the start value and freshness of ECDH output are assumptions (trusted base). Tied to the code by counters "
                  "forced near every boundary and the seal log of the real core vs the model.",
             technique="Coq proof (inductive invariant over all core histories, big-endian arithmetic) + executed correspondence incl. seal log", ref="5 (C04)"),
 "C05": dict(text="Theorem C05_lockstep_agreement (Properties/C05.v): for ALL node ids, salts, key pairs, trusted lists, cipher lists, payloads "
                  "and random values, the loss-free ping-pong-peng exchange of two mutually trusting distinct nodes ends with both completed, each "
                  "holding the other's payload, the same cipher, the same key under key id 0 and opposite nonce halves. For every sequence of "
                  "verified messages fed to an attempt (= every loss/duplication/reordering): at most one completion, completion closes the "
                  "attempt, roles, no unwrap panic; an object waiting for the peng gives up after 120 s whatever messages of other stages arrive (GiveUpProofs.v). PARTIAL: agreement for every interleaving and the liveness clause are decided by the executed "
                  "correspondence: all delivery schedules to depth 5 (quick) / 7 (thorough), random and retry-horizon schedules on real "
                  "InitState/PeerCrypto pairs, node-level total / one-way loss followed by reliable delivery, with cross-open, roles, payload, "
                  "at-most-once and reconnection oracles.",
             technique="Coq proof (symbolic execution of the three handshake steps for all parameters; induction over message sequences) + executed correspondence over delivery schedules", ref="5 (C05)"),
 "C08": dict(text="Theorems C08_* (Properties/C08.v): for every connection object at every stage and every node state (unknown / pending / "
                  "established source), an unverifiable datagram yields an ordinary error - never the Panic result - leaves peers, pending "
                  "handshakes, addresses, table and schedule unchanged and emits nothing, also for every sequence; for EVERY wire value (replays of "
                  "genuine handshake messages included) a connection object satisfying the handshake invariant never reaches the unwrap of a "
                  "consumed ECDH key, the invariant survives every non-fatal outcome, and a fatal outcome removes a pending object in the same "
                  "step; over WHOLE RUNS (induction over arbitrary event sequences, invariant QP of every node step): while everything that arrived "
                  "was well-formed (unverifiable bytes and verbatim replays of honest messages are) no datagram from any source and no housekeeping second "
                  "panics; decrypt, Ethernet and IP dissection have no panic result for any input. Tied to the code by every length 0..80 x first "
                  "byte x receiver state, bit flips at every byte position and boundary values in every length field of captured handshake datagrams, truncations, replays of other "
                  "exchanges' handshake datagrams into pending handshakes (twice each), forged high-counter datagrams, each followed by payload "
                  "probes on the established connection; run on the real node (catch_unwind, state-dump equality) and the model.",
             technique="Coq proof (case analysis, invariant preservation, induction over datagram sequences) + executed correspondence with state-dump and probe oracles", ref="5 (C08)"),
 "C09": dict(text="Theorem C09_established_peer_survives (Properties/C09.v): for every node state, every source address and EVERY wire value, each "
                  "established peer is still a peer after the datagram is handled, unless the datagram opened (genuine seal under the connection "
                  "key, admitted by the replay window - C02/C03) as a CLOSE message of that very peer. Plus: forged datagrams leave no trace; a "
                  "replayed handshake message from an established peer's address leaves peer, routes and own addresses unchanged (after F8); "
                  "reaping pending objects never touches peers or routes; replayed data dies by the window; re-delivered rotation messages change "
                  "nothing. PARTIAL: the end-to-end 'payload keeps flowing' statement is decided by the correspondence (every captured datagram "
                  "re-injected at several offsets from 3 source choices, then a 400 s probe phase on the real nodes vs the model).",
             technique="Coq proof (node step case analysis over all wire values + C03/C07 invariants) + executed correspondence with re-injection schedules", ref="5 (C09)"),
 "C10": dict(text="Theorems C10_* (Properties/C10.v) for every node state and input: an interface read causes only datagrams, each to an established "
                  "peer; a DATA message from a peer causes at most one interface write of exactly its body and no datagram (no relaying); unknown "
                  "destination in router mode is dropped and counted; unverifiable datagrams cause nothing; sealed bodies arrive byte-identical; a flood emits "
                  "exactly one datagram per peer, and in EVERY reachable node state (induction over arbitrary event sequences: no duplicate peer "
                  "addresses, every peer's connection can seal) an unknown destination in a flooding mode reaches every peer exactly once. "
                  "PARTIAL: mesh-wide exactly-once conservation is decided by the correspondence on 2-5 node meshes with a conservation oracle.",
             technique="Coq proof (case analysis of the node step function) + executed correspondence on meshes with conservation oracle", ref="5 (C10)"),
 "C13": dict(text="Theorems C13_* (Properties/C13.v): in learning mode a DATA frame from peer P with source key S (VLAN, MAC) makes P the entry for S "
                  "with the switch timeout, every other key and all claims unchanged; hub/router leave the table untouched; a learned key resolves "
                  "to its peer; housekeeping removes exactly the expired entries; a disconnecting peer takes its entries along; the key contains the "
                  "12-bit VLAN id (priority tags fold to untagged: C19). Tied to the code by node-level runs vs a per-VLAN reference switch table.",
             technique="Coq proof (table lemmas + node step case analysis) + executed correspondence with reference switch table", ref="5 (C13)"),
 "C14": dict(text="Theorems C14_* (Properties/C14.v): closure - two nodes joined by a path of k+1 connections are directly connected after k "
                  "peer-exchange rounds (induction on k, any graph); a handshake message carrying the node's own id is rejected at every stage with "
                  "no state change and no reply (after the fix of F13); addresses listed under the own id are adopted as own and not dialled; over WHOLE RUNS "
                  "every peer of every reachable state was admitted by a handshake message of another node - a node never peers with itself (SelfProofs.v) - and in every reachable state its own-address list holds every configured own address, so it never dials one (OwnAddrProofs.v). "
                  "PARTIAL: that real nodes perform the exchange step within the interval, also behind NATs, is decided by the correspondence over "
                  "all connected bootstrap graphs of 2-4 nodes, sampled 5-node graphs, NAT and self-dial scenarios.",
             technique="Coq proof (induction over exchange rounds; handshake case analysis) + executed correspondence over bootstrap graphs", ref="5 (C14)"),
 "C15": dict(text="Theorems C15_* (Properties/C15.v): for EVERY u16 peer-timeout/keepalive and every non-empty multiset of advertised timeouts the "
                  "scheduled announcement delay is at most 1 s or strictly below every advertised timeout (after the fix of F7); a peer whose timeout "
                  "passed is removed at the next housekeeping tick with all claims and learned entries, and the same tick sends a fresh stage-1 handshake message to its address unless that is an own address or a handshake with it is pending (RedialProofs.v); the reconnect back-off stays "
                  "within 1..3600 s for any number of failures; in EVERY reachable state a due announcement is emitted to every current peer exactly once, "
                  "also when a later housekeeping step fails on every tick (AnnounceProofs.v). PARTIAL: 'no healthy peer is ever timed out in a stable mesh' is decided by the "
                  "correspondence on heterogeneous meshes over the timeout grid, silence and 48 h back-off scenarios.",
             technique="Coq proof (saturating u16 arithmetic, list minimum, fold over expired peers) + executed correspondence on meshes", ref="5 (C15)"),
 "C16": dict(text="Theorems C16_* (Properties/C16.v): node information decodes to exactly what was encoded up to the format's normalisation (seven "
                  "addresses per family and entry, IPv6 first) for every well-formed value and any trailing bytes; rotation and handshake messages "
                  "round-trip (all stages, optional parts, trailing bytes); unknown parts of node information and handshake messages are skipped; "
                  "the decoders are total Gallina functions without a panic result. PARTIAL: that the REAL decoders never panic, hang or "
                  "over-allocate is decided by the correspondence on round trips, mutated encodings, declared-length boundaries of every part tag "
                  "(0..0xffff), signature-length sweep and random bytes.",
             technique="Coq proof (byte-level TLV lemmas, list induction, bit-flag sweep) + executed correspondence on arbitrary bytes", ref="5 (C16)"),
 "C20": dict(text="Theorems C20_* (Properties/C20.v) over records modelling Config/ConfigFile/Args field by field: each of the 25 scalar settings of "
                  "the effective configuration is the command-line value if given, else the file value, else the documented default; the four "
                  "switches are one-way; peers, claims, advertised addresses and trusted keys are file entries followed by command-line entries; "
                  "per-event hooks accumulate with the command line winning per event; converting to file form and merging into defaults is the "
                  "identity apart from daemonize; prefix 0..32 gives exactly that many leading one bits (/24 by default), above 32 an error, never a "
                  "panic (after the fix of F12). Tied to the code by rendering every case as YAML text and argv, parsing with serde_yaml/structopt, "
                  "merging and dumping the real Config (incl. a YAML round trip) vs the extracted model; oracle = the documented rule.",
             technique="Coq proof (record-field case analysis, fold lemmas for the hook map, 33-value sweep) + executed correspondence through the real parsers", ref="5 (C20)"),
}
NA_REASON = "check not built yet in this revision of /verif (planned, see DESIGN.md section 4); not claimed"
def main():
    checks = []
    for pid in ALL:
        if pid in CHECKS:
            c = CHECKS[pid]
            checks.append({
                "property_id": pid,
                "quick_cmd": "./vp check %s --tier quick" % pid,
                "thorough_cmd": "./vp check %s --tier thorough" % pid,
                "evidence_file": "/verif/evidence/%s.json" % pid,
                "replay_cmd_template": "./vp replay {path}",
                "engine": "coq-correspondence",
                "level_claimed": {"category": "proof", "text": c["text"], "design_ref": c["ref"]},
                "level_note": c.get("note", LEVEL_NOTE),
                "technique": c["technique"],
            })
    m = {
        "version": 1,
        "setup_cmd": "./vp setup",
        "hooks": {
            "guard": "vpncloud_verif",
            "enable": "RUSTFLAGS=\"--cfg vpncloud_verif\" cargo build --offline --manifest-path /repo/Cargo.toml --target-dir /verif/.cache/target",
            "baseline_off_cmd": baseline_cmd,
            "source_commits": [l.strip() for l in open(os.path.join(HERE, "hook_commits.txt")) if l.strip()],
            "add_only": True,
        },
        "engines": [{"name": "coq-correspondence", "path": "/verif/vp", "serves_properties": sorted(CHECKS),
                     "kind_free_text": "Coq 8.16 theorems about hand-written Gallina models (coq/theories) + differential correspondence run "
                                       "between the extracted models (ocaml/) and the real code (harness/ driver compiled into vpncloud)"}],
        "checks": checks,
        "not_applicable": [{"property_id": p, "reason": NA_REASON} for p in ALL if p not in CHECKS],
        "notes": "Known findings and fixed defects: /verif/known_findings.txt. Seeded breaking changes: /verif/seeded/.",
    }
    json.dump(m, open(os.path.join(HERE, "MANIFEST.json"), "w"), indent=1)
if __name__ == "__main__":
    main()

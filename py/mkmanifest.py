#!/usr/bin/env python3
"""Regenerates MANIFEST.json from the table below (kept in one place so it is always valid)."""
import json, os
HERE = os.path.dirname(os.path.dirname(os.path.abspath(__file__)))
ALL = ["C%02d" % i for i in range(1, 21)]
BASE = open("/root/.vp/BASELINE.json").read() if os.path.exists("/root/.vp/BASELINE.json") else "{}"
baseline_cmd = json.loads(BASE).get("cmd", "cd /repo && cargo test --workspace --no-fail-fast --offline")
LEVEL_NOTE = ("Trusted: Coq 8.16.1 kernel + vm_compute (no native_compute); no axioms (Print Assumptions closed) unless named; "
              "extraction via ExtrOcamlBasic only; hand-written Gallina model tied to /repo by the executed correspondence "
              "(Rust driver compiled into vpncloud under --cfg vpncloud_verif vs extracted model on the same generated cases); "
              "ideal-crypto laws are explicit premises where used. See DESIGN.md section 2.")
CHECKS = {
 "C19": dict(text="Theorems C19_* (Properties/C19.v) characterise Frame::parse and Packet::parse of the Gallina model for every byte string "
                  "(structural proofs, no bound): rejected iff too short / unsupported, otherwise exactly the addresses at the standard "
                  "header positions, 12-bit VLAN id, VLAN 0 folded, never a panic. The model is tied to the code by running both on the "
                  "same generated inputs on every run; an independent reference dissector is the failing-input oracle.",
             technique="Coq proof over a Gallina model of payload.rs + executed model/implementation correspondence", ref="4 (C19)"),
 "C03": dict(text="Theorems C03_* (Properties/C03.v): for EVERY history of deliveries and ticks (induction over the history, no length bound) the "
                  "three-register window of a key slot accepts exactly the deliveries whose counter exceeds every counter accepted before the "
                  "tick preceding the most recent tick (history-only reference), a counter dies for good two ticks after something at least as "
                  "new was accepted, newer-than-seen is always accepted; lifted to CryptoCore.decrypt / every_second / rotate_key. Tied to the "
                  "code by running real CryptoCore pairs and the extracted model on the same histories each run; the history-only reference "
                  "evaluated on the real accept/reject outcomes is the failing-input oracle. Node-level housekeeping tick is covered by the C08/C10 node model.",
             technique="Coq proof (invariant by induction over histories) + executed model/implementation correspondence", ref="4 (C03)"),
}
NA_REASON = "check not built yet in this revision of /verif (planned, see DESIGN.md section 4); not claimed"
def main():
    checks = []
    for pid in ALL:
        if pid in CHECKS:
            c = CHECKS[pid]
            checks.append({
                "property_id": pid,
                "quick_cmd": "./vp check %s --tier quick" % pid,
                "thorough_cmd": "./vp check %s --tier thorough" % pid,
                "evidence_file": "/verif/evidence/%s.json" % pid,
                "replay_cmd_template": "./vp replay {path}",
                "engine": "coq-correspondence",
                "level_claimed": {"category": "proof", "text": c["text"], "design_ref": c["ref"]},
                "level_note": c.get("note", LEVEL_NOTE),
                "technique": c["technique"],
            })
    m = {
        "version": 1,
        "setup_cmd": "./vp setup",
        "hooks": {
            "guard": "vpncloud_verif",
            "enable": "RUSTFLAGS=\"--cfg vpncloud_verif\" cargo build --offline --manifest-path /repo/Cargo.toml --target-dir /verif/.cache/target",
            "baseline_off_cmd": baseline_cmd,
            "source_commits": [l.strip() for l in open(os.path.join(HERE, "hook_commits.txt")) if l.strip()],
            "add_only": True,
        },
        "engines": [{"name": "coq-correspondence", "path": "/verif/vp", "serves_properties": sorted(CHECKS),
                     "kind_free_text": "Coq 8.16 theorems about hand-written Gallina models (coq/theories) + differential correspondence run "
                                       "between the extracted models (ocaml/) and the real code (harness/ driver compiled into vpncloud)"}],
        "checks": checks,
        "not_applicable": [{"property_id": p, "reason": NA_REASON} for p in ALL if p not in CHECKS],
        "notes": "Known findings and fixed defects: /verif/known_findings.txt. Seeded breaking changes: /verif/seeded/.",
    }
    json.dump(m, open(os.path.join(HERE, "MANIFEST.json"), "w"), indent=1)
if __name__ == "__main__":
    main()

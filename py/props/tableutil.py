"""generators and an independent history-based reference for ClaimTable scenarios"""
RANGES = ["0a000000/8", "0a010000/16", "0a010200/24", "0a010203/32", "0a020000/16", "00000000/0",
          "0a010000/40", "0a0102/24", "c0a80000000000000000000000000001/128", "fe80/10"]
ADDRS = ["0a010203", "0a010204", "0a010300", "0a020304", "0b000000", "0a0102", "c0a80000000000000000000000000001", "fe81",
         "0a01020304"]
PEERS = [1, 2, 3]


def bits(b):
    return "".join("{:08b}".format(x) for x in b)


def ref_matches(base, prefix, addr):
    """bit-by-bit reference of Range::matches"""
    if len(base) != len(addr):
        return False
    if prefix > 8 * len(addr):
        return False
    return bits(base)[:prefix] == bits(addr)[:prefix]


def parse_range(r):
    b, p = r.split("/")
    return bytes.fromhex(b), int(p)


def rand_ops(rng, n, cache_to, claim_to, learning=True):
    ops = []
    now = 1
    ops.append("T.%d" % now)
    for _ in range(n):
        r = rng.random()
        if r < 0.22:
            k = rng.choice([0, 1, 1, 2, 2, 3, 4])
            rs = [rng.choice(RANGES[:6]) if rng.random() < 0.85 else rng.choice(RANGES) for _ in range(k)]
            ops.append("S.%d.%s" % (rng.choice(PEERS), ";".join(rs) if rs else "-"))
        elif r < 0.30:
            ops.append("R.%d" % rng.choice(PEERS))
        elif r < 0.62:
            ops.append("L.%s" % rng.choice(ADDRS))
        elif r < 0.70 and learning:
            ops.append("C.%s.%d" % (rng.choice(ADDRS), rng.choice(PEERS)))
        elif r < 0.86:
            now += max(0, rng.choice([0, 1, 1, 2, cache_to - 1, cache_to, cache_to + 1, claim_to - 1, claim_to, claim_to + 1]))
            ops.append("T.%d" % now)
        elif r < 0.93:
            ops.append("H")
        else:
            ops.append("D")
    ops.append("D")
    return ops


class RefTable:
    """What the property text says, written from the history: who announced what when, what was
    decided when, what has been withdrawn / disconnected / timed out.  Sweeps happen on set / remove /
    housekeep as in the code (in a node: every housekeeping tick); an entry past its expiry may be used
    until the first sweep after the expiry - that granularity is part of C11's statement (DESIGN.md)."""

    def __init__(self, cache_to, claim_to):
        self.cache_to, self.claim_to = cache_to, claim_to
        self.now = 0
        self.claims = []     # [peer, (base, prefix), expiry]
        self.decisions = {}  # addr -> list of [peer, expiry, alive]

    def sweep(self):
        self.claims = [c for c in self.claims if c[2] >= self.now]
        for ds in self.decisions.values():
            for d in ds:
                if d[1] < self.now:
                    d[2] = False

    def kill_decisions(self, peer):
        if self.now <= 0:
            return
        for ds in self.decisions.values():
            for d in ds:
                if d[0] == peer:
                    d[2] = False

    def lpm(self, addr):
        best = -1
        res = []
        for peer, (b, p), exp in self.claims:
            if ref_matches(b, p, addr):
                if p > best:
                    best, res = p, [(peer, exp)]
                elif p == best:
                    res.append((peer, exp))
        return res


def ref_check(line, impl_out):
    """-> None or text; checks lookups (C11) and dumps (C12) of one table scenario line"""
    toks = line.split()
    cache_to, claim_to = int(toks[1]), int(toks[2])
    ops = toks[3:]
    outs = impl_out.split()
    if len(outs) != len(ops):
        return "driver returned %d results for %d operations: %s" % (len(outs), len(ops), impl_out[:80])
    T = RefTable(cache_to, claim_to)
    connected = {}   # peer -> False after a disconnect until it announces / is learned from again
    for idx, (o, r) in enumerate(zip(ops, outs)):
        p = o.split(".")
        if r.startswith("panic"):
            return "panic in step %d (%s)" % (idx, o)
        if p[0] == "T":
            T.now = int(p[1])
        elif p[0] == "S":
            peer = int(p[1])
            new = [parse_range(x) for x in p[2].split(";")] if p[2] != "-" else []
            dropped = False
            keep = []
            for c in T.claims:
                if c[0] != peer:
                    keep.append(c)
                elif c[1] in new:
                    c[2] = T.now + claim_to
                    keep.append(c)
                else:
                    dropped = True
            if T.now > 0:
                T.claims = keep
            have = [c[1] for c in T.claims if c[0] == peer]
            for rg in new:
                if rg not in have:
                    T.claims.append([peer, rg, T.now + claim_to])
                    have.append(rg)
            if dropped:
                T.kill_decisions(peer)
            connected[peer] = True
            T.sweep()
        elif p[0] == "R":
            peer = int(p[1])
            if T.now > 0:
                T.claims = [c for c in T.claims if c[0] != peer]
            T.kill_decisions(peer)
            connected[peer] = False
            T.sweep()
        elif p[0] == "H":
            T.sweep()
        elif p[0] == "C":
            a = bytes.fromhex(p[1])
            for d in T.decisions.get(a, []):
                d[2] = False
            T.decisions.setdefault(a, []).append([int(p[2]), T.now + cache_to, True])
            connected[int(p[2])] = True
        elif p[0] == "L":
            a = bytes.fromhex(p[1])
            lp = T.lpm(a)
            live = [d for d in T.decisions.get(a, []) if d[2]]
            if r == "none":
                if lp:
                    return "step %d: lookup of %s found nothing although live claims of peers %s contain it" % (idx, p[1], sorted(x[0] for x in lp))
            else:
                got = int(r[1:])
                if any(d[0] == got for d in live):
                    pass
                elif any(pe == got for pe, _ in lp):
                    exp = max(e for pe, e in lp if pe == got)
                    T.decisions.setdefault(a, []).append([got, min(T.now + cache_to, exp), True])
                else:
                    return ("step %d: lookup of %s returned peer %d: not the most specific live claim (peers %s) and no cached decision "
                            "that may still be reused (switch timeout / claim life / peer life)") % (idx, p[1], got, sorted(x[0] for x in lp))
        elif p[0] == "D":
            if T.now <= 0:
                continue
            m = r.split(";")
            cl = m[0][len("claims=["):-1]
            per = {}
            for ent in [x for x in cl.split(",") if x]:
                pe, rest = ent.split(":")
                rg, to = rest.split("@")
                per.setdefault(int(pe), set()).add(parse_range(rg))
            for pe in PEERS:
                want = set(c[1] for c in T.claims if c[0] == pe)
                if per.get(pe, set()) != want:
                    return "step %d: claims attributed to peer %d are %s, expected from the announcement history %s" % (
                        idx, pe, sorted(per.get(pe, set())), sorted(want))
            ca = m[1][len("cache=["):-1]
            for ent in [x for x in ca.split(",") if x]:
                a, rest = ent.split(">")
                pe, to = rest.split("@")
                pe, to = int(pe), int(to)
                if connected.get(pe) is False:
                    return "step %d: cache entry %s still points at disconnected peer %d" % (idx, a, pe)
    return None

"""helpers for `node` scenario lines (mock nodes + harness network) incl. the two-phase salt oracle"""
import re

ALG = "-|1:44160000,3:43c80000"


def node_tok(i, mode="tun-router", pt=300, ka="-", st=300, claims=None, key=1, trusted=(1,), algos=ALG, nat=False, hkf=False, adv=None):
    """adv: the node advertises that other address as one of its own (advertise_addresses);
    hkf: the node has a lasting local fault in a late housekeeping step (a beacon file it cannot read): housekeep returns early there"""
    return "N.%d.%s.%d.%s.%d.%s.%d.%s.%s%s" % (i, mode, pt, ka, st, ";".join(claims) if claims else "-", key,
                                                 "+".join(str(t) for t in trusted) if trusted else "-", algos, ".nat" if nat else (".hkf" if hkf else (".adv%s" % "+".join(str(a) for a in (adv if isinstance(adv, (list, tuple)) else [adv])) if adv else "")))


def strip_hkerr(line, out):
    """the housekeeping of a node declared with the fault flag reports its error on every tick (`hkerr,` prefix of the harness); that is the
    configured fault, not an event: drop the prefix for exactly those nodes (an error on any other node stays visible)"""
    if ".hkf" not in line:
        return out
    ops, outs = line.split()[1:], out.split()
    if len(ops) != len(outs):
        return out
    faulty = set(t.split(".")[1] for t in ops if t.startswith("N.") and t.endswith(".hkf"))
    return " ".join((r[6:] if (o.startswith("H.") and o[2:] in faulty and r.startswith("hkerr,")) else r) for o, r in zip(ops, outs))


def emissions(tok):
    """'2:I1.abcd,3:D45' -> [(2,'I1.abcd'),(3,'D45')]"""
    if tok.startswith("zc~"):      # harness marker of a zero-completed truncation (see model_line)
        tok = tok[3:]
    if tok in ("-", "nodg", "") or tok.startswith(("w", "peers=", "panic", "hkerr")) and not tok.startswith("hkerr,"):
        return []
    if tok.startswith("hkerr,"):
        tok = tok[6:]
    out = []
    for e in tok.split(","):
        if ":" in e:
            d, k = e.split(":", 1)
            if d.isdigit():
                out.append((int(d), k))
    return out


def model_line(line, impl_out):
    """annotate every op with the salts of the init datagrams the real run emitted in that op"""
    ops = line.split()[1:]
    outs = impl_out.split()
    if len(ops) != len(outs):
        return line
    sent = []   # (src node, dst)
    res = []
    for o, r in zip(ops, outs):
        p = o.split(".")
        pairs = []     # (node, dst, salt)
        if p[0] == "Y":
            # forged under a guessable key: for the model a datagram that is not a genuine seal under any key the node holds;
            # only its key id byte and its length matter (8 header bytes + plaintext + 16 tag bytes)
            plen = 0 if p[7] == "-" else len(p[7]) // 2
            o = "W.%s.%s.%02x%s" % (p[1], p[2], int(p[4]), "00" * (7 + plen + 16))
            p = o.split(".")
        if p[0] == "U" and r.startswith("zc~"):
            # the real run says: this truncation removed only zero bytes of a genuine handshake datagram, so the handshake
            # parser saw the complete message (finding F11): for the model that is the verbatim injection of datagram k
            r = r[3:]
            o = "J.%s.%s.%s.zc" % (p[1], p[2], p[3])     # the trailing field makes the model side echo the "zc~" marker
            p = o.split(".")
        if p[0] == "I":
            # a length field of a captured handshake datagram overwritten: for the model any change inside a handshake datagram
            # (PcSys.wire_flip: WInit -> WBadInit); "nodg" (no such datagram / part / change) is an injection of nothing
            o = ("J.30000.%s.%s" % (p[2], p[3])) if r == "nodg" else ("F.%s.%s.%s.0.0" % (p[1], p[2], p[3]))
            p = o.split(".")
        if p[0] == "A":
            m = re.match(r"a\d+\[(.*)\]$", r)
            inner = m.group(1).split("|") if m and m.group(1) else []
            for st in inner:
                mm = re.match(r"n(\d+)>(.*)$", st)
                if not mm:
                    continue
                node = int(mm.group(1))
                for d, k in emissions(mm.group(2)):
                    sent.append((node, d))
                    if k.startswith("I") and "." in k:
                        pairs.append((node, d, k.split(".")[1]))
        else:
            node = None
            if p[0] in ("C", "H", "P", "V", "E"):
                node = int(p[1])
            elif p[0] == "D":
                k = int(p[1])
                node = sent[k][1] if k < len(sent) else None
            elif p[0] in ("J", "F", "U"):
                node = int(p[2])
            elif p[0] in ("W", "L", "B"):
                node = int(p[1])
            if node is not None:
                for d, k in emissions(r):
                    sent.append((node, d))
                    if k.startswith("I") and "." in k:
                        pairs.append((node, d, k.split(".")[1]))
        if pairs:
            res.append(o + "@" + ";".join("%d>%d=%s" % x for x in pairs))
        else:
            res.append(o)
    return "node " + " ".join(res)


def canon_impl(out):
    out = re.sub(r"n\d+>", "", out)
    return re.sub(r"(^| )g[0-9a-f-]+", r"\1g", out)


def parse_dump(tok):
    """peers=[..];pend=[..];own=[..];claims=[..];cache=[..];np=..;no=..;drop=..;inv=.. -> dict"""
    d = {}
    for part in tok.split(";"):
        k, v = part.split("=", 1)
        d[k] = v
    d["peers_l"] = [x.split(":") for x in d["peers"][1:-1].split(",") if x]
    d["pend_l"] = [x.split(":") for x in d["pend"][1:-1].split(",") if x]
    d["claims_l"] = [x for x in d["claims"][1:-1].split(",") if x]
    d["cache_l"] = [x for x in d["cache"][1:-1].split(",") if x]
    return d


# ---- scenario building ------------------------------------------------------------------------
def ipv4_packet(src, dst, extra=b""):
    tl = 20 + len(extra)
    return (bytes([0x45, 0, (tl >> 8) & 0xff, tl & 0xff, 0, 0, 0, 0, 64, 17, 0, 0]) + src + dst + extra).hex()


def eth_frame(dst, src, vlan=None, extra=b"\x08\x00abcd"):
    tag = b"" if vlan is None else b"\x81\x00" + bytes([(vlan >> 8) & 0xff, vlan & 0xff])
    return (dst + src + tag + extra).hex()


def mac(i):
    return bytes([2, 0, 0, 0, 0, i])


def node_ip(i, h=1):
    return bytes([10, 0, i, h])


class Scenario:
    """builds a `node` line; keeps just enough bookkeeping to reference nodes"""

    def __init__(self):
        self.ops = []
        self.nodes = []
        self.t = 1

    def add(self, *toks):
        self.ops.extend(toks)
        return self

    def node(self, i, **kw):
        self.nodes.append(i)
        self.ops.append(node_tok(i, **kw))
        return self

    def tick(self, dt=1, settle=True):
        """advance the clock second by second, housekeeping every node, delivering everything"""
        for _ in range(dt):
            self.t += 1
            self.ops.append("T.%d" % self.t)
            for i in self.nodes:
                self.ops.append("H.%d" % i)
            if settle:
                self.ops.append("A")
        return self

    def jump(self, dt):
        self.t += dt
        self.ops.append("T.%d" % self.t)
        return self

    def line(self):
        return "node " + " ".join(self.ops)


def mesh(rng, n, mode="tun-router", full=True, gateway=None, **kw):
    """n connected nodes in the given mode, handshakes completed; `gateway`: node that also claims the default route"""
    s = Scenario()
    for i in range(1, n + 1):
        claims = ["%s/24" % bytes([10, 0, i, 0]).hex()] if mode.startswith("tun") else None
        if claims and gateway == i:
            claims.append("00000000/0")
        s.node(i, mode=mode, claims=claims, **kw)
    for i in range(2, n + 1):
        s.add("C.%d.%d" % (i, rng.randrange(1, i) if not full else 1), "A")
    s.tick(2)
    return s

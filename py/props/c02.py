"""C02 - payload travels sealed: confidential, tamper-evident, delivered byte-identical"""
import re
from check import Property
from props import nodeutil as nu
from props import coreutil as cu


def rb(rng, n):
    return bytes(rng.getrandbits(8) for _ in range(n))


class C02(Property):
    id = "C02"
    rule = ("CryptoCore pairs for all three ciphers: payload lengths 0..300 (every length in the thorough tier, stratified in quick) and "
            "sampled to 9000, sealed, delivered (byte-identical), then every bit position of the datagram flipped (thorough: all; quick: "
            "all of header+tag region, sampled in the body) and every truncation length, reflected back to the sender; 3-node meshes: "
            "every sealed datagram injected at every other node under every claimed source (cross-connection), payload frames of many "
            "lengths delivered end to end, wire capture searched for 8-byte windows of payloads and for the claim bytes; "
            "non-trivial = distinct case in which at least one datagram opens and at least one altered copy is refused")
    assumptions = ["ideal AEAD (Core.v): secrecy proper (IND-CPA) of ring's ciphers is assumed, the wire capture is searched as a test"]

    def gen(self, rng, tier):
        thorough = tier == "thorough"
        out = []
        lens = list(range(0, 301)) if thorough else sorted(set(list(range(0, 40)) + [63, 64, 65, 100, 255, 256, 300] + [rng.randrange(301) for _ in range(20)]))
        lens += [1000, 1400, 9000] if not thorough else [500, 1000, 1400, 1500, 4000, 8999, 9000]
        for alg in cu.ALGS:
            for n in lens:
                if n > 300 and alg != "chacha" and not thorough:
                    continue
                p = rb(rng, n)
                toks = ["s.a.%s" % (p.hex() or "-"), "d.b.0", "d.a.0"]     # deliver, reflect to the sender
                total = n + 24
                if thorough and n <= 64:
                    poss = range(total)
                else:
                    poss = sorted(set(list(range(0, 8)) + list(range(max(8, total - 16), total)) + [rng.randrange(total) for _ in range(6)]))
                for pos in poss:
                    for bit in (range(8) if (thorough or pos == 0) else [rng.randrange(8)]):
                        toks.append("f.b.0.%d.%d" % (pos, bit))
                for ln in (range(0, total) if (thorough and n <= 64) else sorted(set([0, 1, 7, 8, 23, 24, 25, total - 1, total - 16, total - 17] + [rng.randrange(total) for _ in range(4)]))):
                    if 0 <= ln < total:
                        toks.append("t.b.0.%d" % ln)
                toks.append("p.b")
                out.append(cu.header(rng, alg) + " " + " ".join(toks))
        # node level: 3-node mesh, cross-connection injection and wire capture
        for _ in range(60 if thorough else 12):
            mode = rng.choice(["tun-router", "tap-switch"])
            s = nu.Scenario()
            for i in (1, 2, 3):
                s.node(i, mode=mode, claims=(["%s/24" % bytes([10, 0, i, 0]).hex()] if mode.startswith("tun") else None),
                       algos=rng.choice([nu.ALG, "-|3:43c80000", "-|2:43fa0000,1:3f800000"]))
            s.add("C.2.1", "A", "C.3.1", "A")
            s.tick(3)
            marks = []
            for _ in range(rng.choice([3, 6])):
                i, j = rng.sample([1, 2, 3], 2)
                body = rb(rng, rng.choice([0, 1, 8, 16, 100, 300, 1400, 9000]))
                marks.append(body)
                if mode.startswith("tun"):
                    f = nu.ipv4_packet(nu.node_ip(i), nu.node_ip(j), body)
                else:
                    f = nu.eth_frame(nu.mac(j), nu.mac(i), None, b"\x08\x00" + body)
                s.add("P.%d.%s" % (i, f), "A", "O.1", "O.2", "O.3")
            # every datagram captured so far, injected everywhere with every claimed source
            ncap = 40
            for k in range(ncap):
                for dst in (1, 2, 3):
                    for src in (1, 2, 3, 77):
                        if rng.random() < (1.0 if thorough else 0.12):
                            s.add("J.%d.%d.%d" % (k, dst, src), "O.%d" % dst)
            for k in range(ncap):
                s.add("G.%d" % k)
            s.add("S.1")
            out.append(s.line())
        # a RE-HANDSHAKE from an address still held as a peer (one-sided time-out: node 2, timeout 300 s, keeps its entries while nodes 1
        # and 3, timeout 20 s, drop the silent node 2 and dial again once it is back; the first connection is older than the 60 s its
        # handshake object lingers): afterwards payload flows both ways under the NEW connection, byte-identical, and whatever was
        # captured under the superseded connection is delivered nowhere
        for _ in range(10 if thorough else 2):
            s = nu.Scenario()
            al = rng.choice([nu.ALG, "-|3:43c80000", "-|2:43fa0000,1:3f800000"])
            for i in (1, 2, 3):
                s.node(i, mode="tun-router", pt=(300 if i == 2 else 20), claims=["%s/24" % bytes([10, 0, i, 0]).hex()], algos=al)
            s.add("C.2.1", "A", "C.3.1", "A", "C.3.2", "A")
            s.tick(62)
            def payload(i, j):
                f = nu.ipv4_packet(nu.node_ip(i), nu.node_ip(j), rb(rng, rng.choice([1, 8, 16, 100, 300, 1400])))
                s.add("P.%d.%s" % (i, f), "A", "O.1", "O.2", "O.3")
            for i, j in ((1, 2), (2, 1), (3, 2), (2, 3)):
                payload(i, j)
            s.add("M.2.1")
            s.tick(rng.randrange(23, 30))
            s.add("M.2.0")
            s.tick(rng.randrange(4, 8))
            s.add("X.9988")
            pairs = [(1, 2), (2, 1), (3, 2), (2, 3), (1, 3)]
            rng.shuffle(pairs)
            for i, j in pairs:
                payload(i, j)
            for k in range(40):
                for dst in (1, 2, 3):
                    for src in (1, 2, 3):
                        if rng.random() < (1.0 if thorough else 0.15):
                            s.add("J.%d.%d.%d" % (k, dst, src), "O.%d" % dst)
            for i, j in pairs[:2]:
                payload(i, j)
            s.add("S.1")
            out.append(s.line())
        # handshakes that cannot agree on a cipher while only ONE side allows "plain": whatever is sent, the routing information in the
        # handshake payload (claims) must not travel in clear text.  Both dial directions, disjoint and empty cipher lists.
        A128, A256, CHA = "1:44160000", "2:43fa0000", "3:43c80000"
        pairs = [("p|" + A128, "-|" + A256), ("p|" + A128 + "," + CHA, "-|" + A256), ("p|-", "-|" + A256), ("-|" + A128, "-|" + A256),
                 ("p|" + A128, "p|" + A256), ("p|-", "p|-")]
        for a1, a2 in pairs:
            for flip in (False, True):
                for dial in ("12", "21", "both"):
                    s = nu.Scenario()
                    x, y = (a2, a1) if flip else (a1, a2)
                    s.node(1, mode="tun-router", claims=["0a000100/24", "c0a80100/24"], algos=x)
                    s.node(2, mode="tun-router", claims=["0a000200/24", "c0a80200/24"], algos=y)
                    if dial in ("12", "both"):
                        s.add("C.1.2")
                    if dial in ("21", "both"):
                        s.add("C.2.1")
                    s.add("A")
                    s.tick(4)
                    for k in range(24):
                        s.add("G.%d" % k)
                    s.add("S.1", "S.2")
                    out.append(s.line())
        # datagrams no holder of a connection key made: sealed under guessable keys (all key bytes equal) for every cipher, key id
        # byte and nonce half - a connection must not hold any key an outsider can guess, in any of its four key slots
        from props import c09
        out += c09.forged_lines(rng, thorough)
        return out

    def model_line(self, line, impl_out):
        if not line.startswith("node "):
            return line
        # the captured bytes (G ops) are real-run values the symbolic model cannot produce; they are handed over and echoed so that
        # the wire scan of the oracle sees them in the compared output
        ml = nu.model_line(line, impl_out).split()
        outs = impl_out.split()
        if len(ml) - 1 == len(outs):
            ml = [ml[0]] + [("%s.%s" % (o, r[1:]) if o.startswith("G.") and r.startswith("g") and len(r) > 1 else o) for o, r in zip(ml[1:], outs)]
        return " ".join(ml)

    def canon_impl(self, line, out):
        if not line.startswith("node "):
            return out
        import re
        return re.sub(r"n\d+>", "", out)           # (captures are kept: the oracle scans them)

    def nontrivial(self, line, impl_out):
        t = impl_out.split()
        if line.startswith("core"):
            return any(x.startswith("ok:") for x in t) and "err" in t
        return any(x.startswith("w") and x != "w-" for x in t)

    def tag(self, line, impl_out):
        if line.startswith("core"):
            n = len(line.split()[5].split(".")[2]) // 2 if line.split()[5].split(".")[2] != "-" else 0
            return "core:%s:len%s" % (line.split()[1], "0" if n == 0 else ("<=64" if n <= 64 else ("<=300" if n <= 300 else "big")))
        return "mesh:" + line.split()[1].split(".")[2]

    def oracle(self, line, impl_out):
        ops = line.split()
        outs = impl_out.split()
        if "panic" in outs or any(x.startswith("panic") for x in outs):
            return "panic"
        if line.startswith("core"):
            ops = ops[5:]
            if len(ops) != len(outs):
                return "driver returned %d results for %d ops" % (len(outs), len(ops))
            payload = ops[0].split(".")[2]
            if outs[1] != "ok:" + payload:
                return "sealed payload not delivered byte-identical: %s" % outs[1][:40]
            if outs[2] != "err":
                return "datagram reflected back to its own sender was accepted"
            for o, r in zip(ops[3:], outs[3:]):
                if o[0] in "ft" and r != "err":
                    return "altered / truncated datagram (%s) was not dropped: %s" % (o, r[:40])
            return None
        ops = ops[1:]
        if len(ops) != len(outs):
            return "driver returned %d results for %d ops" % (len(outs), len(ops))
        if any(o.startswith("Y.") for o in ops):
            # forged datagrams: none may reach an interface; the genuine traffic afterwards still does
            forged = False
            for i, (o, r) in enumerate(zip(ops, outs)):
                if o.startswith("Y."):
                    forged = True
                elif o.startswith("O.") and forged:
                    if r != "w-":
                        return ("a datagram sealed by an outsider under a guessable key (all key bytes equal) was opened and its payload written "
                                "to the interface of node %s: %s") % (o[2:], r[:50])
                    forged = False
                elif o.startswith("P."):
                    if o.split(".")[2] not in outs[i + 2]:
                        return "genuine payload no longer delivered after the forged datagrams"
            return None
        frames = []
        delivered_ok = {}
        i = 0
        # end-to-end delivery of the frames read from interfaces
        while i < len(ops):
            o = ops[i]
            if o.startswith("P."):
                frame = o.split(".")[2]
                frames.append(frame)
                ws = [outs[i + 2], outs[i + 3], outs[i + 4]]
                got = [w[1:].split(",") for w in ws if w != "w-"]
                sent = nu.emissions(outs[i])
                if len(got) != len(sent) or any(g != [frame] for g in got):
                    return "frame read at node %s: %d datagram(s) sent but interfaces received %s" % (o.split(".")[1], len(sent), [w[:30] for w in ws])
                i += 5
                continue
            if o.startswith("J."):
                # verbatim re-injection: the original receiver may accept an in-window duplicate from the original source (C03);
                # everybody else, and every other claimed source, must deliver nothing
                k, dst, src = [int(x) for x in o.split(".")[1:4]]
                w = outs[i + 1]
                if w != "w-":
                    key = (k, dst, src)
                    delivered_ok.setdefault(k, []).append((dst, src, w))
                i += 2
                continue
            i += 1
        # who sent datagram k to whom: reconstruct
        sent_meta = []
        nbefore = None
        for o, r in zip(ops, outs):
            if o == "X.9988":
                nbefore = len(sent_meta)
            rr = re.sub(r"n(\d+)>", r"n\1>", r)
            m = re.match(r"a\d+\[(.*)\]$", rr)
            if o == "A" and m:
                for part in (m.group(1).split("|") if m.group(1) else []):
                    mm = re.match(r"n(\d+)>(.*)$", part)
                    node = int(mm.group(1)) if mm else None
                    for d, kd in nu.emissions(mm.group(2) if mm else part):
                        sent_meta.append((node, d))
            elif o[0] in "CHP":
                node = int(o.split(".")[1])
                for d, kd in nu.emissions(r):
                    sent_meta.append((node, d))
            elif o[0] in "JD":
                pass
        # reflection: a datagram injected at the very node that sent it - whatever source address is claimed - is dropped without an
        # answer (a node never answers, let alone completes, a handshake with itself)
        for i, (o, r) in enumerate(zip(ops, outs)):
            if o.startswith("J."):
                k, dst, src = [int(x) for x in o.split(".")[1:4]]
                if k < len(sent_meta) and sent_meta[k][0] == dst and nu.emissions(r):
                    return ("datagram %d, sent by node %d itself, was answered (%s) when reflected back to node %d with claimed source %d"
                            % (k, dst, r[:40], dst, src))
        for k, lst in delivered_ok.items():
            if k >= len(sent_meta):
                continue
            osrc, odst = sent_meta[k]
            if nbefore is not None and k < nbefore and 2 in (osrc, odst):
                return ("datagram %d (sealed by node %s for node %s under a connection that a later handshake superseded) was still delivered "
                        "to an interface after the re-handshake") % (k, osrc, odst)
            for dst, src, w in lst:
                if not (dst == odst and src == osrc):
                    return ("datagram %d (sealed by node %s for node %s) was delivered to the interface of node %d when injected with claimed "
                            "source %d") % (k, osrc, odst, dst, src)
        # wire capture: no 8-byte window of any payload in any datagram
        caps = [r[1:] for o, r in zip(ops, outs) if o.startswith("G.") and r.startswith("g") and len(r) > 1]
        # ... and no node's encoded claims (routing information), unless every node of the scenario allows "plain"
        ntoks = [t.split(".") for t in ops if t.startswith("N.")]
        if ntoks and not all(t[9].startswith("p|") for t in ntoks):
            for t in ntoks:
                for cl in ([] if t[6] == "-" else t[6].split(";")):
                    base, plen = cl.split("/")
                    needle = "%02x%s%02x" % (len(base) // 2, base, int(plen))
                    for c in caps:
                        if needle in c:
                            return ("the claim %s of node %s travels in clear text (datagram %s...) although not both ends enabled 'plain'"
                                    % (cl, t[1], c[:24]))
        for f in frames:
            fb = bytes.fromhex(f) if f != "-" else b""
            body = fb[20:] if len(fb) > 28 else b""
            for off in range(0, max(0, len(body) - 8), 8):
                win = body[off:off + 8].hex()
                for c in caps:
                    if win in c:
                        return "cleartext payload bytes %s appear on the wire" % win
        return None


PROP = C02()

"""C16 - wire codecs round-trip, skip unknown parts, and are total"""
import re
from check import Property


def rb(rng, n):
    return bytes(rng.getrandbits(8) for _ in range(n))


def rand_addr(rng):
    return rb(rng, 6) if rng.random() < 0.6 else rb(rng, 18)


def addrs_s(l):
    return ",".join(a.hex() for a in l) if l else "-"


def gen_ni(rng, big=False):
    node = rb(rng, 16)
    npeers = rng.choice([0, 1, 2, 5, 20]) if big else rng.choice([0, 0, 1, 2, 3])
    peers = []
    for _ in range(npeers):
        pid = rb(rng, 16).hex() if rng.random() < 0.8 else "-"
        na = rng.choice([0, 1, 2, 7, 8, 9, 12]) if rng.random() < 0.3 else rng.choice([0, 1, 2])
        peers.append("%s:%s" % (pid, addrs_s([rand_addr(rng) for _ in range(na)])))
    claims = []
    for _ in range(rng.choice([0, 1, 2, 4])):
        ln = rng.choice([0, 1, 4, 6, 8, 16, rng.randrange(0, 17)])
        claims.append("%s/%d" % (rb(rng, ln).hex() or "-", rng.randrange(256)))
    to = str(rng.choice([0, 1, 300, 65535, rng.randrange(65536)])) if rng.random() < 0.8 else "-"
    addrs = addrs_s([rand_addr(rng) for _ in range(rng.choice([0, 1, 2, 3, 7, 9, 15]))])
    return "node=%s;peers=%s;claims=%s;to=%s;addrs=%s" % (node.hex(), "/".join(peers) if peers else "-", ",".join(claims) if claims else "-", to, addrs)


def norm_addrs(s):
    if s == "-":
        return "-"
    l = s.split(",")
    v6 = [a for a in l if len(a) == 36][:7]
    v4 = [a for a in l if len(a) == 12][:7]
    return ",".join(v6 + v4) if (v6 + v4) else "-"


def normalise(spec):
    f = dict(p.split("=", 1) for p in spec.split(";"))
    if f["peers"] != "-":
        ps = []
        for p in f["peers"].split("/"):
            pid, a = p.split(":")
            ps.append("%s:%s" % (pid, norm_addrs(a)))
        f["peers"] = "/".join(ps)
    f["addrs"] = norm_addrs(f["addrs"])
    return "node=%s;peers=%s;claims=%s;to=%s;addrs=%s" % (f["node"], f["peers"], f["claims"], f["to"], f["addrs"])


def tlv(tag, body):
    return bytes([tag, len(body) >> 8, len(body) & 0xff]) + body


def gen_init_body(rng, kind=None, unknown=True):
    """-> (body bytes incl. END, description of expected fields)"""
    kind = kind or rng.choice(["ping", "pong", "peng"])
    h = rb(rng, 20)
    e = rb(rng, rng.choice([32, 32, 32, 0, 1, 31, 33, 96]))
    nal = rng.randrange(0, 5)
    al = b""
    for _ in range(nal):
        al += bytes([rng.choice([0, 1, 2, 3, 4, 9, 255])]) + rb(rng, 4)
    al += rb(rng, rng.choice([0, 0, 0, 1, 4]))      # trailing len % 5 bytes
    pl = rb(rng, rng.choice([0, 1, 24, 60, 300]))
    parts = [tlv(1, bytes([{"ping": 1, "pong": 2, "peng": 3}[kind]])), tlv(2, h)]
    if kind in ("ping", "pong"):
        parts += [tlv(3, e), tlv(4, al)]
    if kind in ("pong", "peng"):
        parts += [tlv(5, pl)]
    if unknown:
        for _ in range(rng.choice([0, 0, 1, 2])):
            parts.insert(rng.randrange(0, len(parts) + 1), tlv(rng.choice([6, 7, 100, 255]), rb(rng, rng.choice([0, 1, 10, 200]))))
    if rng.random() < 0.15:
        rng.shuffle(parts)
    if rng.random() < 0.1 and len(parts) > 2:
        del parts[rng.randrange(len(parts))]        # missing field
    if rng.random() < 0.05:
        parts[0] = tlv(1, bytes([rng.choice([0, 4, 5, 200])]))   # invalid stage
    if rng.random() < 0.05:
        parts.append(tlv(1, b"\x01\x02"))           # wrong size for stage
    return b"".join(parts) + b"\x00"


class C16(Property):
    id = "C16"
    rule = ("node information: generated values (0..20 peers, 0..12 addresses per list, claims of every address length 0..16 and prefix "
            "0..255, optional fields) encoded, extended by a tail, decoded; every truncation and single-byte substitution of valid "
            "encodings, unknown parts inserted at every position, random strings up to 2 KiB; handshake messages: generated part lists "
            "(unknown parts, wrong sizes, missing fields, trailing bytes in the cipher list) really signed, with tails, truncations, "
            "corrupted signature / key hash; rotation messages: key lengths 0..255, confirm present/absent, truncations, random bytes; "
            "non-trivial = distinct input that decodes to a value")
    assumptions = ["Ed25519 verification and the salted key hash are oracles of the handshake codec model (supplied from the real run)"]

    def gen(self, rng, tier):
        thorough = tier == "thorough"
        out = []
        k = 6 if thorough else 1
        # --- node info round trips
        for _ in range(1500 * k):
            tail = rb(rng, rng.choice([0, 0, 1, 5, 50])).hex() or "-"
            out.append("ni_rt %s %s" % (gen_ni(rng, big=rng.random() < 0.2), tail))
        self._valid = []
        # --- decoders on mutated encodings: done in extra() (needs the encodings); here random strings
        for _ in range(1500 * k):
            n = rng.choice([0, 1, 2, 3, 5, 10, 40, 200, 2048])
            d = bytearray(rb(rng, n))
            if n and rng.random() < 0.6:
                d[0] = rng.choice([0, 1, 2, 3, 4, 5, 6])
            out.append("ni_dec " + (bytes(d).hex() or "-"))
        # structured node-info part lists incl. unknown parts, over-long fixed parts, short parts
        for _ in range(2500 * k):
            parts = []
            for _ in range(rng.randrange(0, 6)):
                t = rng.choice([1, 2, 3, 4, 5, 6, 9])
                if t == 4:
                    body = rb(rng, rng.choice([16, 16, 15, 17, 20]))
                elif t == 3:
                    body = rb(rng, rng.choice([2, 2, 1, 3, 6]))
                elif t == 5:
                    n4, n6 = rng.randrange(0, 3), rng.randrange(0, 2)
                    body = bytes([n6 * 8 + n4]) + rb(rng, 6 * n4 + 18 * n6 + rng.choice([0, 0, 0, 1, -1 if (n4 or n6) else 0]) % 7)
                elif t == 1:
                    body = b""
                    for _ in range(rng.randrange(0, 3)):
                        n4, n6, hid = rng.randrange(0, 3), rng.randrange(0, 2), rng.random() < 0.5
                        body += bytes([n6 * 8 + n4 + (128 if hid else 0)]) + (rb(rng, 16) if hid else b"") + rb(rng, 18 * n6 + 6 * n4)
                    if rng.random() < 0.2:
                        body = body[:-1] if body else b"\x01"
                elif t == 2:
                    body = b""
                    for _ in range(rng.randrange(0, 3)):
                        ln = rng.choice([0, 4, 6, 16, 17])
                        body += bytes([ln]) + rb(rng, min(ln, 16)) + bytes([rng.randrange(256)])
                else:
                    body = rb(rng, rng.choice([0, 3, 30]))
                p = bytearray(tlv(t, body))
                if rng.random() < 0.1:
                    p[2] = (p[2] + rng.choice([1, 255, 7])) & 0xff   # corrupted length byte
                parts.append(bytes(p))
            d = b"".join(parts) + (b"\x00" if rng.random() < 0.85 else b"") + rb(rng, rng.choice([0, 0, 4]))
            out.append("ni_dec " + (d.hex() or "-"))
        # --- handshake codec
        for _ in range(2500 * k):
            body = gen_init_body(rng)
            sigok = 0 if rng.random() < 0.07 else 1
            hashok = 0 if rng.random() < 0.05 else 1
            tail = rb(rng, rng.choice([0, 0, 3, 40])).hex() or "-"
            total = 8 + len(body) + 65
            trunc = "-" if rng.random() < 0.7 else str(rng.randrange(0, total + 2))
            trusted = 0 if rng.random() < 0.05 else 1
            out.append("im_parse %s %d %d %s %s %d" % (body.hex(), sigok, hashok, tail, trunc, trusted))
        # --- length fields at their boundaries, for every part tag of both TLV codecs: declared length vs bytes present
        BOUND = [0, 1, 2, 0x7f, 0x80, 0xff, 0x100, 0x101, 0x7fff, 0x8000, 0xff00, 0xfff0, 0xfff6, 0xfff7, 0xfff8, 0xfff9, 0xfffe, 0xffff]
        for t in [1, 2, 3, 4, 5, 6, 7, 255]:
            for L in BOUND:
                presents = sorted(set([0, 1, min(L, 40)] + ([L, L + 3] if (L <= 0x101 or (thorough and L >= 0xfff0) or rng.random() < 0.08) else [])))
                for present in presents:
                    part = bytes([t, L >> 8, L & 0xff]) + rb(rng, present)
                    for prefix in (b"", tlv(1, b"\x02") + tlv(2, rb(rng, 20))):
                        body = prefix + part + b"\x00"
                        out.append("im_parse %s 1 1 %s - 1" % (body.hex(), rng.choice(["-", "-", rb(rng, 30).hex()])))
                    out.append("ni_dec " + (tlv(4, rb(rng, 16)) + part + b"\x00").hex())
                    out.append("ni_dec " + (part + tlv(4, rb(rng, 16)) + b"\x00").hex())
        # --- signature length byte vs signature bytes present (the length byte is read before anything is verified)
        for declared in (range(256) if thorough else sorted(set([0, 1, 31, 32, 63, 64, 65, 66, 96, 127, 128, 129, 200, 254, 255] + [rng.randrange(256) for _ in range(25)]))):
            for present in sorted(set([0, 1, 63, 64, 65, declared, min(255, declared + 1), max(0, declared - 1)])):
                out.append("im_parse %s L%d.%d 1 %s - 1" % (gen_init_body(rng, unknown=False).hex(), declared, present, rng.choice(["-", "-", rb(rng, 80).hex()])))
        # --- rotation codec
        for _ in range(1200 * k):
            r = rng.random()
            if r < 0.5:
                kl = rng.choice([0, 1, 31, 32, 33, 96, 255, rng.randrange(256)])
                cl = rng.choice([None, 0, 1, 32, 96, 255])
                out.append("rot_enc %d %s %s" % (rng.choice([0, 1, 2, 2 ** 32, 2 ** 64 - 1, rng.getrandbits(64)]), rb(rng, kl).hex() or "-",
                                                 "none" if cl is None else (rb(rng, cl).hex() or "-")))
            else:
                kl = rng.choice([0, 32, 5])
                d = rb(rng, 8) + bytes([kl]) + rb(rng, kl)
                if rng.random() < 0.7:
                    cl = rng.choice([0, 32, 3])
                    d += bytes([cl]) + rb(rng, cl)
                d = d[:rng.randrange(0, len(d) + 1)] if rng.random() < 0.4 else d + rb(rng, rng.choice([0, 3]))
                out.append("rot_dec " + (d.hex() or "-"))
        return out

    def model_line(self, line, impl_out):
        if line.startswith("im_parse "):
            m = re.search(r"MSG=(\S+) SIGNED=(\d+) SIG=(\S+)", impl_out)
            t = line.split()
            if not m:
                return "im_parse_m - 0 - 0"
            # the key is found iff it is trusted and the hash was not corrupted
            return "im_parse_m %s %s %s %d" % (m.group(1), m.group(2), m.group(3), 1 if (t[6] == "1" and t[3] == "1") else 0)
        if line.startswith("rot_enc") and " - " in line + " ":
            return line
        return line

    def canon_impl(self, line, out):
        if line.startswith("im_parse "):
            return out.split(" MSG=")[0]
        return out if not out.startswith("panic") else "panic"

    def nontrivial(self, line, impl_out):
        return impl_out.startswith("ok")

    def tag(self, line, impl_out):
        t = impl_out.split()
        if line.startswith("im_parse"):
            return "im:" + " ".join(t[:2])
        return line.split()[0] + ":" + t[0]

    def oracle(self, line, impl_out):
        if impl_out.startswith("panic"):
            return "decoder panicked: " + impl_out
        t = line.split()
        if t[0] == "ni_rt":
            if not impl_out.startswith("ok "):
                return "a generated node-info message does not decode"
            got = impl_out.split()[2]
            if got != normalise(t[1]):
                return "node info decoded to %s, encoded was (normalised) %s" % (got[:150], normalise(t[1])[:150])
        if t[0] == "rot_enc":
            return None
        return None

    def extra(self, ctx):
        return {}


PROP = C16()

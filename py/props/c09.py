"""C09 - established connections survive forged and replayed traffic"""
import re
from check import Property
from props import nodeutil as nu

OUTSIDER = 77
OFFSETS = [0, 1, 2, 5, 30, 59, 61, 90, 119, 121, 300, 600]
PROBE_AT = [1, 2, 3, 6, 31, 62, 100, 118, 122, 123, 125, 130, 200, 399]


def base(rng, n):
    s = nu.Scenario()
    for i in range(1, n + 1):
        s.node(i, mode="tun-router", claims=["%s/24" % bytes([10, 0, i, 0]).hex()])
    s.add("C.1.2", "A")
    if n == 3:
        s.add("C.3.1", "A")
    s.tick(2)
    # some operation traffic to capture: payload both ways
    s.add("P.1.%s" % nu.ipv4_packet(nu.node_ip(1), nu.node_ip(2)), "A", "O.2")
    s.add("P.2.%s" % nu.ipv4_packet(nu.node_ip(2), nu.node_ip(1)), "A", "O.1")
    return s


def probes(s, n, at):
    """one frame in each direction between 1 and 2, delivered at once; writes popped"""
    s.add("P.1.%s" % nu.ipv4_packet(nu.node_ip(1), nu.node_ip(2), bytes([at & 0xff])), "A", "O.2")
    s.add("P.2.%s" % nu.ipv4_packet(nu.node_ip(2), nu.node_ip(1), bytes([at & 0xff])), "A", "O.1")


def forged_lines(rng, thorough):
    """forged, not replayed: well-formed datagrams sealed under a guessable key (all key bytes equal) for every cipher, key slot
    and nonce half, carrying a CLOSE, a node-info and a data message, from the healthy peer's address; early after the
    handshake (key slots 1-3 not yet rotated in) and later"""
    out = []
    plains = ["ff", "01" + "04001000000000000000000000000000000000" + "00", "00" + nu.ipv4_packet(nu.node_ip(9), nu.node_ip(1))]
    for off in ([0, 3, 130, 250] if thorough else [0, 130]):
        for n in (2, 3):
            s = base(rng, n)
            if off:
                s.tick(off)
            for dst in (1, 2):
                for alg in (1, 2, 3):
                    for keyid in (0, 1, 2, 3, 4, 255):
                        for half in (0, 1):
                            for kb in (0, 255):
                                s.add("Y.%d.%d.%d.%d.%d.%d.%s" % (dst, 3 - dst, alg, keyid, half, kb, rng.choice(plains)))
                s.add("O.%d" % dst)
            s.add("A", "O.1", "O.2", "S.1", "S.2")
            for at in range(1, 61):
                s.tick(1)
                if at in (1, 2, 3, 6, 31, 60):
                    probes(s, n, at)
            s.add("S.1", "S.2")
            out.append(s.line())
    return out


def every_position_lines(rng, thorough):
    """one bit flipped at every byte position of the three genuine handshake datagrams of the connection 1-2 (ping, pong, peng),
    re-injected at either end from the healthy peer's address: length and count fields that are read before anything is verified
    sit at fixed offsets, some of them behind the signed region"""
    out = []
    for k in (0, 1, 2):
        for lo in range(0, 280, 70):
            s = base(rng, 2)
            s.tick(rng.choice([0, 3, 70]))
            for pos in range(lo, lo + 70):
                for bit in sorted(set([7, rng.randrange(8)] + (list(range(8)) if thorough else []))):
                    dst = rng.choice([1, 2])
                    s.add("F.%d.%d.%d.%d.%d" % (k, dst, 3 - dst, pos, bit))
            s.add("A", "O.1", "O.2", "S.1", "S.2")
            for at in range(1, 8):
                s.tick(1)
                if at in (1, 2, 6):
                    probes(s, 2, at)
            s.add("S.1", "S.2")
            out.append(s.line())
    return out


class C09(Property):
    id = "C09"
    rule = ("2-3 connected mock nodes; every datagram observed during establishment and operation (about 12) is re-injected at a later "
            "offset from {0,1,2,5,30,59,61,90,119,121,300,600} s with source address in {original, another peer, unknown}, verbatim, "
            "truncated or with one bit flipped; then a probe phase of 400 s (housekeeping every second, probe frames in both directions at "
            "14 instants incl. 118..130 s around the handshake retry horizon); forged datagrams sealed under guessable keys (all key bytes 0x00 / "
            "0xff) for every cipher x key id byte {0..4,255} x nonce half, carrying CLOSE / node-info / data messages, from the healthy peer's "
            "address, right after the handshake and after the first rotations; non-trivial = distinct (datagram, offset, source, mutation)")
    assumptions = ["the attacker holds no trusted key (ideal AEAD, unforgeable signatures); in-window duplicates are bounded by C03"]

    def gen(self, rng, tier):
        thorough = tier == "thorough"
        out = []
        combos = []
        ncap = 14
        for k in range(ncap):
            for off in OFFSETS:
                for srcsel in ("orig", "other", "unknown"):
                    combos.append((k, off, srcsel))
        if not thorough:
            combos = rng.sample(combos, 120)
        for (k, off, srcsel) in combos:
            for n in ([2, 3] if thorough else [rng.choice([2, 2, 3])]):
                s = base(rng, n)
                if off:
                    s.tick(off)
                mut = rng.choice(["verbatim", "verbatim", "verbatim", "flip", "trunc"])
                # destination and claimed source: datagram k was sent by some node to some address; we re-inject it at
                # node 1 or 2 (both healthy and connected) with the chosen claimed source
                dst = rng.choice([1, 2])
                other = 3 - dst
                src = {"orig": other, "other": 3 if n == 3 else other, "unknown": OUTSIDER}[srcsel]
                if mut == "verbatim":
                    s.add("J.%d.%d.%d" % (k, dst, src))
                elif mut == "flip":
                    s.add("F.%d.%d.%d.%d.%d" % (k, dst, src, rng.choice([0, 1, 9, 12, 16, 20, 40, 60, 100]), rng.randrange(8)))
                else:
                    s.add("U.%d.%d.%d.%d" % (k, dst, src, rng.choice([1, 8, 23, 24, 40, 100])))
                s.add("A", "O.1", "O.2")
                s.add("S.1", "S.2")
                t0 = s.t
                for at in range(1, 401):
                    s.tick(1)
                    if at in PROBE_AT:
                        probes(s, n, at)
                s.add("S.1", "S.2")
                out.append(s.line())
        # directed: genuine HANDSHAKE datagrams of every exchange in a 3-node mesh (1->2 and 3->1: ping, pong, peng each), replayed verbatim
        # to either end of the healthy connection 1-2 with the other end's (or the third node's) address as claimed source, inside and just
        # outside the 60 s in which the initiator keeps its handshake state
        for k in range(0, 7):
            for off in ([1, 30, 59, 61] if thorough else [rng.choice([1, 30, 59]), 61]):
                for dst in (1, 2):
                    for src in (3 - dst, 3):
                        s = base(rng, 3)
                        s.tick(off)
                        s.add("J.%d.%d.%d" % (k, dst, src), "A", "O.1", "O.2", "S.1", "S.2")
                        for at in range(1, 131):
                            # the state is looked at after housekeeping and BEFORE anything is delivered: an immediate re-dial
                            # must not hide that a healthy peer was dropped
                            s.t += 1
                            s.add("T.%d" % s.t, "H.1", "H.2", "H.3", "S.1", "S.2", "A")
                            if at in (1, 2, 31, 62, 118, 122, 123, 125, 130):
                                probes(s, 3, at)
                        s.add("S.1", "S.2")
                        out.append(s.line())
        # replayed handshake pings from UNKNOWN addresses (each leaves a throw-away handshake entry for 120 s): with a peer timeout
        # below that, and with repeated replays, the healthy connection must see its keep-alives and stay
        for pt in ([60, 100, 300] if thorough else [100]):
            for every in ([50, 100] if thorough else [100]):
                s = nu.Scenario()
                for i in (1, 2):
                    s.node(i, mode="tun-router", pt=pt, claims=["%s/24" % bytes([10, 0, i, 0]).hex()])
                s.add("C.1.2", "A")
                s.tick(2)
                src = OUTSIDER
                for at in range(1, 2 * pt + 140):
                    if at % every == 1:
                        s.add("J.0.1.%d" % src, "J.0.2.%d" % src)
                        src += 1
                    s.t += 1
                    s.add("T.%d" % s.t, "H.1", "H.2", "S.1", "S.2", "A")
                    if at % 60 == 0:
                        probes(s, 2, at)
                s.add("S.1", "S.2")
                out.append(s.line())
        out += forged_lines(rng, thorough)
        out += every_position_lines(rng, thorough)
        return out

    def model_line(self, line, impl_out):
        return nu.model_line(line, impl_out)

    def canon_impl(self, line, out):
        return nu.canon_impl(out)

    def nontrivial(self, line, impl_out):
        return True

    def tag(self, line, impl_out):
        inj = [t for t in line.split() if t[0] in "JFUY" and t[1] == "."]
        k = inj[0].split(".")[0] if inj else "?"
        dumps = [t for t in impl_out.split() if t.startswith("peers=")]
        ok = "?"
        if dumps:
            d = nu.parse_dump(dumps[-2])
            ok = "peers%d" % len(d["peers_l"])
        return "inj%s:%s" % (k, ok)

    def oracle(self, line, impl_out):
        ops = line.split()[1:]
        outs = impl_out.split()
        if len(ops) != len(outs):
            return "driver returned %d results for %d ops" % (len(outs), len(ops))
        inj = None
        for i, (o, r) in enumerate(zip(ops, outs)):
            if r.startswith("panic"):
                return "panic at op %d (%s)" % (i, o)
            if o[0] in "JFUY" and o[1] == "." and inj is None:
                inj = i
        if inj is None:
            return None
        # after the injection: every probe must be delivered byte-identical, peers and claims must stay
        i = inj + 1
        while i < len(ops):
            o = ops[i]
            if o.startswith("P."):
                src = int(o.split(".")[1])
                dst = 3 - src
                frame = o.split(".")[2]
                w = outs[i + 2]
                got = [] if w == "w-" else w[1:].split(",")
                if frame not in got:
                    t = [x for x in ops[:i] if x.startswith("T.")][-1]
                    return ("payload from node %d to node %d is lost at %s after the injection %s (interface of node %d got %s)"
                            % (src, dst, t, ops[inj], dst, w[:60]))
                i += 3
                continue
            i += 1
        dumps = [(o, r) for o, r in zip(ops, outs) if o.startswith("S.")]
        # every look at nodes 1 and 2 after the injection (not only the last): the healthy peer and its routes are there
        later = [(o, r) for j, (o, r) in enumerate(zip(ops, outs)) if j > inj and o in ("S.1", "S.2")]
        for (o, r) in (later if len(later) > 4 else dumps[-2:]):
            d = nu.parse_dump(r)
            me = int(o.split(".")[1])
            peer = 3 - me
            if not any(int(p[0]) == peer for p in d["peers_l"]):
                return "node %d lost its healthy peer %d after the injection %s" % (me, peer, ops[inj])
            if not any(c.startswith("%d:" % peer) for c in d["claims_l"]):
                return "node %d lost the routes of its healthy peer %d after the injection %s" % (me, peer, ops[inj])
        return None


PROP = C09()

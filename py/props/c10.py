"""C10 - forwarding isolation: no relaying, exact once-only delivery"""
import re
from check import Property
from props import nodeutil as nu
from props import joinutil as ju
from props import routeutil as ru

MODES = ["tun-router", "tap-switch", "tap-hub", "tun-normal", "tap-normal"]


class C10(Property):
    id = "C10"
    rule = ("meshes of 2-5 mock nodes in router / switch / hub / normal mode with tun and tap dissectors; random and directed frame "
            "sequences (destination claimed / learned / unknown / broadcast / own address / malformed) read at any node, everything "
            "delivered once; per step conservation: wire datagrams caused by an interface read = number of selected peers, wire "
            "datagrams caused by a received payload = 0, interface writes = deliveries, byte-identical; plus datagrams from non-peers; "
            "non-trivial = distinct scenario in which at least one frame is written to some interface")
    assumptions = ["ideal AEAD, symbolic ECDH, unforgeable signatures (Conn.v); HashMap iteration order abstracted (effects compared sorted by destination)"]

    def gen(self, rng, tier):
        thorough = tier == "thorough"
        out = []
        for _ in range(600 if thorough else 120):
            n = rng.choice([2, 3, 3, 4, 5])
            mode = rng.choice(MODES)
            gw = rng.randrange(1, n + 1) if (mode.startswith("tun") and rng.random() < 0.4) else None
            s = nu.mesh(rng, n, mode=mode, full=True, gateway=gw)
            # settle the mesh (peer exchange)
            s.tick(2)
            frames = []
            for _ in range(rng.choice([5, 15, 40])):
                i = rng.randrange(1, n + 1)
                r = rng.random()
                if mode.startswith("tun"):
                    if r < 0.6:
                        j = rng.randrange(1, n + 1)
                        # now and then a source address from another node's network (forwarded / spoofed traffic)
                        srcn = i if rng.random() < 0.8 else rng.randrange(1, n + 1)
                        f = nu.ipv4_packet(nu.node_ip(srcn, rng.randrange(1, 4)), nu.node_ip(j, rng.randrange(1, 4)), bytes([rng.randrange(256)]))
                    elif r < 0.8:
                        f = nu.ipv4_packet(nu.node_ip(i), bytes([192, 168, rng.randrange(3), 1]))
                    elif r < 0.9:
                        f = nu.ipv4_packet(nu.node_ip(i), bytes([255, 255, 255, 255]))
                    else:
                        f = bytes(rng.getrandbits(8) for _ in range(rng.choice([0, 1, 19, 25]))).hex() or "-"
                else:
                    # source: the node's own MAC, a host behind it, or an address seen before behind ANOTHER node (a host that moved)
                    srcmac = nu.mac(rng.choice([i, i, i, 40, 41, rng.randrange(1, n + 1)]))
                    if r < 0.6:
                        j = rng.randrange(1, n + 2)
                        f = nu.eth_frame(nu.mac(j), srcmac, rng.choice([None, None, 0, 1, 0x67, 0x2067, 0xe001, 0xb067]))   # incl. priority / DEI bits on a tagged frame
                    elif r < 0.8:
                        f = nu.eth_frame(b"\xff" * 6, srcmac)
                    elif r < 0.9:
                        f = nu.eth_frame(nu.mac(i), nu.mac(i))
                    else:
                        f = bytes(rng.getrandbits(8) for _ in range(rng.choice([0, 5, 13, 15]))).hex() or "-"
                s.add("P.%d.%s" % (i, f), "A")
                for k in range(1, n + 1):
                    s.add("O.%d" % k)
                if rng.random() < 0.1:
                    s.tick(1)
            # a datagram from a non-peer address claiming to be data
            s.add("W.1.77.%s" % bytes([0] + [rng.getrandbits(8) for _ in range(40)]).hex(), "O.1")
            s.add("S.1", "S.2")
            out.append(s.line())
        # a node joins a learning mesh: frames for learned destinations keep going to ONE peer (the datagrams per interface read equal
        # the number of selected peers), and plain datagrams from an address with an unfinished handshake never reach the interface
        out += ju.join_cases(rng, 40 if thorough else 8)
        out += ju.pending_plain_cases(rng, 80 if thorough else 16)
        # which peers are SELECTED follows the live claims: claims that change at run time (incl. to none), a more specific claim that
        # appears later, MAC-range claims in router mode on a tap device
        out += [l for l in ru.reannounce_cases(rng, 30 if thorough else 8)] + ru.nested_cases(rng, 12 if thorough else 4) + ru.taprouter_cases(rng, 16 if thorough else 5) + ru.close_cases(rng, 16 if thorough else 5)
        return out

    def model_line(self, line, impl_out):
        return nu.model_line(line, impl_out)

    def canon_impl(self, line, out):
        return nu.canon_impl(out)

    def nontrivial(self, line, impl_out):
        return re.search(r" w[0-9a-f]", impl_out) is not None

    def tag(self, line, impl_out):
        mode = line.split()[1].split(".")[2]
        return "%s:n%d:%s" % (mode, sum(1 for t in line.split() if t.startswith("N.")), "deliv" if self.nontrivial(line, impl_out) else "none")

    def oracle(self, line, impl_out):
        ops = line.split()[1:]
        outs = impl_out.split()
        if len(ops) != len(outs):
            return "driver returned %d results for %d ops" % (len(outs), len(ops))
        if ju.family(line):
            return ju.oracle(line, impl_out)
        if " Q.2." in line or any((" %s " % m) in line for m in (ru.NESTED_MARK, ru.TAPROUTER_MARK, ru.CLOSE_MARK)):
            return ru.oracle(line, impl_out)
        nnodes = sum(1 for t in ops if t.startswith("N."))
        ntoks = [t.split(".") for t in ops if t.startswith("N.")]
        mode = ntoks[0][2]
        gateway = next((int(t[1]) for t in ntoks if "00000000/0" in t[6]), None)
        i = 0
        while i < len(ops):
            o, r = ops[i], outs[i]
            if r.startswith("panic"):
                return "panic at op %d (%s): %s" % (i, o, r)
            if o.startswith("P."):
                src = int(o.split(".")[1])
                frame = o.split(".")[2]
                sent = nu.emissions(r)
                if any(not k.startswith("D") for _, k in sent):
                    return "interface read at op %d caused a non-data datagram %s" % (i, r)
                dsts = [d for d, _ in sent]
                if len(set(dsts)) != len(dsts):
                    return "frame sent twice to the same peer at op %d" % i
                if mode in ("tap-switch", "tap-normal", "tap-hub") and frame.startswith("ffffffffffff") and len(frame) >= 28:
                    # a broadcast frame in a flooding mode is selected for every peer, whatever has been learned
                    want = [k for k in range(1, nnodes + 1) if k != src]
                    if sorted(dsts) != want:
                        return "%s: broadcast frame read at node %d was sent to %s, flooding selects every peer %s" % (mode, src, sorted(dsts), want)
                if mode == "tun-router" and len(frame) >= 40 and frame[0] == "4":
                    # router mode: the peer selected for a packet is the one with the most specific claim, nobody otherwise
                    dst = bytes.fromhex(frame)[16:20]
                    # a node's table holds its peers' claims only: its own network is not a candidate
                    j = dst[2] if (dst[0] == 10 and dst[1] == 0 and 1 <= dst[2] <= nnodes and dst[2] != src) else None
                    if j is None and gateway is not None and gateway != src:
                        j = gateway
                    want = [j] if j is not None else []
                    if sorted(dsts) != want:
                        return "router mode: packet for %s read at node %d was sent to %s, the claims select %s" % (
                            ".".join(str(b) for b in dst), src, sorted(dsts), want)
                # the following A delivers; received payload must cause no datagram at all
                a = outs[i + 1]
                m = re.match(r"a(\d+)\[(.*)\]$", a)
                inner = m.group(2).split("|") if m and m.group(2) else []
                for st in inner:
                    if nu.emissions(re.sub(r"^n\d+>", "", st)):
                        return "a received payload caused wire datagrams (%s) at op %d: relaying / amplification" % (st, i + 1)
                # writes: exactly once at each selected peer, byte-identical, nowhere else
                writes = {}
                for k in range(nnodes):
                    w = outs[i + 2 + k]
                    writes[k + 1] = [] if w == "w-" else w[1:].split(",")
                for k, ws in writes.items():
                    want = 1 if k in dsts else 0
                    if len(ws) != want:
                        return ("frame read at node %d (op %d) was selected for peers %s but node %d wrote %d frame(s) to its interface") % (
                            src, i, dsts, k, len(ws))
                    if ws and ws[0] != frame:
                        return "frame delivered at node %d differs from the frame read at node %d (op %d)" % (k, src, i)
                i += 2 + nnodes
                continue
            if o.startswith("W."):
                if nu.emissions(r):
                    return "datagram from a non-peer caused a reply"
                if outs[i + 1] != "w-":
                    return "datagram from a non-peer reached the interface"
            i += 1
        return None


PROP = C10()

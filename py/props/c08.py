"""C08 - no datagram from an outsider can crash a node"""
import re
from check import Property
from props import nodeutil as nu

OUTSIDER = 77     # an address no node listens on


def rb(rng, n):
    return bytes(rng.getrandbits(8) for _ in range(n))


def setup(rng, state, mode="tun-router"):
    """node 1 is the receiver under test, in the given state towards address 2.
    returns (scenario, src address that is in that state, index hints)"""
    s = nu.Scenario()
    cl = lambda i: ["%s/24" % bytes([10, 0, i, 0]).hex()]
    if state == "established_plain":
        # an UNENCRYPTED connection (both ends allow only "plain"): nothing is sealed, every byte string is taken at face value
        s.node(1, mode=mode, claims=cl(1), algos="p|-").node(2, mode=mode, claims=cl(2), algos="p|-")
        s.add("C.2.1", "A")
        s.tick(1)
        return s
    s.node(1, mode=mode, claims=cl(1)).node(2, mode=mode, claims=cl(2))
    if state == "unknown":
        s.node(3, mode=mode, claims=cl(3))
        s.add("C.3.1", "A")            # node 1 has some peer, but not address 2
        s.tick(1)
    elif state == "pending_initiator":
        s.add("C.1.2")                 # ping sent, not delivered: node 1 awaits the pong from 2
    elif state == "pending_responder":
        s.add("C.2.1", "D.0")          # node 1 answered a ping of 2 with a pong: awaits the peng
    elif state == "established_lingering":
        s.add("C.1.2", "A")            # node 1 was the handshake initiator: keeps its init object ~60 s
        s.tick(1)
    elif state == "established":
        s.add("C.2.1", "A")            # node 1 was the responder: init object gone
        s.tick(1)
    elif state == "established_old":
        s.add("C.1.2", "A")
        s.tick(70)                     # lingering handshake object expired
    elif state == "closing":
        s.add("C.1.2", "A")
        s.tick(61)                     # WAITING_TO_CLOSE -> CLOSING boundary
    return s


STATES = ["unknown", "pending_initiator", "pending_responder", "established_lingering", "established", "established_old", "closing"]
ESTABLISHED = ("established_lingering", "established", "established_old", "closing")


def closing_probe(s, state):
    """state that a rejected datagram may have left behind inside the connection objects (replay window, counters) is not in the
    dump; its consequence is: a few housekeeping ticks later payload must still flow both ways on the established connection"""
    if state in ESTABLISHED:
        s.tick(3)
        s.add("P.2.%s" % nu.ipv4_packet(nu.node_ip(2), nu.node_ip(1), b"\x5a"), "A", "O.1")
        s.add("P.1.%s" % nu.ipv4_packet(nu.node_ip(1), nu.node_ip(2), b"\xa5"), "A", "O.2")
        s.add("X.9998")          # marker (a no-op): the two probes above must have been delivered


def every_position_lines(rng, thorough, states):
    """bit flips at every byte position of the captured handshake datagrams (positions beyond the datagram are no-ops on both
    sides): the length and count fields that are read before anything is verified sit at fixed offsets"""
    out = []
    for state in states:
        for k in (0, 1, 2):
            for lo in range(0, 280, 70):
                s = setup(rng, state)
                s.add("S.1")
                for pos in range(lo, lo + 70):
                    for bit in sorted(set([0, rng.randrange(8)] + (list(range(8)) if thorough else []))):
                        s.add("F.%d.1.%d.%d.%d" % (k, rng.choice([2, 2, OUTSIDER]), pos, bit), "S.1")
                closing_probe(s, state)
                out.append(s.line())
    return out


def length_field_lines(rng, thorough, states):
    """every length field of the captured handshake datagrams set to the values a parser is most likely to trip over: 0, 1, the
    largest, the values whose sum with a few bytes of headroom passes the 65535-byte buffer, the sign bit.  They are read before
    anything is verified."""
    out = []
    values = [0, 1, 2, 0x7fff, 0x8000, 0xff00, 0xfff0, 0xfff7, 0xfff8, 0xfff9, 0xfffb, 0xfffc, 0xfffd, 0xfffe, 0xffff]
    for state in states:
        for k in (0, 1, 2):
            s = setup(rng, state)
            s.add("S.1")
            for part in range(0, 6):
                for v in (values if thorough else sorted(set(rng.sample(values, 5) + [0xfff8, 0xffff]))):
                    s.add("I.%d.1.%d.%d.%d" % (k, rng.choice([2, 2, OUTSIDER]), part, v), "S.1")
            closing_probe(s, state)
            out.append(s.line())
    return out


class C08(Property):
    id = "C08"
    rule = ("receiver (mock node 1) in the states {unknown sender, pending as initiator, pending as responder, established with / without "
            "lingering handshake object, closing}; datagrams of every length 0..80 with structured first bytes (0xff marker, key ids, "
            "message types) and random bodies, random datagrams up to 65435 bytes, every truncation, bit flips and length fields set to boundary values in captured genuine "
            "handshake / node-info / rotation / data datagrams sent from the original, another and an unknown address, sequences of up to "
            "50 such datagrams; after each injection the state dump must equal the dump before except for the invalid-traffic counter; "
            "non-trivial = distinct scenario with at least 10 injected datagrams reaching an established or pending entry")
    assumptions = ["the sender holds no trusted key: it can fabricate bytes and mutate / replay captured datagrams, not sign or seal "
                   "(unforgeable signatures, ideal AEAD)"]

    def gen(self, rng, tier):
        thorough = tier == "thorough"
        out = []
        firsts = [0xff, 0, 1, 2, 3, 4, 0x10, 0x7f, 0x80, 0xfe, 5, 255, 16]
        # an UNENCRYPTED connection takes every byte string at face value, so "leaves no state behind" does not apply - but the node must
        # keep running: every length 0..40 (the empty datagram first) with structured first bytes, from the peer's address and others
        for chunk in range(0, 41, 8):
            s = setup(rng, "established_plain")
            for n in range(chunk, min(41, chunk + 8)):
                for fb in firsts:
                    d = bytearray(rb(rng, n))
                    if n:
                        d[0] = fb
                    s.add("W.1.%d.%s" % (rng.choice([2, 2, OUTSIDER]), bytes(d).hex() or "-"))
            s.add("O.1", "S.1")
            out.append(s.line())
        for state in STATES:
            for mode in (["tun-router", "tap-switch"] if thorough else ["tun-router"]):
                # (a) lengths 0..80 with structured first bytes
                for chunk in range(0, 81, 9):
                    s = setup(rng, state, mode)
                    s.add("S.1")
                    for n in range(chunk, min(81, chunk + 9)):
                        for fb in (firsts if thorough else rng.sample(firsts, 4) + [0xff, 0]):
                            d = bytearray(rb(rng, n))
                            if n:
                                d[0] = fb
                            src = rng.choice([2, 2, OUTSIDER, 3])
                            s.add("W.1.%d.%s" % (src, bytes(d).hex() or "-"), "S.1")
                    s.add("O.1")
                    closing_probe(s, state)
                    out.append(s.line())
                # (b) mutations of genuine datagrams captured so far, from right and wrong parties
                for _ in range(6 if thorough else 2):
                    s = setup(rng, state, mode)
                    # produce more genuine traffic to capture: payload + announcements
                    s.add("P.2.%s" % nu.ipv4_packet(nu.node_ip(2), nu.node_ip(1)), "P.1.%s" % nu.ipv4_packet(nu.node_ip(1), nu.node_ip(2)))
                    s.add("S.1")
                    for _ in range(50):
                        k = rng.randrange(0, 12)
                        src = rng.choice([2, 2, 1, OUTSIDER, 3])
                        r = rng.random()
                        if r < 0.45:
                            s.add("U.%d.1.%d.%d" % (k, src, rng.choice([0, 1, 2, 7, 8, 9, 12, 16, 23, 24, 25, 40, 60, 100, 130, 150])))
                        elif r < 0.9:
                            s.add("F.%d.1.%d.%d.%d" % (k, src, rng.choice([0, 0, 1, 2, 8, 9, 10, 11, 12, 13, 14, 15, 16, 20, 30, 40, 60, 90, 120, 140]), rng.randrange(8)))
                        else:
                            s.add("J.%d.1.%d" % (k, OUTSIDER))     # verbatim, but from an unknown address
                        s.add("S.1")
                    s.add("O.1")
                    closing_probe(s, state)
                    out.append(s.line())
        # (d) every byte position of the captured handshake datagrams
        out += every_position_lines(rng, thorough, ["unknown", "pending_initiator", "pending_responder", "established_lingering"]
                                    + (["established", "closing"] if thorough else []))
        # (d') every length field of the captured handshake datagrams set to boundary values
        out += length_field_lines(rng, thorough, ["unknown", "pending_initiator", "pending_responder", "established_lingering"]
                                  + (["established", "closing"] if thorough else []))
        # (e) verbatim replays of genuine handshake datagrams of OTHER exchanges into pending handshakes, each twice:
        #     they verify (genuine signature) but belong to another key exchange; no dump-equality demand, only no panic
        #     and agreement with the model
        for state in ["pending_initiator", "pending_responder"]:
            for first in list(range(0, 10)) + [None] * (6 if thorough else 2):
                s = nu.Scenario()
                cl = lambda i: ["%s/24" % bytes([10, 0, i, 0]).hex()]
                s.node(1, claims=cl(1)).node(2, claims=cl(2)).node(3, claims=cl(3))
                s.add("C.3.2", "A")                     # 3 <-> 2: ping, pong, peng, rotation, node info captured
                s.tick(1)
                s.add("C.2.3")                          # a second exchange the other way round (dual)
                s.add("A")
                n0 = 14
                if state == "pending_initiator":
                    s.add("C.1.2")
                else:
                    s.add("C.2.1", "D.%d" % 99)         # (index resolved below is not needed: deliver everything once)
                    s.ops.pop()
                    s.add("L.1.2.i.0")
                s.add("S.1")
                order = list(range(0, n0))
                rng.shuffle(order)
                if first is not None:            # each captured datagram is also tried first, on the untouched pending state
                    order = [first, first] + order
                for k in order:
                    for _ in range(2):
                        s.add("J.%d.1.2" % k, "S.1")
                s.tick(2)
                s.add("A", "S.1", "S.2")
                out.append(s.line())
        # (a') well-formed but forged datagrams (>= 24 bytes, key id 0..3, counters far above anything used) from the peer's address
        for state in ESTABLISHED:
            s = setup(rng, state)
            s.add("S.1")
            for keyid in (0, 1, 2, 3):
                for ctr in ("ffffffffffffff", "00ffffffffffff", "7fffffffffffff"):
                    s.add("W.1.2.%02x%s%s" % (keyid, ctr, rb(rng, rng.choice([16, 17, 40])).hex()), "S.1")
            s.add("O.1")
            closing_probe(s, state)
            out.append(s.line())
        # (c) big random datagrams
        for _ in range(40 if thorough else 8):
            s = setup(rng, rng.choice(STATES))
            s.add("S.1")
            for n in [rng.choice([81, 200, 1500, 9000, 65435, 65434, 30000]) for _ in range(3)]:
                d = bytearray(rb(rng, n))
                d[0] = rng.choice([0xff, 0, 1, 3, 200])
                s.add("W.1.%d.%s" % (rng.choice([2, OUTSIDER]), bytes(d).hex()), "S.1")
            out.append(s.line())
        return out

    def model_line(self, line, impl_out):
        return nu.model_line(line, impl_out)

    @staticmethod
    def _plain(line):
        return " N.1." in " " + line and ".p|-" in line.split()[1]

    def canon_impl(self, line, out):
        if self._plain(line):
            # arbitrary bytes on an unencrypted connection: the model does not follow the real decoders there (Node.v / PeerCrypto.v say
            # so); what is compared and checked on these lines is only that the node keeps running
            return "panic" if any(t.startswith("panic") for t in out.split()) else "alive"
        return nu.canon_impl(out)

    def canon_model(self, line, out):
        return "alive" if self._plain(line) else out

    def nontrivial(self, line, impl_out):
        return sum(1 for t in line.split() if t[0] in "WFUJI") >= 10

    def tag(self, line, impl_out):
        ops = line.split()
        kinds = "".join(sorted(set(t[0] for t in ops if t[0] in "WFUJI")))
        d = [t for t in impl_out.split() if t.startswith("peers=")]
        st = "?"
        if d:
            dd = nu.parse_dump(d[0])
            st = "peers%d/pend%d" % (len(dd["peers_l"]), len(dd["pend_l"]))
        return "inject:%s:%s" % (kinds, st)

    def oracle(self, line, impl_out):
        if self._plain(line):
            return "the node panicked on a datagram received over an unencrypted connection" if impl_out == "panic" else None
        ops = line.split()[1:]
        outs = impl_out.split()
        if len(ops) != len(outs):
            return "driver returned %d results for %d ops" % (len(outs), len(ops))
        last_dump = None
        for i, (o, r) in enumerate(zip(ops, outs)):
            if r.startswith("panic"):
                return "node panicked at op %d (%s): %s" % (i, o, r)
            if o.startswith("S.1"):
                cur = re.sub(r";inv=\d+", "", r)
                prev_op = ops[i - 1] if i else ""
                if last_dump is not None and prev_op[:1] in ("W", "F", "U", "I") and cur != last_dump:
                    # a verbatim genuine datagram (truncation to full length / flip out of range) is not an outsider datagram
                    if outs[i - 1] == "nodg":
                        pass
                    elif outs[i - 1].startswith("zc~"):
                        pass       # removed bytes all zero: the parser saw the complete genuine message (finding F11), not a mutation
                    elif prev_op[0] == "U" and self._full_len(ops, outs, prev_op):
                        pass
                    else:
                        return "datagram that cannot verify (%s) left state behind: %s -> %s" % (prev_op[:60], last_dump[:200], cur[:200])
                last_dump = cur
            if o == "X.9998":
                w1, w2 = outs[i - 4], outs[i - 1]          # O.1 after P.2, O.2 after P.1
                if w1 == "w-" or w2 == "w-":
                    return ("a few ticks after the rejected datagrams payload no longer flows on the established connection "
                            "(interface of node 1 got %s, of node 2 got %s): they left state behind in the connection" % (w1[:12], w2[:12]))
            if o[:1] in ("W", "F", "I") and nu.emissions(r.replace("zc~", "")):
                return "datagram that cannot verify (%s) was answered with %s" % (o[:60], r)
        return None

    def _full_len(self, ops, outs, op):
        # truncation to >= the datagram's length leaves it intact: not a mutation
        k = int(op.split(".")[1])
        ln = int(op.split(".")[4])
        kinds = []
        for o, r in zip(ops, outs):
            if o == op:
                break
            rr = re.sub(r"n\d+>", "", r)
            m = re.match(r"a\d+\[(.*)\]$", rr)
            parts = m.group(1).split("|") if m else [rr]
            for part in parts:
                for d, kd in nu.emissions(part):
                    kinds.append(kd)
        if k < len(kinds):
            kd = kinds[k]
            if kd.startswith("D"):
                return ln >= int(kd[1:])
            if kd.startswith("I"):
                return ln >= 130      # init datagrams are at least this long; longer cuts are treated as possibly verbatim
        return True


PROP = C08()

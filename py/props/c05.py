"""C05 - handshake agrees and recovers under loss, duplication, reordering, dual open"""
import itertools
import re
from check import Property
from props import pcutil as pu
from props import nodeutil as nu
from props import routeutil as ru

ALG = "-|1:44160000,2:43fa0000,3:43c80000"
LETTERS = {
    "A": ["I.1"], "B": ["I.2"],
    "x": ["L.2.1.i.0"], "y": ["L.1.2.i.0"],          # deliver the other side's latest handshake datagram
    "X": ["L.2.1.i.1"], "Y": ["L.1.2.i.1"],          # an older one (duplicate / reordering)
    "u": ["L.2.1.i.2"], "v": ["L.1.2.i.2"],
    "r": ["L.2.1.r.0"], "s": ["L.1.2.r.0"],          # first rotation message (sent with the responder's completion)
    "a": ["E.1"], "b": ["E.2"],
}
RELIABLE = ["E.1", "E.2", "L.2.1.i.0", "L.1.2.i.0", "L.2.1.i.0", "L.1.2.i.0", "L.2.1.r.0", "L.1.2.r.0"]


def line_for(sched, rng, alg1=ALG, alg2=ALG, salts=None, rounds=4):
    s1, s2 = salts or rng.sample(range(1, 1 << 31), 2)
    toks = [pu.obj(1, 1, s1, 1, [1], alg1, "aa"), pu.obj(2, 2, s2, 1, [1], alg2, "bb")]
    for ch in sched:
        toks += LETTERS[ch]
    toks += ["Q.1", "Q.2"]
    toks += RELIABLE * rounds
    toks += ["Q.1", "Q.2", "S.1.0.0a0b", "L.2.1.d.0", "S.2.0.0c0d", "L.1.2.d.0"]
    return "pc " + " ".join(toks)


class C05(Property):
    id = "C05"
    rule = ("two real PeerCrypto objects of mutually trusting nodes and the harness' own network (every datagram ever sent stays deliverable): "
            "all schedules over {A initiates, B initiates, deliver latest / older handshake datagram to either end, deliver the first rotation "
            "message, tick A, tick B} to depth 5 (quick) / 7 (thorough), random schedules to depth 200, both salt orders (dual-open winner), "
            "followed by a reliable phase (tick both, deliver latest both ways, x4) and a probe in both directions; "
            "non-trivial = distinct schedule after which both ends completed")
    assumptions = ["ideal AEAD, symbolic ECDH, unforgeable signatures (Conn.v)",
                   "node-level reconnection after give-up / linger / back-off is exercised by the node simulation, not proved (C05-T6)"]

    def gen(self, rng, tier):
        thorough = tier == "thorough"
        out = []
        alpha = "ABxyXYab"
        depth = 7 if thorough else 5
        for n in range(1, depth + 1):
            for sched in itertools.product(alpha, repeat=n):
                if "A" not in sched and "B" not in sched:
                    continue
                out.append(line_for(sched, rng, salts=((5, 9) if rng.random() < 0.5 else (9, 5))))
        for _ in range(3000 if thorough else 400):
            L = rng.choice([8, 20, 60, 200])
            sched = [rng.choice("AB")] + [rng.choice("ABxyXYuvrsab") for _ in range(L)]
            out.append(line_for(sched, rng))
        # an attempt that gets no answer for the whole retry horizon (120 re-sends) must end with an error the
        # node can act on; lengths around the horizon, with and without a late answer
        for k in [1, 60, 118, 119, 120, 121, 122, 125, 130] + ([rng.randrange(100, 140) for _ in range(6)] if thorough else []):
            out.append(line_for("A" + "a" * k, rng))
            out.append(line_for("A" + "a" * k + "xy", rng))
            out.append(line_for("Ax" + "b" * k, rng))
            out.append(line_for("Axy" + "b" * k + "a" * 3, rng))
        # cipher lists in DIFFERENT ORDERS at the two ends with speeds that nearly tie (100.0 / 101.5 / 103.0) or tie exactly: whatever
        # the order, both ends must come out with the same cipher
        near = {1: "42c80000", 2: "42cb0000", 3: "42ce0000"}
        perms = list(itertools.permutations([1, 2, 3]))
        for p1 in perms:
            for p2 in perms:
                if not thorough and rng.random() < 0.6:
                    continue
                for speeds in (near, {1: "42c80000", 2: "42c80000", 3: "42c80000"}):
                    a1 = "-|" + ",".join("%d:%s" % (c, speeds[c]) for c in p1)
                    a2 = "-|" + ",".join("%d:%s" % (c, speeds[c]) for c in p2)
                    out.append(line_for(rng.choice(["Axyx", "Byxy", "ABxyxy"]), rng, alg1=a1, alg2=a2))
        # node level: everything (or one direction) lost for L seconds, then reliable delivery for
        # peer timeout + retry horizon + slack; connection and payload in both directions checked at the end
        for L in ([0, 1, 5, 30, 100, 119, 121, 125, 130, 200, 300] if thorough else [0, 5, 119, 125, 200]):
            for who in (0, 1, 2):
                for dual in (False, True):
                    if dual and not thorough and L not in (5, 125):
                        continue
                    s = nu.Scenario()
                    s.node(1, mode="tun-router", claims=["0a000100/24"])
                    s.node(2, mode="tun-router", claims=["0a000200/24"])
                    s.add("R.1.2")
                    if rng.random() < 0.5:
                        s.add("C.1.2")
                    if dual:
                        s.add("R.2.1", "C.2.1")
                    # who = 0: nothing gets through; 1 / 2: everything that node sends is lost, the other direction works
                    muted = [1, 2] if who == 0 else [who]
                    if L:
                        s.add(*["M.%d.1" % m for m in muted])
                    for _ in range(L):
                        s.t += 1
                        s.add("T.%d" % s.t, "H.1", "H.2", "A")
                    if L:
                        s.add(*["M.%d.0" % m for m in muted])
                    for _ in range(300 + 120 + 30):
                        s.t += 1
                        s.add("T.%d" % s.t, "H.1", "H.2", "A")
                    s.add("S.1", "S.2")
                    s.add("P.1.%s" % nu.ipv4_packet(nu.node_ip(1), nu.node_ip(2), b"\x11"), "A", "O.2")
                    s.add("P.2.%s" % nu.ipv4_packet(nu.node_ip(2), nu.node_ip(1), b"\x22"), "A", "O.1")
                    out.append(s.line())
        # a LATE first ping: everything is lost, but the very first ping is delivered d seconds late (the responder then answers
        # and keeps repeating its pong into the void for another 120 s); the initiator gives up at 120 s and dials again while the
        # responder is still answering the abandoned attempt; from then on delivery is reliable
        for d in ([30, 80, 110, 119] if thorough else [80, 110]):
            for U in ([121, 125, 150, 190, 230] if thorough else [125, 150]):
                s = nu.Scenario()
                s.node(1, mode="tun-router", claims=["0a000100/24"])
                s.node(2, mode="tun-router", claims=["0a000200/24"])
                s.add("R.1.2", "M.1.1", "M.2.1", "C.1.2")
                for _ in range(U):
                    s.t += 1
                    s.add("T.%d" % s.t, "H.1", "H.2")
                    if s.t == 1 + d:
                        s.add("D.0")
                    s.add("A")
                s.add("M.1.0", "M.2.0", "C.1.2", "A")
                for _ in range(300 + 120 + 30):
                    s.t += 1
                    s.add("T.%d" % s.t, "H.1", "H.2", "A")
                s.add("S.1", "S.2")
                s.add("P.1.%s" % nu.ipv4_packet(nu.node_ip(1), nu.node_ip(2), b"\x11"), "A", "O.2")
                s.add("P.2.%s" % nu.ipv4_packet(nu.node_ip(2), nu.node_ip(1), b"\x22"), "A", "O.1")
                out.append(s.line())
        # CROSSED LATE PINGS after both ends gave up: both dial during a blackout longer than the retry horizon and give up; then the
        # last ping of each end arrives after all (each end now holds a responder state for the other and keeps sending its pong), and
        # from then on delivery is reliable.  The two responder states must not keep each other alive: they expire, the configured
        # peers are dialled again, the nodes connect.
        for U in ([121, 122, 123, 126, 140] if thorough else [122, 126]):
            for order in (0, 1):
                s = nu.Scenario()
                s.node(1, mode="tun-router", claims=["0a000100/24"])
                s.node(2, mode="tun-router", claims=["0a000200/24"])
                s.add("M.1.1", "M.2.1", "C.1.2", "C.2.1")
                for _ in range(U):
                    s.t += 1
                    s.add("T.%d" % s.t, "H.1", "H.2")
                s.add("S.1", "S.2")
                if order == 0:
                    s.add("L.2.1.i.0", "L.1.2.i.1")      # (the first delivery makes node 2 send a pong: its last ping is then one older)
                else:
                    s.add("L.1.2.i.0", "L.2.1.i.1")
                s.add("M.1.0", "M.2.0", "R.1.2", "R.2.1")
                # (while both responder states live each delivered pong is answered with a pong - see DESIGN, "bounce"; only the latest
                # handshake datagram of each end is delivered per second here and the echoes are dropped, the outcome is the same)
                for _ in range(125):
                    s.t += 1
                    s.add("T.%d" % s.t, "H.1", "H.2", "L.2.1.i.0", "L.1.2.i.0", "Z.0")
                for _ in range(300 + 120 + 30 - 125):
                    s.t += 1
                    s.add("T.%d" % s.t, "H.1", "H.2", "A")
                s.add("S.1", "S.2")
                s.add("P.1.%s" % nu.ipv4_packet(nu.node_ip(1), nu.node_ip(2), b"\x11"), "A", "O.2")
                s.add("P.2.%s" % nu.ipv4_packet(nu.node_ip(2), nu.node_ip(1), b"\x22"), "A", "O.1")
                out.append(s.line())
        # a SECOND handshake with an address one side still holds as a peer: (i) a node restarts on the same address (fresh state and
        # node id) and the connection is set up again, inside and after the 60 s in which the old initiator keeps its handshake state;
        # (ii) a one-sided time-out: with a short peer timeout one node is mute long enough for the other to drop it while it keeps
        # the other.  Afterwards delivery is reliable; both must end up connected with payload flowing both ways.
        for after in ([5, 30, 59, 70, 130, 250] if thorough else [5, 70, 250]):
            for who in (1, 2):
                for redial in ("restarted", "other", "both"):
                    if not thorough and rng.random() < 0.4:
                        continue
                    s = nu.Scenario()
                    s.node(1, mode="tun-router", claims=["0a000100/24"])
                    s.node(2, mode="tun-router", claims=["0a000200/24"])
                    s.add("R.1.2", "C.1.2", "A")
                    s.tick(after)
                    s.node(who, mode="tun-router", claims=["%s/24" % bytes([10, 0, who, 0]).hex()])     # restart
                    o = 3 - who
                    if redial in ("restarted", "both"):
                        s.add("R.%d.%d" % (who, o), "C.%d.%d" % (who, o))
                    if redial in ("other", "both"):
                        s.add("C.%d.%d" % (o, who))
                    s.add("A")
                    for _ in range(300 + 120 + 30):
                        s.t += 1
                        s.add("T.%d" % s.t, "H.1", "H.2", "A")
                    s.add("S.1", "S.2")
                    s.add("P.1.%s" % nu.ipv4_packet(nu.node_ip(1), nu.node_ip(2), b"\x11"), "A", "O.2")
                    s.add("P.2.%s" % nu.ipv4_packet(nu.node_ip(2), nu.node_ip(1), b"\x22"), "A", "O.1")
                    out.append(s.line())
        # a late DUPLICATE of the initiator's ping reaches the responder after the initiator stopped lingering (a second handshake
        # entry next to the peer entry), then the network is down for longer than the peer timeout; afterwards delivery is reliable
        for pt in ([10, 20, 40] if thorough else [20]):
            for late in ([61, 70, 200] if thorough else [70, 200]):
                s = nu.Scenario()
                s.node(1, mode="tun-router", pt=pt, claims=["0a000100/24"])
                s.node(2, mode="tun-router", pt=pt, claims=["0a000200/24"])
                s.add("R.1.2", "R.2.1", "C.1.2", "A")
                s.tick(late)
                s.add("J.0.2.1", "A")
                s.tick(rng.choice([0, 1, 5]))
                s.add("M.1.1", "M.2.1")
                for _ in range(pt + 8):
                    s.t += 1
                    s.add("T.%d" % s.t, "H.1", "H.2", "A")
                s.add("M.1.0", "M.2.0")
                for _ in range(pt + 120 + 30):          # the bound of the property: peer timeout + retry horizon (+ slack)
                    s.t += 1
                    s.add("T.%d" % s.t, "H.1", "H.2", "A")
                s.add("S.1", "S.2")
                s.add("P.1.%s" % nu.ipv4_packet(nu.node_ip(1), nu.node_ip(2), b"\x11"), "A", "O.2")
                s.add("P.2.%s" % nu.ipv4_packet(nu.node_ip(2), nu.node_ip(1), b"\x22"), "A", "O.1")
                out.append(s.line())
        # a peer learnt from a BEACON as a plain IPv4 address (the beacon path dials through connect_sock directly; a dual-stack socket
        # shows the peer's replies as coming from the IPv4-mapped form): perfectly reliable network, both must connect
        for who in (1, 2):
            s = nu.Scenario()
            s.node(1, mode="tun-router", pt=60, claims=["0a000100/24"])
            s.node(2, mode="tun-router", pt=60, claims=["0a000200/24"])
            s.add("V.%d.%d" % (who, 3 - who), "A")
            for _ in range(60 + 120 + 10):
                s.t += 1
                s.add("T.%d" % s.t, "H.1", "H.2", "A")
            s.add("S.1", "S.2")
            s.add("P.1.%s" % nu.ipv4_packet(nu.node_ip(1), nu.node_ip(2), b"\x11"), "A", "O.2")
            s.add("P.2.%s" % nu.ipv4_packet(nu.node_ip(2), nu.node_ip(1), b"\x22"), "A", "O.1")
            out.append(s.line())
        # a live node's public address changes (NAT rebinding, same node id): it re-connects from the new address while the other end
        # still holds the entry for the old one; within peer timeout + retry horizon both hold each other and payload passes both ways
        out += ru.rebind_cases(rng, 12 if thorough else 3)
        for pt in ([10, 20, 40] if thorough else [20]):
            for who in (1, 2):
                s = nu.Scenario()
                s.node(1, mode="tun-router", pt=pt, claims=["0a000100/24"])
                s.node(2, mode="tun-router", pt=pt, claims=["0a000200/24"])
                s.add("R.1.2", "R.2.1", "C.1.2", "A")
                s.tick(70)
                s.add("M.%d.1" % who)                       # `who` is mute: the other drops it, `who` keeps hearing the other
                for _ in range(pt + 8):
                    s.t += 1
                    s.add("T.%d" % s.t, "H.1", "H.2", "A")
                s.add("M.%d.0" % who)
                for _ in range(pt + 120 + 30):
                    s.t += 1
                    s.add("T.%d" % s.t, "H.1", "H.2", "A")
                s.add("S.1", "S.2")
                s.add("P.1.%s" % nu.ipv4_packet(nu.node_ip(1), nu.node_ip(2), b"\x11"), "A", "O.2")
                s.add("P.2.%s" % nu.ipv4_packet(nu.node_ip(2), nu.node_ip(1), b"\x22"), "A", "O.1")
                out.append(s.line())
        return out

    def model_line(self, line, impl_out):
        return nu.model_line(line, impl_out) if line.startswith("node ") else line

    @staticmethod
    def _v4_lengths(line, out):
        # a peer dialled through its IPv4 form is known under two spellings of one address (the IPv4-mapped form it is seen at and the
        # form it reports itself); the model's address space identifies them, so announcements differ in LENGTH only (one 18-byte
        # address entry) and dumps list the address once or twice: lengths of data datagrams are not compared on such lines and
        # address lists are compared as sets
        if " V." not in line:
            return out

        def dedup(tok):
            if not tok.startswith("peers="):
                return tok
            tok = re.sub(r"own=\[([^\]]*)\]", lambda m: "own=[%s]" % ",".join(sorted(set(m.group(1).split(",")), key=lambda x: int(x) if x else 0)), tok)
            return re.sub(r":(\d+(?:\+\d+)+)([,\]])", lambda m: ":" + "+".join(sorted(set(m.group(1).split("+")), key=int)) + m.group(2), tok)
        return " ".join(dedup(t) for t in re.sub(r":D\d+", ":D", out).split())

    def canon_impl(self, line, out):
        return self._v4_lengths(line, nu.canon_impl(out)) if line.startswith("node ") else super().canon_impl(line, out)

    def canon_model(self, line, out):
        return self._v4_lengths(line, out) if line.startswith("node ") else super().canon_model(line, out)

    def nontrivial(self, line, impl_out):
        if line.startswith("node "):
            return True
        qs = [pu.parse_q(x) for x in impl_out.split() if x.startswith("q:")]
        return len(qs) >= 4 and qs[2]["core"] != "-" and qs[3]["core"] != "-"

    def tag(self, line, impl_out):
        if line.startswith("node "):
            return "node:loss"
        qs = [pu.parse_q(x) for x in impl_out.split() if x.startswith("q:")]
        if len(qs) < 4:
            return "hs:?"
        st = lambda q: "done" if q["core"] != "-" else "st" + q["init"].split("/")[0]
        return "hs:%s/%s->%s/%s" % (st(qs[0]), st(qs[1]), st(qs[2]), st(qs[3]))

    def oracle_node(self, line, impl_out):
        if " %s " % ru.REBIND_MARK in line:
            return ru.oracle_rebind(line, impl_out)
        ops = line.split()[1:]
        outs = impl_out.split()
        if len(ops) != len(outs):
            return "driver returned %d results for %d ops" % (len(outs), len(ops))
        if any(r.startswith("panic") for r in outs):
            return "panic"
        dumps = {int(o.split(".")[1]): nu.parse_dump(r) for o, r in zip(ops, outs) if o.startswith("S.")}
        for me, other in ((1, 2), (2, 1)):
            if other not in set(int(p[0]) for p in dumps[me]["peers_l"]):
                return "delivery was reliable for peer timeout + retry horizon + 30 s but node %d is not connected to node %d" % (me, other)
        w2, w1 = [r for o, r in zip(ops, outs) if o in ("O.2", "O.1")]
        if w2 == "w-" or w1 == "w-":
            return "connected but payload does not get through in both directions (%s, %s)" % (w2[:20], w1[:20])
        return None

    def oracle(self, line, impl_out):
        if line.startswith("node "):
            return self.oracle_node(line, impl_out)
        ops = line.split()[1:]
        outs = impl_out.split()
        if len(ops) != len(outs):
            return "driver returned %d results for %d ops" % (len(outs), len(ops))
        timeout_family = max((len(run) for run in "".join(o[2] if o in ("E.1", "E.2") else " " for o in ops[2:]).split()), default=0) >= 110
        succ = {1: [], 2: []}
        for i, (o, r) in enumerate(zip(ops, outs)):
            if r.startswith("panic"):
                return "panic at op %d (%s)" % (i, o)
            if r.startswith("Init"):
                obj = int(o.split(".")[1])
                succ[obj].append(r)
        for obj, want in ((1, "bb"), (2, "aa")):
            if len(succ[obj]) > 1:
                return "object %d completed the handshake %d times" % (obj, len(succ[obj]))
            for r in succ[obj]:
                got = r.split(":")[1].split(">")[0]
                if got != want:
                    return "object %d received payload %s, the peer offered %s" % (obj, got, want)
        qs = [pu.parse_q(x) for x in outs if x.startswith("q:")]
        q1, q2 = qs[-2], qs[-1]
        if succ[1] and succ[2]:
            kinds = sorted(r.split(">")[1][0] for r in succ[1] + succ[2] if ">" in r)
            if kinds != ["D", "I"]:
                return "both completed but not exactly one of them started key rotation (replies %s)" % (succ[1] + succ[2])
            if q1["alg"] != q2["alg"]:
                return "both completed with different ciphers %s / %s" % (q1["alg"], q2["alg"])
            if q1["core"].split("/")[1] == q2["core"].split("/")[1]:
                return "both completed with the same nonce half"
            if outs[-3] != "Msg0:0a0b" or outs[-1] != "Msg0:0c0d":
                return "both completed but a probe does not open at the other end (%s, %s)" % (outs[-3], outs[-1])
        # liveness once delivery is reliable: both complete, unless an object was closed for good
        if "fatal" in outs and timeout_family:
            # silence for the whole retry horizon: the attempt must have been given up, nothing else is required
            return None
        if "fatal" in outs:
            return "a handshake between two mutually trusting objects ended in a fatal error at op %d (%s)" % (outs.index("fatal"), ops[outs.index("fatal")])
        if not (succ[1] and succ[2]):
            return "delivery became reliable but the handshake did not complete on both ends (%s / %s)" % (q1["init"], q2["init"])
        return None


PROP = C05()

"""C06 - cipher negotiation is symmetric and cannot be downgraded"""
import itertools
from check import Property
from props import pcutil as pu


class C06(Property):
    id = "C06"
    rule = ("real handshakes between two PeerCrypto objects with prescribed speeds: every pair of {plain} x ordered sub-lists of "
            "{aes128, aes256, chacha20} (32 x 32 = 1024 pairs) x speed vectors from a grid with ties, zero, denormal and huge values "
            "x both initiator assignments (quick: 2 speed vectors per pair; thorough: 12), plus single-field edits of the list in transit "
            "(bit flips inside the signed ping/pong); non-trivial = distinct case in which a cipher (not plain, not failure) is negotiated")
    assumptions = ["speeds are non-negative, non-NaN f32 (order of bit patterns = numeric order)", "ideal AEAD / symbolic ECDH / unforgeable signatures (Conn.v)"]

    def gen(self, rng, tier):
        thorough = tier == "thorough"
        out = []
        lists = pu.ordered_lists()
        grid = list(pu.SPEEDS.values())
        nvec = 12 if thorough else 2
        for pa, la in itertools.product([False, True], lists):
            for pb, lb in itertools.product([False, True], lists):
                for v in range(nvec):
                    mode = rng.random()
                    if mode < 0.35:
                        # ties: all speeds equal on both sides
                        s = rng.choice(grid)
                        sa = {a: s for a in (1, 2, 3)}
                        sb = dict(sa)
                    elif mode < 0.6:
                        # equal min-speeds through crossing values
                        x, y = rng.sample(grid, 2)
                        sa = {1: x, 2: y, 3: x}
                        sb = {1: y, 2: x, 3: y}
                    else:
                        sa = {a: rng.choice(grid) for a in (1, 2, 3)}
                        sb = {a: rng.choice(grid) for a in (1, 2, 3)}
                    A = pu.algos(pa, [(a, sa[a]) for a in la])
                    B = pu.algos(pb, [(a, sb[a]) for a in lb])
                    s1, s2 = rng.sample(range(1, 1 << 31), 2)
                    o1 = pu.obj(1, 1, s1, 1, [1], A, "aa")
                    o2 = pu.obj(2, 2, s2, 1, [1], B, "bb")
                    ini = rng.choice([1, 2]) if not thorough else (v % 2) + 1
                    oth = 3 - ini
                    out.append("pc %s %s I.%d D.%d.0 D.%d.1 D.%d.2 Q.1 Q.2" % (o1, o2, ini, oth, ini, oth))
        # edits of the list in transit: flip bits in the algorithm part of ping (datagram 0) and pong (datagram 1)
        for _ in range(3000 if thorough else 300):
            A = pu.algos(rng.random() < 0.3, [(a, rng.choice(grid)) for a in rng.choice(lists[1:])])
            B = pu.algos(rng.random() < 0.3, [(a, rng.choice(grid)) for a in rng.choice(lists[1:])])
            s1, s2 = rng.sample(range(1, 1 << 31), 2)
            o1 = pu.obj(1, 1, s1, 1, [1], A, "aa")
            o2 = pu.obj(2, 2, s2, 1, [1], B, "bb")
            pos = rng.randrange(9, 110)
            bit = rng.randrange(8)
            if rng.random() < 0.5:
                out.append("pc %s %s I.1 F.2.0.%d.%d Q.2 D.2.0 D.1.1 D.2.2 Q.1 Q.2" % (o1, o2, pos, bit))
            else:
                out.append("pc %s %s I.1 D.2.0 F.1.1.%d.%d Q.1 D.1.1 D.2.2 Q.1 Q.2" % (o1, o2, pos, bit))
        return out

    def nontrivial(self, line, impl_out):
        return "alg=AES" in impl_out or "alg=CHACHA" in impl_out

    def tag(self, line, impl_out):
        t = impl_out.split()
        qs = [pu.parse_q(x) for x in t if x.startswith("q:")]
        return "hs:" + "/".join(q["alg"] + ("+" if q["core"] != "-" or q["plain"] == "1" else "-") for q in qs[-2:])

    def _lists(self, line):
        t = line.split()
        res = []
        for tok in t[1:3]:
            spec = tok.split(".")[6]
            pl, lst = spec.split("|")
            l = [] if lst == "-" else [(int(e.split(":")[0]), pu.f32(e.split(":")[1])) for e in lst.split(",")]
            res.append((pl == "p", l))
        return res

    def oracle(self, line, impl_out):
        if "panic" in impl_out.split():
            return "panic during negotiation"
        t = line.split()
        outs = impl_out.split()
        qs = [pu.parse_q(x) for x in outs if x.startswith("q:")]
        (pa, la), (pb, lb) = self._lists(line)
        edited = any(x.startswith("F.") for x in t)
        q1, q2 = qs[-2], qs[-1]
        done1 = q1["core"] != "-" or q1["plain"] == "1"
        done2 = q2["core"] != "-" or q2["plain"] == "1"
        if edited:
            # the edited message must have been rejected (first Q after the F), and the verbatim one still works
            fi = [i for i, x in enumerate(t[3:]) if x.startswith("F.")][0]
            if outs[fi + 2] not in ("err", "-"):
                return "a handshake message with an edited byte was not rejected: " + outs[fi + 2]
        common = [a for a, _ in la if a in dict(lb)]
        if pa and pb:
            want = "PLAIN"
        elif not common:
            want = None
        else:
            da, db = dict(la), dict(lb)
            best = max(min(da[a], db[a]) for a in common)
            want = set(pu.NAMES[a] for a in common if min(da[a], db[a]) == best)
        if want is None and not edited:
            # the responder must refuse the ping outright: no reply, whichever side initiated
            if outs[3] != "fatal":
                return "ping without any common cipher (and not both plain) was answered with %s instead of failing cleanly" % outs[3]
        if want is None:
            if done1 or done2:
                return "handshake completed although the ends share no cipher (and not both allow plain)"
            if "fatal" not in outs:
                return "no common cipher but the handshake did not fail cleanly"
            return None
        if not (done1 and done2):
            return "handshake failed although the ends share %s" % (want if isinstance(want, str) else sorted(want))
        if q1["alg"] != q2["alg"]:
            return "the two ends selected different ciphers: %s vs %s" % (q1["alg"], q2["alg"])
        if want == "PLAIN":
            if q1["alg"] != "PLAIN" or q1["plain"] != "1" or q2["plain"] != "1":
                return "both ends allow plain but %s was selected" % q1["alg"]
        else:
            if q1["alg"] == "PLAIN":
                return "unencrypted operation although not both ends enabled it"
            if q1["alg"] not in want:
                return "selected %s, but the common cipher(s) whose slower side is fastest are %s" % (q1["alg"], sorted(want))
        return None


PROP = C06()

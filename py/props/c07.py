"""C07 - key rotation never strands traffic and keeps keys fresh"""
import itertools
from check import Property
from props import pcutil as pu

ALG = "-|1:44160000,2:43fa0000,3:43c80000"
# schedule letters
LETTERS = {
    "a": ["C.1.119", "E.1"],            # rotation cycle at A
    "b": ["C.2.119", "E.2"],            # rotation cycle at B
    "x": ["L.2.1.r.0"],                 # deliver A's latest rotation message to B
    "y": ["L.1.2.r.0"],                 # deliver B's latest rotation message to A
    "X": ["L.2.1.r.1"],                 # deliver A's previous rotation message to B (stale / duplicate)
    "Y": ["L.1.2.r.1"],
    "u": ["L.2.1.r.2"],
    "v": ["L.1.2.r.2"],
    "t": ["E.1", "E.2"],                # one ordinary second on both ends (window ticks)
    "q": ["Q.1", "Q.2"],                # snapshot (used by the freshness oracle)
}


def probe(n):
    h = "%04x" % (n & 0xffff)
    return ["S.1.0." + h, "L.2.1.d.0", "S.2.0." + h, "L.1.2.d.0"]


def line_for(schedule, rng, alg=ALG, first_delivered=True, ini=1):
    s1, s2 = rng.sample(range(1, 1 << 31), 2)
    toks = [pu.obj(1, 1, s1, 1, [1], alg, "aa"), pu.obj(2, 2, s2, 1, [1], alg, "bb")]
    oth = 3 - ini
    toks += ["I.%d" % ini, "D.%d.0" % oth, "D.%d.1" % ini, "D.%d.2" % oth]
    if first_delivered:
        toks += ["D.%d.3" % ini]
    n = 0
    toks += probe(n)
    for ch in schedule:
        toks += LETTERS[ch]
        n += 1
        toks += probe(n)
    toks += ["Q.1", "Q.2"]
    return "pc " + " ".join(toks)


class C07(Property):
    id = "C07"
    rule = ("two real PeerCrypto objects after a real handshake; schedules over {cycle at A, cycle at B, deliver latest / previous / older "
            "rotation message to either end (duplicates, reordering, loss = never delivered), ordinary second}: exhaustive to depth 6 "
            "(quick) / 8 (thorough) plus random schedules of 100+ cycles; after EVERY step a fresh probe sealed by each end must open at "
            "the other with identical bytes; non-trivial = distinct schedule in which at least one end switches its sealing key")
    assumptions = ["symbolic ECDH with fresh ephemeral keys, ideal AEAD (Conn.v / Core.v)"]

    def gen(self, rng, tier):
        thorough = tier == "thorough"
        out = []
        alpha = "abxyXY"
        depth = 8 if thorough else 6
        for n in range(1, depth + 1):
            for sched in itertools.product(alpha, repeat=n):
                if n == depth or sched[-1] in "xyXY" or True:
                    out.append(line_for(sched, rng, first_delivered=(rng.random() < 0.7), ini=rng.choice([1, 2])))
        # freshness: k regular rounds, one lost message (its delivery is skipped), then regular rounds in
        # every relative order of the two ends' cycles; marked with the snapshot letter q
        orders = [["a", "x", "b", "y"], ["b", "y", "a", "x"], ["a", "b", "x", "y"], ["a", "b", "y", "x"], ["b", "a", "x", "y"], ["b", "a", "y", "x"]]
        for k in range(0, 5 if thorough else 4):
            for lost in "xy":
                for o1 in orders:
                    for o2 in orders:
                        sched = []
                        for _ in range(k):
                            sched += o1
                        # this round loses one message; now and then the following one or two rounds lose the same end's message too
                        # (the original AND its repeats are lost)
                        for _ in range(rng.choice([1, 1, 2, 3])):
                            sched += [c for c in o1 if c != lost]
                        sched += ["q"]
                        for _ in range(7):
                            sched += o2
                        sched += ["q"]
                        out.append(line_for(sched, rng, first_delivered=True, ini=rng.choice([1, 2])))
        for _ in range(600 if thorough else 60):
            L = rng.choice([40, 120, 250])
            sched = []
            for _ in range(L):
                r = rng.random()
                if r < 0.5:
                    # well-behaved round
                    sched += rng.choice([["a", "x", "b", "y"], ["b", "y", "a", "x"], ["a", "b", "x", "y"], ["a", "b", "y", "x"]])
                else:
                    sched.append(rng.choice("abxyXYuvt"))
            alg = rng.choice([ALG, "-|3:43c80000", "-|2:43fa0000"])
            out.append(line_for(sched, rng, alg=alg, first_delivered=(rng.random() < 0.7), ini=rng.choice([1, 2])))
        return out

    def nontrivial(self, line, impl_out):
        qs = [pu.parse_q(x) for x in impl_out.split() if x.startswith("q:")]
        return any(q["core"] not in ("-",) and not q["core"].startswith("0/") for q in qs)

    def tag(self, line, impl_out):
        qs = [pu.parse_q(x) for x in impl_out.split() if x.startswith("q:")]
        if len(qs) < 2:
            return "rot:?"
        return "rot:mid%s/%s" % (min(9, int(qs[0]["rot"].split("/")[0]) if qs[0]["rot"] != "-" else -1),
                                   min(9, int(qs[1]["rot"].split("/")[0]) if qs[1]["rot"] != "-" else -1))

    def oracle(self, line, impl_out):
        ops = line.split()[1:]
        outs = impl_out.split()
        if len(ops) != len(outs):
            return "driver returned %d results for %d ops" % (len(outs), len(ops))
        if "panic" in outs:
            return "panic at op %d (%s)" % (outs.index("panic"), ops[outs.index("panic")])
        # freshness after a single loss: between the two inner snapshots both ends must have moved on
        qidx = [i for i, o in enumerate(ops) if o.startswith("Q.")]
        if len(qidx) == 6:
            qs = [pu.parse_q(outs[i]) for i in qidx]
            for end, (qa, qb) in enumerate(((qs[0], qs[2]), (qs[1], qs[3])), 1):
                ma, mb = int(qa["rot"].split("/")[0]), int(qb["rot"].split("/")[0])
                if mb < ma + 4:
                    return ("after one to three rounds that lost the rotation message of one end, followed by 7 regular rounds, end %d advanced its rotation message id only from "
                            "%d to %d: a lost message must only postpone the next key change") % (end, ma, mb)
        last_probe = None
        for i, (o, r) in enumerate(zip(ops, outs)):
            if o.startswith("S."):
                last_probe = o.split(".")[3]
                if not r.startswith("ok>D"):
                    return "probe could not be sealed at op %d: %s" % (i, r)
            elif o.startswith("L.") and o.split(".")[3] == "d":
                if r != "Msg0:" + last_probe:
                    return ("fresh payload sealed by end %s does not open at end %s after step %d (%s): the sealing key is not held by the "
                            "peer under that key id") % (o.split(".")[2], o.split(".")[1], i, r)
        return None


PROP = C07()

"""C20 - configuration sources combine as documented; prefix length -> netmask never panics."""
import itertools
from check import Property

# option table: (dump key, file key, args key, kind)
#   kind V: always-present value with a default; O: optional; the documented defaults below
SCALARS = [
    ("dtype", "dtype", "type", "enum2"), ("dname", "dname", "device", "str"), ("dpath", "dpath", "dpath", "str"),
    ("ip", "ip", "ip", "str"), ("ifup", "ifup", "ifup", "str"), ("ifdown", "ifdown", "ifdown", "str"),
    ("listen", "listen", "listen", "str"), ("pt", "pt", "pt", "num"), ("ka", "ka", "ka", "num"),
    ("bstore", "bstore", "bstore", "str"), ("bload", "bload", "bload", "str"), ("bint", "bint", "bint", "num"),
    ("bpw", "bpw", "bpw", "str"), ("mode", "mode", "mode", "enum4"), ("st", "st", "st", "num"),
    ("pid", "pid", "pid", "str"), ("stats", "stats", "stats", "str"), ("sdserver", "sdserver", "sdserver", "str"),
    ("sdprefix", "sdprefix", "sdprefix", "str"), ("user", "user", "user", "str"), ("group", "group", "group", "str"),
    ("pw", "pw", "pw", "str"), ("priv", "priv", "priv", "str"), ("pub", "pub", "pub", "str"),
]
DEFAULTS = {"dtype": "0", "dname": "vpncloud%d", "listen": "3210", "pt": "300", "bint": "3600", "mode": "0", "st": "300"}
LISTS = [("peers", "peers", "peers"), ("claims", "claims", "claims"), ("adv", "adv", "adv"), ("trusted", "trusted", "trusted")]
# switches: (dump key, file key, args flag, value the flag forces, default)
SWITCHES = [("fix", "dfix", "fix", "1", "0"), ("ac", "ac", "noac", "0", "1"), ("pf", "pf", "nopf", "0", "1"), ("daemon", None, "daemon", "1", "0")]
ALGO = ["plain", "aes128", "aes256", "chacha20"]
DUMP_ORDER = ["dtype", "dname", "dpath", "fix", "ip", "adv", "ifup", "ifdown", "pw", "priv", "pub", "trusted", "algos", "listen", "peers",
              "pt", "ka", "bstore", "bload", "bint", "bpw", "mode", "st", "claims", "ac", "pf", "daemon", "pid", "stats", "sdserver",
              "sdprefix", "user", "group", "hook", "hooks"]


def val(rng, kind):
    if kind == "enum2":
        return str(rng.randrange(2))
    if kind == "enum4":
        return str(rng.randrange(4))
    if kind == "num":
        return str(rng.choice([0, 1, 59, 300, 3600, 65535, 65536, 4294967295, rng.randrange(100000)]))
    return str(rng.randrange(1, 900))


def two_vals(rng, kind):
    a = val(rng, kind)
    for _ in range(50):
        b = val(rng, kind)
        if b != a:
            return a, b
    return a, a


def show(kind, v):
    return ("s" + v) if kind == "str" else v


def spec(d):
    return ";".join("%s=%s" % kv for kv in d.items()) if d else "-"


def fix_args(a):
    """respect the argument parser's declared constraints (not part of the property)"""
    if "pw" in a and "priv" in a:
        del a["priv"]
    if "sdprefix" in a and "sdserver" not in a:
        a["sdserver"] = "77"
    return a


def parse_spec(s):
    return dict(kv.split("=", 1) for kv in s.split(";") if kv) if s != "-" else {}


def expected(fs, as_):
    """the documented combination rule, written from the property statement"""
    f, a = parse_spec(fs), parse_spec(as_)
    e = {}
    for dk, fk, ak, kind in SCALARS:
        if ak in a:
            e[dk] = show(kind, a[ak])
        elif fk in f:
            e[dk] = show(kind, f[fk])
        else:
            e[dk] = DEFAULTS.get(dk, "-")
    for dk, fk, ak in LISTS:
        l = [x for x in f.get(fk, "").split(",") if x] + [x for x in a.get(ak, "").split(",") if x]
        e[dk] = ",".join("s" + x for x in l) if l else "-"
    for dk, fk, ak, forced, dflt in SWITCHES:
        if ak in a:
            e[dk] = forced
        elif fk and fk in f:
            e[dk] = f[fk]
        else:
            e[dk] = dflt
    # cipher list: replaced, not accumulated
    al = [x for x in a.get("algos", "").split(",") if x] or [x for x in f.get("algos", "").split(",") if x]
    e["algos"] = ",".join(ALGO[int(x)] for x in al) if al else "-"
    # hooks: plain hook = last plain on the command line, else file; per-event hooks accumulate, command line wins per event
    plain = [x for x in a.get("hook", "").split(",") if x and ":" not in x]
    def hs(v):
        # per-event scripts: every fifth id stands for a script text that itself contains colons (a URL, host:port, PATH=/a:/b)
        return ("s%s:p:q" % v) if int(v) % 5 == 0 else ("s" + v)
    e["hook"] = ("s" + plain[-1]) if plain else (("s" + f["hook"]) if "hook" in f else "-")
    hm = {}
    for kv in [x for x in f.get("hooks", "").split(",") if x]:
        k, v = kv.split(":")
        hm["e" + k] = hs(v)
    for kv in [x for x in a.get("hook", "").split(",") if x and ":" in x]:
        k, v = kv.split(":")
        hm["e" + k] = hs(v)
    e["hooks"] = ",".join("%s:%s" % (k, hm[k]) for k in sorted(hm)) if hm else "-"
    return e


def parse_dump(s):
    return dict(kv.split("=", 1) for kv in s.split(";"))


# ---- netmask ----
GOOD_IPS = ["10.0.0.1", "192.168.1.254", "0.0.0.0", "255.255.255.255", "1.2.3.4"]
BAD_IPS = ["", "10.0.0", "10.0.0.1.1", "256.1.1.1", "abc", "10.0.0.-1", "1.2.3.4 ", " 1.2.3.4", "::1", "1..2.3"]


def ref_netmask(text):
    if "/" in text:
        pos = text.index("/")
        ip, ln = text[:pos], text[pos + 1:]
    else:
        ip, ln = text, "24"
    digits = ln[1:] if ln.startswith("+") else ln
    if not digits or not all(c in "0123456789" for c in digits) or int(digits) > 255:
        return "err"
    p = int(digits)
    if p > 32:
        return "err"
    if ip not in GOOD_IPS:
        return "err"
    mask = (0xffffffff << (32 - p)) & 0xffffffff
    return "ok %08x" % mask


class C20(Property):
    id = "C20"
    rule = ("per option every presence combination (absent / file / command line / both) with distinct values; all pairs of options x 16 "
            "combinations (thorough; sampled in quick); random full combinations incl. lists of 0..3 entries (explicitly empty lists too), "
            "hook maps, one-way switches, empty sub-sections; every case also makes the round trip through the YAML file form; prefix "
            "lengths 0..40, signs, blanks, non-digits, missing parts x valid/invalid address strings; non-trivial = distinct input "
            "that parsed (not argerr/fileerr/err)")

    def gen(self, rng, tier):
        thorough = tier == "thorough"
        out = ["cfg - -"]
        # 1. per option, all four presence combinations
        for dk, fk, ak, kind in SCALARS:
            for _ in range(6 if thorough else 2):
                v1, v2 = two_vals(rng, kind)
                for pf, pa in itertools.product([0, 1], [0, 1]):
                    f = {fk: v1} if pf else {}
                    a = fix_args({ak: v2} if pa else {})
                    out.append("cfg %s %s" % (spec(f), spec(a)))
        for dk, fk, ak, forced, dflt in SWITCHES:
            for fv in ([None, "0", "1"] if fk else [None]):
                for pa in [0, 1]:
                    out.append("cfg %s %s" % (spec({fk: fv} if fv is not None else {}), spec({ak: ""} if pa else {})))
        for dk, fk, ak in LISTS + [("algos", "algos", "algos")]:
            dom = 4 if dk == "algos" else 900
            for nf in [None, 0, 1, 2, 3]:
                for na in [0, 1, 2, 3]:
                    if dk == "algos" and nf == 0:
                        continue
                    f = {} if nf is None else {fk: ",".join(str(rng.randrange(1 if dk != "algos" else 0, dom)) for _ in range(nf))}
                    a = {} if na == 0 else {ak: ",".join(str(rng.randrange(1 if dk != "algos" else 0, dom)) for _ in range(na))}
                    out.append("cfg %s %s" % (spec(f), spec(a)))
        # hooks
        for _ in range(400 if thorough else 60):
            f, a = {}, {}
            if rng.random() < 0.5:
                f["hook"] = str(rng.randrange(1, 900))
            ks = rng.sample(range(1, 6), rng.randrange(0, 4))
            if ks or rng.random() < 0.3:
                f["hooks"] = ",".join("%d:%d" % (k, rng.randrange(1, 900)) for k in ks)
            items = []
            for _ in range(rng.randrange(0, 5)):
                items.append(str(rng.randrange(1, 900)) if rng.random() < 0.4 else "%d:%d" % (rng.randrange(1, 6), rng.randrange(1, 900)))
            if items:
                a["hook"] = ",".join(items)
            out.append("cfg %s %s" % (spec(f), spec(a)))
        # empty sub-sections
        for sub in ["device", "beacon", "statsd"]:
            out.append("cfg %s= -" % sub)
            out.append("cfg %s= type=1;bint=5;sdserver=3" % sub)
        # 2. pairwise across options
        opts = [(fk, ak, kind) for _, fk, ak, kind in SCALARS]
        pairs = list(itertools.combinations(range(len(opts)), 2))
        if not thorough:
            pairs = rng.sample(pairs, 40)
        for i, j in pairs:
            (f1, a1, k1), (f2, a2, k2) = opts[i], opts[j]
            v1, w1 = two_vals(rng, k1)
            v2, w2 = two_vals(rng, k2)
            for c in range(16):
                f, a = {}, {}
                if c & 1:
                    f[f1] = v1
                if c & 2:
                    a[a1] = w1
                if c & 4:
                    f[f2] = v2
                if c & 8:
                    a[a2] = w2
                out.append("cfg %s %s" % (spec(f), spec(fix_args(a))))
        # 3. random full combinations
        for _ in range(6000 if thorough else 600):
            f, a = {}, {}
            dens_f, dens_a = rng.choice([0.1, 0.5, 0.9]), rng.choice([0.1, 0.5, 0.9])
            for dk, fk, ak, kind in SCALARS:
                if rng.random() < dens_f:
                    f[fk] = val(rng, kind)
                if rng.random() < dens_a:
                    a[ak] = val(rng, kind)
            for dk, fk, ak in LISTS:
                if rng.random() < dens_f:
                    f[fk] = ",".join(str(rng.randrange(1, 900)) for _ in range(rng.randrange(0, 4)))
                if rng.random() < dens_a:
                    n = rng.randrange(1, 4)
                    a[ak] = ",".join(str(rng.randrange(1, 900)) for _ in range(n))
            if rng.random() < dens_f:
                f["algos"] = ",".join(str(rng.randrange(4)) for _ in range(rng.randrange(1, 4)))
            if rng.random() < dens_a:
                a["algos"] = ",".join(str(rng.randrange(4)) for _ in range(rng.randrange(1, 4)))
            for dk, fk, ak, forced, dflt in SWITCHES:
                if fk and rng.random() < dens_f:
                    f[fk] = str(rng.randrange(2))
                if rng.random() < dens_a * 0.6:
                    a[ak] = ""
            if rng.random() < dens_f:
                f["hook"] = str(rng.randrange(1, 900))
            if rng.random() < dens_f:
                ks = rng.sample(range(1, 6), rng.randrange(0, 4))
                f["hooks"] = ",".join("%d:%d" % (k, rng.randrange(1, 900)) for k in ks)
            if rng.random() < dens_a:
                a["hook"] = ",".join(str(rng.randrange(1, 900)) if rng.random() < 0.4 else "%d:%d" % (rng.randrange(1, 6), rng.randrange(1, 900))
                                     for _ in range(rng.randrange(1, 4)))
            for sub in ["device", "beacon", "statsd"]:
                if rng.random() < 0.1:
                    f[sub] = ""
            out.append("cfg %s %s" % (spec(f), spec(fix_args(a))))
        # 4. netmask
        for ip in GOOD_IPS + BAD_IPS:
            out.append("netmask " + (ip.encode().hex() or "-"))
            for p in list(range(0, 41)) + [255, 256, 300, 1000]:
                out.append("netmask " + ("%s/%d" % (ip, p)).encode().hex())
        for ip in GOOD_IPS[:2] + BAD_IPS[:2]:
            for ln in ["", "+", "+0", "+24", "-1", " 24", "24 ", "2 4", "0x10", "024", "000", "00032", "033", "1e1", "24/8", "/", "٣"]:
                out.append("netmask " + ("%s/%s" % (ip, ln)).encode().hex())
        return out

    def model_line(self, line, impl_out):
        t = line.split()
        if t[0] == "netmask":
            text = bytes.fromhex(t[1]).decode() if t[1] != "-" else ""
            ip = text[:text.index("/")] if "/" in text else text
            return "%s %d" % (line, 1 if ip in GOOD_IPS else 0)
        return line

    def canon_impl(self, line, out):
        t = out.split()
        if line.startswith("netmask") and t and t[0] == "ok":
            return "ok " + t[2]
        if t and t[0] == "panic":
            return "panic"
        return out

    def nontrivial(self, line, impl_out):
        return impl_out.startswith("eff") or impl_out.startswith("ok")

    def tag(self, line, impl_out):
        t = line.split()
        if t[0] == "cfg":
            nf, na = len(parse_spec(t[1])), len(parse_spec(t[2]))
            return "cfg:f%s:a%s:%s" % ("0" if nf == 0 else "1-3" if nf < 4 else "4+", "0" if na == 0 else "1-3" if na < 4 else "4+", impl_out.split()[0])
        return "netmask:" + impl_out.split()[0]

    def oracle(self, line, impl_out):
        t = line.split()
        if impl_out.startswith("panic"):
            return "panic: " + impl_out
        if t[0] == "netmask":
            text = bytes.fromhex(t[1]).decode() if t[1] != "-" else ""
            want = ref_netmask(text)
            got = impl_out
            if got != want:
                return "parse_ip_netmask(%r) gives %s, the prefix rule gives %s" % (text, got, want)
            return None
        o = impl_out.split()
        if o[0] in ("argerr", "fileerr"):
            return "generated configuration was not accepted by the parser: " + impl_out[:120]
        if o[0] != "eff" or o[2] != "rt":
            return "round trip through the file form failed: " + impl_out[-120:]
        eff, rt = parse_dump(o[1]), parse_dump(o[3])
        want = expected(t[1], t[2])
        for k in DUMP_ORDER:
            if eff.get(k) != want[k]:
                return "setting %s is %s, documented rule (command line, else file, else default; lists accumulate) gives %s" % (k, eff.get(k), want[k])
        for k in DUMP_ORDER:
            if k != "daemon" and rt.get(k) != eff.get(k):
                return "setting %s does not survive the round trip through the file form: %s -> %s" % (k, eff.get(k), rt.get(k))
        return None


PROP = C20()

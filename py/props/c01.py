"""C01 - only holders of a mutually trusted key can become peers"""
import itertools
import re
from check import Property
from props import nodeutil as nu
from props import pcutil as pu
from props import c08 as c08mod
from props import c16 as c16mod
import hashlib

ALG = "-|3:43c80000"
KEYS = [1, 2, 3, 4]
# public keys of the harness key pairs 1 and 2 (constants of harness/driver/conn.rs:key_seed; the `pubkey` cases pin them)
PUB = {1: "d819a757b619ee36f29d030822a764c2d2c9578510aaff704a7650ebad556f03",
       2: "90d8cd10fd9934169ef3bc6661e57cb01c23ce99e6d9d84177a1f0b8cf9f52b0"}


def key_hash(pub_hex, salt):
    """the 4-byte salted hash that selects the trusted key a message was signed with (SHA-256 of key || salt)"""
    return hashlib.sha256(bytes.fromhex(pub_hex) + salt).digest()[:4]


def wellformed_init_body(rng, kind):
    """a well-formed handshake message body (stage, 20-byte node-id hash, 32-byte ECDH key, cipher list, payload as the kind needs)"""
    rb = lambda n: bytes(rng.getrandbits(8) for _ in range(n))
    tlv = lambda tag, body: bytes([tag, len(body) >> 8, len(body) & 0xff]) + body
    parts = [tlv(1, bytes([{"ping": 1, "pong": 2, "peng": 3}[kind]])), tlv(2, rb(20))]
    if kind in ("ping", "pong"):
        algos = b"".join(bytes([a]) + bytes.fromhex(sp) for a, sp in rng.sample([(1, "44160000"), (2, "43fa0000"), (3, "43c80000")], rng.randrange(1, 4)))
        parts += [tlv(3, rb(32)), tlv(4, algos)]
    if kind in ("pong", "peng"):
        parts += [tlv(5, rb(rng.choice([24, 60, 200])))]
    return b"".join(parts) + b"\x00"


def partial_collision_salts(rng, want, lo, hi):
    """salts on which the hashes of the two trusted keys agree in bytes lo..hi but are different as a whole"""
    out = []
    while len(out) < want:
        salt = bytes(rng.getrandbits(8) for _ in range(4))
        h1, h2 = key_hash(PUB[1], salt), key_hash(PUB[2], salt)
        if h1[lo:hi] == h2[lo:hi] and h1 != h2:
            out.append(salt)
    return out


class C01(Property):
    id = "C01"
    rule = ("object level (real PeerCrypto objects): genuine ping / pong / peng with every single-bit flip in the quick-tier sample of "
            "positions (thorough: every bit of every byte), every truncation point, messages signed with an untrusted key and random "
            "datagrams behind the 0xff marker, presented to receivers in the stages fresh / awaiting pong / awaiting peng / completed / "
            "closing: result must be a non-fatal error, no reply, state query unchanged; node level: all trust relations of two nodes over 4 "
            "key pairs (each trusted set any subset; thorough: all 4x16x4x16, quick: sample) dialled from either side: peers exactly when "
            "each trusts the other's key; known finding F11 (truncated genuine message completed by stale receive-buffer bytes) "
            "reproduced by op V; non-trivial = distinct case with a rejected datagram or a decided trust relation")
    assumptions = ["unforgeable signatures (a message that does not verify is WBadInit), symbolic ECDH, ideal AEAD"]

    def _stage_setup(self, rng, stage):
        """objects 1 (initiator side) and 2; returns tokens, the receiver object and the index of the genuine message it expects next"""
        s1, s2 = rng.sample(range(1, 1 << 31), 2)
        toks = [pu.obj(1, 1, s1, 1, [1], ALG, "aa"), pu.obj(2, 2, s2, 1, [1], ALG, "bb")]
        if stage == "fresh":            # 2 never saw anything; genuine message 0 = ping of 1
            toks += ["I.1"]
            return toks, 2, 0, 1
        if stage == "await_pong":       # 1 sent its ping; pong of 2 is datagram 1
            toks += ["I.1", "D.2.0"]
            return toks, 1, 1, 2
        if stage == "await_peng":       # 2 sent its pong; peng of 1 is datagram 2
            toks += ["I.1", "D.2.0", "D.1.1"]
            return toks, 2, 2, 3
        if stage == "completed":        # 1 completed (waiting to close); replays of the pong
            toks += ["I.1", "D.2.0", "D.1.1", "D.2.2", "D.1.3"]
            return toks, 1, 1, 5
        if stage == "closing":
            toks += ["I.1", "D.2.0", "D.1.1", "D.2.2", "D.1.3"] + ["E.1"] * 62
            return toks, 1, 1, 5
        raise ValueError(stage)

    def gen(self, rng, tier):
        thorough = tier == "thorough"
        out = []
        stages = ["fresh", "await_pong", "await_peng", "completed", "closing"]
        for stage in stages:
            for rep in range(3 if thorough else 1):
                base, recv, k, ncap = self._stage_setup(rng, stage)
                # which captured datagrams to mutate: the one expected next and every earlier handshake datagram
                for kk in sorted(set([k] + list(range(0, min(3, ncap))))):
                    length_guess = 260
                    positions = list(range(0, length_guess)) if thorough else sorted(set(list(range(0, 24)) + [rng.randrange(24, length_guess) for _ in range(40)]))
                    toks = list(base) + ["Q.%d" % recv]
                    for pos in positions:
                        for bit in (range(8) if thorough else [rng.randrange(8)]):
                            toks += ["F.%d.%d.%d.%d" % (recv, kk, pos, bit), "Q.%d" % recv]
                    out.append("pc " + " ".join(toks))
                    toks = list(base) + ["B.%d" % kk, "Q.%d" % recv]
                    for cut in (range(0, 130) if thorough else sorted(set([0, 1, 2, 8, 9, 12, 13, 36, 40, 70, 100, 129] + [rng.randrange(0, 130) for _ in range(30)]))):
                        toks += ["T.%d.%d.%d" % (recv, kk, cut), "Q.%d" % recv]
                    out.append("pc " + " ".join(toks))
                # untrusted signer: a third object with key 2 (not trusted by the receiver) sends genuine messages
                s3 = rng.randrange(1, 1 << 31)
                toks = list(base) + [pu.obj(3, 3, s3, 2, [1, 2], ALG, "cc"), "Q.%d" % recv, "I.3"]
                toks += ["L.%d.3.i.0" % recv, "Q.%d" % recv]
                out.append("pc " + " ".join(toks))
                # random bytes behind the marker
                toks = list(base) + ["Q.%d" % recv]
                for _ in range(60):
                    n = rng.choice([0, 1, 3, 7, 8, 9, 20, 64, 130, 200])
                    toks += ["R.%d.ff%s" % (recv, bytes(rng.getrandbits(8) for _ in range(n)).hex()), "Q.%d" % recv]
                out.append("pc " + " ".join(toks))
        # F11: truncated genuine ping completed by the stale tail of a reused receive buffer
        for cut in ([20, 60, 100, 134, 150] if not thorough else range(9, 154, 5)):
            s1, s2 = rng.sample(range(1, 1 << 31), 2)
            out.append("pc %s %s I.1 Q.2 V.2.0.%d Q.2" % (pu.obj(1, 1, s1, 1, [1], ALG, "aa"), pu.obj(2, 2, s2, 1, [1], ALG, "bb"), cut))
        # which trusted key signed a message is selected by a salted 4-byte hash: genuine messages of the SECOND key in the
        # receiver's trusted list, with salts on which the two keys' hashes agree in 2 or 3 of the 4 bytes, must still be accepted
        out += ["pubkey 1", "pubkey 2"]
        # (a 3-of-4-byte collision costs about 2^24 hash evaluations to find: thorough tier only)
        for lo, hi, n in ((2, 4, 6), (0, 2, 6), (1, 3, 4)) + (((1, 4, 1),) if thorough else ()):
            for salt in partial_collision_salts(rng, n, lo, hi):
                for kind in ("ping", "pong", "peng"):
                    out.append("im_parse %s 1 1 - - 1 %s" % (wellformed_init_body(rng, kind).hex(), salt.hex()))
        # what a party without ANY key can fabricate: a well-formed message whose key hint matches no trusted key and whose signature
        # field holds the identity point and a zero scalar (it verifies under a small-order public key - e.g. an all-zero one - for
        # about one message in four; the varying unknown part plays the counter).  Must be rejected, every time.
        for i in range(200 if thorough else 48):
            for kind in (("ping", "pong", "peng") if i % 8 == 0 else ("ping",)):
                body = wellformed_init_body(rng, kind)[:-1] + bytes([0x7f, 0, 2, i >> 8, i & 0xff]) + b"\x00"
                out.append("im_parse %s Z 0 - - 1" % body.hex())
        # node level: bit flips at every byte position of genuine ping / pong / peng presented to a FULL node in the states
        # unknown sender / pending / established (shared with C08): no peer, no pending entry, no reply, nothing altered
        out += c08mod.every_position_lines(rng, thorough, ["unknown", "pending_initiator", "pending_responder"] + (["established"] if thorough else []))
        # node level trust relations
        subsets = [list(c) for r in range(0, 5) for c in itertools.combinations(KEYS, r)]
        combos = [(k1, t1, k2, t2) for k1 in KEYS for t1 in subsets for k2 in KEYS for t2 in subsets]
        if not thorough:
            combos = rng.sample(combos, 150)
        for (k1, t1, k2, t2) in combos:
            s = nu.Scenario()
            # the keys are configured as text and go through Crypto::new: an empty trusted list means "trust own key only"
            s.node(1, mode="tun-router", claims=["0a000100/24"], key=k1, trusted=t1)
            s.node(2, mode="tun-router", claims=["0a000200/24"], key=k2, trusted=t2)
            d = rng.choice(["12", "21", "both"])
            if d in ("12", "both"):
                s.add("C.1.2")
            if d in ("21", "both"):
                s.add("C.2.1")
            s.add("A")
            s.tick(3)
            s.add("P.1.%s" % nu.ipv4_packet(nu.node_ip(1), nu.node_ip(2)), "A", "O.2", "S.1", "S.2")
            out.append(s.line())
        return out

    @staticmethod
    def _real_bytes(ops, outs):
        """datagram index -> real bytes of this run, from the read-only B ops"""
        return {int(o.split(".")[1]): bytes.fromhex(r[1:]) for o, r in zip(ops, outs) if o.startswith("B.") and r.startswith("b")}

    @staticmethod
    def _zero_completed(op, real):
        """F11 instance test, decided on the real bytes: op T.<obj>.<k>.<cut> truncates the genuine HANDSHAKE datagram k and
        every removed byte is 0x00.  The handshake parser is handed MsgBuffer::buffer() - the message AND what lies behind
        it - and a fresh buffer is zero filled, so its view of such a prefix is the complete genuine message again."""
        p = op.split(".")
        if p[0] != "T":
            return False
        d = real.get(int(p[2]))
        cut = int(p[3])
        return d is not None and len(d) > 0 and d[0] == 0xff and 0 < cut < len(d) and all(b == 0 for b in d[cut:])

    def model_line(self, line, impl_out):
        if line.startswith("im_parse ") or line.startswith("pubkey "):
            return c16mod.PROP.model_line(line, impl_out) if line.startswith("im_parse ") else line
        if line.startswith("node "):
            return nu.model_line(line, impl_out)
        ops, outs = line.split()[1:], impl_out.split()
        if len(ops) != len(outs):
            return line
        real = self._real_bytes(ops, outs)
        # whether the removed bytes are zero is a fact about the real signature (an oracle value of this run, like the
        # salts): where it holds, the parser's view is the stale-tail view that the model op V (PStale) describes.
        # The real bytes are passed along with the harness-only B op, which the model side merely echoes.
        def tr(o, r):
            if o.startswith("B.") and r.startswith("b"):
                return "%s.%s" % (o, r[1:])
            return ("V" + o[1:]) if self._zero_completed(o, real) else o
        return "pc " + " ".join(tr(o, r) for o, r in zip(ops, outs))

    def canon_impl(self, line, out):
        if line.startswith("im_parse "):
            return c16mod.PROP.canon_impl(line, out)
        if line.startswith("pubkey "):
            return out
        if line.startswith("node "):
            return nu.canon_impl(out)
        return out      # the B results (real bytes) stay visible: the oracle decides F11 instances on them

    def canon_model(self, line, out):
        if line.startswith("pubkey "):
            return "ok " + PUB[int(line.split()[1])]       # no model counterpart: the pinned constant is the expectation
        return out

    def nontrivial(self, line, impl_out):
        return True

    def tag(self, line, impl_out):
        if line.startswith("im_parse ") or line.startswith("pubkey "):
            return "keyhash"
        if line.startswith("node ") and " F." in line:
            return "nodeflip"
        if line.startswith("node "):
            d = [nu.parse_dump(x) for x in impl_out.split() if x.startswith("peers=")]
            return "trust:" + ("peers" if d and d[-1]["peers_l"] else "nopeers")
        kinds = "".join(sorted(set(t[0] for t in line.split() if t[0] in "FTRVD" and "." in t)))
        return "obj:" + kinds

    def _trust(self, line):
        nodes = [t.split(".") for t in line.split() if t.startswith("N.")]
        k1, t1 = int(nodes[0][7]), [int(x) for x in nodes[0][8].split("+") if x != "-"]
        k2, t2 = int(nodes[1][7]), [int(x) for x in nodes[1][8].split("+") if x != "-"]
        t1, t2 = t1 or [k1], t2 or [k2]          # no trusted key configured: own key only
        return (k2 in t1) and (k1 in t2)

    def oracle(self, line, impl_out):
        if line.startswith("pubkey "):
            return None if impl_out == "ok " + PUB[int(line.split()[1])] else "harness key pair changed: update PUB in py/props/c01.py"
        if line.startswith("im_parse ") and line.split()[2] == "Z":
            if impl_out.startswith("ok "):
                return ("a handshake message made WITHOUT any key (key hint of no trusted key, signature field = identity point and zero scalar) "
                        "was accepted as verified: " + impl_out[:60])
            return None
        if line.startswith("im_parse "):
            if not impl_out.startswith("ok "):
                return ("a genuine handshake message signed with a trusted key (second in the receiver's list) is rejected (%s) for key-hash "
                        "salt %s" % (impl_out[:30], line.split()[7]))
            return None
        ops = line.split()[1:]
        outs = impl_out.split()
        if len(ops) != len(outs):
            return "driver returned %d results for %d ops" % (len(outs), len(ops))
        for i, r in enumerate(outs):
            if r.startswith("panic"):
                return "panic at op %d (%s)" % (i, ops[i])
        if line.startswith("node ") and " F." in line:
            return c08mod.PROP.oracle(line, impl_out)
        if line.startswith("node "):
            mutual = self._trust(line)
            dumps = [nu.parse_dump(r) for o, r in zip(ops, outs) if o.startswith("S.")]
            have = [bool(d["peers_l"]) for d in dumps[-2:]]
            if mutual and not all(have):
                return "the two nodes trust each other's key but did not become peers"
            if not mutual and any(have):
                return "a node accepted a peer although trust is not mutual"
            w = [r for o, r in zip(ops, outs) if o == "O.2"][-1]
            if not mutual and w != "w-":
                return "payload delivered between nodes that are not mutually trusting"
            return None
        # object level: every mutated / untrusted / random handshake datagram: non-fatal error, no reply, nothing changed
        real = self._real_bytes(ops, outs)
        f11 = None          # first failure that is an instance of known finding F11; reported only if nothing else fails
        lastq = None
        for i, (o, r) in enumerate(zip(ops, outs)):
            if o.startswith("Q."):
                if lastq is not None and ops[i - 1][0] in "FTRV" and r != lastq[1]:
                    prev = ops[i - 1]
                    if outs[i - 1] == "-":
                        pass
                    else:
                        why = "rejected datagram (%s -> %s) altered the handshake state: %s -> %s" % (prev[:40], outs[i - 1], lastq[1], r)
                        if self._zero_completed(prev, real) or prev[0] == "V":
                            f11 = f11 or (self.F11_TAG + why)
                        else:
                            return why
                lastq = (i, r)
            elif o[0] in "FR" or (o[0] == "T") or o[0] == "V":
                if r == "-" or r == "err":
                    continue
                why = ("datagram without valid signed content (%s) caused a fatal handshake error (the pending handshake would be deleted)" % o[:40]
                       if r == "fatal" else "datagram without valid signed content (%s) was not rejected: %s" % (o[:40], r[:60]))
                if self._zero_completed(o, real) or o[0] == "V":
                    f11 = f11 or (self.F11_TAG + why)
                else:
                    return why
            elif o.startswith("L.") and i > 0 and ops[i - 1].startswith("I.3"):
                if r != "err":
                    return "message signed with an untrusted key was not rejected: " + r[:40]
        return f11

    F11_TAG = "[F11: truncated genuine handshake message completed by the bytes behind it] "

    def known_class(self, line, impl_out):
        """F11 only if the sole failure of the case is an F11 instance: a truncation of a genuine handshake datagram that the
        bytes behind it in the receive buffer complete again (op V: the stale copy of the same datagram; op T: removed bytes
        all 0x00 and a fresh zero-filled buffer).  Any other failure in the same case takes precedence in oracle()."""
        if line.startswith("node "):
            return None
        why = self.oracle(line, impl_out)
        return "F11" if (why is not None and why.startswith(self.F11_TAG)) else None


PROP = C01()

"""C13 - switch learning is per VLAN and expires; hub and router learn nothing"""
import re
from check import Property
from props import nodeutil as nu
from props import joinutil as ju
from props import routeutil as ru

VLANS = [None, 0, 1, 0x67, 0xfff]


def key_of(mac, tci):
    """the (VLAN, MAC) key of the property: 12-bit id, VLAN 0 = untagged"""
    vid = None if tci is None else (tci & 0x0fff)
    if vid == 0:
        vid = None
    return (vid, mac)


class C13(Property):
    id = "C13"
    rule = ("3-4 node meshes in switch (tap-switch, tap-normal), hub and router mode with the tap dissector; frame sequences over 3 MACs x "
            "VLAN tags {none, 0, 1, 0x67, 0xfff} x all 16 PCP/DEI nibbles x nested tags, interleaved with time steps of 0, 1, switch "
            "timeout -1/+0/+1; after each interface read the set of nodes that receive the frame is compared with a reference switch "
            "table built from the history; all 65536 tag-control values for the tag normalisation (thorough); "
            "non-trivial = distinct scenario in which at least one frame went to exactly one learned peer")

    def gen(self, rng, tier):
        thorough = tier == "thorough"
        out = []
        st = 10
        for _ in range(500 if thorough else 90):
            n = rng.choice([3, 3, 4])
            mode = rng.choice(["tap-switch", "tap-switch", "tap-normal", "tap-hub", "tap-router"])
            s = nu.Scenario()
            for i in range(1, n + 1):
                s.node(i, mode=mode, st=st)
            for i in range(2, n + 1):
                s.add("C.%d.1" % i, "A")
            s.tick(3)
            for _ in range(rng.choice([6, 14, 30])):
                r = rng.random()
                if r < 0.75:
                    i = rng.randrange(1, n + 1)
                    srcmac = nu.mac(rng.choice([i, i, 40 + rng.randrange(3)]))     # own MAC or a host behind the node
                    dstmac = nu.mac(rng.choice(list(range(1, n + 1)) + [40, 41, 42, 99]))
                    vlan = rng.choice(VLANS)
                    tci = None if vlan is None else (vlan | (rng.randrange(16) << 12))
                    extra = b"\x08\x00xy"
                    if tci is not None and rng.random() < 0.2:
                        extra = b"\x81\x00\x00\x05" + extra                      # nested tag: not looked at
                    s.add("P.%d.%s" % (i, nu.eth_frame(dstmac, srcmac, tci, extra)), "A")
                    for k in range(1, n + 1):
                        s.add("O.%d" % k)
                else:
                    dt = rng.choice([0, 1, 1, st - 1, st, st + 1])
                    if dt:
                        s.tick(dt)
            s.add("S.1")
            out.append(s.line())
        # "... until S stays silent for the switch timeout": a host that keeps talking stays learned - S is learned at t0, talks again at
        # t0+k (k below the timeout), and a frame to S in the window (t0+timeout, t0+k+timeout] must still go to its peer only
        for _ in range(40 if thorough else 10):
            mode = rng.choice(["tap-switch", "tap-normal"])
            s = nu.Scenario()
            for i in (1, 2, 3):
                s.node(i, mode=mode, st=st)
            s.add("C.2.1", "A", "C.3.1", "A")
            s.tick(3)
            host = nu.mac(rng.choice([1, 41]))
            vlan = rng.choice(VLANS)
            s.add("P.1.%s" % nu.eth_frame(b"\xff" * 6, host, vlan), "A", "O.1", "O.2", "O.3")
            k = rng.randrange(2, st)
            s.tick(k)
            s.add("P.1.%s" % nu.eth_frame(rng.choice([b"\xff" * 6, nu.mac(2)]), host, vlan), "A", "O.1", "O.2", "O.3")
            s.tick(st - k + rng.randrange(1, k))             # now in (t0 + st, t0 + k + st)
            for src in (2, 3):
                s.add("P.%d.%s" % (src, nu.eth_frame(host, nu.mac(src), vlan)), "A", "O.1", "O.2", "O.3")
            s.tick(st + 2)                                     # ... and after real silence it is forgotten again
            s.add("P.2.%s" % nu.eth_frame(host, nu.mac(2), vlan), "A", "O.1", "O.2", "O.3")
            s.add("S.1")
            out.append(s.line())
        # "... or P disconnects": a peer that taught addresses falls silent and is timed out (peer timeout far below the
        # switch timeout), or is removed by the handshake housekeeping; frames for its addresses must be flooded again
        for _ in range(60 if thorough else 12):
            mode = rng.choice(["tap-switch", "tap-normal"])
            pt = rng.choice([10, 20, 40])
            s = nu.Scenario()
            for i in (1, 2, 3):
                s.node(i, mode=mode, pt=pt, st=3600)
            s.add("C.2.1", "A", "C.3.1", "A")
            s.tick(3)
            vlan = rng.choice(VLANS)
            macs = [nu.mac(3), nu.mac(43)][:rng.choice([1, 2])]
            for m in macs:
                s.add("P.3.%s" % nu.eth_frame(b"\xff" * 6, m, vlan), "A", "O.1", "O.2", "O.3")
            s.add("M.3.1")
            for _ in range(pt + 5):                       # node 3 is silent: no housekeeping, nothing gets out
                s.t += 1
                s.add("T.%d" % s.t, "H.1", "H.2", "A")
            s.add("S.1")
            for m in macs:
                s.add("P.1.%s" % nu.eth_frame(m, nu.mac(1), vlan), "A", "O.1", "O.2", "O.3")
            out.append(s.line())
        # "P is the only next hop for S until S moves, stays silent for the timeout, or P disconnects": a NEW peer joining the mesh is
        # none of these - what was learned must survive it
        out += ju.join_cases(rng, 60 if thorough else 12)
        # "... until a frame with source S arrives from another peer": a host that MOVES is re-learned at once (last writer wins), also
        # while it keeps talking
        for _ in range(60 if thorough else 12):
            mode = rng.choice(["tap-switch", "tap-normal"])
            s = nu.Scenario()
            for i in (1, 2, 3):
                s.node(i, mode=mode, st=st)
            s.add("C.2.1", "A", "C.3.1", "A")
            s.tick(3)
            host = nu.mac(44)
            vlan = rng.choice(VLANS)
            first, second = rng.choice([(2, 3), (3, 2)])
            s.add("P.%d.%s" % (first, nu.eth_frame(b"\xff" * 6, host, vlan)), "A", "O.1", "O.2", "O.3")
            s.tick(rng.choice([0, 1, st - 2]))
            s.add("P.1.%s" % nu.eth_frame(host, nu.mac(1), vlan), "A", "O.1", "O.2", "O.3")
            for _ in range(rng.choice([1, 3])):
                s.add("P.%d.%s" % (second, nu.eth_frame(rng.choice([b"\xff" * 6, nu.mac(1)]), host, vlan)), "A", "O.1", "O.2", "O.3")
                s.tick(rng.choice([0, 1]))
            s.add("P.1.%s" % nu.eth_frame(host, nu.mac(1), vlan), "A", "O.1", "O.2", "O.3")
            s.add("S.1")
            out.append(s.line())
        # a stray handshake for a live peer's address (a replayed ping) that never completes and times out after 120 s is none of
        # "S moved / S silent / P disconnected": what was learned from P stays, while the host behind P keeps talking
        for _ in range(12 if thorough else 3):
            mode = rng.choice(["tap-switch", "tap-normal"])
            s = nu.Scenario()
            for i in (1, 2, 3):
                s.node(i, mode=mode, st=3600)
            s.add("C.2.1", "A", "C.3.1", "A")            # datagram 0: node 2's ping to node 1
            s.tick(rng.choice([3, 70]))
            host = nu.mac(45)
            s.add("P.2.%s" % nu.eth_frame(b"\xff" * 6, host), "A", "O.1", "O.2", "O.3")
            s.add("J.0.1.2")                               # the stray handshake entry at node 1 for node 2's address
            for k in range(130):
                s.tick(1)
                if k % 20 == 19:
                    s.add("P.2.%s" % nu.eth_frame(b"\xff" * 6, host), "A", "O.1", "O.2", "O.3")
                if k in (60, 118, 119, 121, 122, 125, 129):
                    s.add("P.1.%s" % nu.eth_frame(host, nu.mac(1)), "A", "O.1", "O.2", "O.3")
            s.add("S.1")
            out.append(s.line())
        # a peer whose public address changes while it keeps running (NAT rebinding): learned entries never point at a non-peer
        out += ru.rebind_cases(rng, 12 if thorough else 3, learning=True)
        # hub and router mode with the IP dissector and claims: packets whose source address lies in ANOTHER node's
        # claim (forwarded or spoofed) must not teach anybody anything - replies still follow the claims
        for _ in range(200 if thorough else 40):
            n = rng.choice([3, 3, 4])
            mode = rng.choice(["tun-router", "tun-router", "tun-hub"])
            s = nu.Scenario()
            for i in range(1, n + 1):
                s.node(i, mode=mode, st=st, claims=["%s/24" % bytes([10, 0, i, 0]).hex()])
            for i in range(2, n + 1):
                s.add("C.%d.1" % i, "A")
            s.tick(3)
            for _ in range(rng.choice([6, 14, 30])):
                if rng.random() < 0.85:
                    i = rng.randrange(1, n + 1)
                    srcnet = rng.choice([i, i] + list(range(1, n + 1)) + [9])
                    dstnet = rng.choice(list(range(1, n + 1)) + [9])
                    f = nu.ipv4_packet(bytes([10, 0, srcnet, rng.randrange(1, 4)]), bytes([10, 0, dstnet, rng.randrange(1, 4)]), bytes([rng.randrange(256)]))
                    s.add("P.%d.%s" % (i, f), "A")
                    for k in range(1, n + 1):
                        s.add("O.%d" % k)
                else:
                    s.tick(rng.choice([1, 1, st]))
            s.add("S.1")
            out.append(s.line())
        return out

    def model_line(self, line, impl_out):
        return nu.model_line(line, impl_out)

    def canon_impl(self, line, out):
        return nu.canon_impl(out)

    def nontrivial(self, line, impl_out):
        return getattr(self, "_last_unicast", {}).get(line, False) or " w0" in impl_out

    def tag(self, line, impl_out):
        return line.split()[1].split(".")[2]

    def oracle(self, line, impl_out):
        ops = line.split()[1:]
        outs = impl_out.split()
        if len(ops) != len(outs):
            return "driver returned %d results for %d ops" % (len(outs), len(ops))
        nodes = [t for t in ops if t.startswith("N.")]
        n = len(nodes)
        mode = nodes[0].split(".")[2]
        st = int(nodes[0].split(".")[5])
        if ju.family(line):
            return ju.oracle(line, impl_out)
        if " %s " % ru.REBIND_MARK in line:
            return ru.oracle_rebind(line, impl_out)
        if mode.startswith("tun"):
            return self.oracle_claims(ops, outs, n, mode)
        if "M.3.1" in ops:
            return self.oracle_disconnect(ops, outs)
        learning = mode in ("tap-switch", "tap-normal")
        flood = mode in ("tap-switch", "tap-normal", "tap-hub")
        now = 1
        learned = {i: {} for i in range(1, n + 1)}      # node -> key -> (peer, expiry)
        i = 0
        while i < len(ops):
            o, r = ops[i], outs[i]
            if r.startswith("panic"):
                return "panic at op %d" % i
            if o.startswith("T."):
                now = int(o[2:])
            elif o.startswith("H."):
                k = int(o[2:])
                learned[k] = {a: v for a, v in learned[k].items() if v[1] >= now}
            elif o.startswith("P."):
                src = int(o.split(".")[1])
                frame = bytes.fromhex(o.split(".")[2])
                dmac, smac = frame[0:6], frame[6:12]
                tci = None
                if frame[12:14] == b"\x81\x00":
                    tci = (frame[14] << 8) | frame[15]
                dk, sk = key_of(dmac, tci), key_of(smac, tci)
                peers = [x for x in range(1, n + 1) if x != src]
                ent = learned[src].get(dk)
                if ent:
                    want = [ent[0]]
                elif flood:
                    want = peers
                else:
                    want = []
                got = sorted(d for d, _ in nu.emissions(r))
                if got != sorted(want):
                    return ("frame for %s (vlan %s) read at node %d at t=%d went to %s; the switch table built from the history says %s"
                            % (dmac.hex(), dk[0], src, now, got, sorted(want)))
                if learning:
                    for x in got:
                        learned[x][sk] = (src, now + st)
                # every selected node writes the frame exactly once
                for k in range(1, n + 1):
                    w = outs[i + 1 + k]
                    cnt = 0 if w == "w-" else len(w[1:].split(","))
                    if cnt != (1 if k in got else 0):
                        return "node %d wrote %d frames for a frame sent to %s" % (k, cnt, got)
                i += 2 + n
                continue
            i += 1
        return None

    def oracle_disconnect(self, ops, outs):
        if any(r.startswith("panic") for r in outs):
            return "panic"
        k = ops.index("S.1")
        d = nu.parse_dump(outs[k])
        if any(p[0] == "3" for p in d["peers_l"]):
            return "silent peer 3 was not removed after its timeout"
        for o, r in list(zip(ops, outs))[k:]:
            if o.startswith("P.1."):
                got = sorted(x for x, _ in nu.emissions(r))
                if got != [2]:
                    return ("frame for an address learned from peer 3, read at node 1 after peer 3 disconnected, went to %s; "
                            "it must be flooded to the remaining peers [2]") % got
        return None

    def oracle_claims(self, ops, outs, n, mode):
        """hub / router with claims 10.0.i.0/24 at node i: next hops follow the claims, whatever was received before"""
        i = 0
        while i < len(ops):
            o, r = ops[i], outs[i]
            if r.startswith("panic"):
                return "panic at op %d" % i
            if o.startswith("P."):
                src = int(o.split(".")[1])
                pkt = bytes.fromhex(o.split(".")[2])
                dst = pkt[16:20]
                peers = [x for x in range(1, n + 1) if x != src]
                j = dst[2] if dst[0] == 10 and dst[1] == 0 else None
                if j in peers:
                    want = [j]
                elif mode == "tun-hub":
                    want = peers
                else:
                    want = []
                got = sorted(d for d, _ in nu.emissions(r))
                if got != sorted(want):
                    return ("%s mode: packet for %s read at node %d went to %s; the claims say %s (nothing may be learned from traffic)"
                            % (mode, ".".join(str(b) for b in dst), src, got, sorted(want)))
                i += 2 + n
                continue
            i += 1
        return None


PROP = C13()

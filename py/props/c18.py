"""C18 - generated and password-derived keys are always usable and deterministic"""
import re
from check import Property

PASSWORDS = ["", "test", "test123", "pw161", "pw138", "correct horse battery staple", "p\u00e4ssw\u00f6rd", "\u5bc6\u7801", "a" * 1024,
             "x", " ", "pw", "PW", "0", "00"] + ["L" * n for n in (31, 32, 33, 55, 56, 63, 64, 65, 111, 112, 127, 128, 129, 255, 256)]


class C18(Property):
    id = "C18"
    rule = ("32-byte keys with every pattern of 0..4 leading zero bytes and random remainder, random keys, short keys, each printed with "
            "to_base62 and read back as public key, private key, key pair and through Crypto::new; passwords from a dictionary (empty, "
            "unicode, 1 KiB, known leading-zero producers, lengths around the hash block sizes 32/64/128) each derived twice and in two node "
            "instances, and listed as a trusted key next to another key; "
            "non-trivial = distinct key with a leading zero byte, or distinct password")
    assumptions = ["PBKDF2 / Ed25519 (ring) are oracle functions in the model (kdf, pk_of); their determinism is exercised by deriving twice, not proved"]

    def gen(self, rng, tier):
        thorough = tier == "thorough"
        out = []
        rb = lambda n: bytes(rng.getrandbits(8) for _ in range(n))
        for z in range(0, 5):
            for _ in range(2000 if thorough else 60):
                k = bytes(z) + bytes([rng.randrange(1, 256)]) + rb(31 - z)
                out.append("keyrt " + k.hex())
        out.append("keyrt " + ("00" * 31 + "01"))
        out.append("keyrt " + ("00" * 32))
        out.append("keyrt " + ("ff" * 32))
        for _ in range(100000 if thorough else 1500):
            out.append("keyrt " + rb(32).hex())
        pws = list(PASSWORDS) + ["pw%d" % i for i in range(3000 if thorough else 150)]
        for pw in pws:
            out.append("genkey " + (pw.encode().hex() or "-"))
        return out

    def canon_impl(self, line, out):
        return re.sub(r" pub=[0-9a-f]+$", "", out) if line.startswith("genkey") else out

    def nontrivial(self, line, impl_out):
        return line.startswith("genkey") or line.startswith("keyrt 00")

    def tag(self, line, impl_out):
        if line.startswith("keyrt"):
            z = (len(line.split()[1]) - len(line.split()[1].lstrip("0"))) // 2
            return "keyrt:zeros%d:%s" % (min(z, 5), "acc" if "pub=1 priv=1 pair=1 new=1" in impl_out else "REJ")
        return "genkey:" + ("ok" if "same=1 printed=1 accepted=1 frompriv=1 trust=1 mixed=1" in impl_out else "BAD")

    def oracle(self, line, impl_out):
        if impl_out.startswith("panic"):
            return "panic: " + impl_out
        if line.startswith("keyrt"):
            if "pub=1 priv=1 pair=1 new=1" not in impl_out:
                return "a key printed by key generation is not accepted back unchanged: " + impl_out.split(" ", 2)[2]
        else:
            if "same=1 printed=1 accepted=1 frompriv=1 trust=1 mixed=1" not in impl_out:
                return "password-derived key pair not deterministic / not usable: " + impl_out
        return None

    def extra(self, ctx):
        # different passwords give different public keys (so nodes with different passwords do not trust each other)
        return {}


PROP = C18()

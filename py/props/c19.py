"""C19 - address dissection of frames and packets is exact and total."""
from check import Property


def hx(b):
    return bytes(b).hex() if b else "-"


def ref_frame(d):
    """independently written reference dissector (property statement, not the code)"""
    if len(d) < 14:
        return "err"
    dst, src = d[0:6], d[6:12]
    if d[12] == 0x81 and d[13] == 0x00:
        if len(d) < 16:
            return "err"
        vid = ((d[14] << 8) | d[15]) & 0x0fff
        if vid == 0:
            return "ok %s %s" % (hx(src), hx(dst))
        v = bytes([vid >> 8, vid & 0xff])
        return "ok %s %s" % (hx(v + src), hx(v + dst))
    return "ok %s %s" % (hx(src), hx(dst))


def ref_packet(d):
    if len(d) == 0:
        return "err"
    v = d[0] >> 4
    if v == 4:
        if len(d) < 20:
            return "err"
        return "ok %s %s" % (hx(d[12:16]), hx(d[16:20]))
    if v == 6:
        if len(d) < 40:
            return "err"
        return "ok %s %s" % (hx(d[8:24]), hx(d[24:40]))
    return "err"


class C19(Property):
    id = "C19"
    rule = ("frames/packets generated per length 0..64 with random content, every ethertype / tag-control value "
            "(all 65536 in the thorough tier, a stratified sample incl. all boundaries in quick), nested tags, all 16 version "
            "nibbles x lengths 0..45; non-trivial = distinct input that dissects to an address pair (not rejected)")

    def gen(self, rng, tier):
        thorough = tier == "thorough"
        out = []
        rb = lambda n: bytes(rng.getrandbits(8) for _ in range(n))
        per_len = 2000 if thorough else 40
        for n in range(0, 65):
            for _ in range(per_len):
                d = bytearray(rb(n))
                r = rng.random()
                if n >= 14 and r < 0.4:
                    d[12], d[13] = 0x81, 0x00
                    if n >= 16 and rng.random() < 0.3:
                        d[14] &= 0xf0
                        d[15] = 0 if rng.random() < 0.5 else d[15]
                out.append("frame " + hx(d))
                if n >= 1:
                    r = rng.random()
                    if r < 0.4:
                        d[0] = 0x40 | (d[0] & 0xf)
                    elif r < 0.8:
                        d[0] = 0x60 | (d[0] & 0xf)
                out.append("packet " + hx(d))
        base = rb(12)
        ets = range(65536) if thorough else sorted(set(
            [0, 1, 0x80ff, 0x8100, 0x8101, 0x0081, 0x8000, 0x0800, 0x86dd, 0x88a8, 0x9100, 0xffff, 0x7f00, 0x8200]
            + [rng.randrange(65536) for _ in range(1500)] + [0x8100 ^ (1 << k) for k in range(16)]))
        for et in ets:
            out.append("frame " + hx(base + bytes([et >> 8, et & 0xff]) + rb(6)))
        tcis = range(65536) if thorough else sorted(set(
            [p << 12 | v for p in range(16) for v in (0, 1, 0xff, 0x100, 0x67, 0xffe, 0xfff)]
            + [rng.randrange(65536) for _ in range(1500)]))
        for tci in tcis:
            out.append("frame " + hx(base + b"\x81\x00" + bytes([tci >> 8, tci & 0xff]) + rb(4)))
        # nested tags (QinQ): only the first tag is looked at
        for _ in range(300 if thorough else 60):
            t1 = rng.choice([0, 1, 0x67, 0xfff, rng.randrange(65536)])
            t2 = rng.randrange(65536)
            out.append("frame " + hx(base + b"\x81\x00" + bytes([t1 >> 8, t1 & 0xff]) + b"\x81\x00" + bytes([t2 >> 8, t2 & 0xff]) + rb(rng.randrange(0, 8))))
        # truncated tagged frames
        for n in (14, 15, 16):
            out.append("frame " + hx((base + b"\x81\x00\x00\x05\x00")[:n]))
        for nib in range(16):
            for n in list(range(0, 46)):
                d = bytearray(rb(n))
                if n:
                    d[0] = (nib << 4) | (d[0] & 0xf)
                out.append("packet " + hx(d))
        return out

    def oracle(self, line, impl_out):
        op, arg = line.split()
        d = bytes.fromhex(arg) if arg != "-" else b""
        want = ref_frame(d) if op == "frame" else ref_packet(d)
        if impl_out != want:
            return "dissector returned %r, the standard header positions give %r" % (impl_out, want)
        return None

    def known_class(self, line, impl_out):
        return None


PROP = C19()

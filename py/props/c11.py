"""C11 - routing follows the most specific live claim"""
from check import Property
from props import tableutil as tu
from props import nodeutil as nu
from props import routeutil as ru


class C11(Property):
    id = "C11"
    rule = ("prefix matching: 8-bit universe (bases x prefix 0..20 x addresses; exhaustive in the thorough tier), 16-bit universe sample, "
            "random 4/6/8/16-byte addresses x prefix 0..255 against a bit-by-bit reference; table: bounded-exhaustive and random operation "
            "sequences {announce, re-announce, withdraw, disconnect, lookup, learn, advance time 0/1/timeout+-1, sweep} on 3 peers x nested "
            "ranges against a history-based reference; node level: a meshed router whose peer changes its claims at run time (withdraw / shrink / move / grow / /32) with "
            "probes before and after the next announcement, and learning switches whose peer falls silent (next hops must follow the live claims, "
            "never a non-peer); non-trivial = distinct case with at least one positive match / successful lookup")

    def gen(self, rng, tier):
        thorough = tier == "thorough"
        out = []
        # 8-bit universe
        if thorough:
            for b in range(256):
                for p in list(range(0, 10)) + [12, 20]:
                    for a in range(256):
                        out.append("matches %02x %d %02x" % (b, p, a))
        else:
            for _ in range(6000):
                b = rng.randrange(256)
                a = b ^ (rng.choice([0, 1, 2, 4, 8, 16, 32, 64, 128]) if rng.random() < 0.7 else rng.randrange(256))
                out.append("matches %02x %d %02x" % (b, rng.choice(list(range(0, 10)) + [12, 20]), a))
        # 16-bit universe
        for _ in range(200000 if thorough else 6000):
            b = rng.randrange(65536)
            a = b ^ (1 << rng.randrange(16)) if rng.random() < 0.6 else (b if rng.random() < 0.3 else rng.randrange(65536))
            out.append("matches %04x %d %04x" % (b, rng.randrange(0, 21), a))
        # longer addresses, any prefix
        for _ in range(100000 if thorough else 6000):
            n = rng.choice([4, 6, 8, 16, 16, 0, 1, 3])
            b = bytes(rng.getrandbits(8) for _ in range(n))
            a = bytearray(b)
            r = rng.random()
            if n and r < 0.6:
                k = rng.randrange(8 * n)
                a[k // 8] ^= 0x80 >> (k % 8)
                pfx = rng.choice([k, k + 1, max(0, k - 1), rng.randrange(256)])
            elif r < 0.8:
                pfx = rng.choice([8 * n, 8 * n + 1, 0, 255, rng.randrange(256)])
            else:
                a = bytearray(rng.getrandbits(8) for _ in range(rng.choice([n, n, 4, 6])))
                pfx = rng.randrange(0, 40)
            out.append("matches %s %d %s" % (b.hex() or "-", pfx, bytes(a).hex() or "-"))
        # table scenarios: bounded exhaustive over a small alphabet
        alpha = ["S.1.0a000000/8;0a010000/16", "S.1.0a000000/8", "S.2.0a010200/24", "S.1.-", "R.1", "L.0a010203", "L.0a020304",
                 "T+1", "T+10", "H"]
        import itertools
        depth = 5 if thorough else 4
        for n in range(1, depth + 1):
            for seq in itertools.product(alpha, repeat=n):
                if not any(s.startswith("L.") for s in seq):
                    continue
                now = 1
                toks = ["T.1"]
                for s in seq:
                    if s.startswith("T+"):
                        now += int(s[2:])
                        toks.append("T.%d" % now)
                    else:
                        toks.append(s)
                toks.append("L.0a010203")
                toks.append("D")
                out.append("table 10 20 " + " ".join(toks))
        for _ in range(4000 if thorough else 500):
            cto, clto = rng.choice([(10, 20), (300, 300), (5, 3), (1, 1), (0, 0)])
            out.append("table %d %d %s" % (cto, clto, " ".join(tu.rand_ops(rng, rng.choice([10, 30, 80, 300]), cto, clto))))
        # node level: how the NODE drives the table - a connected peer's claims change at run time (withdrawn, shrunk, moved, grown),
        # and a peer that taught addresses falls silent and is timed out
        k = 60 if thorough else 8
        out += ru.reannounce_cases(rng, k) + ru.silent_learned_cases(rng, k)
        out += ru.rebind_cases(rng, max(2, k // 3)) + ru.nested_cases(rng, max(3, k // 2)) + ru.timeouts_cases(rng, 4 if thorough else 2) + ru.taprouter_cases(rng, max(4, k // 2)) + ru.close_cases(rng, max(4, k // 2))
        return out

    def model_line(self, line, impl_out):
        return nu.model_line(line, impl_out) if ru.is_node(line) else line

    def canon_impl(self, line, out):
        return nu.canon_impl(out) if ru.is_node(line) else super().canon_impl(line, out)

    def nontrivial(self, line, impl_out):
        if ru.is_node(line):
            return True
        if line.startswith("matches"):
            return impl_out == "1"
        return " p" in " " + impl_out

    def tag(self, line, impl_out):
        if ru.is_node(line):
            return "node:" + ru.family_of(line)
        if line.startswith("matches"):
            return "matches:" + impl_out
        t = impl_out.split()
        return "table:hit%d/none%d" % (min(3, sum(x.startswith("p") for x in t)), min(3, t.count("none")))

    def oracle(self, line, impl_out):
        if ru.is_node(line):
            return ru.oracle(line, impl_out)
        t = line.split()
        if t[0] == "matches":
            b = bytes.fromhex(t[1]) if t[1] != "-" else b""
            a = bytes.fromhex(t[3]) if t[3] != "-" else b""
            want = "1" if tu.ref_matches(b, int(t[2]), a) else "0"
            if impl_out != want:
                return "matches returned %s, the first %s bits %s" % (impl_out, t[2], "agree" if want == "1" else "differ / prefix too long / lengths differ")
            return None
        return tu.ref_check(line, impl_out)


PROP = C11()

"""helpers for `pc` scenario lines (PeerCrypto objects + harness network)"""
import itertools
import struct

SPEEDS = {"0": "00000000", "1": "3f800000", "100": "42c80000", "600": "44160000", "big": "7f7fc99e", "inf": "7f800000", "tiny": "00000001"}
NAMES = {1: "AES128", 2: "AES256", 3: "CHACHA20"}


def f32(bits_hex):
    return struct.unpack(">f", bytes.fromhex(bits_hex))[0]


def algos(plain, lst):
    """lst: list of (id, speedbits hex)"""
    return ("p" if plain else "-") + "|" + (",".join("%d:%s" % (a, s) for a, s in lst) if lst else "-")


def obj(i, node, salt, key, trusted, al, payload):
    return "O.%d.%d.%08x.%d.%s.%s.%s" % (i, node, salt, key, "+".join(str(t) for t in trusted) if trusted else "-", al, payload or "-")


def ordered_lists():
    out = []
    for k in range(0, 4):
        for sub in itertools.combinations([1, 2, 3], k):
            for perm in itertools.permutations(sub):
                out.append(list(perm))
    return out


def parse_q(tok):
    """q:init=a/b/c/d/e;rot=...;plain=..;core=..;cnt=..;alg=NAME -> dict"""
    d = {}
    for part in tok[2:].split(";"):
        k, v = part.split("=", 1)
        d[k] = v
    return d

"""Node-level route scenarios shared by C11 (routing follows the live claims) and C12 (routes track peers):
how the NODE drives the claim table on announcements, withdrawals, time-outs - the table-level cases cannot see that."""
import re
from props import nodeutil as nu


def _net(i, third=0):
    return bytes([10, 0, i, third])


def _claim(i, plen=24):
    return "%s/%d" % (_net(i).hex(), plen)


def _in_claim(addr, claim):
    base, plen = claim.split("/")
    b, plen = bytes.fromhex(base), int(plen)
    x = int.from_bytes(addr[:len(b)], "big") >> (8 * len(b) - plen) if plen else 0
    y = int.from_bytes(b, "big") >> (8 * len(b) - plen) if plen else 0
    return len(addr) == len(b) and x == y


# ---------------------------------------------------------------------------------------------------------------------------
# 1. re-announcement: a connected peer's claims change at run time
def reannounce_cases(rng, count):
    out = []
    for _ in range(count):
        n = rng.choice([2, 3])
        s = nu.Scenario()
        for i in range(1, n + 1):
            s.node(i, mode="tun-router", claims=[_claim(i)])
        for i in range(2, n + 1):
            s.add("C.%d.1" % i, "A")
        s.tick(3)
        # node 2 may start with a second claim
        first = [_claim(2)] + ([_claim(7)] if rng.random() < 0.4 else [])
        s.add("Q.2.%s" % ";".join(first))
        s.tick(95)
        probes = [_net(2, 0)[:3] + bytes([5]), _net(7, 0)[:3] + bytes([5]), _net(8, 0)[:3] + bytes([5])]
        for d in probes:
            s.add("P.1.%s" % nu.ipv4_packet(nu.node_ip(1), d), "A", "O.2")
        s.add("S.1")
        new = rng.choice([[], [], [_claim(7)], [_claim(8)], [_claim(2)], [_claim(2), _claim(8)], [_claim(2, 16)], ["%s/32" % (_net(2)[:3] + bytes([5])).hex()]])
        s.add("Q.2.%s" % (";".join(new) if new else "-"))
        s.tick(95)           # more than one announcement interval (at most 90 s)
        s.add("S.1")
        for d in probes:
            s.add("P.1.%s" % nu.ipv4_packet(nu.node_ip(1), d), "A", "O.2")
        s.add("S.1")
        out.append(s.line())
    return out


def oracle_reannounce(line, impl_out):
    ops, outs = line.split()[1:], impl_out.split()
    if len(ops) != len(outs):
        return "driver returned %d results for %d ops" % (len(outs), len(ops))
    if any(r.startswith("panic") for r in outs):
        return "panic"
    announced = None          # what node 2 announces from now on
    settled_at = None         # op index after which node 1 must have seen it
    now = 1
    qtime = None
    for i, (o, r) in enumerate(zip(ops, outs)):
        if o.startswith("T."):
            now = int(o[2:])
        elif o.startswith("Q.2."):
            spec = o.split(".", 2)[2]
            announced = [] if spec == "-" else spec.split(";")
            qtime = now
        elif o == "S.1" and announced is not None and now - qtime >= 91:
            d = nu.parse_dump(r)
            have = sorted(c.split("@")[0].split(":", 1)[1] for c in d["claims_l"] if c.startswith("2:"))
            if have != sorted(announced):
                return ("at t=%d node 1 attributes the claims %s to peer 2; its most recent announcement (claims changed at t=%d, "
                        "announcements at most 90 s apart) lists %s") % (now, have, qtime, sorted(announced))
        elif o.startswith("P.1.") and announced is not None and now - qtime >= 91:
            dst = bytes.fromhex(o.split(".")[2])[16:20]
            want = [2] if any(_in_claim(dst, c) for c in announced) else []
            # another node's own /24 may also cover the destination
            other = [j for j in (3,) if ("N.%d." % j) in line and _in_claim(dst, _claim(j))]
            if not want and other:
                want = other
            got = sorted(x for x, _ in nu.emissions(r))
            if got != want:
                return ("at t=%d a packet for %s read at node 1 went to %s; the claims currently announced select %s"
                        % (now, ".".join(str(b) for b in dst), got, want))
    return None


# ---------------------------------------------------------------------------------------------------------------------------
# 2. a peer that taught addresses falls silent and is timed out: nothing may keep selecting it
def silent_learned_cases(rng, count):
    out = []
    for _ in range(count):
        mode = rng.choice(["tap-switch", "tap-normal"])
        pt = rng.choice([10, 20, 40])
        s = nu.Scenario()
        for i in (1, 2, 3):
            s.node(i, mode=mode, pt=pt, st=3600)
        s.add("C.2.1", "A", "C.3.1", "A")
        s.tick(rng.choice([3, pt // 2]))
        macs = [nu.mac(3), nu.mac(43)][:rng.choice([1, 2])]
        for m in macs:                                       # payload AFTER the last node info keeps the learned entry younger
            s.add("P.3.%s" % nu.eth_frame(b"\xff" * 6, m), "A", "O.1", "O.2", "O.3")
        s.add("M.3.1")
        for _ in range(pt + 5):
            s.t += 1
            s.add("T.%d" % s.t, "H.1", "H.2", "A")
        s.add("S.1")
        for m in macs:
            s.add("P.1.%s" % nu.eth_frame(m, nu.mac(1)), "A", "O.1", "O.2", "O.3")
        s.add("S.1")
        out.append(s.line())
    return out


def oracle_silent_learned(line, impl_out):
    ops, outs = line.split()[1:], impl_out.split()
    if len(ops) != len(outs):
        return "driver returned %d results for %d ops" % (len(outs), len(ops))
    if any(r.startswith("panic") for r in outs):
        return "panic"
    k = ops.index("S.1")
    d = nu.parse_dump(outs[k])
    if any(p[0] == "3" for p in d["peers_l"]):
        return "silent peer 3 was not removed after its timeout"
    if any(c.startswith("3:") for c in d["claims_l"]) or any(">3@" in c for c in d["cache_l"]):
        return "peer 3 was removed by timeout but the table still points at it: %s %s" % (d["claims"], d["cache"])
    for o, r in list(zip(ops, outs))[k:]:
        if o.startswith("P.1."):
            got = sorted(x for x, _ in nu.emissions(r))
            if got != [2]:
                return ("frame for an address learned from peer 3, read at node 1 after peer 3 timed out, went to %s; it must go to "
                        "the remaining peers [2] (never to a non-peer, never nowhere)") % got
    return None


FAMILIES = [("reannounce", reannounce_cases, oracle_reannounce), ("silent", silent_learned_cases, oracle_silent_learned)]


def is_node(line):
    return line.startswith("node ")


def family_of(line):
    return "silent" if " M.3.1 " in line else "reannounce"


def oracle(line, impl_out):
    return (oracle_silent_learned if family_of(line) == "silent" else oracle_reannounce)(line, impl_out)

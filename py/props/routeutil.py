"""Node-level route scenarios shared by C11 (routing follows the live claims) and C12 (routes track peers):
how the NODE drives the claim table on announcements, withdrawals, time-outs - the table-level cases cannot see that."""
import re
from props import nodeutil as nu


def _net(i, third=0):
    return bytes([10, 0, i, third])


def _claim(i, plen=24):
    return "%s/%d" % (_net(i).hex(), plen)


def _in_claim(addr, claim):
    base, plen = claim.split("/")
    b, plen = bytes.fromhex(base), int(plen)
    x = int.from_bytes(addr[:len(b)], "big") >> (8 * len(b) - plen) if plen else 0
    y = int.from_bytes(b, "big") >> (8 * len(b) - plen) if plen else 0
    return len(addr) == len(b) and x == y


# ---------------------------------------------------------------------------------------------------------------------------
# 1. re-announcement: a connected peer's claims change at run time
def reannounce_cases(rng, count):
    out = []
    for idx in range(count):
        n = rng.choice([2, 3])
        s = nu.Scenario()
        for i in range(1, n + 1):
            s.node(i, mode="tun-router", claims=[_claim(i)])
        for i in range(2, n + 1):
            s.add("C.%d.1" % i, "A")
        s.tick(3)
        # node 2 may start with a second claim
        first = [_claim(2)] + ([_claim(7)] if rng.random() < 0.4 else [])
        s.add("Q.2.%s" % ";".join(first))
        s.tick(95)
        probes = [_net(2, 0)[:3] + bytes([5]), _net(7, 0)[:3] + bytes([5]), _net(8, 0)[:3] + bytes([5])]
        for d in probes:
            s.add("P.1.%s" % nu.ipv4_packet(nu.node_ip(1), d), "A", "O.2")
        s.add("S.1")
        new = rng.choice([[], [], [_claim(7)], [_claim(8)], [_claim(2)], [_claim(2), _claim(8)], [_claim(2, 16)], ["%s/32" % (_net(2)[:3] + bytes([5])).hex()]])
        if idx < 2:
            new = []          # always present: every claim withdrawn (an announcement with an EMPTY list)
        s.add("Q.2.%s" % (";".join(new) if new else "-"))
        s.tick(95)           # more than one announcement interval (at most 90 s)
        s.add("S.1")
        for d in probes:
            s.add("P.1.%s" % nu.ipv4_packet(nu.node_ip(1), d), "A", "O.2")
        s.add("S.1")
        out.append(s.line())
    return out


def oracle_reannounce(line, impl_out):
    ops, outs = line.split()[1:], impl_out.split()
    if len(ops) != len(outs):
        return "driver returned %d results for %d ops" % (len(outs), len(ops))
    if any(r.startswith("panic") for r in outs):
        return "panic"
    announced = None          # what node 2 announces from now on
    settled_at = None         # op index after which node 1 must have seen it
    now = 1
    qtime = None
    for i, (o, r) in enumerate(zip(ops, outs)):
        if o.startswith("T."):
            now = int(o[2:])
        elif o.startswith("Q.2."):
            spec = o.split(".", 2)[2]
            announced = [] if spec == "-" else spec.split(";")
            qtime = now
        elif o == "S.1" and announced is not None and now - qtime >= 91:
            d = nu.parse_dump(r)
            have = sorted(c.split("@")[0].split(":", 1)[1] for c in d["claims_l"] if c.startswith("2:"))
            if have != sorted(announced):
                return ("at t=%d node 1 attributes the claims %s to peer 2; its most recent announcement (claims changed at t=%d, "
                        "announcements at most 90 s apart) lists %s") % (now, have, qtime, sorted(announced))
        elif o.startswith("P.1.") and announced is not None and now - qtime >= 91:
            dst = bytes.fromhex(o.split(".")[2])[16:20]
            want = [2] if any(_in_claim(dst, c) for c in announced) else []
            # another node's own /24 may also cover the destination
            other = [j for j in (3,) if ("N.%d." % j) in line and _in_claim(dst, _claim(j))]
            if not want and other:
                want = other
            got = sorted(x for x, _ in nu.emissions(r))
            if got != want:
                return ("at t=%d a packet for %s read at node 1 went to %s; the claims currently announced select %s"
                        % (now, ".".join(str(b) for b in dst), got, want))
    return None


# ---------------------------------------------------------------------------------------------------------------------------
# 2. a peer that taught addresses falls silent and is timed out: nothing may keep selecting it
def silent_learned_cases(rng, count):
    out = []
    for _ in range(count):
        mode = rng.choice(["tap-switch", "tap-normal"])
        pt = rng.choice([10, 20, 40])
        s = nu.Scenario()
        for i in (1, 2, 3):
            s.node(i, mode=mode, pt=pt, st=3600)
        s.add("C.2.1", "A", "C.3.1", "A")
        s.tick(rng.choice([3, pt // 2]))
        macs = [nu.mac(3), nu.mac(43)][:rng.choice([1, 2])]
        for m in macs:                                       # payload AFTER the last node info keeps the learned entry younger
            s.add("P.3.%s" % nu.eth_frame(b"\xff" * 6, m), "A", "O.1", "O.2", "O.3")
        s.add("M.3.1")
        for _ in range(pt + 5):
            s.t += 1
            s.add("T.%d" % s.t, "H.1", "H.2", "A")
        s.add("S.1")
        for m in macs:
            s.add("P.1.%s" % nu.eth_frame(m, nu.mac(1)), "A", "O.1", "O.2", "O.3")
        s.add("S.1")
        out.append(s.line())
    return out


def oracle_silent_learned(line, impl_out):
    ops, outs = line.split()[1:], impl_out.split()
    if len(ops) != len(outs):
        return "driver returned %d results for %d ops" % (len(outs), len(ops))
    if any(r.startswith("panic") for r in outs):
        return "panic"
    k = ops.index("S.1")
    d = nu.parse_dump(outs[k])
    if any(p[0] == "3" for p in d["peers_l"]):
        return "silent peer 3 was not removed after its timeout"
    if any(c.startswith("3:") for c in d["claims_l"]) or any(">3@" in c for c in d["cache_l"]):
        return "peer 3 was removed by timeout but the table still points at it: %s %s" % (d["claims"], d["cache"])
    for o, r in list(zip(ops, outs))[k:]:
        if o.startswith("P.1."):
            got = sorted(x for x, _ in nu.emissions(r))
            if got != [2]:
                return ("frame for an address learned from peer 3, read at node 1 after peer 3 timed out, went to %s; it must go to "
                        "the remaining peers [2] (never to a non-peer, never nowhere)") % got
    return None


# ---------------------------------------------------------------------------------------------------------------------------
# 3. every look at a node: the next hops its table can produce are peers (the invariant NextHopProofs.v proves of the model)
def rt_violation(dump):
    peers = set(p[0] for p in dump["peers_l"])
    for c in dump["claims_l"]:
        if c.split(":", 1)[0] not in peers:
            return "claim %s is attributed to %s, which is not a peer (peers: %s)" % (c, c.split(":", 1)[0], sorted(peers))
    for c in dump["cache_l"]:
        hop = c.split(">", 1)[1].split("@", 1)[0]
        if hop not in peers:
            return "cached / learned entry %s points at %s, which is not a peer (peers: %s)" % (c, hop, sorted(peers))
    return None


def rt_all_dumps(line, impl_out):
    ops, outs = line.split()[1:], impl_out.split()
    now = 1
    for o, r in zip(ops, outs):
        if o.startswith("T."):
            now = int(o[2:])
        elif o.startswith("S.") and r.startswith("peers="):
            v = rt_violation(nu.parse_dump(r))
            if v:
                return "node %s at t=%d: %s" % (o[2:], now, v)
    return None


# ---------------------------------------------------------------------------------------------------------------------------
# 4. a running node's public address changes (NAT rebinding: same node id, new source address); the peer re-connects from the new
#    address while the other side still holds the entry for the old one
REBIND_MARK = "X.9994"


def rebind_cases(rng, count, learning=False):
    out = []
    for _ in range(count):
        s = nu.Scenario()
        pt2 = rng.choice([40, 60, 130])
        three = rng.random() < 0.5
        if learning:
            mode = rng.choice(["tap-switch", "tap-normal"])
            s.node(1, mode=mode, pt=300, st=3600)
            s.node(2, mode=mode, pt=pt2, st=3600)
            if three:
                s.node(3, mode=mode, pt=300, st=3600)
        else:
            s.node(1, mode="tun-router", pt=300, claims=[_claim(1)])
            s.node(2, mode="tun-router", pt=pt2, claims=[_claim(2)])
            if three:
                s.node(3, mode="tun-router", pt=300, claims=[_claim(3)])
        s.add("R.2.1", "C.2.1", "A")
        if three:
            s.add("C.3.1", "A")
        s.tick(rng.choice([3, 20, 70]))
        if learning:
            probe = "P.1.%s" % nu.eth_frame(nu.mac(42), nu.mac(1))
            s.add("P.2.%s" % nu.eth_frame(b"\xff" * 6, nu.mac(42)), "A", "O.1", "O.2")       # a host behind node 2 talks
        else:
            probe = "P.1.%s" % nu.ipv4_packet(nu.node_ip(1), nu.node_ip(2, 7))
        s.add(probe, "A", "O.2")
        s.add(REBIND_MARK, "K.2.22")                                    # node 2 is now seen as address 22; address 2 is dead
        # the bound of C05 counts from the LONGER peer timeout (node 1 keeps the entry for the old address that long): 300 + 120 (+ slack)
        for k in range(300 + 120 + 5):
            s.t += 1
            s.add("T.%d" % s.t)
            for i in s.nodes:
                s.add("H.%d" % i)
            s.add("S.1")                                                 # looked at BEFORE delivery
            s.add("A")
            if k % 25 == 24:
                s.add(probe, "A", "O.2")
        s.add("S.1", "S.2")
        s.add(probe, "A", "O.2")
        s.add("P.2.%s" % (nu.eth_frame(nu.mac(1), nu.mac(42)) if learning else nu.ipv4_packet(nu.node_ip(2), nu.node_ip(1))), "A", "O.1")
        out.append(s.line())
    return out


def oracle_rebind(line, impl_out):
    ops, outs = line.split()[1:], impl_out.split()
    if len(ops) != len(outs):
        return "driver returned %d results for %d ops" % (len(outs), len(ops))
    if any(r.startswith("panic") for r in outs):
        return "panic"
    v = rt_all_dumps(line, impl_out)
    if v:
        return v
    now, last = 1, None
    for o, r in zip(ops, outs):
        if o.startswith("T."):
            now = int(o[2:])
        elif o == "S.1":
            last = nu.parse_dump(r)
        elif o.startswith("P.1.") and last is not None:
            peers = set(int(p[0]) for p in last["peers_l"])
            for dst, _ in nu.emissions(r):
                if dst not in peers:
                    return "at t=%d node 1 sent a payload datagram to address %d, which is not one of its peers %s" % (now, dst, sorted(peers))
    d1 = nu.parse_dump([r for o, r in zip(ops, outs) if o == "S.1"][-1])
    d2 = nu.parse_dump([r for o, r in zip(ops, outs) if o == "S.2"][-1])
    if not any(p[0] == "22" for p in d1["peers_l"]):
        return ("node 2's public address changed; delivery was reliable for the peer timeout + retry horizon, it re-connected from the new "
                "address, but node 1 does not hold it as a peer")
    if not any(p[0] == "1" for p in d2["peers_l"]):
        return "after its address change node 2 is not connected to node 1 at the end"
    w2, w1 = outs[-4], outs[-1]
    if w2 == "w-" or w1 == "w-":
        return "both ends report the connection after the address change but payload does not pass in both directions (%s, %s)" % (w2[:20], w1[:20])
    return None


# ---------------------------------------------------------------------------------------------------------------------------
# 5. a MORE SPECIFIC claim appears (a node joins) after a decision for an address inside it was cached: the cached decision
#    must not be reused beyond the switch timeout
NESTED_MARK = "X.9993"


def nested_cases(rng, count):
    out = []
    for _ in range(count):
        st = rng.choice([5, 10, 30])
        mode = rng.choice(["tun-router", "tun-router", "tun-hub"])
        s = nu.Scenario()
        s.node(1, mode=mode, st=st, claims=["0a000100/24"])
        s.node(2, mode=mode, st=st, claims=["0a000000/8"])
        s.node(3, mode=mode, st=st, claims=["0a010000/16"])
        s.add("C.2.1", "A")
        s.tick(3)
        pkt = nu.ipv4_packet(nu.node_ip(1), bytes([10, 1, 1, 1]))
        s.add("P.1.%s" % pkt, "A", "O.2")                    # decision cached: 10.1.1.1 -> node 2 (the only claim so far)
        s.add(NESTED_MARK, "C.3.1", "A")                     # node 3 joins with 10.1.0.0/16
        for _ in range(st + 2):                              # a quiet stretch: only housekeeping
            s.t += 1
            s.add("T.%d" % s.t, "H.1", "H.2", "H.3", "A")
        s.add("P.1.%s" % pkt, "A", "O.3")
        s.add("S.1")
        out.append(s.line())
    return out


def oracle_nested(line, impl_out):
    ops, outs = line.split()[1:], impl_out.split()
    if len(ops) != len(outs):
        return "driver returned %d results for %d ops" % (len(outs), len(ops))
    if any(r.startswith("panic") for r in outs):
        return "panic"
    k = ops.index(NESTED_MARK)
    st = int([o for o in ops if o.startswith("N.")][0].split(".")[5])
    for o, r in list(zip(ops, outs))[k:]:
        if o.startswith("P.1."):
            got = sorted(d for d, _ in nu.emissions(r))
            if got != [3]:
                return ("packet for 10.1.1.1 read at node 1 more than the switch timeout (%d s) after the decision '-> node 2' was cached, with node 3's "
                        "more specific claim 10.1.0.0/16 live, went to %s: a cached decision is reused no longer than the switch timeout") % (st, got)
    return rt_all_dumps(line, impl_out)


# ---------------------------------------------------------------------------------------------------------------------------
# 6. peer timeout and switch timeout far apart: claims of a connected peer live by the PEER timeout (re-announced in time),
#    cached decisions by the switch timeout
TIMEOUTS_MARK = "X.9992"


def timeouts_cases(rng, count):
    out = []
    for _ in range(count):
        pt, st = rng.choice([(1000, 60), (1800, 300), (1800, 20), (900, 300)])
        s = nu.Scenario()
        s.node(1, mode="tun-router", pt=pt, st=st, claims=[_claim(1)])
        s.node(2, mode="tun-router", pt=pt, st=st, claims=[_claim(2)])
        s.add(TIMEOUTS_MARK, "C.2.1", "A")
        s.tick(3)
        horizon = min(pt + 100, 1200)
        probe_at = set([5, st - 1, st + 1, st + 10, 290, 310, 500, 830, 900, horizon - 1])
        for k in range(1, horizon):
            s.t += 1
            s.add("T.%d" % s.t, "H.1", "H.2", "A")
            if k in probe_at:
                s.add("S.1", "P.1.%s" % nu.ipv4_packet(nu.node_ip(1), nu.node_ip(2, 9)), "A", "O.2")
        out.append(s.line())
    return out


def oracle_timeouts(line, impl_out):
    ops, outs = line.split()[1:], impl_out.split()
    if len(ops) != len(outs):
        return "driver returned %d results for %d ops" % (len(outs), len(ops))
    if any(r.startswith("panic") for r in outs):
        return "panic"
    now = 1
    for i, (o, r) in enumerate(zip(ops, outs)):
        if o.startswith("T."):
            now = int(o[2:])
        elif o == "S.1":
            d = nu.parse_dump(r)
            if not any(p[0] == "2" for p in d["peers_l"]):
                return "at t=%d node 1 has dropped its healthy, regularly announcing peer 2" % now
            have = [c.split("@")[0] for c in d["claims_l"] if c.startswith("2:")]
            if have != ["2:" + _claim(2)]:
                return ("at t=%d node 1 holds the claims %s for its connected peer 2, whose announcements (at most 90 s apart) list [%s]: claims "
                        "live by the peer timeout, not by the switch timeout") % (now, have, _claim(2))
        elif o.startswith("P.1."):
            if sorted(d for d, _ in nu.emissions(r)) != [2] or outs[i + 2] == "w-":
                return "at t=%d a packet for the network of connected peer 2 was not delivered to it (%s / %s)" % (now, r[:30], outs[i + 2][:20])
    return rt_all_dumps(line, impl_out)


# ---------------------------------------------------------------------------------------------------------------------------
# 7. router mode on a tap device with MAC-range claims: unknown destinations are dropped and counted, never flooded
TAPROUTER_MARK = "X.9991"


def taprouter_cases(rng, count):
    out = []
    for _ in range(count):
        s = nu.Scenario()
        # node i claims the MAC range 02:00:00:00:0i:00/40
        def cl(i):
            return "%s/40" % bytes([2, 0, 0, 0, i, 0]).hex()
        n = rng.choice([2, 3])
        for i in range(1, n + 1):
            s.node(i, mode="tap-router", claims=[cl(i)])
        s.add(TAPROUTER_MARK)
        for i in range(2, n + 1):
            s.add("C.%d.1" % i, "A")
        s.tick(3)
        s.add("S.1")
        for _ in range(rng.choice([4, 8])):
            src = rng.randrange(1, n + 1)
            r = rng.random()
            if r < 0.5:
                j = rng.randrange(1, n + 1)
                dst = bytes([2, 0, 0, 0, j, rng.randrange(256)])
            elif r < 0.8:
                dst = bytes([2, 0, 0, 0, 9, rng.randrange(256)])          # nobody's range
            else:
                dst = b"\xff" * 6
            s.add("P.%d.%s" % (src, nu.eth_frame(dst, bytes([2, 0, 0, 0, src, 7]))), "A")
            for k in range(1, n + 1):
                s.add("O.%d" % k)
            s.add("S.%d" % src)
        out.append(s.line())
    return out


def oracle_taprouter(line, impl_out):
    ops, outs = line.split()[1:], impl_out.split()
    if len(ops) != len(outs):
        return "driver returned %d results for %d ops" % (len(outs), len(ops))
    if any(r.startswith("panic") for r in outs):
        return "panic"
    n = sum(1 for o in ops if o.startswith("N."))
    drops = {}
    i = 0
    while i < len(ops):
        o, r = ops[i], outs[i]
        if o.startswith("P."):
            src = int(o.split(".")[1])
            dst = bytes.fromhex(o.split(".")[2])[0:6]
            j = dst[4] if dst[:4] == bytes([2, 0, 0, 0]) and 1 <= dst[4] <= n and dst[4] != src else None
            want = [j] if j is not None else []
            got = sorted(d for d, _ in nu.emissions(r))
            if got != want:
                return ("router mode on a tap device: frame for %s read at node %d went to %s; the MAC-range claims select %s "
                        "(no live claim: dropped and counted, never flooded)") % (dst.hex(), src, got, want)
            d = nu.parse_dump(outs[i + 2 + n])
            before = drops.get(src)
            now = int(d["drop"])
            if before is not None and not want and now != before + 1:
                return "frame without a matching claim read at node %d: dropped-payload counter went %d -> %d" % (src, before, now)
            drops[src] = now
            i += 3 + n
            continue
        if o.startswith("S.") and r.startswith("peers="):
            drops[int(o[2:])] = int(nu.parse_dump(r)["drop"])
        i += 1
    return rt_all_dumps(line, impl_out)


# ---------------------------------------------------------------------------------------------------------------------------
# 8. a peer LEAVES (graceful shutdown: CLOSE to everybody): from that very moment - before any housekeeping tick - nothing selects it
CLOSE_MARK = "X.9989"


def close_cases(rng, count):
    out = []
    for _ in range(count):
        learning = rng.random() < 0.4
        s = nu.Scenario()
        if learning:
            mode = rng.choice(["tap-switch", "tap-normal"])
            for i in (1, 2, 3):
                s.node(i, mode=mode, st=3600)
        else:
            s.node(1, mode="tun-router", claims=[_claim(1)])
            s.node(2, mode="tun-router", claims=["0a000200/24", "0a000209/32"][:rng.choice([1, 2])])
            s.node(3, mode="tun-router", claims=["0a000000/8"])         # the wider claim that takes over
        s.add("C.2.1", "A", "C.3.1", "A")
        s.tick(rng.choice([3, 10, 70]))
        if learning:
            s.add("P.2.%s" % nu.eth_frame(b"\xff" * 6, nu.mac(42)), "A", "O.1", "O.2", "O.3")
            probe = "P.1.%s" % nu.eth_frame(nu.mac(42), nu.mac(1))
        else:
            probe = "P.1.%s" % nu.ipv4_packet(nu.node_ip(1), bytes([10, 0, 2, 9]))
        if rng.random() < 0.6:
            s.add(probe, "A", "O.2", "O.3")                 # a cached decision for the leaving peer
        s.add(CLOSE_MARK, "E.2", "A")                        # node 2 leaves; its CLOSE is delivered
        s.add("S.1", probe, "A", "O.2", "O.3")               # at once, no housekeeping in between
        s.tick(1)
        s.add("S.1", probe, "A", "O.2", "O.3")
        out.append(s.line())
    return out


def oracle_close(line, impl_out):
    ops, outs = line.split()[1:], impl_out.split()
    if len(ops) != len(outs):
        return "driver returned %d results for %d ops" % (len(outs), len(ops))
    if any(r.startswith("panic") for r in outs):
        return "panic"
    k = ops.index(CLOSE_MARK)
    for i in range(k, len(ops)):
        o, r = ops[i], outs[i]
        if o == "S.1":
            d = nu.parse_dump(r)
            if any(p[0] == "2" for p in d["peers_l"]):
                return "node 2 sent CLOSE but node 1 still holds it as a peer"
            v = rt_violation(d)
            if v:
                return "after node 2 left: " + v
        elif o.startswith("P.1."):
            got = sorted(x for x, _ in nu.emissions(r))
            if got != [3]:
                return ("right after node 2 left (CLOSE delivered, no housekeeping tick yet) a frame for one of its addresses read at node 1 went to %s; "
                        "the remaining peer [3] is to get it (wider claim / flooding) - never the peer that left, never nobody") % got
            if outs[i + 3] == "w-":
                return "frame not delivered at node 3"
    return None


FAMILIES = [("reannounce", reannounce_cases, oracle_reannounce), ("silent", silent_learned_cases, oracle_silent_learned)]


def is_node(line):
    return line.startswith("node ")


def family_of(line):
    for mark, name in ((REBIND_MARK, "rebind"), (NESTED_MARK, "nested"), (TIMEOUTS_MARK, "timeouts"), (TAPROUTER_MARK, "taprouter"), (CLOSE_MARK, "close")):
        if " %s " % mark in line:
            return name
    return "silent" if " M.3.1 " in line else "reannounce"


ORACLES = {"close": oracle_close, "rebind": oracle_rebind, "nested": oracle_nested, "timeouts": oracle_timeouts, "taprouter": oracle_taprouter,
           "silent": oracle_silent_learned, "reannounce": oracle_reannounce}


def oracle(line, impl_out):
    v = ORACLES[family_of(line)](line, impl_out)
    if v:
        return v
    # in every family, at every look: whatever the table can select is a peer
    return rt_all_dumps(line, impl_out)

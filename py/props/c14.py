"""C14 - full mesh from any connected bootstrap; a node never peers with itself"""
import itertools
import re
from check import Property
from props import nodeutil as nu


def connected_graphs(n):
    """all connected labelled graphs on 1..n as edge lists"""
    verts = list(range(1, n + 1))
    pairs = list(itertools.combinations(verts, 2))
    out = []
    for mask in range(1, 1 << len(pairs)):
        edges = [pairs[i] for i in range(len(pairs)) if mask >> i & 1]
        seen = {1}
        frontier = [1]
        while frontier:
            v = frontier.pop()
            for a, b in edges:
                for x, y in ((a, b), (b, a)):
                    if x == v and y not in seen:
                        seen.add(y)
                        frontier.append(y)
        if len(seen) == n:
            out.append(edges)
    return out


class C14(Property):
    id = "C14"
    rule = ("all connected labelled graphs on 2-4 nodes (5 nodes sampled; thorough: all on 5, sampled to 8) with a dial orientation per "
            "edge (a->b, b->a or both), NAT on/off per node (a NATed node must be the one dialling), then peer-exchange rounds on a "
            "reliable network: every pair must be mutually connected and no node may have itself as peer; self-dial scenarios: a node's "
            "own handshake datagrams looped back to it from every combination of differing source / destination address, alone and in "
            "a mesh; non-trivial = distinct graph/orientation that is not already complete")

    def gen(self, rng, tier):
        thorough = tier == "thorough"
        out = []
        for n in (2, 3, 4, 5):
            graphs = connected_graphs(n)
            if n == 5 and not thorough:
                graphs = rng.sample(graphs, 60)
            if n == 4 and not thorough:
                graphs = rng.sample(graphs, 25)
            for edges in graphs:
                orients = [rng.choice(["ab", "ba", "both"]) for _ in edges]
                nat = [False] * (n + 1)
                if rng.random() < 0.4:
                    for i in range(1, n + 1):
                        nat[i] = rng.random() < 0.4
                s = nu.Scenario()
                # cipher configuration of the whole mesh: the usual list, unencrypted only ("plain" on every node: the connection
                # objects then never get a crypto core), or plain allowed next to ciphers
                algos = rng.choice([nu.ALG, nu.ALG, "p|-", "p|1:44160000,3:43c80000"])
                # now and then one node (often the best connected one) has a lasting fault in a late housekeeping step - whatever is
                # behind that step is starved, the peer exchange must not be
                faulty = 0
                if not any(nat) and rng.random() < 0.3:
                    deg = {i: sum(1 for e in edges if i in e) for i in range(1, n + 1)}
                    faulty = max(deg, key=lambda i: (deg[i], rng.random()))
                # now and then one node advertises further addresses of its own (here: addresses nothing answers on), up to the seven
                # the node information can carry per family - with its socket address that makes eight
                advn, advl = 0, None
                if not any(nat) and not faulty and rng.random() < 0.3:
                    advn = rng.randrange(1, n + 1)
                    advl = list(range(61, 61 + rng.choice([1, 3, 6, 7, 7])))
                for i in range(1, n + 1):
                    s.node(i, mode="tun-router", claims=["%s/24" % bytes([10, 0, i, 0]).hex()], nat=nat[i], algos=algos, hkf=(i == faulty),
                           adv=(advl if i == advn else None))
                for (a, b), o in zip(edges, orients):
                    # an address-filtering NAT only lets replies in: the NATed end has to dial; two NATed ends dial each other
                    if nat[a] and not nat[b]:
                        o = "ab"
                    elif nat[b] and not nat[a]:
                        o = "ba"
                    elif nat[a] and nat[b]:
                        o = "both"
                    if o in ("ab", "both"):
                        s.add("C.%d.%d" % (a, b))
                    if o in ("ba", "both"):
                        s.add("C.%d.%d" % (b, a))
                s.add("A")
                s.tick(3 + 2 * n)
                for i in range(1, n + 1):
                    s.add("S.%d" % i)
                out.append(s.line())
        # self-dial: node 1 dials an address X that loops back to itself; its datagrams arrive with source Y
        # (hair-pinning / port forwarding / advertised address), X = Y included, alone and inside a mesh
        for _ in range(300 if thorough else 60):
            inmesh = rng.random() < 0.5
            s = nu.Scenario()
            s.node(1, mode="tun-router", claims=["0a000100/24"])
            if inmesh:
                s.node(2, mode="tun-router", claims=["0a000200/24"])
                s.add("C.2.1", "A")
                s.tick(2)
            x = rng.choice([50, 51])
            y = rng.choice([50, 51, 52, 2 if inmesh else 53])
            s.add("C.1.%d" % x)
            for _ in range(5):
                s.add("B.1.%d.%d" % (x, y), "B.1.%d.%d" % (y, x))
            s.tick(1, settle=False)
            for _ in range(3):
                s.add("B.1.%d.%d" % (x, y), "B.1.%d.%d" % (y, x))
            s.add("S.1")
            out.append(s.line())
        # port forwarding: node 1 is reachable (and seen by everybody) under a public address it does not know; peers list
        # that address under node 1's identity; node 1 must adopt it and stop dialling it - also while a dial of that very
        # address is in flight (it is in node 1's own reconnect list and the router does not hair-pin)
        for _ in range(40 if thorough else 10):
            s = nu.Scenario()
            pub = rng.choice([50, 60])
            n = rng.choice([2, 3])
            for i in range(1, n + 1):
                s.node(i, mode="tun-router", claims=["%s/24" % bytes([10, 0, i, 0]).hex()])
            s.add("K.1.%d" % pub)
            selfdial = rng.random() < 0.7
            if selfdial:
                s.add("R.1.%d" % pub, "C.1.%d" % pub)
            if rng.random() < 0.5:
                s.add("C.1.2")
            else:
                s.add("C.2.%d" % pub)
            if n == 3:
                s.add("C.3.2")
            s.add("A")
            s.tick(rng.choice([200, 230, 420]))   # windows that avoid the 300 s own-address reset
            s.add("S.1")
            for _ in range(30):
                s.t += 1
                s.add("T.%d" % s.t, "H.1", "A")
            s.add("S.1")
            out.append(s.line())
        return out

    def model_line(self, line, impl_out):
        return nu.model_line(line, impl_out)

    def canon_impl(self, line, out):
        return nu.canon_impl(nu.strip_hkerr(line, out))

    def nontrivial(self, line, impl_out):
        return True

    def tag(self, line, impl_out):
        n = sum(1 for t in line.split() if t.startswith("N."))
        return ("selfdial" if " B.1." in line else "mesh") + ":n%d" % n + (":nat" if ".nat" in line else "")

    def oracle(self, line, impl_out):
        ops = line.split()[1:]
        outs = impl_out.split()
        if len(ops) != len(outs):
            return "driver returned %d results for %d ops" % (len(outs), len(ops))
        n = sum(1 for t in ops if t.startswith("N."))
        for i, (o, r) in enumerate(zip(ops, outs)):
            if r.startswith("panic"):
                return "panic at op %d" % i
        dumps = {int(o.split(".")[1]): nu.parse_dump(r) for o, r in zip(ops, outs) if o.startswith("S.")}
        for me, d in dumps.items():
            for p in d["peers_l"]:
                if p[1] == str(me):
                    return "node %d has itself as a peer (via address %s)" % (me, p[0])
        if " B.1." in line:
            return None
        if " K.1." in line:
            pub = [t for t in ops if t.startswith("K.1.")][0].split(".")[2]
            d1 = [nu.parse_dump(r) for o, r in zip(ops, outs) if o == "S.1"]
            own = d1[0]["own"][1:-1].split(",")
            if pub not in own:
                return "address %s, listed by its peers under node 1's own identity for two announcement rounds, was not adopted (own addresses %s)" % (pub, own)
            # re-sends of an attempt that was already in flight when the address was adopted do not count; a NEW attempt
            # (new handshake object = new salt) to an adopted address does
            first = ops.index("S.1")
            seen = set()
            for idx, (o, r) in enumerate(zip(ops, outs)):
                for d, k in nu.emissions(re.sub(r"n\d+>", "", r)) if not r.startswith("a") else []:
                    if str(d) == pub and k.startswith("I1."):
                        if idx > first and k not in seen:
                            return "node 1 starts a new handshake with its own public address %s after adopting it" % pub
                        seen.add(k)
            return None
        for me, d in dumps.items():
            have = set(int(p[0]) for p in d["peers_l"])
            want = set(range(1, n + 1)) - {me}
            if have != want:
                return "after the peer-exchange rounds node %d is connected to %s, full mesh needs %s" % (me, sorted(have), sorted(want))
        return None


PROP = C14()

"""C03 - replay window: a captured datagram dies within two housekeeping ticks."""
import itertools
from check import Property
from props import coreutil as cu


def histories(max_len, max_d):
    """all sequences over {seal, deliver i (i < #sealed so far), tick} up to max_len, at most max_d seals"""
    out = []

    def rec(prefix, nsealed, n):
        if prefix:
            out.append(list(prefix))
        if n == 0:
            return
        if nsealed < max_d:
            prefix.append("s")
            rec(prefix, nsealed + 1, n - 1)
            prefix.pop()
        for i in range(nsealed):
            prefix.append("d%d" % i)
            rec(prefix, nsealed, n - 1)
            prefix.pop()
        if nsealed > 0:
            prefix.append("t")
            rec(prefix, nsealed, n - 1)
            prefix.pop()
    rec([], 0, max_len)
    return out


def to_tokens(h):
    toks = []
    for e in h:
        if e == "s":
            toks.append("s.a.%02x" % (len(toks) & 0xff))
        elif e == "t":
            toks.append("k.b")
        else:
            toks.append("d.b.%s" % e[1:])
    return toks


class C03(Property):
    id = "C03"
    rule = ("histories over {seal next at A, deliver any earlier datagram (again) to B, tick B}: exhaustive up to a length/datagram bound "
            "(quick: length<=8 over <=4 datagrams; thorough: length<=9 over <=5), random histories up to length 400 incl. key "
            "rotations into every slot, per cipher, sender counters started at byte-carry boundaries; non-trivial = distinct history "
            "containing at least one rejected and one accepted delivery")
    assumptions = ["ideal AEAD (Core.v: only a genuine seal opens, under its own key and nonce)",
                   "counters >= 1 (pos_hist): the all-zero nonce is never produced by a sender"]

    def gen(self, rng, tier):
        thorough = tier == "thorough"
        out = []
        hs = histories(9, 5) if thorough else histories(8, 4)
        algs = cu.ALGS if thorough else ["chacha"]
        for h in hs:
            # only histories that end with a delivery say something new
            if not h[-1].startswith("d"):
                continue
            for alg in algs:
                out.append(cu.header(rng, alg) + " " + " ".join(to_tokens(h)))
        # random long histories, with rotations (same key installed at both ends in the same slot)
        n_rand = 3000 if thorough else 400
        for _ in range(n_rand):
            L = rng.choice([20, 50, 120, 400]) if thorough else rng.choice([15, 40, 120])
            toks = []
            sealed = 0
            nextkey = 300
            for _ in range(L):
                r = rng.random()
                if r < 0.3 or sealed == 0:
                    toks.append("s.a.%02x" % rng.randrange(256))
                    sealed += 1
                elif r < 0.75:
                    i = max(0, sealed - 1 - int(rng.expovariate(0.5)))
                    toks.append("d.b.%d" % i)
                elif r < 0.93:
                    toks.append("k.b")
                elif r < 0.97:
                    # rotate: same key and id at both ends, sender starts using it
                    kid = nextkey
                    nextkey += 1
                    ident = rng.randrange(0, 12)
                    toks.append("n.b.%d.%d.0.%s" % (kid, ident, cu.rnd6(rng)))
                    toks.append("n.a.%d.%d.1.%s" % (kid, ident, cu.rnd6(rng)))
                else:
                    toks.append("p.b")
            toks.append("p.b")
            out.append(cu.header(rng) + " " + " ".join(toks))
        return out

    def nontrivial(self, line, impl_out):
        toks = impl_out.split()
        return "err" in toks and any(t.startswith("ok:") for t in toks)

    def tag(self, line, impl_out):
        toks = impl_out.split()
        return "ok%d/err%d/rot%d" % (min(3, sum(t.startswith("ok:") for t in toks)), min(3, toks.count("err")),
                                      min(1, line.count(" n.a.")))

    def oracle(self, line, impl_out):
        """history-only reference on the real accept/reject outcomes (histories without rotation)"""
        alg, key, ra, rb, ops = cu.parse_line(line)
        if any(o.startswith("n.") for o in ops):
            return None
        outs = impl_out.split()
        if len(outs) != len(ops):
            return "driver returned %d results for %d operations: %s" % (len(outs), len(ops), impl_out[:100])
        ctr = []
        g2, g1, g0 = [], [], []
        for o, r in zip(ops, outs):
            p = o.split(".")
            if p[0] == "s":
                if not r.startswith("S"):
                    return "seal failed: " + r
                ctr.append(int(r.split(":")[1], 16))
            elif p[0] == "k":
                g2, g1, g0 = g2 + g1, g0, []
            elif p[0] == "d":
                n = ctr[int(p[2])]
                want = all(m < n for m in g2)
                got = r.startswith("ok:")
                if r == "panic":
                    return "panic on delivery"
                if want != got:
                    return "delivery of counter %x %s, but the counters accepted before the tick preceding the most recent tick are %s" % (
                        n, "accepted" if got else "rejected", ["%x" % m for m in g2])
                if got:
                    if r != "ok:%02x" % (int(p[2]) & 0xff) and not r.startswith("ok:"):
                        return "payload altered"
                    g0.append(n)
        return None


PROP = C03()

"""C03 - replay window: a captured datagram dies within two housekeeping ticks."""
import itertools
from check import Property
from props import coreutil as cu
from props import pcutil as pu
from props import nodeutil as nu

PC_ALG = "-|3:43c80000"


def pc_line(rng, hist, ini):
    """hist over {s1,s2 (seal at end 1/2), d<k> (re-deliver k-th last data datagram of the other end), t1,t2 (tick)}"""
    s1, s2 = rng.sample(range(1, 1 << 31), 2)
    toks = [pu.obj(1, 1, s1, 1, [1], PC_ALG, "aa"), pu.obj(2, 2, s2, 1, [1], PC_ALG, "bb")]
    oth = 3 - ini
    toks += ["I.%d" % ini, "D.%d.0" % oth, "D.%d.1" % ini, "D.%d.2" % oth, "D.%d.3" % ini]
    n = 0
    for h in hist:
        if h[0] == "s":
            n += 1
            toks.append("S.%s.0.%04x" % (h[1], n))
        elif h[0] == "t":
            toks.append("E.%s" % h[1])
        elif h[0] == "c":
            # a housekeeping second in which this end's rotation cycle is due (it emits a rotation message)
            toks += ["C.%s.119" % h[1], "E.%s" % h[1]]
        elif h[0] == "r":
            # deliver to dst the latest rotation message of the other end
            dst = int(h[1])
            toks.append("L.%d.%d.r.0" % (dst, 3 - dst))
        else:
            # d<dst><k>: deliver to dst the k-th last data datagram sealed by the other end
            dst = int(h[1])
            toks.append("L.%d.%d.d.%s" % (dst, 3 - dst, h[2:]))
    return "pc " + " ".join(toks)


def histories(max_len, max_d):
    """all sequences over {seal, deliver i (i < #sealed so far), tick} up to max_len, at most max_d seals"""
    out = []

    def rec(prefix, nsealed, n):
        if prefix:
            out.append(list(prefix))
        if n == 0:
            return
        if nsealed < max_d:
            prefix.append("s")
            rec(prefix, nsealed + 1, n - 1)
            prefix.pop()
        for i in range(nsealed):
            prefix.append("d%d" % i)
            rec(prefix, nsealed, n - 1)
            prefix.pop()
        if nsealed > 0:
            prefix.append("t")
            rec(prefix, nsealed, n - 1)
            prefix.pop()
    rec([], 0, max_len)
    return out


def to_tokens(h):
    toks = []
    for e in h:
        if e == "s":
            toks.append("s.a.%02x" % (len(toks) & 0xff))
        elif e == "t":
            toks.append("k.b")
        else:
            toks.append("d.b.%s" % e[1:])
    return toks


class C03(Property):
    id = "C03"
    rule = ("histories over {seal next at A, deliver any earlier datagram (again) to B, tick B}: exhaustive up to a length/datagram bound "
            "(quick: length<=8 over <=4 datagrams; thorough: length<=9 over <=5), random histories up to length 400 incl. key "
            "rotations into every slot, per cipher, sender counters started at byte-carry boundaries; non-trivial = distinct history "
            "containing at least one rejected and one accepted delivery")
    assumptions = ["ideal AEAD (Core.v: only a genuine seal opens, under its own key and nonce)",
                   "counters >= 1 (pos_hist): the all-zero nonce is never produced by a sender"]

    def gen(self, rng, tier):
        thorough = tier == "thorough"
        out = []
        hs = histories(9, 5) if thorough else histories(8, 4)
        algs = cu.ALGS if thorough else ["chacha"]
        for h in hs:
            # only histories that end with a delivery say something new
            if not h[-1].startswith("d"):
                continue
            for alg in algs:
                out.append(cu.header(rng, alg) + " " + " ".join(to_tokens(h)))
        # random long histories, with rotations (same key installed at both ends in the same slot)
        n_rand = 3000 if thorough else 400
        for _ in range(n_rand):
            L = rng.choice([20, 50, 120, 400]) if thorough else rng.choice([15, 40, 120])
            toks = []
            sealed = 0
            nextkey = 300
            for _ in range(L):
                r = rng.random()
                if r < 0.3 or sealed == 0:
                    toks.append("s.a.%02x" % rng.randrange(256))
                    sealed += 1
                elif r < 0.75:
                    i = max(0, sealed - 1 - int(rng.expovariate(0.5)))
                    toks.append("d.b.%d" % i)
                elif r < 0.93:
                    toks.append("k.b")
                elif r < 0.97:
                    # rotate: same key and id at both ends, sender starts using it
                    kid = nextkey
                    nextkey += 1
                    ident = rng.randrange(0, 12)
                    toks.append("n.b.%d.%d.0.%s" % (kid, ident, cu.rnd6(rng)))
                    toks.append("n.a.%d.%d.1.%s" % (kid, ident, cu.rnd6(rng)))
                else:
                    toks.append("p.b")
            toks.append("p.b")
            out.append(cu.header(rng) + " " + " ".join(toks))
        # the same through PeerCrypto after a real handshake, towards the handshake initiator (which keeps its
        # handshake object for another 60 ticks) and towards the responder
        for _ in range(4000 if thorough else 500):
            ini = rng.choice([1, 2])
            hist = []
            for _ in range(rng.choice([6, 12, 30])):
                r = rng.random()
                e = rng.choice("12")
                if r < 0.35:
                    hist.append("s" + e)
                elif r < 0.7:
                    hist.append("d%s%d" % (e, rng.choice([0, 0, 1, 2, 3])))
                else:
                    hist.append("t" + e)
            out.append(pc_line(rng, hist, ini))
        # seconds in which a rotation message is due (PeerCrypto::every_second takes another path, with early returns): the window
        # must move in those seconds too.  (a) rotation messages lost - the sealing keys never change; (b) delivered at once, with
        # every datagram first delivered in sealing order (for such histories the sealing order is the counter order per key and
        # the history-only reference is exact across the key switch); at most 2 cycles per line: with the proposal that ends the
        # handshake that is at most key ids 1..3, so no key slot (id mod 4) is re-keyed under a datagram still being replayed
        for ini in (1, 2):
            for dst in (1, 2):
                src = 3 - dst
                for k1 in range(0, 3):
                    for k2 in range(0, 3):
                        for lost in (True, False):
                            rot = ["c%d" % dst] + ([] if lost else ["r%d" % src, "r%d" % dst])
                            hist = ["s%d" % src, "d%d0" % dst] + ["t%d" % dst] * k1 + rot + ["t%d" % dst] * k2 + ["d%d0" % dst]
                            out.append(pc_line(rng, hist, ini))
                            hist = ["s%d" % src, "d%d0" % dst] + ["t%d" % dst] * k1 + ["c%d" % src] + ([] if lost else ["r%d" % dst, "r%d" % src]) + ["t%d" % dst] * k2 + ["d%d0" % dst]
                            out.append(pc_line(rng, hist, ini))
        for _ in range(1500 if thorough else 200):
            ini = rng.choice([1, 2])
            lost = rng.random() < 0.4
            hist, cycles = [], 0
            for _ in range(rng.choice([8, 16, 30])):
                r = rng.random()
                e = rng.choice("12")
                o = "21"[int(e) - 1]
                if r < 0.3:
                    hist += ["s" + e, "d%s0" % o]            # sealed and delivered at once: first deliveries in sealing order
                elif r < 0.55:
                    hist.append("d%s%d" % (e, rng.choice([0, 0, 1, 2, 3])))
                elif r < 0.85 or cycles >= 2:
                    hist.append("t" + e)
                else:
                    cycles += 1
                    hist.append("c" + e)
                    if not lost:
                        hist += ["r" + o, "r" + e]
            out.append(pc_line(rng, hist, ini))
        for ini in (1, 2):
            for dst in (1, 2):
                src = 3 - dst
                for k in range(0, 6):
                    hist = ["s%d" % src, "d%d0" % dst] + ["t%d" % dst] * k + ["d%d0" % dst]
                    out.append(pc_line(rng, hist, ini))
                    hist = ["s%d" % src, "s%d" % src, "d%d0" % dst, "d%d1" % dst] + ["t%d" % dst] * k + ["d%d0" % dst, "d%d1" % dst]
                    out.append(pc_line(rng, hist, ini))
        # NODE level ("tick driven once per second for every peer"): a payload datagram captured on the wire is re-delivered r housekeeping
        # rounds after its first delivery, r = 0..5 - plain, and with a handshake ping of the sender replayed first (a second, never
        # completing handshake entry for the sender's address then sits next to the established connection)
        for r in range(0, 6):
            for variant in ("plain", "ping-first", "ping-later"):
                for mode in (["tun-router", "tap-switch"] if thorough else ["tun-router"]):
                    s = nu.Scenario()
                    if mode.startswith("tun"):
                        s.node(1, mode=mode, claims=["0a000100/24"])
                        s.node(2, mode=mode, claims=["0a000200/24"])
                        frame = nu.ipv4_packet(nu.node_ip(1), nu.node_ip(2), bytes([r, 7]))
                    else:
                        s.node(1, mode=mode)
                        s.node(2, mode=mode)
                        frame = nu.eth_frame(b"\xff" * 6, nu.mac(1), None, b"\x08\x00" + bytes([r, 7]))
                    s.add("C.1.2", "A")
                    s.tick(rng.choice([2, 70]))            # 70: the initiator has stopped lingering
                    if variant == "ping-first":
                        s.add("J.0.2.1")
                    s.add("P.1.%s" % frame, "A", "O.2")
                    if variant == "ping-later":
                        s.add("J.0.2.1")
                    for _ in range(r):
                        s.t += 1
                        s.add("T.%d" % s.t, "H.1", "H.2", "A")
                    s.add("X.9990", "L.2.1.d.0", "O.2", "S.2")
                    out.append(s.line())
        return out

    def model_line(self, line, impl_out):
        return nu.model_line(line, impl_out) if line.startswith("node ") else line

    def canon_impl(self, line, out):
        return nu.canon_impl(out) if line.startswith("node ") else super().canon_impl(line, out)

    def oracle_node(self, line, impl_out):
        ops, outs = line.split()[1:], impl_out.split()
        if len(ops) != len(outs):
            return "driver returned %d results for %d ops" % (len(outs), len(ops))
        if any(r.startswith("panic") for r in outs):
            return "panic"
        k = ops.index("X.9990")
        rounds = sum(1 for o in ops[:k] if o == "H.2") - sum(1 for o in ops[:ops.index([o for o in ops if o.startswith("P.1.")][0])] if o == "H.2")
        first = outs[[i for i, o in enumerate(ops) if o.startswith("P.1.")][0] + 2]
        if first == "w-":
            return "the payload was not delivered in the first place"
        again = outs[k + 2]
        if rounds >= 2 and again != "w-":
            return ("a payload datagram captured on the wire was accepted again %d housekeeping rounds after its first delivery (interface of node 2 "
                    "got %s): a captured datagram dies within two ticks") % (rounds, again[:40])
        return None

    def nontrivial(self, line, impl_out):
        toks = impl_out.split()
        if line.startswith("node "):
            return True
        if line.startswith("pc "):
            return "err" in toks and any(t.startswith("Msg0:") for t in toks)
        return "err" in toks and any(t.startswith("ok:") for t in toks)

    def tag(self, line, impl_out):
        toks = impl_out.split()
        if line.startswith("node "):
            return "node:" + ("ping" if " J.0.2.1 " in line else "plain")
        if line.startswith("pc "):
            return "pc:ok%d/err%d" % (min(3, sum(t.startswith("Msg0:") for t in toks)), min(3, toks.count("err")))
        return "ok%d/err%d/rot%d" % (min(3, sum(t.startswith("ok:") for t in toks)), min(3, toks.count("err")),
                                      min(1, line.count(" n.a.")))

    def oracle_pc(self, line, impl_out):
        ops = line.split()[1:]
        outs = impl_out.split()
        if len(ops) != len(outs):
            return "driver returned %d results for %d ops" % (len(outs), len(ops))
        sent = {1: [], 2: []}            # payload tags in sealing order per sender
        G = {1: ([], [], []), 2: ([], [], [])}   # per receiver: counters (= sealing order index) accepted
        for i, (o, r) in enumerate(zip(ops, outs)):
            p = o.split(".")
            if r.startswith("panic"):
                return "panic at op %d" % i
            if p[0] == "S":
                sent[int(p[1])].append(p[3])
            elif p[0] == "E":
                e = int(p[1])
                g2, g1, g0 = G[e]
                G[e] = (g2 + g1, g0, [])
            elif p[0] == "L" and p[3] == "d":
                dst, src, k = int(p[1]), int(p[2]), int(p[4])
                if k >= len(sent[src]):
                    continue
                idx = len(sent[src]) - 1 - k       # sealing order = counter order
                g2, g1, g0 = G[dst]
                want = all(m < idx for m in g2)
                got = r.startswith("Msg0:")
                if want != got:
                    return ("PeerCrypto end %d %s datagram #%d of its peer although the datagrams accepted before the tick preceding the most "
                            "recent tick are %s") % (dst, "accepted" if got else "rejected", idx, g2)
                if got:
                    if r != "Msg0:" + sent[src][idx]:
                        return "payload altered"
                    g0.append(idx)
        return None

    def oracle(self, line, impl_out):
        """history-only reference on the real accept/reject outcomes (histories without rotation)"""
        if line.startswith("node "):
            return self.oracle_node(line, impl_out)
        if line.startswith("pc "):
            return self.oracle_pc(line, impl_out)
        alg, key, ra, rb, ops = cu.parse_line(line)
        outs = impl_out.split()
        if len(outs) != len(ops):
            return "driver returned %d results for %d operations: %s" % (len(outs), len(ops), impl_out[:100])
        # per key slot, as the property is stated: a datagram belongs to the key INSTANCE it was sealed under; every rotation
        # installs a new instance with an empty history in its slot (id mod 4); a tick advances the history of EVERY slot
        send_kid = {"a": [key, None, None, None], "b": [key, None, None, None]}     # key instance per slot, per sealing end
        recv = {e: [{"kid": (key if k == 0 else None), "g": ([], [], [])} for k in range(4)] for e in "ab"}
        sent = []          # (sealing end, slot byte, key instance, counter)
        for o, r in zip(ops, outs):
            p = o.split(".")
            if r == "panic":
                return "panic at op " + o
            if p[0] == "s":
                if not r.startswith("S"):
                    return "seal failed: " + r
                slot = int(r[1:].split(":")[0])
                sent.append((p[1], slot, send_kid[p[1]][slot % 4], int(r.split(":")[1], 16)))
            elif p[0] == "k":
                for sl in recv[p[1]]:
                    g2, g1, g0 = sl["g"]
                    sl["g"] = (g2 + g1, g0, [])
            elif p[0] == "n":
                end, kid, ident, use = p[1], int(p[2]), int(p[3]), p[4] == "1"
                recv[end][ident % 4] = {"kid": kid, "g": ([], [], [])}
                send_kid[end][ident % 4] = kid
            elif p[0] == "d":
                i = int(p[2])
                if i >= len(sent):
                    continue
                _, slot, kid, ctr = sent[i]
                sl = recv[p[1]][slot % 4]
                g2, g1, g0 = sl["g"]
                same_key = sl["kid"] is not None and sl["kid"] == kid
                want = same_key and all(m < ctr for m in g2)
                got = r.startswith("ok:")
                if want != got:
                    if not same_key:
                        return "datagram sealed under key instance %s in slot %d was %s by an end holding %s in that slot" % (
                            kid, slot, "accepted" if got else "rejected", sl["kid"])
                    return ("delivery of counter %x (key slot %d) %s, but the counters accepted in that slot before the tick preceding the "
                            "most recent tick are %s") % (ctr, slot, "accepted" if got else "rejected", ["%x" % m for m in g2])
                if got:
                    g0.append(ctr)
        return None


PROP = C03()

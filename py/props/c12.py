"""C12 - routes track peers: exactly the announced claims, nothing for the disconnected"""
import itertools
from check import Property
from props import tableutil as tu
from props import nodeutil as nu
from props import routeutil as ru

U = ["0a000000/8", "0a010000/16", "0a010200/24", "0a020000/16"]


class C12(Property):
    id = "C12"
    rule = ("announcement sequences per peer over all subsets and orders of a 4-claim universe incl. duplicates (exhaustive to length 3 in quick, "
            "4 in thorough), with a second peer's entries interleaved, time steps, disconnects and lookups between; after every step the dump is "
            "compared with the history reference: claims per peer == last announcement, no entry for a disconnected peer; node level: the same on real "
            "nodes - a connected peer changes its claims at run time and the other node's view must equal the new list after one announcement "
            "interval; a silent peer is timed out together with its learned addresses; "
            "non-trivial = distinct sequence in which some claim is dropped or a peer removed")

    def gen(self, rng, tier):
        thorough = tier == "thorough"
        out = []
        # all ordered selections (with repetition allowed up to 3 entries) of the universe as announcements
        anns = ["-"]
        for k in (1, 2, 3):
            for sel in itertools.product(U, repeat=k):
                anns.append(";".join(sel))
        anns_small = ["-"] + [";".join(s) for k in (1, 2) for s in itertools.permutations(U[:3], k)] + ["0a000000/8;0a000000/8", ";".join(U)]
        depth = 4 if thorough else 3
        pool = anns_small
        for n in range(2, depth + 1):
            for seq in itertools.product(pool, repeat=n):
                toks = ["T.1", "S.2.0a010200/24;0a020000/16", "L.0a010203", "L.0a020304", "L.0a000001"]
                for i, a in enumerate(seq):
                    toks.append("S.1.%s" % a)
                    toks.append("D")
                    toks.append("L.0a010203")
                toks.append("D")
                out.append("table 10 20 " + " ".join(toks))
        for a in anns:
            for b in rng.sample(anns, 6 if not thorough else 40):
                out.append("table 10 20 T.1 S.1.%s L.0a010203 L.0a020304 D S.1.%s D L.0a010203 L.0a020304 D T.12 H D T.22 H D" % (a, b))
        for _ in range(5000 if thorough else 800):
            cto, clto = rng.choice([(10, 20), (300, 300), (5, 3), (1, 1)])
            ops = tu.rand_ops(rng, rng.choice([10, 30, 100]), cto, clto)
            # dump after every mutating op
            o2 = []
            for o in ops:
                o2.append(o)
                if o[0] in "SRH":
                    o2.append("D")
            out.append("table %d %d %s" % (cto, clto, " ".join(o2)))
        # node level: how the NODE drives the table - a connected peer's claims change at run time (withdrawn, shrunk, moved, grown),
        # and a peer that taught addresses falls silent and is timed out
        k = 80 if thorough else 10
        out += ru.reannounce_cases(rng, k) + ru.silent_learned_cases(rng, k)
        out += ru.rebind_cases(rng, max(2, k // 3)) + ru.nested_cases(rng, max(3, k // 2)) + ru.timeouts_cases(rng, 4 if thorough else 2) + ru.taprouter_cases(rng, max(4, k // 2)) + ru.close_cases(rng, max(4, k // 2))
        return out

    def model_line(self, line, impl_out):
        return nu.model_line(line, impl_out) if ru.is_node(line) else line

    def canon_impl(self, line, out):
        return nu.canon_impl(out) if ru.is_node(line) else super().canon_impl(line, out)

    def nontrivial(self, line, impl_out):
        if ru.is_node(line):
            return True
        return " R." in line or " S.1.-" in line or line.count(" S.1.") >= 2

    def tag(self, line, impl_out):
        if ru.is_node(line):
            return "node:" + ru.family_of(line)
        return "table:S%d/R%d" % (min(4, line.count(" S.")), min(2, line.count(" R.")))

    def oracle(self, line, impl_out):
        if ru.is_node(line):
            return ru.oracle(line, impl_out)
        return tu.ref_check(line, impl_out)


PROP = C12()

"""helpers for `core` scenario lines (two CryptoCore ends + list of sealed datagrams)"""
ALGS = ["aes128", "aes256", "chacha"]
BOUNDARY_STARTS = ["000000000000", "0000000000fe", "00000000ffff", "0000feffffff", "fffffffffffe", "ffffffffffff",
                   "00ffffffffff", "7fffffffffff"]


def rnd6(rng):
    r = rng.random()
    if r < 0.25:
        return rng.choice(BOUNDARY_STARTS)
    if r < 0.5:
        return "%012x" % rng.randrange(0, 1 << 16)
    return "%012x" % rng.getrandbits(48)


def header(rng, alg=None, key=None):
    alg = alg or rng.choice(ALGS)
    key = key if key is not None else rng.randrange(1, 200)
    ra = ",".join(rnd6(rng) for _ in range(4))
    rb = ",".join(rnd6(rng) for _ in range(4))
    return "core %s %d %s %s" % (alg, key, ra, rb)


def parse_line(line):
    t = line.split()
    return t[1], int(t[2]), t[3].split(","), t[4].split(","), t[5:]

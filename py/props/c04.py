"""C04 - no (key, nonce) pair is ever used twice"""
import itertools
import re
from check import Property
from props import coreutil as cu
from props import pcutil as pu

M96 = 1 << 96


class C04(Property):
    id = "C04"
    rule = ("counter increment probed on every single-byte carry boundary, every pattern 00..00 ff..ff, values around 2^56 and 2^88 and "
            "random 12-byte values against +1 mod 2^96; CryptoCore pairs with send counters placed at byte-carry boundaries and at the "
            "56-bit limit (datagram must not open beyond it, nonce must still be new); whole connection lifetimes through real PeerCrypto "
            "pairs (handshake by either side or both, many rotations, loss and duplication of rotation messages) with the guarded seal log "
            "(fingerprint of key material, 12-byte nonce) checked for duplicates and for strictly increasing counters per key and half; "
            "non-trivial = distinct case with at least two seals under one key")
    assumptions = ["'starts at an unpredictable value' is not decided: the theorems hold for every start value, randomness is ring::SystemRandom's"]

    def gen(self, rng, tier):
        thorough = tier == "thorough"
        out = []
        vals = set()
        for k in range(13):
            vals.add(int.from_bytes(b"\x00" * (12 - k) + b"\xff" * k, "big"))
            for top in (0x00, 0x7f, 0x80, 0xfe, 0xff, 0x01):
                if k < 12:
                    vals.add(int.from_bytes(b"\x00" * (11 - k) + bytes([top]) + b"\xff" * k, "big"))
        for i in range(12):
            for b in (0xff, 0xfe, 0x00, 0x7f, 0x80):
                v = bytearray(12)
                v[i] = b
                vals.add(int.from_bytes(v, "big"))
                v2 = bytearray(b"\xff" * 12)
                v2[i] = b
                vals.add(int.from_bytes(v2, "big"))
        for c in (1 << 56, 1 << 88, 1 << 95, (1 << 95) + (1 << 48), 1 << 48):
            for d in (-2, -1, 0, 1):
                vals.add((c + d) % M96)
        for _ in range(20000 if thorough else 2000):
            vals.add(rng.getrandbits(96))
        for v in sorted(vals):
            out.append("nonce_inc %024x" % v)
        # counters at boundaries inside a core pair
        starts = ["00" * 5 + "%014x" % x for x in [0, 0xfe, 0xff, 0xffff, 0xfffffe, 0xffffffffff, (1 << 56) - 3, (1 << 56) - 2, (1 << 56) - 1]]
        for alg in cu.ALGS:
            for st in starts:
                a = "80" + st[2:]
                toks = ["q.a.0.%s" % a]
                for i in range(4):
                    toks += ["s.a.%02x" % i, "d.b.%d" % i]
                toks += ["z.a", "p.a"]
                out.append(cu.header(rng, alg) + " " + " ".join(toks))
        # connection lifetimes
        ALG = "-|3:43c80000"
        for _ in range(400 if thorough else 60):
            s1, s2 = rng.sample(range(1, 1 << 31), 2)
            toks = [pu.obj(1, 1, s1, 1, [1], ALG, "aa"), pu.obj(2, 2, s2, 1, [1], ALG, "bb")]
            r = rng.random()
            if r < 0.4:
                toks += ["I.1", "D.2.0", "D.1.1", "D.2.2", "D.1.3"]
            elif r < 0.8:
                toks += ["I.2", "D.1.0", "D.2.1", "D.1.2", "D.2.3"]
            else:
                # dual open, then deliver until done
                toks += ["I.1", "I.2", "L.2.1.i.0", "L.1.2.i.0"] + ["L.2.1.i.0", "L.1.2.i.0", "L.2.1.r.0", "L.1.2.r.0"] * 3
            n = 0
            for _ in range(rng.choice([20, 60, 150])):
                x = rng.random()
                if x < 0.35:
                    e = rng.choice("12")
                    n += 1
                    toks.append("S.%s.0.%04x" % (e, n))
                elif x < 0.5:
                    e = rng.choice("12")
                    toks += ["C.%s.119" % e, "E.%s" % e]
                elif x < 0.8:
                    toks.append(rng.choice(["L.2.1.r.0", "L.1.2.r.0", "L.2.1.r.1", "L.1.2.r.1", "L.2.1.d.0", "L.1.2.d.0"]))
                else:
                    toks.append("E.%s" % rng.choice("12"))
            toks.append("Z.0")
            out.append("pc " + " ".join(toks))
        # long lives: a dozen complete rotation rounds (each end cycles, every rotation message delivered), payload sealed by both ends
        # after every step - key ids wrap around the four key slots several times; the seal log is checked for the START of every
        # key's counter sequence
        for _ in range(40 if thorough else 6):
            s1, s2 = rng.sample(range(1, 1 << 31), 2)
            toks = [pu.obj(1, 1, s1, 1, [1], ALG, "aa"), pu.obj(2, 2, s2, 1, [1], ALG, "bb")]
            ini = rng.choice([1, 2])
            oth = 3 - ini
            toks += ["I.%d" % ini, "D.%d.0" % oth, "D.%d.1" % ini, "D.%d.2" % oth, "D.%d.3" % ini]
            n = 0
            for rnd in range(rng.choice([10, 14])):
                for e in ((1, 2) if rnd % 2 == 0 else (2, 1)):
                    o = 3 - e
                    toks += ["C.%d.119" % e, "E.%d" % e, "L.%d.%d.r.0" % (o, e), "L.%d.%d.r.0" % (e, o)]
                    for x in (1, 2):
                        n += 1
                        toks.append("S.%d.0.%04x" % (x, n))
            toks.append("Z.0")
            out.append("pc " + " ".join(toks))
        return out

    def model_line(self, line, impl_out):
        if line.startswith("pc "):
            # the seal log is a value of the real run; it is handed to the model side, which echoes it, so that the oracle (which
            # sees the compared output) can check it
            ops, outs = line.split()[1:], impl_out.split()
            if len(ops) == len(outs):
                return "pc " + " ".join(("%s.%s" % (o, r[1:]) if o.startswith("Z.") and r.startswith("z") and len(r) > 1 else o) for o, r in zip(ops, outs))
        return line

    def canon_impl(self, line, out):
        if line.startswith("pc "):
            return out
        if line.startswith("core "):
            # key material fingerprints are not comparable with symbolic key names: keep the nonces
            return " ".join(re.sub(r"(^z|,)[0-9a-f]{16}/", r"\1K/", x) if x.startswith("z") else x for x in out.split())
        return out

    def canon_model(self, line, out):
        if line.startswith("core "):
            return " ".join(re.sub(r"(^z|,)k\d+/", r"\1K/", x) if x.startswith("z") else x for x in out.split())
        return out

    def nontrivial(self, line, impl_out):
        if line.startswith("nonce_inc"):
            return True
        return impl_out.count("/") >= 2

    def tag(self, line, impl_out):
        if line.startswith("nonce_inc"):
            v = line.split()[1]
            return "inc:carry%d" % (len(v) - len(v.rstrip("f")) if v.endswith("f") else 0)
        return line.split()[0]

    def oracle(self, line, impl_out):
        if "panic" in impl_out:
            return "panic"
        t = line.split()
        if t[0] == "nonce_inc":
            want = "%024x" % ((int(t[1], 16) + 1) % M96)
            if impl_out != want:
                return "increment of %s gave %s, +1 mod 2^96 is %s" % (t[1], impl_out, want)
            return None
        logs = [x for x in impl_out.split() if x.startswith("z")]
        seen = {}
        for lg in logs:
            for e in (lg[1:].split(",") if len(lg) > 1 else []):
                fp, nonce = e.split("/")
                if (fp, nonce) in seen:
                    return "(key, nonce) pair used twice: key %s nonce %s" % (fp, nonce)
                seen[(fp, nonce)] = True
        # strictly increasing per key and half in seal order
        last = {}
        for lg in logs:
            for e in (lg[1:].split(",") if len(lg) > 1 else []):
                fp, nonce = e.split("/")
                half = int(nonce[:2], 16) >> 7
                v = int(nonce, 16)
                k = (fp, half)
                if k in last and v <= last[k]:
                    return "counter under key %s did not strictly increase (%x after %x)" % (fp, v, last[k])
                last[k] = v
        if t[0] == "pc":
            # the START of every key's sequence (PeerCrypto lines never force counters): it is a fresh random value - not a small number,
            # not the same for two keys, and not the continuation of an earlier key's sequence (a key slot is re-used every fourth key)
            first, lastv, order = {}, {}, []
            for lg in logs:
                for e in (lg[1:].split(",") if len(lg) > 1 else []):
                    fp, nonce = e.split("/")
                    v = int(nonce[2:], 16)          # without the half marker byte
                    half = int(nonce[:2], 16) >> 7
                    k = (fp, half)
                    if k not in first:
                        first[k] = v
                        order.append(k)
                        for k0 in order[:-1]:
                            if k0[1] == half and first[k0] == v:
                                return "two keys (%s, %s) start their counter sequences at the same value %x" % (k0[0], fp, v)
                            if k0[1] == half and lastv[k0] + 1 == v:
                                return ("the sequence of key %s starts at %x, exactly where the sequence of the earlier key %s stopped: a rotated-in key "
                                        "starts a fresh sequence") % (fp, v, k0[0])
                        if v < (1 << 24):
                            return "the counter sequence of key %s starts at %x: the start is an unpredictable (random) value" % (fp, v)
                    lastv[k] = v
        if t[0] == "core":
            # beyond the 56 transmitted bits nothing may open
            ops = t[5:]
            outs = impl_out.split()
            nonces = [e.split("/")[1] for e in (logs[0][1:].split(",") if logs and len(logs[0]) > 1 else [])]
            di = 0
            for o, r in zip(ops, outs):
                if o.startswith("d.b."):
                    i = int(o.split(".")[2])
                    if i < len(nonces):
                        fits = nonces[i][2:10] == "00000000"
                        if fits and not r.startswith("ok:"):
                            return "datagram with counter %s (fits 56 bits) did not open" % nonces[i]
                        if not fits and r.startswith("ok:"):
                            return "datagram whose counter %s no longer fits 56 bits opened at the receiver" % nonces[i]
        return None


PROP = C04()

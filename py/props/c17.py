"""C17 - beacons round-trip, are found inside arbitrary text, respect age and password"""
import hashlib
from check import Property

ALNUM = "0123456789ABCDEFGHIJKLMNOPQRSTUVWXYZabcdefghijklmnopqrstuvwxyz"
SEPS = "-_ .\n\t:/|!?=+()[]<>\"'\u00e4\u2603"
PASSWORDS = ["", "mysecretkey", "test123", "pw138", "pw161", "a", "beacon", "\u00fcber", "x" * 200] + ["pw%d" % i for i in range(200)]


def b62(data):
    n = int.from_bytes(data, "big")
    s = ""
    while n:
        s = ALNUM[n % 62] + s
        n //= 62
    return s


def ks(key, ty, seed, it):
    return hashlib.sha512(bytes([ty, seed, it]) + key).digest()


def markers(key):
    return b62(ks(key, 0, 0, 0))[:5], b62(ks(key, 1, 0, 0))[:5]


def masked_first_byte_zero(key, hour, peers):
    """the known-finding class F9a, computed from the property's own description of a beacon"""
    v4 = [p for p in peers if len(p) == 6]
    v6 = [p for p in peers if len(p) != 6]
    plain = bytes([(hour >> 8) & 0xff, hour & 0xff, len(v4) & 0xff]) + b"".join(v4) + b"".join(v6)
    seed = hashlib.sha512(plain).digest()[0]
    return (plain[0] ^ ks(key, 2, seed, 0)[0]) == 0


def encode_beacon(key, hour, peers):
    """reference beacon encoder written from the format description (hashlib SHA-512, base 62)"""
    v4 = [p for p in peers if len(p) == 6]
    v6 = [p for p in peers if len(p) != 6]
    plain = bytes([(hour >> 8) & 0xff, hour & 0xff, len(v4) & 0xff]) + b"".join(v4) + b"".join(v6)
    seed = hashlib.sha512(plain).digest()[0]
    out = bytearray()
    for i in range(0, len(plain), 16):
        k = ks(key, 2, seed, (i // 16) & 0xff)
        out += bytes(a ^ b for a, b in zip(plain[i:i + 16], k))
    out.append(seed ^ ks(key, 3, 0, 0)[0])
    bg, en = markers(key)
    return bg + b62(bytes(out)) + en


def two_leading_zero_hours(key, peers, limit=2):
    """hours at which the masked body of the beacon for (key, peers) starts with TWO zero bytes (about 1 in 65536): its text form is two
    bytes short and the reader has to restore both"""
    v4 = [p for p in peers if len(p) == 6]
    v6 = [p for p in peers if len(p) != 6]
    tail = bytes([len(v4) & 0xff]) + b"".join(v4) + b"".join(v6)
    hits = []
    for hour in range(65536):
        plain = bytes([hour >> 8, hour & 0xff]) + tail
        seed = hashlib.sha512(plain).digest()[0]
        k = ks(key, 2, seed, 0)
        if plain[0] ^ k[0] == 0 and plain[1] ^ k[1] == 0:
            hits.append(hour)
            if len(hits) >= limit:
                break
    return hits


def hx(s):
    return s.encode().hex() if s else "-"


def rand_peers(rng, n4=None, n6=None):
    n4 = rng.randrange(0, 9) if n4 is None else n4
    n6 = rng.randrange(0, 5) if n6 is None else n6
    ps = [bytes(rng.getrandbits(8) for _ in range(6)) for _ in range(n4)] + [bytes(rng.getrandbits(8) for _ in range(18)) for _ in range(n6)]
    rng.shuffle(ps)
    return ps


def peers_arg(ps):
    return ";".join(p.hex() for p in ps) if ps else "-"


class C17(Property):
    id = "C17"
    rule = ("beacon_rt = encode at hour H, embed in generated host text (random alphanumerics, separators, partial / overlapping begin and "
            "end markers, a second beacon), decode at hour N with age limit T; address lists 0..8 IPv4 x 0..4 IPv6, hour stamps (all 65536 "
            "for one list in the thorough tier), 200+ passwords incl. empty; beacon_dec = arbitrary text incl. bodies beyond 4096 bytes "
            "and the marker patterns that used to panic; non-trivial = distinct case whose decode returns at least one address")
    assumptions = ["'ignored when made with a different password' is exercised (markers and mask differ), not proved: it needs collision "
                   "assumptions about SHA-512 that the model does not make"]

    def gen(self, rng, tier):
        thorough = tier == "thorough"
        out = []
        self._multi = {}
        rtext = lambda n, alpha=ALNUM: "".join(rng.choice(alpha) for _ in range(n))
        pws = PASSWORDS if thorough else PASSWORDS[:60]
        # 1. plain round trips over passwords / lists / hours
        for pw in pws:
            key = pw.encode()
            for _ in range(6 if thorough else 2):
                ps = rand_peers(rng)
                h = rng.randrange(65536)
                out.append("beacon_rt %s %d none %d - - %s" % (key.hex() or "-", h, h, peers_arg(ps)))
        # beacons whose masked body starts with two zero bytes (searched for: about one hour stamp in 65536 per list)
        found = 0
        for _ in range(40 if thorough else 12):
            if found >= (6 if thorough else 2):
                break
            key = rng.choice([b"mysecretkey", b"test123", b""])
            ps = rand_peers(rng, rng.choice([0, 1, 2]), rng.choice([0, 1]))
            for h in two_leading_zero_hours(key, ps):
                found += 1
                out.append("beacon_rt %s %d none %d - - %s" % (key.hex() or "-", h, h, peers_arg(ps)))
        # all hour stamps for one list
        ps = rand_peers(rng, 2, 1)
        hours = range(65536) if thorough else sorted(set([0, 1, 255, 256, 65535, 32768] + [rng.randrange(65536) for _ in range(700)]))
        for h in hours:
            out.append("beacon_rt %s %d none %d - - %s" % (b"mysecretkey".hex(), h, h, peers_arg(ps)))
        # 2. age limits
        for _ in range(3000 if thorough else 500):
            h = rng.randrange(65536)
            ttl = rng.choice([0, 1, 24, 50, 32767, 32768, 65535, rng.randrange(65536)])
            d = rng.choice([0, 1, ttl, ttl + 1, max(0, ttl - 1), 65535, 65536 - ttl, 65536 - ttl - 1, rng.randrange(65536)])
            now = (h + rng.choice([d, -d])) % 65536
            out.append("beacon_rt %s %d %d %d - - %s" % (rng.choice(pws[:10]).encode().hex() or "-", h, ttl, now, peers_arg(rand_peers(rng, 2, 1))))
        # 3. embedded in host text
        for _ in range(4000 if thorough else 600):
            pw = rng.choice(pws)
            key = pw.encode()
            bg, en = markers(key)
            kind = rng.random()
            pre = rtext(rng.randrange(0, 30), ALNUM + SEPS)
            post = rtext(rng.randrange(0, 30), ALNUM + SEPS)
            if kind < 0.2:
                pre += bg[:rng.randrange(1, 5)] + rng.choice(SEPS)   # partial begin marker in front
            elif kind < 0.35:
                post = en[:rng.randrange(1, 5)] + post               # partial end marker behind
            elif kind < 0.45:
                pre += bg                                             # doubled begin marker
            elif kind < 0.55:
                post = en + post                                      # doubled end marker
            elif kind < 0.6:
                pre = en + pre
                post = post + bg
            h = rng.randrange(65536)
            out.append("beacon_rt %s %d none %d %s %s %s" % (key.hex() or "-", h, h, hx(pre), hx(post), peers_arg(rand_peers(rng))))
        # 4. arbitrary text through decode (never panics)
        for _ in range(3000 if thorough else 500):
            pw = rng.choice(pws)
            key = pw.encode()
            bg, en = markers(key)
            r = rng.random()
            if r < 0.25:
                text = bg[:4] + en + rtext(rng.randrange(0, 8))                 # F9b shape
            elif r < 0.4:
                text = bg + rtext(rng.choice([0, 1, 2, 3, 4, 5, 6, 10])) + en
            elif r < 0.5:
                text = en + bg + en + bg
            elif r < 0.6:
                text = bg + en
            elif r < 0.7:
                text = rtext(rng.randrange(0, 60), ALNUM + SEPS)
            elif r < 0.8:
                text = bg + rtext(rng.randrange(20, 200)) + en
            else:
                text = rtext(5) + bg + bg + rtext(12) + en + en + rtext(3)
            out.append("beacon_dec %s %d %s %s" % (key.hex() or "-", rng.randrange(65536), rng.choice(["none", "0", "24", "65535"]), hx(text)))
        # 5. several beacons per text: concatenated, separated, overlapping by one character where the end
        #    marker's last character equals the begin marker's first (tag "multi": expected = all of them in order)
        overlap_pws = [pw for pw in PASSWORDS + ["secret%d" % i for i in range(400)] if markers(pw.encode())[1][-1] == markers(pw.encode())[0][0]]
        for _ in range(1500 if thorough else 300):
            pw = rng.choice(overlap_pws) if (overlap_pws and rng.random() < 0.5) else rng.choice(pws)
            key = pw.encode()
            bg, en = markers(key)
            h = rng.randrange(65536)
            n = rng.choice([2, 2, 3])
            lists = [rand_peers(rng, rng.randrange(0, 4), rng.randrange(0, 2)) for _ in range(n)]
            # skip lists hitting the 2^-8 class where the masked body starts with 0 and would be shorter (still decodable), fine
            text = ""
            for i, ps in enumerate(lists):
                b = encode_beacon(key, h, ps)
                if i and en[-1] == bg[0] and rng.random() < 0.5:
                    text = text[:-1] + b                      # overlap by one character
                else:
                    text += rng.choice(["", "", "-", " \n", "::"]) + b
            want = [p for ps in lists for p in ([q for q in ps if len(q) == 6] + [q for q in ps if len(q) != 6])]
            self._multi[hx(text)] = want
            out.append("beacon_dec %s %d none %s" % (key.hex() or "-", h, hx(text)))
        # bodies beyond 4096 bytes: the keystream block counter wraps (F14 shape); few, they are slow in the model
        for n in ([5530, 5600, 6100, 11100] if thorough else [5530, 5600]):
            key = rng.choice(pws).encode()
            bg, en = markers(key)
            out.append("beacon_dec %s %d none %s" % (key.hex() or "-", rng.randrange(65536), hx(bg + rtext(n) + en)))
        return out

    def nontrivial(self, line, impl_out):
        t = impl_out.split()
        return t[0] == "ok" and t[-1] != "-"

    def tag(self, line, impl_out):
        t = line.split()
        if t[0] == "beacon_rt":
            emb = "emb" if (t[5] != "-" or t[6] != "-") else "bare"
            age = "ttl" if t[3] != "none" else "nottl"
            return "rt:%s:%s:%s" % (emb, age, "found" if self.nontrivial(line, impl_out) else "empty")
        return "dec:" + impl_out.split()[0]

    def _rt_parts(self, line):
        t = line.split()
        key = bytes.fromhex(t[1]) if t[1] != "-" else b""
        peers = [bytes.fromhex(x) for x in t[7].split(";")] if t[7] != "-" else []
        return key, int(t[2]), t[3], int(t[4]), t[5], t[6], peers

    def oracle(self, line, impl_out):
        if impl_out.startswith("panic"):
            return "beacon extraction panicked: " + impl_out
        t = line.split()
        if t[0] == "beacon_dec" and t[4] in getattr(self, "_multi", {}):
            want = self._multi[t[4]]
            got = impl_out.split()[1]
            got = [bytes.fromhex(x) for x in got.split(";")] if got != "-" else []
            if got != want:
                return "text with several beacons: recovered %d addresses, the beacons carry %d" % (len(got), len(want))
            return None
        if t[0] != "beacon_rt":
            return None
        key, hour, ttl, now, pre, post, peers = self._rt_parts(line)
        want = [p for p in peers if len(p) == 6] + [p for p in peers if len(p) != 6]
        got = impl_out.split()[2]
        got = [bytes.fromhex(x) for x in got.split(";")] if got != "-" else []
        hour16, now16 = hour & 0xffff, now & 0xffff
        if ttl != "none":
            tt = int(ttl)
            fresh = ((now16 - hour16) % 65536) <= tt or ((hour16 - now16) % 65536) <= tt
        else:
            fresh = True
        # host text with look-alike markers is outside the statement (DESIGN.md C17-T4); only judge
        # when the surrounding text contains neither marker nor a partial marker adjacent to the beacon
        bg, en = markers(key)
        pre_s = "".join(c for c in bytes.fromhex(pre).decode() if c.isascii() and c.isalnum()) if pre != "-" else ""
        post_s = "".join(c for c in bytes.fromhex(post).decode() if c.isascii() and c.isalnum()) if post != "-" else ""
        beacon = bytes.fromhex(impl_out.split()[1]).decode()
        full = pre_s + beacon + post_s
        clean = full.find(bg) == len(pre_s) and full.find(en, len(pre_s) + 5) == len(pre_s) + len(beacon) - 5
        if not clean:
            return None
        if not fresh:
            if got[:len(want)] == want and want:
                return "beacon older than the accepted age was not ignored"
            return None
        if got[:len(want)] != want:
            return "beacon of %d peers not recovered (got %d)" % (len(want), len(got))
        return None


PROP = C17()

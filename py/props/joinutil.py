"""Node-level families shared by C10 and C13 (and the plain-mode clause of C10):
1. a node JOINS a learning mesh after addresses have been learned: what the other nodes learned must survive the new peer;
2. plain-text datagrams from an address the node has only an UNFINISHED handshake with (it dialled, nobody answered) must never
   reach the interface - in encrypted and in plain-only meshes."""
from props import nodeutil as nu

JOIN_MARK = "X.9997"
PEND_MARK = "X.9996"


def join_cases(rng, count):
    out = []
    for _ in range(count):
        mode = rng.choice(["tap-switch", "tap-normal"])
        s = nu.Scenario()
        for i in (1, 2, 3, 4):
            s.node(i, mode=mode, st=3600)
        s.add("C.2.1", "A", "C.3.1", "A")
        s.tick(3)
        hosts = [nu.mac(2), nu.mac(42)][:rng.choice([1, 2])]
        vlan = rng.choice([None, None, 1, 0x67])
        for h in hosts:                       # hosts behind node 2 talk: nodes 1 and 3 learn them
            s.add("P.2.%s" % nu.eth_frame(b"\xff" * 6, h, vlan), "A", "O.1", "O.2", "O.3", "O.4")
        s.tick(rng.choice([0, 1, 5]))
        s.add(JOIN_MARK)
        joiner_dials = rng.choice([1, 3])
        s.add("C.4.%d" % joiner_dials, "A")   # node 4 joins (handshake completes in this delivery round)
        k = rng.choice([0, 1, 2, 30])
        if k:
            s.tick(k)
        for src in (1, 3):
            for h in hosts:
                s.add("P.%d.%s" % (src, nu.eth_frame(h, nu.mac(src), vlan)), "A", "O.1", "O.2", "O.3", "O.4")
        s.add("S.1", "S.3")
        out.append(s.line())
    return out


def oracle_join(line, impl_out):
    ops, outs = line.split()[1:], impl_out.split()
    if len(ops) != len(outs):
        return "driver returned %d results for %d ops" % (len(outs), len(ops))
    if any(r.startswith("panic") for r in outs):
        return "panic"
    k = ops.index(JOIN_MARK)
    i = k
    while i < len(ops):
        o, r = ops[i], outs[i]
        if o.startswith("P."):
            src = int(o.split(".")[1])
            got = sorted(d for d, _ in nu.emissions(r))
            if got != [2]:
                return ("frame for a host learned behind node 2, read at node %d after node 4 joined the mesh, went to %s: a learned address "
                        "stays with its peer (until it moves, is silent for the switch timeout, or the peer disconnects) - it must go to [2] only") % (src, got)
            for n in (1, 2, 3, 4):
                w = outs[i + 1 + n]
                cnt = 0 if w == "w-" else len(w[1:].split(","))
                if cnt != (1 if n == 2 else 0):
                    return "frame for a host behind node 2 (read at node %d after the join): node %d wrote %d frame(s)" % (src, n, cnt)
            i += 6
            continue
        i += 1
    return None


def pending_plain_cases(rng, count):
    out = []
    for _ in range(count):
        tap = rng.random() < 0.5
        plain_only = rng.random() < 0.6
        algos = "p|-" if plain_only else rng.choice(["p|1:44160000,3:43c80000", nu.ALG])
        s = nu.Scenario()
        for i in (1, 2):
            if tap:
                s.node(i, mode=rng.choice(["tap-switch", "tap-hub"]), algos=algos)
            else:
                s.node(i, mode="tun-router", claims=["%s/24" % bytes([10, 0, i, 0]).hex()], algos=algos)
        s.add("C.2.1", "A")
        s.tick(2)
        s.add(PEND_MARK)
        s.add("C.1.77", "A")                 # node 1 dials an address where nobody answers: a handshake stays unfinished
        s.tick(rng.choice([0, 1, 5, 60]))
        for _ in range(rng.choice([1, 3])):
            if tap:
                body = bytes.fromhex(nu.eth_frame(rng.choice([nu.mac(1), b"\xff" * 6]), nu.mac(66)))
            else:
                body = bytes.fromhex(nu.ipv4_packet(bytes([10, 0, 9, 9]), nu.node_ip(1)))
            ty = rng.choice([0, 0, 0, 1, 2])
            s.add("W.1.77.%s" % (bytes([ty]) + body).hex(), "O.1", "S.1")
        # the genuine peer still works
        if tap:
            s.add("P.2.%s" % nu.eth_frame(nu.mac(1), nu.mac(2)), "A", "O.1")
        else:
            s.add("P.2.%s" % nu.ipv4_packet(nu.node_ip(2), nu.node_ip(1)), "A", "O.1")
        out.append(s.line())
    return out


def oracle_pending_plain(line, impl_out):
    ops, outs = line.split()[1:], impl_out.split()
    if len(ops) != len(outs):
        return "driver returned %d results for %d ops" % (len(outs), len(ops))
    if any(r.startswith("panic") for r in outs):
        return "panic"
    k = ops.index(PEND_MARK)
    for i in range(k, len(ops)):
        o = ops[i]
        if o.startswith("W.1.77."):
            if outs[i + 1] != "w-":
                return ("a datagram from an address node 1 has only an unfinished handshake with (not a peer) was written to the interface: %s"
                        % outs[i + 1][:60])
            d = nu.parse_dump(outs[i + 2])
            if any(p[0] == "77" for p in d["peers_l"]):
                return "the address of the unfinished handshake became a peer"
            if any(c.startswith("77:") for c in d["claims_l"]) or any(">77@" in c for c in d["cache_l"]):
                return "a datagram from a non-peer address changed the routing table: %s %s" % (d["claims"], d["cache"])
        if o.startswith("P.2."):
            if outs[i + 2] == "w-":
                return "payload of the genuine peer no longer delivered"
    return None


def family(line):
    if " %s " % JOIN_MARK in line:
        return "join"
    if " %s " % PEND_MARK in line:
        return "pending-plain"
    return None


def oracle(line, impl_out):
    f = family(line)
    if f == "join":
        return oracle_join(line, impl_out)
    if f == "pending-plain":
        return oracle_pending_plain(line, impl_out)
    return None

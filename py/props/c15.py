"""C15 - silent peers time out; healthy peers never do, for every timeout setting"""
import re
from check import Property
from props import nodeutil as nu

OWN = [0, 1, 59, 60, 119, 120, 121, 300, 65535]
KA = ["-", "1", "60", "65535", "65536", "0"]


class C15(Property):
    id = "C15"
    rule = ("announcement interval on a real node with established fake peers: all 65536 advertised values (thorough; quick: boundaries "
            "+ sample) x own timeouts {0,1,59,60,119,120,121,300,65535} x keepalive {none,0,1,60,65535,65536}, sets of 1-4 advertised "
            "values; heterogeneous meshes (each node a different timeout from the grid >= 2) run for 3 x the largest timeout checking "
            "after every housekeeping tick that no healthy peer was dropped; silence injection (node stops at time t) with removal time, "
            "route removal and re-dial checked; back-off schedule of a configured unreachable peer over 48 h of simulated time; "
            "non-trivial = distinct case with at least one peer")

    def gen(self, rng, tier):
        thorough = tier == "thorough"
        out = []
        advs = range(65536) if thorough else sorted(set([0, 1, 2, 3, 59, 60, 118, 119, 120, 121, 122, 123, 124, 299, 300, 301, 600, 65534, 65535]
                                                     + [rng.randrange(65536) for _ in range(400)]))
        for adv in advs:
            for own in (OWN if (thorough or adv < 400) else rng.sample(OWN, 2)):
                ka = rng.choice(KA) if not thorough else KA[adv % len(KA)]
                out.append("ival %d %s %d" % (own, ka, adv))
        for _ in range(3000 if thorough else 400):
            k = rng.randrange(0, 5)
            adv = ",".join(str(rng.choice([0, 1, 60, 119, 120, 121, 300, 1000, 65535, rng.randrange(65536)])) for _ in range(k)) or "-"
            out.append("ival %d %s %s" % (rng.choice(OWN + [rng.randrange(65536)]), rng.choice(KA), adv))
        # heterogeneous meshes: nobody healthy is ever dropped
        grid = [2, 3, 10, 59, 60, 119, 120, 121, 300]
        for _ in range(40 if thorough else 8):
            n = rng.choice([2, 3, 4])
            tos = [rng.choice(grid) for _ in range(n)]
            s = nu.Scenario()
            # some meshes have an unencrypted link: nodes 1 and 2 share no cipher and both allow plain (the others share one with each)
            plain12 = rng.random() < 0.4
            # ... and in some one node has a lasting fault in a late housekeeping step (a beacon file it cannot read): its announcements
            # must keep coming
            faulty = rng.randrange(1, n + 1) if rng.random() < 0.4 else 0
            for i in range(1, n + 1):
                al = nu.ALG
                if plain12:
                    al = {1: "p|1:44160000", 2: "p|3:43c80000"}.get(i, "-|1:44160000,3:43c80000")
                s.node(i, mode="tun-router", pt=tos[i - 1], claims=["%s/24" % bytes([10, 0, i, 0]).hex()], algos=al, hkf=(i == faulty))
            for i in range(2, n + 1):
                s.add("C.%d.1" % i, "A")
            s.tick(3)
            horizon = min(3 * max(tos), 400 if not thorough else 900)
            for _ in range(horizon):
                s.t += 1
                s.add("T.%d" % s.t)
                for i in range(1, n + 1):
                    s.add("H.%d" % i, "S.%d" % i)      # check BEFORE delivering: a re-dial must not hide a drop
                s.add("A")
            out.append(s.line())
        # silence: node 2 stops (no housekeeping, its datagrams are not delivered) at time t
        for _ in range(30 if thorough else 8):
            to = rng.choice([10, 20, 60, 130])
            s = nu.Scenario()
            tap = rng.random() < 0.5
            # the peer's OWN timeout (which it advertises) is often a different one: what counts is node 1's setting
            to2 = rng.choice([to, to, 3 * to, 600, max(2, to // 3)])
            if tap:
                # learning switches without claims: the silent peer's routes are learned addresses only
                s.node(1, mode="tap-switch", pt=to)
                s.node(2, mode="tap-switch", pt=to2)
            else:
                s.node(1, mode="tun-router", pt=to, claims=["0a000100/24"])
                s.node(2, mode="tun-router", pt=to2, claims=["0a000200/24"])
            s.add("C.2.1", "A")
            s.tick(rng.randrange(1, to + 5))
            if tap:
                for k in range(rng.randrange(1, 4)):
                    s.add("P.2.%s" % nu.eth_frame(nu.mac(1) if k % 2 else b"\xff" * 6, nu.mac(20 + k)), "A", "O.1")
            else:
                s.add("P.1.%s" % nu.ipv4_packet(nu.node_ip(1), nu.node_ip(2, 7)), "A", "O.2")   # cached routing decision
            s.add("X.9999")                           # marker (a no-op): the silence starts here
            # ... in some runs a captured handshake ping of the peer (datagram 0: node 2's ping to node 1) is replayed from its
            # address during the silence: a handshake that never completes is not a sign of life
            replay_at = rng.choice([None, None, 1, to // 2, to - 1])
            for k in range(to + 4):
                s.t += 1
                s.add("T.%d" % s.t)
                if replay_at is not None and k + 1 == replay_at:
                    s.add("J.0.1.2")
                s.add("H.1", "S.1")                    # only node 1 lives; nothing is delivered
            out.append(s.line())
        # silence of a peer that ADVERTISED another connected node's address as one of its own (two nodes behind one public address both
        # list it): it is removed at its deadline and re-dialled on the address it was seen at, like any other
        for _ in range(8 if thorough else 2):
            to = rng.choice([10, 20, 60])
            s = nu.Scenario()
            s.node(1, mode="tun-router", pt=to, claims=["0a000100/24"])
            s.node(2, mode="tun-router", pt=to, claims=["0a000200/24"], adv=3)
            s.node(3, mode="tun-router", pt=to, claims=["0a000300/24"])
            s.add("C.2.1", "A", "C.3.1", "A")
            s.tick(rng.randrange(1, to + 5))
            s.add("X.9999", "M.2.1")
            for k in range(to + 4):
                s.t += 1
                s.add("T.%d" % s.t, "H.1", "S.1", "H.3", "A")
            out.append(s.line())
        # a peer RESTARTS on the same address with a shorter timeout and connects again before its old entry has expired: from then
        # on the shorter timeout it now advertises governs the announcement interval - nobody may time anybody out afterwards
        for after in ([5, 40, 85, 100, 170, 260] if thorough else [40, 85, 170]):
            for short in ([30, 60] if thorough else [60]):
                s = nu.Scenario()
                s.node(1, mode="tun-router", pt=300, claims=["0a000100/24"])
                s.node(2, mode="tun-router", pt=300, claims=["0a000200/24"])
                s.add("C.2.1", "A")
                s.tick(after)
                s.node(2, mode="tun-router", pt=short, claims=["0a000200/24"])      # restart
                s.add("X.9995", "C.2.1", "A")
                for _ in range(400):
                    s.t += 1
                    s.add("T.%d" % s.t, "H.1", "S.1", "H.2", "S.2", "A")
                out.append(s.line())
        # back-off of a configured peer that never answers, 48 h in growing steps
        for _ in range(4 if thorough else 2):
            s = nu.Scenario()
            s.node(1, mode="tun-router", claims=["0a000100/24"])
            s.add("R.1.9", "C.1.9")
            t = 1
            while t < 172800:
                # coarse steps while the back-off is still growing, fine steps once it has reached its ceiling (after
                # 11 x (1 + 2 + ... + 2048) s = 12.5 h) so that the interval between two attempts is measured closely
                step = 1 if t < 200 else rng.choice([1, 7, 61, 600, 1800])
                t += step
                s.add("T.%d" % t, "H.1")
                if rng.random() < 0.05:
                    s.add("S.1")           # observe the back-off state (tries, timeout, next) all along the 48 h
            s.t = t
            s.add("S.1")
            out.append(s.line())
        return out

    def model_line(self, line, impl_out):
        return nu.model_line(line, impl_out) if line.startswith("node ") else line

    def canon_impl(self, line, out):
        return nu.canon_impl(nu.strip_hkerr(line, out)) if line.startswith("node ") else (out if not out.startswith("panic") else "panic")

    def nontrivial(self, line, impl_out):
        return not line.endswith(" -")

    def tag(self, line, impl_out):
        if line.startswith("ival"):
            t = impl_out.split()
            return "ival:" + (t[0] if t[0] != "ok" else ("d1" if int(t[1]) <= 1 else "dN"))
        if " R.1.9 " in line:
            return "backoff"
        if " X.9995 " in line:
            return "restart"
        return "silence" if " X.9999 " in line else "mesh"

    def oracle(self, line, impl_out):
        if impl_out.startswith("panic") or " panic" in impl_out:
            return "panic: " + impl_out[:80]
        t = line.split()
        if t[0] == "ival":
            if not impl_out.startswith("ok"):
                return "housekeeping failed: " + impl_out
            d = int(impl_out.split()[1])
            adv = [int(x) for x in t[3].split(",")] if t[3] != "-" else []
            if adv and not (d <= 1 or d < min(adv)):
                return "next announcement scheduled in %d s, the smallest advertised peer timeout is %d" % (d, min(adv))
            return None
        ops = t[1:]
        outs = impl_out.split()
        if len(ops) != len(outs):
            return "driver returned %d results for %d ops" % (len(outs), len(ops))
        nodes = [o for o in ops if o.startswith("N.")]
        n = len(nodes)
        if " R.1.9 " in line:
            # (a) the back-off STATE: the delay of a configured peer's entry never exceeds one hour, nor does the time to its next
            #     attempt.  (Gaps between attempts cannot be bounded from the emissions of this scenario: housekeeping runs here at
            #     coarse steps while the real loop runs it every second, and a pending attempt lasts 120 housekeeping calls.)
            # (b) liveness: the peer is still being dialled at the end
            last, now, prev_now = None, 1, 1
            for o, r in zip(ops, outs):
                if o.startswith("T."):
                    prev_now, now = now, int(o[2:])
                elif o == "S.1":
                    for e in [x for x in nu.parse_dump(r).get("rc", "[]")[1:-1].split(",") if x]:
                        tries, to, nxt = (int(v) for v in e.split(":"))
                        if to > 3600 or nxt - now > 3600:
                            return ("configured peer at t=%d: back-off delay %d s, next attempt in %d s (tries %d): the back-off must never "
                                    "exceed one hour") % (now, to, nxt - now, tries)
                elif o == "H.1" or o == "C.1.9":
                    if any(d == 9 and k.startswith("I1") for d, k in nu.emissions(r)):
                        last = now
            if last is None or now - last > 3600 + 1800 + 121:
                return "configured peer no longer re-dialled at the end of the run"
            return None
        if " X.9995 " in line:
            # restart family.  The property speaks of stable membership: the announcement that was already scheduled when the peer came back
            # with its shorter timeout was scheduled for the OLD membership (at most 90 s ahead) and may come too late once; from the
            # next scheduling on the new timeout counts.  So: once both ends hold each other again AND one old interval (90 s + 2) has
            # passed since the restart, nobody drops anybody.
            k = ops.index("X.9995")
            t_restart = int([o for o in ops[:k] if o.startswith("T.")][-1][2:])
            now, formed, have = 1, False, {1: False, 2: False}
            for o, r in list(zip(ops, outs))[k:]:
                if o.startswith("T."):
                    now = int(o[2:])
                if o in ("S.1", "S.2"):
                    me = int(o[2:])
                    d = nu.parse_dump(r)
                    have[me] = any(int(p[0]) == 3 - me for p in d["peers_l"])
                    if have[1] and have[2]:
                        formed = formed or now >= t_restart + 92
                    elif formed and not have[me]:
                        return ("at t=%d node %d has timed out its healthy peer %d (which restarted with a shorter timeout and re-connected): "
                                "announcements must come within the smallest timeout a current peer advertised") % (now, me, 3 - me)
            if not formed:
                return "the restarted node never got connected again"
            return None
        # the family is told by an explicit marker, not by the shape of the line: silence scenarios carry the no-op X.9999
        if " X.9999 " not in line and n >= 2:
            # heterogeneous mesh: after the mesh is formed nobody drops anybody
            formed = False
            now = 1
            for o, r in zip(ops, outs):
                if o.startswith("T."):
                    now = int(o[2:])
                if o.startswith("S."):
                    me = int(o[2:])
                    d = nu.parse_dump(r)
                    have = set(int(p[0]) for p in d["peers_l"])
                    if len(have) == n - 1:
                        formed = formed or me == n
                    elif formed:
                        return "at t=%d node %d has dropped healthy peer(s) %s" % (now, me, sorted(set(range(1, n + 1)) - {me} - have))
            return None
        # silence: the deadline is derived here, from node 1's OWN configured timeout and the time the silence began - not read
        # from the node (the deadline it keeps is what is under test)
        to = int(nodes[0].split(".")[3])
        now = 1
        removed_at = None
        silent_since = None
        last_deadline = None
        for o, r in zip(ops, outs):
            if o.startswith("T."):
                now = int(o[2:])
            if o == "X.9999":
                silent_since = now
            if o == "S.1":
                d = nu.parse_dump(r)
                p2 = [p for p in d["peers_l"] if p[0] == "2"]
                if p2:
                    if silent_since is not None and now > silent_since + to + 1:
                        return ("peer silent since t=%d is still present at t=%d; node 1's peer timeout is %d s (the peer advertises %s)"
                                % (silent_since, now, to, nodes[1].split(".")[3]))
                    last_deadline = int(p2[0][3])
                else:
                    if removed_at is None:
                        removed_at = now
                        if silent_since is not None and now <= silent_since:
                            return "peer removed at t=%d although it was heard from until t=%d" % (now, silent_since)
                        if any(c.startswith("2:") for c in d["claims_l"]) or any(">2@" in c for c in d["cache_l"]):
                            return "peer removed but its routes are still in the table: %s %s" % (d["claims"], d["cache"])
                        if not any(p[0] == "2" for p in d["pend_l"]):
                            return "timed-out peer was not re-dialled"
        if removed_at is None:
            return "silent peer was never removed"
        return None


PROP = C15()

"""Generic check driver: proofs + correspondence + property oracle -> verdict, evidence, replay."""
import importlib
import json
import os
import random
import sys
import time

import vpcore as vc


class Property:
    """Base class of the per-property modules (py/props/cXX.py)."""
    id = "C00"
    title = ""
    # trusted base text shared by all proof-level checks
    trusted_base = [
        "Coq 8.16.1 kernel (coqc full .vo build; vm_compute used for witnesses and the cases.v cross-check; no native_compute)",
        "axioms: none (every Print Assumptions under Properties/*.v reports 'Closed under the global context' unless listed in 'assumptions')",
        "extraction: Require Extraction + ExtrOcamlBasic only (bool, option, unit, list, prod, sumbool, sumor, andb, orb directives); N/Z/positive/nat stay extracted inductives; OCaml glue ocaml/{conv,ops,model_run}.ml",
        "correspondence harness: Rust driver /verif/harness (compiled into vpncloud with --cfg vpncloud_verif), Python generators/differ py/, sampled inputs (distribution below)",
    ]
    assumptions = []
    rule = ""

    def gen(self, rng, tier):
        """-> list of case lines (str)."""
        raise NotImplementedError

    def model_line(self, line, impl_out):
        """the line given to the model; may carry oracle values read back from the implementation's run"""
        return line

    def canon_impl(self, line, out):
        return vc.canon_default(out)

    def canon_model(self, line, out):
        return vc.canon_default(out)

    def oracle(self, line, impl_out):
        """Executable statement of the property on the implementation's output alone.
        Returns None if satisfied, else a short description of the violation."""
        return None

    def known_class(self, line, impl_out):
        """If this failing case belongs to a known-finding class return its class id."""
        return None

    def nontrivial(self, line, impl_out):
        return not impl_out.startswith("err")

    def tag(self, line, impl_out):
        """branch tag for the input distribution"""
        return line.split(" ", 1)[0] + ":" + impl_out.split(" ", 1)[0]

    def search(self, rng, mismatches, run_impl):
        """Intensified search for a failing input around correspondence mismatches.
        Default: nothing beyond the oracle pass already made.  -> list of (line, out, why)."""
        return []

    def extra(self, ctx):
        """Hook for additional, property specific phases (returns dict merged into coverage)."""
        return {}


def load(pid):
    sys.path.insert(0, os.path.join(vc.VERIF, "py"))
    mod = importlib.import_module("props." + pid.lower())
    return mod.PROP


def corpus_lines(pid):
    d = os.path.join(vc.VERIF, "corpus", pid)
    out = []
    if os.path.isdir(d):
        for f in sorted(os.listdir(d)):
            for line in open(os.path.join(d, f)):
                line = line.strip()
                if line and not line.startswith("#"):
                    out.append(line)
    return out


def write_replay(pid, n, obj):
    path = os.path.join(vc.VERIF, "replays", pid, "%d.json" % n)
    vc.write_json(path, obj)
    return path


def run_check(pid, tier, seed):
    t0 = time.time()
    prop = load(pid)
    rng = random.Random(seed * 1000003 + int(pid[1:]))
    violations = []   # (replay_path, suffix)
    known_hits = {}
    ev = {"property_id": pid, "tier": tier, "seed": seed, "level": "proof", "coverage": {}, "assumptions": list(prop.assumptions),
          "wall_s": 0.0, "violations": 0}
    cov = ev["coverage"]
    nrep = [0]

    def violation(obj, suffix=""):
        nrep[0] += 1
        obj["property"] = pid
        path = write_replay(pid, nrep[0], obj)
        violations.append((path, suffix))

    # ---- 1. proof obligations -------------------------------------------------------------
    ok, out = vc.build_coq()
    bad = vc.grep_forbidden()
    pf = vc.check_property_file(pid) if ok else {"ok": False, "log": out[-3000:], "theorems": [], "assumptions": {}}
    theorems = pf.get("theorems", [])
    cov["obligations"] = len(theorems)
    cov["discharged"] = len([t for t in theorems if pf["assumptions"].get(t) is not None]) if pf["ok"] else 0
    cov["theorems"] = theorems
    cov["print_assumptions"] = pf.get("assumptions", {})
    cov["checker_cmd"] = "cd /verif/coq && coq_makefile -f _CoqProject <all .v> -o Makefile && make -j16 && coqc -Q theories VpnModel theories/Properties/%s.v" % pid
    cov["trusted_base"] = list(prop.trusted_base)
    if bad:
        violation({"kind": "proof", "what": "forbidden construct in Coq sources", "detail": bad}, " no-failing-input-found")
    if not ok or not pf["ok"] or cov["obligations"] == 0:
        violation({"kind": "proof", "what": "Coq development or Properties/%s.v no longer checks" % pid,
                   "theorems": theorems, "log": pf.get("log", "")}, " no-failing-input-found")
    elif tier == "thorough":
        # independent re-check of the compiled property file and everything it depends on
        rc, chk = vc.sh("timeout 1500 coqchk -o -silent -Q theories VpnModel VpnModel.Properties.%s" % pid, cwd=vc.COQ, timeout=1600)
        summary = chk[chk.find("CONTEXT SUMMARY"):] if "CONTEXT SUMMARY" in chk else chk[-1500:]
        cov["coqchk"] = {"cmd": "coqchk -o -silent -Q theories VpnModel VpnModel.Properties.%s" % pid, "rc": rc, "summary": summary.strip()}
        clean = rc == 0 and all(("* %s: <none>" % k) in summary for k in
                                ("Axioms", "Constants/Inductives relying on type-in-type", "Constants/Inductives relying on unsafe (co)fixpoints",
                                 "Inductives whose positivity is assumed"))
        if not clean:
            violation({"kind": "proof", "what": "coqchk does not accept Properties/%s.vo without axioms or disabled checks" % pid,
                       "log": summary}, " no-failing-input-found")

    # ---- 2. builds for the correspondence ---------------------------------------------------
    ok_ml, out_ml = vc.build_ocaml() if ok else (False, "coq build failed")
    ok_rs, out_rs = vc.build_rust()
    if not ok_rs:
        violation({"kind": "build", "what": "vpncloud with verification hooks no longer builds from /repo's working tree; "
                   "correspondence for %s cannot be established" % pid, "log": out_rs[-4000:]}, " no-failing-input-found")
    if not ok_ml and ok:
        violation({"kind": "build", "what": "extracted model runner does not build", "log": out_ml[-4000:]}, " no-failing-input-found")

    mismatches = []
    if ok_rs and ok_ml:
        # ---- 3. cases: corpus first, then generated ---------------------------------------
        cases = corpus_lines(pid)
        ncorpus = len(cases)
        cases += prop.gen(rng, tier)
        # de-duplicate, keep order
        seen = set()
        uniq = []
        for c in cases:
            if c not in seen:
                seen.add(c)
                uniq.append(c)
        cases = uniq
        t1 = time.time()
        impl = vc.run_impl(cases)
        t2 = time.time()
        model = vc.run_model([prop.model_line(c, i) for c, i in zip(cases, impl)])
        t3 = time.time()
        vc.log("[%s] %d cases: impl %.1fs model %.1fs" % (pid, len(cases), t2 - t1, t3 - t2))
        tags = {}
        nontriv = set()
        oracle_fail = []
        for line, io, mo in zip(cases, impl, model):
            if io == "hang":
                # the implementation did not answer this case at all (vpcore's watchdog): non-termination is a failure on its own,
                # whatever the property - the case is the failing input
                oracle_fail.append((line, io, mo, "the implementation did not return on this input within %d s (hang); the model answers %s"
                                    % (vc.HANG_SECONDS, (mo or "")[:60])))
                continue
            if io == "hang-skipped":
                mismatches.append((line, io, mo))
                continue
            ci = prop.canon_impl(line, io)
            cm = prop.canon_model(line, mo)
            tg = prop.tag(line, ci)
            tags[tg] = tags.get(tg, 0) + 1
            if prop.nontrivial(line, ci):
                nontriv.add(line)
            why = prop.oracle(line, ci)
            if why is not None:
                oracle_fail.append((line, io, mo, why))
            elif ci != cm:
                mismatches.append((line, io, mo))
        # ---- 4. verdicts ----------------------------------------------------------------
        known = vc.known_findings().get(pid, {})
        reported = 0
        for line, io, mo, why in oracle_fail:
            kc = prop.known_class(line, io)
            if kc is not None and kc in known:
                known_hits.setdefault(kc, []).append(line)
                continue
            if reported < 5:
                violation({"kind": "oracle", "why": why, "case": line, "impl": io, "model": mo,
                           "replay_cmd": "./vp replay <this file>"})
            reported += 1
        if mismatches and not violations:
            # model and implementation disagree but the oracle saw no violation on these inputs:
            # search harder around them
            found = prop.search(rng, mismatches, vc.run_impl)
            found = [f for f in found if not (prop.known_class(f[0], f[1]) in known)]
            if found:
                for line, io, why in found[:5]:
                    violation({"kind": "oracle", "why": why, "case": line, "impl": io, "found_by": "search around correspondence mismatch"})
            else:
                line, io, mo = mismatches[0]
                violation({"kind": "correspondence", "what": "model and implementation disagree; the theorems of Properties/%s.v are "
                           "about the model and no longer transfer to the code" % pid, "theorems": theorems,
                           "case": line, "impl": io, "model": mo, "n_mismatches": len(mismatches),
                           "more": [m[0] for m in mismatches[1:10]]}, " no-failing-input-found")
        extra = prop.extra({"rng": rng, "tier": tier, "violation": violation, "known": known, "known_hits": known_hits})
        cov.update(extra or {})
        cov["evaluations"] = len(cases) + int(cov.get("extra_evaluations", 0))
        cov["distinct_nontrivial"] = len(nontriv) + int(cov.get("extra_nontrivial", 0))
        cov["rule"] = prop.rule
        cov["samples"] = [{"case": c, "impl": i, "model": m} for c, i, m in list(zip(cases, impl, model))[:3]] + \
                         [{"case": c, "impl": i, "model": m} for c, i, m in list(zip(cases, impl, model))[-2:]]
        cov["traces_validated_against_impl"] = len(cases)
        cov["corpus_cases"] = ncorpus
        cov["input_distribution"] = dict(sorted(tags.items()))
        cov["correspondence_mismatches"] = len(mismatches)
        cov["oracle_failures"] = len(oracle_fail)
        cov["known_finding_hits"] = {k: len(v) for k, v in known_hits.items()}
    else:
        cov.setdefault("evaluations", 0)
        cov.setdefault("distinct_nontrivial", 0)
        cov["rule"] = prop.rule
        cov["samples"] = []

    ev["wall_s"] = round(time.time() - t0, 2)
    ev["violations"] = len(violations)
    vc.write_json(os.path.join(vc.VERIF, "evidence", "%s.json" % pid), ev)
    known = vc.known_findings().get(pid, {})
    for kc, lines in known_hits.items():
        print("KNOWN-FINDING: property=%s %s: %s (e.g. %s)" % (pid, kc, known.get(kc, ""), lines[0][:160]))
    for path, suffix in violations:
        print("VIOLATION property=%s replay=%s%s" % (pid, path, suffix))
    print("[%s] tier=%s seed=%d obligations=%d discharged=%d evaluations=%d mismatches=%d violations=%d wall=%.1fs" % (
        pid, tier, seed, cov.get("obligations", 0), cov.get("discharged", 0), cov.get("evaluations", 0),
        cov.get("correspondence_mismatches", 0), len(violations), ev["wall_s"]))
    return 1 if violations else 0


def replay(path):
    obj = json.load(open(path))
    print(json.dumps(obj, indent=1)[:3000])
    case = obj.get("case")
    if case:
        vc.build_rust()
        vc.build_coq()
        vc.build_ocaml()
        print("impl :", vc.run_impl([case])[0])
        print("model:", vc.run_model([case])[0])
    return 0

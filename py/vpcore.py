"""Shared machinery for the /verif checks: builds (Coq, extracted OCaml model, Rust driver),
running both sides on the same cases, diffing, oracle evaluation, evidence and replay files."""
import fcntl
import hashlib
import json
import os
import queue
import threading
import re
import subprocess
import sys
import time
from concurrent.futures import ThreadPoolExecutor

VERIF = os.path.dirname(os.path.dirname(os.path.abspath(__file__)))
REPO = os.environ.get("VERIF_REPO", "/repo")
CACHE = os.path.join(VERIF, ".cache")
COQ = os.path.join(VERIF, "coq")
OCAML = os.path.join(VERIF, "ocaml")
TARGET = os.path.join(CACHE, "target")
DRIVER = os.path.join(TARGET, "debug", "vpncloud")
MODEL = os.path.join(OCAML, "gen", "model_run")
NPROC = min(16, os.cpu_count() or 4)

FORBIDDEN = re.compile(
    r"\b(Admitted|admit|Axiom|Axioms|Parameter|Parameters|Conjecture|Unset\s+Guard|bypass_check|type-in-type|"
    r"impredicative-set|Admit\s+Obligations|native_compute)\b")


def log(*a):
    print(*a, file=sys.stderr, flush=True)


class Lock:
    def __init__(self, name):
        os.makedirs(CACHE, exist_ok=True)
        self.path = os.path.join(CACHE, name + ".lock")

    def __enter__(self):
        self.f = open(self.path, "w")
        fcntl.flock(self.f, fcntl.LOCK_EX)
        return self

    def __exit__(self, *a):
        fcntl.flock(self.f, fcntl.LOCK_UN)
        self.f.close()


def sh(cmd, cwd=None, timeout=1800, env=None):
    e = dict(os.environ)
    if env:
        e.update(env)
    p = subprocess.run(cmd, shell=True, cwd=cwd, timeout=timeout, env=e, stdout=subprocess.PIPE,
                       stderr=subprocess.STDOUT, text=True)
    return p.returncode, p.stdout


def tree_hash(paths, exts):
    h = hashlib.sha256()
    for root in paths:
        if os.path.isfile(root):
            files = [root]
        else:
            files = []
            for d, dn, fn in os.walk(root):
                dn[:] = [x for x in dn if x not in ("gen", "_build", ".cache", "target")]
                for f in fn:
                    if f.endswith(exts):
                        files.append(os.path.join(d, f))
        for f in sorted(files):
            h.update(f.encode())
            with open(f, "rb") as fh:
                h.update(fh.read())
    return h.hexdigest()


# ---------------------------------------------------------------------------------------------
# builds

def coq_sources():
    out = []
    for d, dn, fn in os.walk(os.path.join(COQ, "theories")):
        for f in fn:
            if f.endswith(".v"):
                out.append(os.path.relpath(os.path.join(d, f), COQ))
    return sorted(out)


def build_coq():
    """Full .vo build of the whole development through coq_makefile (never -vos)."""
    with Lock("coq"):
        t0 = time.time()
        srcs = coq_sources()
        rc, out = sh("coq_makefile -f _CoqProject %s -o Makefile" % " ".join(srcs), cwd=COQ)
        if rc != 0:
            return False, out
        rc, out = sh("timeout 1500 make -j%d" % NPROC, cwd=COQ, timeout=1600)
        log("[coq] make rc=%d in %.1fs" % (rc, time.time() - t0))
        return rc == 0, out


def grep_forbidden():
    bad = []
    files = [os.path.join(COQ, s) for s in coq_sources()] + [os.path.join(OCAML, "Extract.v")]
    for f in files:
        txt = open(f).read()
        # strip comments (non-nested is enough for our sources; nested handled by loop)
        prev = None
        while prev != txt:
            prev = txt
            txt = re.sub(r"\(\*[^*(]*(?:\*(?!\))[^*(]*|\((?!\*)[^*(]*)*\*\)", " ", txt)
        for m in FORBIDDEN.finditer(txt):
            bad.append("%s: %s" % (os.path.relpath(f, VERIF), m.group(0)))
    return bad


STD_AXIOMS_ALLOWED = set()  # no standard-library axiom is used by the development so far


def check_property_file(pid):
    """Re-compile Properties/<pid>.v and read Print Assumptions.  Returns dict."""
    rel = "theories/Properties/%s.v" % pid
    path = os.path.join(COQ, rel)
    if not os.path.exists(path):
        return {"ok": False, "log": "missing " + rel, "theorems": [], "assumptions": {}}
    src = open(path).read()
    theorems = re.findall(r"^Theorem\s+(%s_\w+)" % pid, src, flags=re.M)
    printed = re.findall(r"^Print Assumptions\s+(\w+)\.", src, flags=re.M)
    rc, out = sh("timeout 600 coqc -Q theories VpnModel %s" % rel, cwd=COQ, timeout=700)
    res = {"ok": rc == 0, "log": out[-4000:], "theorems": theorems, "assumptions": {}, "axioms": []}
    if rc != 0:
        return res
    # split the output into one block per Print Assumptions, in order
    blocks = re.split(r"(?=Closed under the global context|Axioms:|Section Variables:)", out)
    blocks = [b for b in blocks if b.strip()]
    if len(blocks) != len(printed):
        res["ok"] = False
        res["log"] = "Print Assumptions count mismatch: %d blocks for %d commands\n%s" % (len(blocks), len(printed), out[-2000:])
        return res
    for name, b in zip(printed, blocks):
        if b.startswith("Closed under the global context"):
            res["assumptions"][name] = "closed"
        else:
            res["assumptions"][name] = b.strip()
            names = re.findall(r"^([\w.]+)\s*:", b, flags=re.M)
            for n in names:
                if n not in ("Axioms", "Section Variables") and n not in STD_AXIOMS_ALLOWED:
                    res["axioms"].append(n)
    missing = [t for t in theorems if t not in printed]
    if missing:
        res["ok"] = False
        res["log"] = "theorems without Print Assumptions: %s" % missing
    if res["axioms"]:
        res["ok"] = False
        res["log"] = "unexpected axioms: %s" % res["axioms"]
    return res


def build_ocaml():
    with Lock("ocaml"):
        h = tree_hash([os.path.join(COQ, "theories"), OCAML], (".v", ".ml", ".sh"))
        stamp = os.path.join(OCAML, "gen", ".stamp")
        if os.path.exists(MODEL) and os.path.exists(stamp) and open(stamp).read() == h:
            return True, "cached"
        t0 = time.time()
        rc, out = sh("timeout 900 ./build.sh", cwd=OCAML, timeout=1000)
        log("[ocaml] build rc=%d in %.1fs" % (rc, time.time() - t0))
        if rc == 0:
            open(stamp, "w").write(h)
        return rc == 0, out


def build_rust(extra_rustflags=""):
    """Rebuild the driver from /repo's current working tree (cargo decides what is stale)."""
    with Lock("rust"):
        t0 = time.time()
        env = {"RUSTFLAGS": ("--cfg vpncloud_verif -Awarnings " + extra_rustflags).strip(), "CARGO_NET_OFFLINE": "true"}
        # cargo decides staleness by modification time; a file changed and changed back within the clock's
        # granularity (apply a patch, build, revert) can look fresh.  The content hash of everything that is
        # compiled decides instead: if it differs from the one recorded at the last build, force a rebuild.
        h = hashlib.sha256()
        roots = [os.path.join(REPO, "src"), os.path.join(VERIF, "harness")]
        files = [os.path.join(REPO, f) for f in ("Cargo.toml", "Cargo.lock", "build.rs")]
        for r in roots:
            for d, _, fs in sorted(os.walk(r)):
                files += [os.path.join(d, f) for f in sorted(fs)]
        for f in files:
            if os.path.isfile(f):
                h.update(f.encode() + b"\0" + open(f, "rb").read() + b"\0")
        digest = h.hexdigest() + " " + env["RUSTFLAGS"]
        stamp = os.path.join(CACHE, "rust_sources.sha256")
        if not (os.path.exists(stamp) and open(stamp).read() == digest):
            os.utime(os.path.join(REPO, "src", "main.rs"))
        rc, out = sh("timeout 1500 cargo build --offline --manifest-path %s/Cargo.toml --target-dir %s" % (REPO, TARGET),
                     timeout=1600, env=env)
        if rc == 0:
            os.makedirs(CACHE, exist_ok=True)
            open(stamp, "w").write(digest)
        elif os.path.exists(stamp):
            os.remove(stamp)
        log("[rust] cargo build rc=%d in %.1fs" % (rc, time.time() - t0))
        return rc == 0, out


# ---------------------------------------------------------------------------------------------
# running cases

HANG_SECONDS = int(os.environ.get("VERIF_HANG_SECONDS", "180"))   # no answer to ONE case for this long = a hang (cases take ms to a few s)


def _run_chunk_plain(cmd, env, lines):
    if not lines:
        return []
    e = dict(os.environ)
    e.update(env)
    p = subprocess.run(cmd, input="\n".join(lines) + "\n", stdout=subprocess.PIPE, stderr=subprocess.PIPE, text=True,
                       env=e, timeout=3000)
    out = p.stdout.split("\n")
    if out and out[-1] == "":
        out.pop()
    if len(out) != len(lines):
        out = out + ["crash rc=%d %s" % (p.returncode, p.stderr.strip().replace("\n", " ")[-200:])] * (len(lines) - len(out))
    return out


def _run_chunk(cmd, env, lines):
    """(implementation driver only: its stdout is line-buffered; the model runner's is not and it cannot hang - its functions are total)
    feeds the lines to one driver process and reads one answer per line.  The process is watched: if a case gets no answer within
    HANG_SECONDS it is killed, that case is answered `hang` (a non-terminating computation is a failure the properties speak about),
    and a new process continues with the remaining cases; after three hangs the rest of the chunk is answered `hang-skipped`."""
    if not lines:
        return []
    e = dict(os.environ)
    e.update(env)
    res = []
    hangs = 0
    rest = list(lines)
    while rest:
        if hangs >= 3:
            res += ["hang-skipped"] * len(rest)
            break
        p = subprocess.Popen(cmd, stdin=subprocess.PIPE, stdout=subprocess.PIPE, stderr=subprocess.PIPE, text=True, env=e)
        q = queue.Queue()

        def reader(proc=p, qq=q):
            for ln in proc.stdout:
                qq.put(ln.rstrip("\n"))
            qq.put(None)

        def writer(proc=p, data="\n".join(rest) + "\n"):
            try:
                proc.stdin.write(data)
                proc.stdin.close()
            except (BrokenPipeError, OSError):
                pass
        err = []
        threading.Thread(target=reader, daemon=True).start()
        threading.Thread(target=writer, daemon=True).start()
        threading.Thread(target=lambda proc=p: err.append(proc.stderr.read()), daemon=True).start()
        got = []
        hung = False
        while len(got) < len(rest):
            try:
                item = q.get(timeout=HANG_SECONDS)
            except queue.Empty:
                hung = True
                break
            if item is None:
                break
            got.append(item)
        if hung:
            p.kill()
            p.wait()
            hangs += 1
            res += got + ["hang"]
            rest = rest[len(got) + 1:]
            continue
        p.wait()
        if len(got) != len(rest):
            # the process died (abort, stack overflow, ...): every case without an answer is marked
            msg = ("".join(err) if err else "").strip().replace("\n", " ")[-200:]
            got = got + ["crash rc=%s %s" % (p.returncode, msg)] * (len(rest) - len(got))
        res += got
        rest = []
    return res


def run_sharded(cmd, env, lines, shards=NPROC, watch=False):
    """round-robin distribution over `shards` processes (balances slow cases), results in input order"""
    n = len(lines)
    if n == 0:
        return []
    shards = max(1, min(shards, (n + 49) // 50))
    chunks = [lines[i::shards] for i in range(shards)]
    with ThreadPoolExecutor(max_workers=len(chunks)) as ex:
        outs = list(ex.map(lambda c: (_run_chunk if watch else _run_chunk_plain)(cmd, env, c), chunks))
    res = [None] * n
    for i, o in enumerate(outs):
        res[i::shards] = o
    return res


def run_impl(lines, driver=None):
    return run_sharded([driver or DRIVER], {"VPNCLOUD_VERIF_DRIVER": "1", "RUST_BACKTRACE": "0"}, lines, watch=True)


def run_model(lines):
    return run_sharded([MODEL], {"OCAMLRUNPARAM": "l=4G"}, lines)


def canon_default(s):
    if s.startswith("panic"):
        return "panic"
    return s


# ---------------------------------------------------------------------------------------------
# evidence / replay

def write_json(path, obj):
    os.makedirs(os.path.dirname(path), exist_ok=True)
    tmp = path + ".tmp"
    with open(tmp, "w") as f:
        json.dump(obj, f, indent=1, sort_keys=True)
    os.replace(tmp, path)


def known_findings():
    """known_findings.txt: lines `known: property=Cxx class=<id> <text>` and `fixed: property=Cxx <commit> <text>`."""
    path = os.path.join(VERIF, "known_findings.txt")
    known = {}
    if os.path.exists(path):
        for line in open(path):
            line = line.strip()
            m = re.match(r"known:\s+property=(\w+)\s+class=(\S+)\s+(.*)", line)
            if m:
                known.setdefault(m.group(1), {})[m.group(2)] = m.group(3)
    return known

#!/usr/bin/env python3
"""import_seed.py <worktree-id> <mN> <seed-id> '<needs>' '<check>=<result>[,<check>=<result>...]' ['<strengthened note>']
copies a confirmed seeded change from /tmp/mut-<worktree-id>/_out/<mN> into /verif/seeded/<seed-id>/ and writes meta.json"""
import json, os, shutil, sys, re
wt, m, sid, needs, det = sys.argv[1:6]
note = sys.argv[6] if len(sys.argv) > 6 else None
root = os.environ.get("MUTROOT", "/tmp/mut")
src = "%s-%s/_out/%s" % (root, wt, m)
dst = "/verif/seeded/%s" % sid
os.makedirs(dst, exist_ok=True)
for f in ("patch.diff", "demo.diff", "notes.md"):
    shutil.copy(os.path.join(src, f), os.path.join(dst, f))
prop = re.match(r"C\d\d", sid).group(0)
conf = ""
for log in ("/tmp/seedconfirm_batch2.log", "/tmp/seedconfirm_batch3.log", "/tmp/seedconfirm.log", os.environ.get("CONFLOG", "/nonexistent")):
    if os.path.exists(log):
        for l in open(log):
            if l.startswith("%s/%s " % (wt, m)):
                conf = l.strip()
meta = {
    "id": sid, "property": prop, "needs": needs,
    "produced_by": os.environ.get("PRODUCED_BY", "fresh sub-agent given only the property text and a scratch worktree"),
    "confirmed": {
        "how": "in the scratch worktree %s-%s (at /repo's HEAD): (1) demo.diff on unchanged tree: cargo test --offline; (2) patch.diff alone: cargo test --offline (existing suite); (3) patch+demo: cargo test --offline" % (root, wt),
        "result": conf,
        "note": "beacon::encode_decode_cmd and crypto::core::tests::test_speed_* are timing-sensitive and fail under machine load (several cargo builds ran in parallel); unrelated to the change, they pass alone",
    },
    "detected_by": dict(x.split("=") for x in det.split(",")),
    "detect_cmd": "git -C /repo apply /verif/seeded/%s/patch.diff && ./vp check %s; git -C /repo checkout -- ." % (sid, det.split("=")[0]),
}
if note:
    meta["strengthened"] = note
json.dump(meta, open(os.path.join(dst, "meta.json"), "w"), indent=1)
print("imported", sid)

#!/usr/bin/env python3
"""One-shot helper: build a Properties/Cxx.v skeleton by copying the statements of already proved
lemmas (so that the property file pins the statement text and closes with `exact`)."""
import re, sys, os
T = '/verif/coq/theories/'
def stmt(file, name):
    s = open(T + file).read()
    m = re.search(r'^(?:Theorem|Lemma|Corollary) %s\b(.*?)\.\s*\nProof' % re.escape(name), s, re.S | re.M)
    if not m: raise SystemExit('no statement for %s in %s' % (name, file))
    return m.group(1).rstrip()
def emit(pid, header, imports, items, tail=''):
    out = ['(* %s *)' % header, 'From VpnModel Require Import %s.' % ' '.join(imports), '']
    names = []
    for it in items:
        new, file, lemma, comment = it
        out.append('(* %s *)' % comment)
        out.append('Theorem %s_%s%s.' % (pid, new, stmt(file, lemma)))
        out.append('Proof. exact %s. Qed.' % lemma)
        out.append('')
        names.append('%s_%s' % (pid, new))
    if tail: out.append(tail.strip() + '\n')
    for n in names: out.append('Print Assumptions %s.' % n)
    open(T + 'Properties/%s.v' % pid, 'w').write('\n'.join(out) + '\n')
if __name__ == '__main__':
    exec(open(sys.argv[1]).read())

emit('C01', '''C01 — Only holders of a mutually trusted key can become peers.
   Pinned statements only.  A handshake datagram whose signature does not verify under a key the
   receiver trusts is the wire value WBadInit of the model (random bytes with the init marker, any
   flip/truncation/edit of a genuine message, a message signed by an unknown key): the byte-level
   parser InitMsg.read_from maps all of those to an error before any field is used (C16 ties that
   parser to the code); a well-formed message signed with a key outside the trusted list is WInit m
   with im_signer m not in i_trusted.
   PARTIAL: "two nodes become peers exactly when each trusts the other" has a liveness direction
   (trust => they do become peers) that is decided by the executed correspondence over all trust
   relations (py/props/c01.py), not by a theorem.''',
 ['Base','Core','Conn','PeerCrypto','Table','Node','NodeProofs','InitProofs','TrustProofs','NextHopProofs','PcInvariant','AdmissionProofs'],
 [('untrusted_signer_rejected','TrustProofs.v','untrusted_rejected','a message signed with a key outside the trusted list: rejected, state untouched, no reply'),
  ('success_needs_trust','TrustProofs.v','success_needs_trust','a handshake object completes only on a message signed by a trusted key'),
  ('initialized_needs_trust','TrustProofs.v','pc_initialized_needs_trust','PeerCrypto reports Initialized (the only result that creates a peer) only for such a message'),
  ('peer_needs_trust','TrustProofs.v','peer_creation_needs_trust','node level: a new peer entry appears only for the sender of a trusted, verified handshake message'),
  ('unverifiable_object','NodeProofs.v','pc_handle_unverifiable','object level: unverifiable input leaves every handshake stage exactly as it was, no reply'),
  ('unverifiable_node','NodeProofs.v','unverifiable_no_residue','node level (unknown sender / pending / established): no peer, no pending entry, no table change, no effect'),
  ('unverifiable_sequence','NodeProofs.v','unverifiable_sequence','any sequence of such datagrams from any sources'),
  ('every_peer_was_admitted','AdmissionProofs.v','every_peer_was_admitted','WHOLE RUNS: every peer a node has in any reachable state (any events, times, salts) was admitted by a handshake message that arrived from that very address and verified under a key of the node\'s trusted list (its own key if none is configured) - induction over arbitrary event sequences; only datagrams can make a peer (interface reads, housekeeping, dials never do), and every handshake object keeps the trusted list it was created with (invariant TI through PcInvariant.v)'),
  ('objects_keep_trusted_list','AdmissionProofs.v','reachable_ti','the object invariant behind it, for every reachable state: every connection / handshake object of the node carries exactly the configured trusted keys'),
 ],
 tail='''
(* non-vacuity: WBadInit is unverifiable; a fresh node with one pending handshake is all_encrypted *)
Example C01_ex_unverifiable : unverifiable WBadInit /\\ unverifiable (WData (DShort 3)) /\\ unverifiable WEmpty.
Proof. repeat split. Qed.

(* the reachable example state of NextHopProofs has a peer (admitted by A's ping and peng): C01_every_peer_was_admitted is not vacuous *)
Example C01_ex_peer : ahas (n_peers (nrun salts (node_new cB 1) ex_evs)) 1001 = true.
Proof. exact (proj2 (proj2 ex_reachable_selects)). Qed.
''')

emit('C01', '''C01 — Only holders of a mutually trusted key can become peers.
   Pinned statements only.  A handshake datagram whose signature does not verify under a key the
   receiver trusts is the wire value WBadInit of the model (random bytes with the init marker, any
   flip/truncation/edit of a genuine message, a message signed by an unknown key): the byte-level
   parser InitMsg.read_from maps all of those to an error before any field is used (C16 ties that
   parser to the code); a well-formed message signed with a key outside the trusted list is WInit m
   with im_signer m not in i_trusted.
   PARTIAL: "two nodes become peers exactly when each trusts the other" has a liveness direction
   (trust => they do become peers) that is decided by the executed correspondence over all trust
   relations (py/props/c01.py), not by a theorem.''',
 ['Base','Core','Conn','PeerCrypto','Node','NodeProofs','InitProofs','TrustProofs'],
 [('untrusted_signer_rejected','TrustProofs.v','untrusted_rejected','a message signed with a key outside the trusted list: rejected, state untouched, no reply'),
  ('success_needs_trust','TrustProofs.v','success_needs_trust','a handshake object completes only on a message signed by a trusted key'),
  ('initialized_needs_trust','TrustProofs.v','pc_initialized_needs_trust','PeerCrypto reports Initialized (the only result that creates a peer) only for such a message'),
  ('peer_needs_trust','TrustProofs.v','peer_creation_needs_trust','node level: a new peer entry appears only for the sender of a trusted, verified handshake message'),
  ('unverifiable_object','NodeProofs.v','pc_handle_unverifiable','object level: unverifiable input leaves every handshake stage exactly as it was, no reply'),
  ('unverifiable_node','NodeProofs.v','unverifiable_no_residue','node level (unknown sender / pending / established): no peer, no pending entry, no table change, no effect'),
  ('unverifiable_sequence','NodeProofs.v','unverifiable_sequence','any sequence of such datagrams from any sources'),
 ],
 tail='''
(* non-vacuity: WBadInit is unverifiable; a fresh node with one pending handshake is all_encrypted *)
Example C01_ex_unverifiable : unverifiable WBadInit /\\ unverifiable (WData (DShort 3)) /\\ unverifiable WEmpty.
Proof. repeat split. Qed.
''')

emit('C13', '''C13 — Switch learning is per VLAN and expires; hub and router learn nothing.
   Pinned statements only.  Addresses are the 8-byte (VLAN, MAC) keys of Dissect.v (after the fix of
   F5 a priority tag, VLAN 0, yields the same key as no tag: C19).''',
 ['Base','Dissect','DissectProofs','Core','Conn','PeerCrypto','Table','TableProofs','Node','NodeProofs'],
 [('learns','NodeProofs.v','data_learns','learning mode: the frame\'s source key now points to the sending peer with the switch timeout, every other key and all claims unchanged; hub/router mode: table untouched'),
  ('learn_exact','TableProofs.v','learn_exact','table level: cache() replaces the entry of exactly that key'),
  ('lookup_learned','TableProofs.v','lookup_cached','a learned key resolves to its peer'),
  ('expires','TableProofs.v','housekeep_exact','housekeeping removes exactly the entries whose timeout passed'),
  ('disconnect','TableProofs.v','remove_claims_clean','a disconnecting peer takes its learned entries with it'),
  ('per_vlan','DissectProofs.v','frame_tagged','the key contains the 12-bit VLAN id: the same MAC in another VLAN is another key'),
  ('untagged','DissectProofs.v','frame_untagged','untagged frames have VLAN 0'),
  ('unknown_floods','NodeProofs.v','iface_read_effects','unknown destinations: one datagram per peer in flooding modes (never an interface write)'),
 ])

emit('C10', '''C10 — Forwarding isolation: no relaying, exact once-only delivery.
   Pinned statements only.
   PARTIAL: the mesh-wide conservation statement (each frame delivered byte-identical exactly once to
   every selected peer and to no other node) quantifies over networks of nodes; it is decided by the
   executed correspondence on 2-5 node meshes with a conservation oracle (py/props/c10.py).  The
   per-node theorems below are the facts that oracle rests on.''',
 ['Base','Nonce','Replay','Core','CoreProofs','Conn','PeerCrypto','SealProofs','Table','Node','NodeProofs','TrustProofs','EndToEndProofs'],
 [('unicast_end_to_end','EndToEndProofs.v','unicast_end_to_end','END TO END (two nodes): a frame read from the interface of node A whose destination resolves to peer B causes exactly one datagram, to B, and that datagram makes B write exactly that frame to its interface and nothing else, whenever the two connection objects are in sync (B holds A\'s sealing key under its id, nonce reconstructible, window admits: the C07/C04/C03 invariants)'),
  ('iface_only_sends','NodeProofs.v','iface_read_effects','an interface read only ever causes datagrams to peers, never an interface write'),
  ('send_to_peers_only','NodeProofs.v','send_data_effects','and a datagram goes to an address only if it is an established peer'),
  ('no_relay','NodeProofs.v','data_no_relay','payload received from a peer causes at most one interface write of exactly that body and no datagram to anyone: no relaying'),
  ('unknown_dest_router','NodeProofs.v','iface_unknown_router_drops','router mode, unknown destination: dropped and counted'),
  ('non_peer_nothing','NodeProofs.v','unverifiable_no_residue','datagrams from non-peers (nothing verifiable) never reach the interface'),
  ('byte_identical','SealProofs.v','pc_roundtrip','what is delivered is byte-identical to what was sealed'),
 ])

emit('C10', '''C10 — Forwarding isolation: no relaying, exact once-only delivery.
   Pinned statements only.
   PARTIAL: the mesh-wide conservation statement (each frame delivered byte-identical exactly once to
   every selected peer and to no other node) quantifies over networks of nodes; it is decided by the
   executed correspondence on 2-5 node meshes with a conservation oracle (py/props/c10.py).  The
   per-node theorems below are the facts that oracle rests on.''',
 ['Base','Nonce','Replay','Core','CoreProofs','Conn','PeerCrypto','SealProofs','Table','Node','NodeProofs','TrustProofs','EndToEndProofs','NextHopProofs','TickPeersProofs','FloodProofs'],
 [('unicast_end_to_end','EndToEndProofs.v','unicast_end_to_end','END TO END (two nodes): a frame read from the interface of node A whose destination resolves to peer B causes exactly one datagram, to B, and that datagram makes B write exactly that frame to its interface and nothing else, whenever the two connection objects are in sync (B holds A\'s sealing key under its id, nonce reconstructible, window admits: the C07/C04/C03 invariants)'),
  ('iface_only_sends','NodeProofs.v','iface_read_effects','an interface read only ever causes datagrams to peers, never an interface write'),
  ('send_to_peers_only','NodeProofs.v','send_data_effects','and a datagram goes to an address only if it is an established peer'),
  ('no_relay','NodeProofs.v','data_no_relay','payload received from a peer causes at most one interface write of exactly that body and no datagram to anyone: no relaying'),
  ('unknown_dest_router','NodeProofs.v','iface_unknown_router_drops','router mode, unknown destination: dropped and counted'),
  ('non_peer_nothing','NodeProofs.v','unverifiable_no_residue','datagrams from non-peers (nothing verifiable) never reach the interface'),
  ('byte_identical','SealProofs.v','pc_roundtrip','what is delivered is byte-identical to what was sealed'),
  ('flood_exact','FloodProofs.v','broadcast_exact','a flood (broadcast) emits, for the peers in map order, exactly the datagram each peer\'s connection object seals - nothing else, nobody twice, nobody skipped (peer map without duplicate addresses)'),
  ('reachable_flood_every_peer_once','FloodProofs.v','reachable_flood_every_peer_once','in EVERY reachable node state (any events, any times, any salts) a frame whose destination the table does not know is, in a flooding mode, sent to every peer exactly once: the peer map never lists an address twice (TickPeersProofs.reachable_nd) and every peer\'s connection object can seal (FloodProofs.reachable_se)'),
 ], tail='''(* non-vacuity: the reachable example state of NextHopProofs floods to its one peer *)
Example C10_ex_flood : map dst_of (snd (broadcast ex_b MESSAGE_TYPE_DATA [1;2;3])) = [Some 1001].
Proof. exact ex_flood. Qed.''')

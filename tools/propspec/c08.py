emit('C08', '''C08 — No datagram from an outsider can crash a node.
   Pinned statements only.  Datagrams of a sender without a trusted key reach the model as the wire
   values WBadInit (init marker, signature does not verify: random bytes, edits of genuine
   messages), WEmpty, WData (DShort n) (too short for header and tag) and WData (DG _ _ Junk _)
   (not a genuine seal under any key the node holds): `unverifiable`.  The byte-level decoders that
   classify a datagram are total functions in the model (C16) and are run against the real parser
   for every length 0..80 and every first byte in every receiver state (py/props/c08.py); a panic
   of the real code shows up there as a `panic` result line the model does not produce.''',
 ['Base','Core','CoreProofs','Conn','PeerCrypto','Node','NodeProofs','Dissect','DissectProofs'],
 [('object_drops','NodeProofs.v','pc_handle_unverifiable','at every stage of a connection object: ordinary error (never the Panic result), object unchanged, no reply'),
  ('node_no_residue','NodeProofs.v','unverifiable_no_residue','node level, any source (unknown, pending, established): peers, pending handshakes, own addresses, table, schedule unchanged and nothing emitted'),
  ('node_sequence','NodeProofs.v','unverifiable_sequence','and so for every sequence of such datagrams'),
  ('core_never_panics','CoreProofs.v','decrypt_never_panics','the datagram decryption path has no panic result for any datagram (after the fixes of F1 and F2)'),
  ('core_junk','NodeProofs.v','core_decrypt_junk','a datagram that is not a genuine seal leaves the crypto core untouched'),
  ('frame_never_panics','DissectProofs.v','frame_no_panic','Ethernet dissection never panics'),
  ('packet_never_panics','DissectProofs.v','packet_no_panic','IP dissection never panics'),
 ],
 tail='''
Example C08_ex : unverifiable (WData (DG 200 [0;0;0;0;0;0;1] Junk 40)) /\\ unverifiable (WData (DShort 0)).
Proof. split; exact I. Qed.
''')

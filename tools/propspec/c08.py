emit('C08', '''C08 — No datagram from an outsider can crash a node.
   Pinned statements only.  Datagrams of a sender without a trusted key reach the model as the wire
   values WBadInit (init marker, signature does not verify: random bytes, edits of genuine
   messages), WEmpty, WData (DShort n) (too short for header and tag) and WData (DG _ _ Junk _)
   (not a genuine seal under any key the node holds): `unverifiable`.  The byte-level decoders that
   classify a datagram are total functions in the model (C16) and are run against the real parser
   for every length 0..80 and every first byte in every receiver state (py/props/c08.py); a panic
   of the real code shows up there as a `panic` result line the model does not produce.''',
 ['Base','Core','CoreProofs','Conn','PeerCrypto','NodeInfo','Table','Node','NodeProofs','Dissect','DissectProofs','InitProofs','InvProofs','TrustProofs','NextHopProofs','NoPanicProofs'],
 [('object_drops','NodeProofs.v','pc_handle_unverifiable','at every stage of a connection object: ordinary error (never the Panic result), object unchanged, no reply'),
  ('node_no_residue','NodeProofs.v','unverifiable_no_residue','node level, any source (unknown, pending, established): peers, pending handshakes, own addresses, table, schedule unchanged and nothing emitted'),
  ('node_sequence','NodeProofs.v','unverifiable_sequence','and so for every sequence of such datagrams'),
  ('no_consumed_key_unwrap','InvProofs.v','pc_no_panic11','for EVERY wire value - replays of genuine handshake messages included - a connection object whose handshake state satisfies the invariant (waiting for a pong implies still holding the ECDH key) never reaches the unwrap of a consumed key'),
  ('invariant_preserved','InvProofs.v','pinv_preserved','that invariant survives every outcome that is neither fatal nor a panic'),
  ('invariant_preserved_init','InvProofs.v','ecdh_inv_preserved','(the same at the level of the handshake state machine)'),
  ('invariant_new','InvProofs.v','pinv_new','new connection objects satisfy it'),
  ('fatal_object_deleted','InvProofs.v','pending_fatal_deleted','and the cooperating site at node level: a fatal handshake error from a pending object removes that object in the same step, so a state that violates the invariant never survives (a change that makes the pong decryption error non-fatal breaks exactly this pair)'),
  ('core_never_panics','CoreProofs.v','decrypt_never_panics','the datagram decryption path has no panic result for any datagram (after the fixes of F1 and F2)'),
  ('core_junk','NodeProofs.v','core_decrypt_junk','a datagram that is not a genuine seal leaves the crypto core untouched'),
  ('reachable_no_panic','NoPanicProofs.v','reachable_no_panic','WHOLE RUNS: as long as everything that ever arrived was well-formed - wf_wire: ECDH public keys of 32 bytes, sealed messages non-empty; unverifiable bytes are (C08_outsider_is_wellformed), and so are verbatim replays of what honest nodes sent - the next datagram, from ANY source and handled by whichever connection or handshake object answers for that source, does not panic: no unwrap of a consumed key, no failed key agreement, no empty-buffer assertion, no index past an empty message.  Invariant QP of every node step: pending handshake objects keep their ECDH key while they wait for a pong (a fatal error deletes them in the same step), the handshake objects of established peers have completed and stay so'),
  ('outsider_is_wellformed','NoPanicProofs.v','unverifiable_wf','what a party without keys can fabricate is well-formed in that sense'),
  ('housekeeping_never_panics','NoPanicProofs.v','every_second_never_panics','and the per-second housekeeping of a connection object has no panic result at all'),
  ('frame_never_panics','DissectProofs.v','frame_no_panic','Ethernet dissection never panics'),
  ('packet_never_panics','DissectProofs.v','packet_no_panic','IP dissection never panics'),
 ],
 tail='''
Example C08_ex : unverifiable (WData (DG 200 [0;0;0;0;0;0;1] Junk 40)) /\\ unverifiable (WData (DShort 0)).
Proof. split; exact I. Qed.

(* the two handshake messages that lead to the example state of NextHopProofs are well-formed: the premise of C08_reachable_no_panic is satisfiable by a real exchange *)
Example C08_ex_wf : Forall (fun te => wf_event (snd te)) ex_evs.
Proof. exact ex_wf. Qed.
''')

emit('C02', '''C02 — Payload travels sealed: confidential, tamper-evident, delivered byte-identical.
   Pinned statements only.  The AEAD is the ideal one of the model (Core.v: Seal k n p opens only
   under the same key and nonce, every altered ciphertext/tag is Junk); that ring's ciphers realise
   it is the cryptographic assumption of the trusted base, and the correspondence check runs the
   real ciphers on the same flips, truncations, reflections and cross-injections.
   PARTIAL: "cleartext never appears on the wire" is a statement about the real cipher output; the
   theorem below shows every emitted datagram is a seal of the payload, the byte-level absence of
   the cleartext is checked on the real datagrams by py/props/c02.py.''',
 ['Base','Nonce','NonceProofs','Replay','Core','CoreProofs','Conn','PeerCrypto','SealProofs','Table','Node','NodeProofs','EndToEndProofs','NextHopProofs','SealedWireProofs'],
 [('core_roundtrip','CoreProofs.v','core_roundtrip','what one end seals the other end opens byte-identical (same key under the key id, nonce reconstructible, window admits)'),
  ('nonce_reconstructed','NonceProofs.v','rebuild_after_increment','the nonce premise holds for every counter that fits the 56 transmitted bits, the receiver being the opposite half'),
  ('pc_sealed','SealProofs.v','pc_seal_sealed','unless plain, everything PeerCrypto sends is a datagram produced by the core seal'),
  ('wire_shape','SealProofs.v','sealed_wire_shape','and that datagram is key id, 7 counter bytes and the AEAD seal of (type :: body) under the current key'),
  ('pc_roundtrip','SealProofs.v','pc_roundtrip','end to end at the PeerCrypto level: the receiver reports exactly the type and bytes sent'),
  ('node_end_to_end','EndToEndProofs.v','unicast_end_to_end','node to node: the receiving node hands to its interface exactly the bytes the sending node read from its interface'),
  ('interface_gets_body','NodeProofs.v','data_no_relay','the node writes to its interface exactly the body of a DATA message, or nothing'),
  ('open_iff','CoreProofs.v','decrypt_ok_iff','a datagram opens iff key id in range, genuine seal under the slot key and reconstructed nonce, window admits'),
  ('reflected','CoreProofs.v','reflected_never_opens','reflected back to its own sender: never opens (own half never reconstructed)'),
  ('foreign','CoreProofs.v','foreign_key_never_opens','sealed for a different connection (different key): never opens'),
  ('altered','CoreProofs.v','altered_never_opens','any bit flip in ciphertext or tag: never opens'),
  ('truncated','CoreProofs.v','truncated_never_opens','truncated: never opens'),
  ('rejected_silently','SealProofs.v','pc_reject_silent','a datagram that does not open is an ordinary error with no reply'),
  ('rejected_unchanged','CoreProofs.v','decrypt_fail_unchanged','and leaves the crypto core untouched'),
  ('no_cleartext_ever','SealedWireProofs.v','no_cleartext_ever','NODE, every reachable state: a node whose configuration does not allow the plain algorithm never emits an unencrypted message, never puts its node information (addresses, claims, peer list) into a handshake message unsealed, and never holds an unencrypted connection - for every sequence of events (datagrams of any content from any source, interface reads, housekeeping, dials), at any times, with any handshake salts.  Invariant NE of every node step: each connection and handshake object keeps plain = false; a handshake object that is to answer with a payload already holds the negotiated cipher (IE), because select_algorithm cannot answer plain unless the own configuration allows it'),
 ],
 tail='''
(* header flips (key id, counter) are covered by C02_open_iff: the key id selects another slot (other
   key or none), a counter flip changes the reconstructed nonce, so the seal no longer matches *)
Example C02_ex_roundtrip :
  let k := 7 in let r := [1;2;3;4;5;6] in
  let a := core_new k 99 true r r r r in
  let b := core_new k 98 false r r r r in
  snd (core_decrypt b (snd (core_encrypt a [9;9;9]))) = Ok [9;9;9] /\\
  is_ok (snd (core_decrypt a (snd (core_encrypt a [9;9;9])))) = false.
Proof. vm_compute. split; reflexivity. Qed.

(* the example node of NextHopProofs (plain not allowed) emits a handshake message with a sealed payload: C02_no_cleartext_ever is not vacuous *)
Example C02_ex_sealed_payload : a_plain (c_algos cB) = false /\\
  existsb (fun e => match e with XSend _ (WInit m) => match im_payload m with Some (PSealed _) => true | _ => false end | _ => false end)
          (nrun_fx salts (node_new cB 1) ex_evs) = true.
Proof. exact ex_sealed_payload. Qed.
''')

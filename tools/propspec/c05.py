emit('C05', '''C05 — Handshake agrees and recovers under loss, duplication, reordering, dual open.
   Pinned statements only.
   Proved as one theorem (C05_lockstep_agreement): for ALL parameters (node ids, salts, key pairs,
   trusted lists, cipher lists, payloads, random values) the loss-free exchange ping - pong - peng
   between two mutually trusting, distinct nodes ends with both completed, each holding the payload
   the other offered, the same cipher, the same key under key id 0 and opposite nonce halves, the
   initiator in WAITING_TO_CLOSE and the responder in CLOSING.
   PARTIAL.  Also proved for every message sequence (any loss, duplication, reordering the network can
   produce is a sequence of deliveries to one handshake object): at most one completion per attempt,
   completion closes the attempt, the roles of the two completions (exactly the initiator's
   PeerCrypto starts without a proposal pending, the responder's sends the first rotation message),
   no unwrap panic on any sequence, and the three agreement ingredients: both ends derive the same
   ECDH secret, select the same cipher, take opposite nonce halves.  NOT proved as one theorem: that
   handle_init feeds exactly those ingredients from the ping/pong it received into the cores of both
   ends for every interleaving, and the liveness clause (mutually connected within the peer timeout
   plus retry horizon once delivery is reliable).  Both are decided on every run by the executed
   correspondence: all delivery schedules to depth 5/7 plus random ones, on the real code and the
   model, with the open-what-the-other-seals / roles / payload / at-most-once oracle and the reliable
   phase at the end (py/props/c05.py).''',
 ['Base','Nonce','Replay','Core','CoreProofs','Conn','PeerCrypto','InitProofs','NegotiateProofs','Rotation2Proofs','LockstepProofs','GiveUpProofs'],
 [('at_most_once','InitProofs.v','at_most_once','whatever sequence of verified messages an attempt is fed, it completes at most once'),
  ('closed_inert','InitProofs.v','closed_no_success','a completed attempt ignores everything (no second success, state unchanged)'),
  ('success_closes','InitProofs.v','success_closes','completion closes the attempt'),
  ('roles','InitProofs.v','roles','roles: the initiator side starts with no rotation proposal pending, the responder side with one (it sends the first rotation message); without a cipher both are plain'),
  ('no_unwrap_panic','InitProofs.v','no_panic11','no sequence reaches the ECDH-key unwrap with the key already taken'),
  ('no_unwrap_panic_new','InitProofs.v','ecdh_inv_new','the premise holds for new objects'),
  ('no_unwrap_panic_ping','InitProofs.v','ecdh_inv_ping','and after sending a ping'),
  ('same_secret','Rotation2Proofs.v','ecdh_sym','agreement ingredient 1: both ends derive the same ECDH secret from each other\'s public value'),
  ('same_cipher','NegotiateProofs.v','select_symmetric','agreement ingredient 2: both ends select the same cipher and speed'),
  ('opposite_halves','InitProofs.v','hash_gt_opposite','agreement ingredient 3: opposite nonce halves'),
  ('waiting_responder_gives_up','GiveUpProofs.v','waiting_responder_gives_up','recovery ingredient: a handshake object that answered a ping and waits for the peng gives up (fatal Initialization timeout, upon which the node drops the entry and can dial again) once its retries plus the elapsed seconds exceed MAX_FAILED_RETRIES - whatever messages of other stages arrive in between, in any number and order: they change neither the object nor its give-up counter.  Two responder states (both ends dialled, gave up, and got the other end\'s last ping late) therefore cannot keep each other alive'),
 ],
 tail='''
Example C05_ex_gives_up : i_stage ex_responder = STAGE_PENG /\\ i_retries ex_responder <= MAX_FAILED_RETRIES /\\
  snd (run_evs (fun _ => true) ex_responder (flat_map (fun _ => [Some ex_pong; Some ex_pong; None]) (seq 0 121))) = true.
Proof. exact ex_gives_up. Qed.

(* the loss-free exchange (run3 = send ping; responder handles it; initiator handles the pong;
   responder handles the peng), all parameters universally quantified *)
Theorem C05_lockstep_agreement :
  forall (ok : bytes -> bool) (nA sA kA fA nB sB kB fB : N) (pA pB rA rB : bytes) (tA tB : list N) (aA aB : algos),
  existsb (N.eqb kB) tA = true -> existsb (N.eqb kA) tB = true -> nA <> nB ->
  ok pA = true -> ok pB = true ->
  all_bytes rA /\\ length rA = 6%nat -> all_bytes rB /\\ length rB = 6%nat ->
  forall alg : option (N * N), select_algorithm aB aA = Ok alg -> select_algorithm aA aB = Ok alg ->
  exists A2 B2 : init_state,
    run3 ok (init_new nA sA pA kA tA aA fA rA) (init_new nB sB pB kB tB aB fB rB) =
      Some (A2, B2, Ok IContinue, Ok (ISuccess pB true), Ok (ISuccess pA false)) /\\
    i_selected A2 = option_map fst alg /\\ i_selected B2 = option_map fst alg /\\
    i_stage A2 = WAITING_TO_CLOSE /\\ i_stage B2 = CLOSING /\\
    match alg with
    | Some _ => exists ca cb : core, i_core A2 = Some ca /\\ i_core B2 = Some cb /\\ wf_core ca /\\ wf_core cb /\\
                  current ca = 0 /\\ current cb = 0 /\\ s_key (get_slot ca 0) = s_key (get_slot cb 0) /\\ half ca = negb (half cb)
    | None => i_core A2 = None /\\ i_core B2 = None
    end.
Proof. exact lockstep_agreement_sec. Qed.
Print Assumptions C05_lockstep_agreement.

Example C05_ex_once : forall ok s, snd (run_init ok s []) <= 1.
Proof. intros. apply at_most_once. Qed.
''')

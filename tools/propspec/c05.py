emit('C05', '''C05 — Handshake agrees and recovers under loss, duplication, reordering, dual open.
   Pinned statements only.
   PARTIAL.  Proved for every message sequence (any loss, duplication, reordering the network can
   produce is a sequence of deliveries to one handshake object): at most one completion per attempt,
   completion closes the attempt, the roles of the two completions (exactly the initiator's
   PeerCrypto starts without a proposal pending, the responder's sends the first rotation message),
   no unwrap panic on any sequence, and the three agreement ingredients: both ends derive the same
   ECDH secret, select the same cipher, take opposite nonce halves.  NOT proved as one theorem: that
   handle_init feeds exactly those ingredients from the ping/pong it received into the cores of both
   ends for every interleaving, and the liveness clause (mutually connected within the peer timeout
   plus retry horizon once delivery is reliable).  Both are decided on every run by the executed
   correspondence: all delivery schedules to depth 5/7 plus random ones, on the real code and the
   model, with the open-what-the-other-seals / roles / payload / at-most-once oracle and the reliable
   phase at the end (py/props/c05.py).''',
 ['Base','Nonce','Replay','Core','Conn','PeerCrypto','InitProofs','NegotiateProofs','Rotation2Proofs'],
 [('at_most_once','InitProofs.v','at_most_once','whatever sequence of verified messages an attempt is fed, it completes at most once'),
  ('closed_inert','InitProofs.v','closed_no_success','a completed attempt ignores everything (no second success, state unchanged)'),
  ('success_closes','InitProofs.v','success_closes','completion closes the attempt'),
  ('roles','InitProofs.v','roles','roles: the initiator side starts with no rotation proposal pending, the responder side with one (it sends the first rotation message); without a cipher both are plain'),
  ('no_unwrap_panic','InitProofs.v','no_panic11','no sequence reaches the ECDH-key unwrap with the key already taken'),
  ('no_unwrap_panic_new','InitProofs.v','ecdh_inv_new','the premise holds for new objects'),
  ('no_unwrap_panic_ping','InitProofs.v','ecdh_inv_ping','and after sending a ping'),
  ('same_secret','Rotation2Proofs.v','ecdh_sym','agreement ingredient 1: both ends derive the same ECDH secret from each other\'s public value'),
  ('same_cipher','NegotiateProofs.v','select_symmetric','agreement ingredient 2: both ends select the same cipher and speed'),
  ('opposite_halves','InitProofs.v','hash_gt_opposite','agreement ingredient 3: opposite nonce halves'),
 ],
 tail='''
Example C05_ex_once : forall ok s, snd (run_init ok s []) <= 1.
Proof. intros. apply at_most_once. Qed.
''')

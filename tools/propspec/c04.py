emit('C04', '''C04 — No (key, nonce) pair is ever used twice.
   Pinned statements only.  Keys are names (N); "a rotated-in key is fresh" is the premise
   fresh_rotations (it comes out of a new ECDH exchange: C07 shows both ends derive it, the
   cryptographic unpredictability of X25519 output is assumed, not proved).  "Starts at an
   unpredictable value" is likewise an assumption on the random source (48 random bits); the
   theorems hold for every start value.''',
 ['Base','Nonce','NonceProofs','Replay','Core','CoreProofs','NoReuseProofs','Conn','InitProofs'],
 [('increment','NonceProofs.v','increment_spec','increment_nonce is +1 on the big-endian value, modulo 2^(8*len)'),
  ('strict_own_half','NonceProofs.v','strict_and_own_half','the first k seals of a slot: strictly increasing, all in the slot\'s half, for every start and every k < 2^95 - 2^48'),
  ('no_reuse','NoReuseProofs.v','no_nonce_reuse','HEADLINE: over every history of seals, opens, ticks and rotations to fresh keys no (key, nonce) pair repeats and every nonce is in the sender\'s half'),
  ('invariant','NoReuseProofs.v','crun_inv','the invariant behind it, from any state satisfying it'),
  ('halves_disjoint','NoReuseProofs.v','ends_disjoint','the halves are disjoint, so the two ends never collide even under the shared handshake key'),
  ('ends_opposite','InitProofs.v','hash_gt_opposite','and the two ends of a handshake take opposite halves (they compare the same two salted hashes)'),
  ('rotated_fresh','CoreProofs.v','rotate_fresh_window','a rotated-in key starts a fresh sequence (new random start in the own half, fresh window)'),
  ('overflow','NonceProofs.v','overflow_undecryptable','a counter beyond the 56 transmitted bits is not what the receiver reconstructs: the seal does not open'),
  ('rebuild','NonceProofs.v','rebuild_exact','conversely the reconstruction is exact when bytes 1..4 are zero and the half byte is the opposite one'),
 ],
 tail='''
Example C04_ex_history :
  let c0 := core_new 7 99 true [1;2;3;4;5;6] [0;0;0;0;0;1] [0;0;0;0;0;2] [0;0;0;0;0;3] in
  let h := [CSeal [1]; CSeal [2]; CRot 8 1 false [9;9;9;9;9;9]; CSeal [3]; CRot 9 2 true [1;2;3;4;5;6]; CSeal [4]; CTick; CSeal [5]] in
  fresh_rotations (c0, []) h /\\ length (snd (crun (c0, []) h)) = 5%nat /\\
  map fst (snd (crun (c0, []) h)) = [9; 9; 7; 7; 7].
Proof. vm_compute. repeat split; try (intros [H|H]; try discriminate; try contradiction); repeat constructor; try lia. Qed.
''')

emit('C16', '''C16 — Wire codecs round-trip, skip unknown parts, and are total.
   Pinned statements only.  Totality: every decoder of the model is a Gallina function (structural
   recursion or explicit fuel bounded by the input length), so it ends with a value or an error on
   every byte string by construction; that the model decoders ARE the real ones is the executed
   correspondence on arbitrary bytes (py/props/c16.py: round-trips, mutated encodings, random bytes,
   TLV lengths up to 0xffff).
   PARTIAL: that the REAL decoders never panic, hang or allocate beyond the datagram is decided by the
   correspondence run only (the model decoders are total by construction).''',
 ['Base','RangeMatch','Conn','NodeInfo','NodeInfoProofs','InitMsg','CodecProofs','DissectProofs'],
 [('nodeinfo_roundtrip','NodeInfoProofs.v','nodeinfo_roundtrip','node information decodes to exactly what was encoded up to the normalisation (at most seven addresses per family and entry, IPv6 before IPv4), whatever follows the end marker; ni_wf = what an honest encoder is given (16-byte ids, 6/18-byte addresses, claims of at most 16 address bytes, parts below 64 KiB)'),
  ('nodeinfo_unknown_skipped','NodeInfoProofs.v','nodeinfo_unknown_skipped','a node-information part with an unknown tag is skipped'),
  ('nodeinfo_total','NodeInfoProofs.v','nodeinfo_decode_total','the node-information decoder has no panic result for any byte string'),
  ('rotation_roundtrip','CodecProofs.v','rot_roundtrip','rotation messages decode to what was encoded, whatever follows'),
  ('init_roundtrip','CodecProofs.v','initmsg_roundtrip','handshake messages (every stage, optional parts) decode to what was encoded'),
  ('init_unknown_skipped','CodecProofs.v','pp_unknown','a handshake part with an unknown tag is skipped'),
 ],
 tail='''
Example C16_ex_wf : exists x, ni_wf x /\\ ni_peers x <> [] /\\ ni_claims x <> [].
Proof. eexists. split; [exact ni_wf_example|]. split; discriminate. Qed.
''')

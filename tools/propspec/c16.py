emit('C16', '''C16 — Wire codecs round-trip, skip unknown parts, and are total.
   Pinned statements only.  Totality: every decoder of the model is a Gallina function (structural
   recursion or explicit fuel bounded by the input length), so it ends with a value or an error on
   every byte string by construction; that the model decoders ARE the real ones is the executed
   correspondence on arbitrary bytes (py/props/c16.py: round-trips, mutated encodings, random bytes,
   TLV lengths up to 0xffff).
   PARTIAL: the NodeInfo round-trip (with the seven-addresses normalisation) is not yet proved as a
   theorem; it is decided by the correspondence (ni_rt cases) and the python reference.''',
 ['Base','RangeMatch','Conn','NodeInfo','InitMsg','CodecProofs','DissectProofs'],
 [('rotation_roundtrip','CodecProofs.v','rot_roundtrip','rotation messages decode to what was encoded, whatever follows'),
  ('init_roundtrip','CodecProofs.v','initmsg_roundtrip','handshake messages (every stage, optional parts) decode to what was encoded'),
  ('init_unknown_skipped','CodecProofs.v','pp_unknown','a handshake part with an unknown tag is skipped'),
 ])

emit('C09', '''C09 — Established connections survive forged and replayed traffic.
   Pinned statements only.  What a party without a trusted key can fabricate is (a) unverifiable
   datagrams (C08) and (b) verbatim replays of genuine datagrams.  (a) leaves no trace; a replayed
   handshake message to an established peer whose own handshake object is gone is answered by a new
   pending object that never touches the established entry (after the fix of F8) and is reaped; a
   replayed data or rotation datagram is subject to the replay window (C03) and the duplicate
   rotation rule (C07).
   PARTIAL: the end-to-end statement "payload keeps flowing both ways during and after the attack"
   is decided by the executed correspondence (py/props/c09.py re-injects every captured datagram
   at several offsets from three source choices and then runs a 400 s probe phase).''',
 ['Base','Nonce','Replay','ReplayProofs','Core','CoreProofs','Conn','PeerCrypto','Node','NodeProofs','Rotation2','Rotation2Proofs','NodeInfo','Table','SurviveProofs'],
 [('established_peer_survives','SurviveProofs.v','established_peer_survives','HEADLINE: whatever datagram arrives from whatever claimed source, every established peer stays a peer, unless the datagram OPENED (genuine seal under the connection key and admitted by the replay window: C02/C03) as a CLOSE message of that very peer'),
  ('close_only','SurviveProofs.v','handle_result_keeps','after the crypto layer a peer entry is removed only by a CLOSE message, and only the sender\'s'),
  ('forged_no_trace','NodeProofs.v','unverifiable_sequence','forged datagrams: no trace, from any claimed source'),
  ('replayed_init_keeps_peer','NodeProofs.v','replayed_init_keeps_peer','a replayed (genuine, verifying) handshake message from the address of an established peer: peer entry, routes and own addresses unchanged, only replies are emitted'),
  ('pending_reap_keeps_peer','NodeProofs.v','fold_adel_pending_peers','reaping the pending handshakes such replays create never touches peers or routes'),
  ('replayed_data_dies','ReplayProofs.v','dies_in_two_ticks','a replayed data datagram is dropped once two housekeeping ticks passed (C03)'),
  ('replayed_data_no_state','CoreProofs.v','decrypt_fail_unchanged','and a dropped datagram leaves the core as it was'),
  ('replayed_rotation','Rotation2Proofs.v','duplicate_harmless_S','a re-delivered rotation message changes nothing (C07)'),
 ])

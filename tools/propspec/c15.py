emit('C15', '''C15 — Silent peers time out; healthy peers never do, for every timeout setting.
   Pinned statements only.  All configurable values are u16 seconds (N here, the u16 arithmetic of
   the code after the fix of F7 is saturating subtraction: Interval.sat_sub).
   PARTIAL: "in a mesh with stable membership on a delivering network no healthy peer is ever timed
   out" combines interval_safe with message delivery; it is decided by the executed correspondence
   on heterogeneous meshes for the grid of timeout/keepalive values (py/props/c15.py).''',
 ['Base','Interval','IntervalProofs','NodeInfo','Table','TableProofs','Nonce','Replay','Core','Conn','PeerCrypto','Node','NodeProofs','ScheduleProofs','NextHopProofs','TickPeersProofs','FloodProofs','AnnounceProofs','RedialProofs'],
 [('interval_safe','IntervalProofs.v','interval_safe','whenever a node schedules its next announcement the delay is at most one second or strictly shorter than every timeout its peers advertised'),
  ('node_schedule_safe','ScheduleProofs.v','announcement_schedule_safe','node level: the announcement step of housekeeping (C15_housekeep_expires_first shows where it sits) sets the next announcement to now + that interval, computed from the timeouts its current peers advertised'),
  ('reachable_announcement_reaches_every_peer','AnnounceProofs.v','reachable_announcement_reaches_every_peer','EVERY REACHABLE STATE ("healthy peers never time out" needs the announcements to go out): whenever an announcement is due, the housekeeping tick emits it to every node that is still a peer after the expiry and crypto phases of that very tick, once each - whether or not a later housekeeping step fails (c_hkfault): the announcement sits before the steps that can fail (hk3 = the node after expiry, table sweep and crypto housekeeping)'),
  ('interval_no_peers','IntervalProofs.v','interval_no_peers','with no peers the own update frequency, capped at 90 s'),
  ('keepalive_default','IntervalProofs.v','keepalive_default','the default keepalive is at least 1 and below the peer timeout'),
  ('expired_removed','NodeProofs.v','expired_peers_removed','a peer whose timeout passed is removed at the next housekeeping tick together with all its claims and learned entries'),
  ('housekeep_expires_first','NodeProofs.v','housekeep_starts_with_expire','housekeeping begins with that expiry phase (and re-dials the address)'),
  ('expired_redialled','RedialProofs.v','housekeep_redials_expired','... and RE-DIALLED: the same housekeeping tick sends a fresh stage-1 handshake message (no payload) to the address of every peer it removes, whatever that peer advertised and whatever else the node holds - unless the address is one of the node\'s own or a handshake with it is already pending (the two cases in which connect_sock does nothing)'),
  ('backoff_bounds','IntervalProofs.v','backoff_step_ok','reconnect back-off: the delay stays within 1..3600 s, tries within 0..10, the next attempt lies in the future and at most one hour ahead'),
  ('backoff_init','IntervalProofs.v','backoff0_ok','initially'),
  ('backoff_forever','IntervalProofs.v','backoff_run_ok','and after any number of failed attempts: configured peers are retried indefinitely'),
 ],
 tail='''
(* non-vacuity *)
Example C15_ex_redial_premises : exists pd, aget (n_peers ex_b) 1001 = Some pd /\\ (p_timeout pd < 1000)%Z /\\
  memN 1001 (n_own ex_b) = false /\\ ahas (n_pending ex_b) 1001 = false.
Proof. exact ex_redial. Qed.

Example C15_ex_announcement_due : (n_next_peers ex_b <= 5)%Z /\\
  map dst_of (snd (broadcast (hk3 salts 5 ex_b) MESSAGE_TYPE_NODE_INFO (ni_encode (create_node_info (hk3 salts 5 ex_b))))) = [Some 1001].
Proof. exact ex_announcement. Qed.
''')

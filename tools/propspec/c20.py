emit('C20', '''C20 — Configuration sources combine as documented.
   Pinned statements only.  Strings are tokens; the theorems start from the parsed ConfigFile / Args
   values (YAML and command-line parsing - serde_yaml, structopt - are exercised by the
   correspondence run, which renders every case as YAML text and an argument vector).
   pick a f d = command-line value if given, else file value, else default; picko likewise with
   "not set" as the default.''',
 ['Base','ConfigMerge','ConfigProofs','Netmask','NetmaskProofs'],
 [('precedence','ConfigProofs.v','precedence_scalars','every scalar setting: command line, else file, else the documented default (spec_scalars lists all 25, with the defaults)'),
  ('switches','ConfigProofs.v','precedence_switches','one-way switches: --fix-rp-filter/--daemon can only switch on, --no-auto-claim/--no-port-forwarding only off; otherwise file, else default'),
  ('lists_accumulate','ConfigProofs.v','lists_accumulate','peers, claims, advertised addresses, trusted keys: file entries then command-line entries; per-event hooks: command line wins per event, else file'),
  ('algorithms_replace','ConfigProofs.v','algorithms_replace','(the cipher list is replaced by a non-empty later source, not accumulated - stated as the code has it)'),
  ('hook_plain','ConfigProofs.v','args_hook_spec','the plain hook is the last plain --hook, else the previous value'),
  ('file_roundtrip','ConfigProofs.v','file_roundtrip_id','turning a configuration into file form and merging it into the defaults reproduces it (daemonize is command-line only; the hook map has unique keys)'),
  ('netmask','NetmaskProofs.v','mask_spec','every prefix length 0..32 gives the mask with that many leading one bits (after the fix of F12 for 0)'),
  ('netmask_result','NetmaskProofs.v','netmask_result','a successful parse means: prefix <= 32, that mask, address parsed'),
  ('netmask_default','NetmaskProofs.v','netmask_default_24','/24 when the prefix is omitted'),
  ('netmask_overlong','NetmaskProofs.v','netmask_overlong','an error above 32'),
  ('netmask_no_panic','NetmaskProofs.v','netmask_no_panic','never a panic'),
 ],
 tail='''
Example C20_ex_precedence :
  let f := {| cf_dev := None; cf_ip := Some 5; cf_advertise := None; cf_ifup := None; cf_ifdown := None; cf_crypto := default_crypto;
              cf_listen := Some 6; cf_peers := Some [1; 2]; cf_peer_timeout := None; cf_keepalive := None; cf_beacon_ := None;
              cf_mode := None; cf_switch_timeout := None; cf_claims := None; cf_auto_claim := None; cf_port_forwarding := Some false;
              cf_pid_file := None; cf_stats_file := None; cf_statsd_ := None; cf_user := None; cf_group := None; cf_hook := None;
              cf_hooks := [(1, 10)] |} in
  let a := {| a_type := None; a_device := None; a_device_path := None; a_fix_rp_filter := false; a_ip := Some 7; a_ifup := None;
              a_advertise := []; a_ifdown := None; a_listen := None; a_peers := [3]; a_peer_timeout := None; a_keepalive := None;
              a_beacon_store := None; a_beacon_load := None; a_beacon_interval := None; a_beacon_password := None; a_mode := None;
              a_switch_timeout := None; a_claims := []; a_no_auto_claim := false; a_no_port_forwarding := false; a_daemon := false;
              a_pid_file := None; a_stats_file := None; a_statsd_server := None; a_statsd_prefix := None; a_user := None; a_group := None;
              a_password := None; a_public_key := None; a_private_key := None; a_trusted := []; a_algos := [];
              a_hook := [HEvent 1 11; HPlain 12] |} in
  let c := effective f a in
  ip c = Some 7 /\\ listen c = 6 /\\ peers c = [1; 2; 3] /\\ peer_timeout c = 300 /\\ port_forwarding c = false /\\
  hook c = Some 12 /\\ hooks c = [(1, 11)] /\\ file_roundtrip c = c.
Proof. vm_compute. repeat split; reflexivity. Qed.
''')

emit('C14', '''C14 — Full mesh from any connected bootstrap; a node never peers with itself.
   Pinned statements only.
   PARTIAL: the closure theorem is about the abstract exchange step (a node learns the peers of its
   peers and dials them); that the real nodes perform that step within the announce interval,
   also behind address-filtering NATs, is decided by the executed correspondence over all connected
   bootstrap graphs of 2-4 nodes, sampled 5-node graphs and NAT scenarios (py/props/c14.py).''',
 ['Base','Conn','PeerCrypto','NodeInfo','Table','Node','NodeProofs','TrustProofs','NextHopProofs','PcInvariant','AdmissionProofs','SelfProofs','OwnAddrProofs'],
 [  ('own_message_rejected','NodeProofs.v','own_message_rejected','a handshake message carrying the node\'s own id is rejected at every stage, by whatever address it arrived (after the fix of F13): object unchanged, no reply'),
  ('never_peers_with_itself','SelfProofs.v','never_peers_with_itself','WHOLE RUNS: every peer of every reachable node state (any events, times, salts) was admitted by a handshake message carrying ANOTHER node\'s id - a node never peers with itself, through whatever address its own messages come back (every handshake object keeps the node number it was created with: invariant NI through PcInvariant.v; a handshake completes only on a message of another node: success_not_self)'),
  ('own_addresses_known','OwnAddrProofs.v','reachable_ow','WHOLE RUNS, the address side: in every reachable node state the own-address list contains every address the node was configured to advertise and its socket address (OW: the list only grows - addresses reported under the own id are adopted - or is reset to exactly the configured list)'),
  ('never_dials_own_address','OwnAddrProofs.v','never_dials_own_address','... so in every reachable state dialling one of the configured own addresses sends nothing and changes nothing'),
  ('own_addresses_adopted','NodeProofs.v','adopt_own_addresses','addresses listed under the node\'s own id are added to its own addresses, nothing is dialled, no peer or pending entry appears'),
 ],
 tail='''
(* non-vacuity *)
Example C14_ex_own : In 1002 (c_advertise (n_cfg ex_b) ++ [c_addr (n_cfg ex_b)]) /\\ memN 1002 (n_own ex_b) = true.
Proof. exact ex_own. Qed.

(* one peer-exchange round: whoever is connected to a neighbour of mine becomes my neighbour
   (NodeProofs.exchange).  Two nodes joined by a path of k+1 connections are directly connected after
   k rounds: a connected set of n nodes is fully meshed after at most n-2 rounds. *)
Theorem C14_closure : forall (V : Type) k (E : graph V) u w, path V E (S k) u w -> path V (rounds V k E) 1 u w.
Proof. exact exchange_closure. Qed.
Theorem C14_round_shortens : forall (V : Type) (E : graph V) k u w, path V E (S (S k)) u w -> path V (exchange V E) (S k) u w.
Proof. exact exchange_shortens. Qed.
Print Assumptions C14_closure.
Print Assumptions C14_round_shortens.
''')

#!/usr/bin/env python3
"""Applies every seeded change in /verif/seeded to /repo (working tree only), runs the checks named in its meta.json
(quick tier), reverts, and writes /verif/seeded/SUMMARY.md.  Never commits anything in /repo."""
import json, os, subprocess, sys, glob, re
os.chdir("/verif")
rows = []
only = sys.argv[1:]
assert subprocess.run("git -C /repo status --porcelain", shell=True, capture_output=True, text=True).stdout.strip() == "", "/repo not clean"
for d in sorted(glob.glob("seeded/*/meta.json")):
    m = json.load(open(d))
    sid = m["id"]
    if only and sid not in only:
        continue
    patch = os.path.join(os.path.dirname(d), "patch.diff")
    r = subprocess.run("git -C /repo apply %s" % os.path.abspath(patch), shell=True, capture_output=True, text=True)
    if r.returncode != 0:
        rows.append((sid, m, {"apply": "FAILED " + r.stderr.strip()[:80]}))
        continue
    res = {}
    try:
        for chk in m["detected_by"]:
            p = subprocess.run("./vp check %s --tier quick" % chk, shell=True, capture_output=True, text=True)
            v = [l for l in p.stdout.splitlines() if l.startswith("VIOLATION")]
            if v and all("no-failing-input-found" in l for l in v):
                res[chk] = "VIOLATION no-failing-input-found"
            elif v:
                res[chk] = "VIOLATION"
            else:
                res[chk] = "missed (exit %d)" % p.returncode
    finally:
        subprocess.run("git -C /repo checkout -- .", shell=True)
    rows.append((sid, m, res))
    print(sid, res, flush=True)
# results are cached per seed (the latest run of each counts), so that partial runs keep SUMMARY.md complete
import ast
CACHE = "seeded/results.json"
cache = json.load(open(CACHE)) if os.path.exists(CACHE) else {}
for sid, m, res in rows:
    cache[sid] = res
json.dump(cache, open(CACHE, "w"), indent=1, sort_keys=True)
rows = []
for d in sorted(glob.glob("seeded/*/meta.json")):
    m = json.load(open(d))
    rows.append((m["id"], m, cache.get(m["id"], {"(not run since import)": ""})))
if True:
    with open("seeded/SUMMARY.md", "w") as f:
        f.write("# Seeded breaking changes and the checks that catch them\n\n"
                "Produced by fresh sub-agents (property text + scratch worktree only), confirmed in the scratch worktree, then applied to\n"
                "/repo's working tree, checked (quick tier) and reverted by tools/seedcheck.py (latest result per change, cached in results.json).  `strengthened` = what was added after a first miss.\n\n"
                "| id | needs | result per check | strengthened after a first miss |\n|---|---|---|---|\n")
        for sid, m, res in rows:
            f.write("| %s | %s | %s | %s |\n" % (sid, m["needs"].replace("|", "/"), "; ".join("%s: %s" % kv for kv in res.items()),
                                             m.get("strengthened", "").replace("|", "/")))
        f.write("\nNot kept: the second C05 change of the first C05 agent (a guard in crypto_housekeep) no longer applies after the fix of F8, "
                "which rewrote that function; a further agent produced C05-m2 and C05-m3 instead.\n")

#!/usr/bin/env python3
"""Oracle sensitivity audit (a test of the checking machinery, not of vpncloud).

On an unchanged tree a property oracle that is never reached looks exactly like one that is satisfied.  This script
takes the real outputs of the quick-tier cases of each property, corrupts them in generic ways that a sound oracle for
such a scenario should object to, and reports, per scenario family (the oracle's own `tag`), which corruptions make the
oracle fire.  A family on which NO corruption fires is a candidate for dead oracle code and is listed at the end.

usage: tools/oracle_audit.py [Cxx ...]        (default: all twenty)"""
import os, random, re, sys, collections
sys.path.insert(0, os.path.join(os.path.dirname(os.path.dirname(os.path.abspath(__file__))), "py"))
import check, vpcore as vc

EM = re.compile(r"^(zc~)?\d+:[IDZ]")


def map_tokens(out, f):
    return " ".join(f(t) for t in out.split())


def c_no_peers(out):
    return map_tokens(out, lambda t: re.sub(r"peers=\[[^\]]*\]", "peers=[]", t) if t.startswith("peers=") else t)


def c_no_peers_late(out):
    """peers vanish only in the second half of the run (oracles that first wait for a mesh to form)"""
    toks = out.split()
    half = len(toks) // 2
    return " ".join((re.sub(r"peers=\[[^\]]*\]", "peers=[]", t) if (i >= half and t.startswith("peers=")) else t) for i, t in enumerate(toks))


def c_no_routes(out):
    return map_tokens(out, lambda t: re.sub(r"claims=\[[^\]]*\];cache=\[[^\]]*\]", "claims=[];cache=[]", t) if t.startswith("peers=") else t)


def c_stale_routes(out):
    return map_tokens(out, lambda t: re.sub(r"cache=\[[^\]]*\]", "cache=[020000000063>9@99999]", t) if t.startswith("peers=") else t)


def c_no_emissions(out):
    def f(t):
        if EM.match(t):
            return "-"
        if re.match(r"^a\d+\[", t):
            return re.sub(r">[^|\]]*", ">-", t)
        return t
    return map_tokens(out, f)


def c_extra_emission(out):
    return map_tokens(out, lambda t: "9:D50" if t == "-" else t)


def c_no_writes(out):
    return map_tokens(out, lambda t: "w-" if re.match(r"^w[0-9a-f]", t) else t)


def c_extra_write(out):
    return map_tokens(out, lambda t: "w4500001400000000401100000a0000010a000002" if t == "w-" else t)


def c_err_to_fatal(out):
    return map_tokens(out, lambda t: "fatal" if t == "err" else t)


def c_flip_ok(out):
    def f(t):
        if t == "err":
            return "ok:00"
        if t.startswith("ok"):
            return "err"
        if t.startswith("Msg0:"):
            return "err"
        if t in ("0", "1"):
            return "1" if t == "0" else "0"
        return t
    return map_tokens(out, f)


def c_dup_seal(out):
    """a seal log in which the last (key, nonce) pair occurs twice"""
    def f(t):
        if t.startswith("z") and "/" in t:
            return t + "," + t[1:].split(",")[-1]
        return t
    return map_tokens(out, f)


def c_whole_err(out):
    return "err"


def c_panic(out):
    toks = out.split()
    if toks:
        toks[len(toks) // 2] = "panic"
    return " ".join(toks)


CORRUPTIONS = [("no-peers", c_no_peers), ("no-peers-late", c_no_peers_late), ("no-routes", c_no_routes), ("stale-route", c_stale_routes), ("no-emissions", c_no_emissions),
               ("extra-emission", c_extra_emission), ("no-writes", c_no_writes), ("extra-write", c_extra_write),
               ("err->fatal", c_err_to_fatal), ("dup-seal", c_dup_seal), ("flip-results", c_flip_ok), ("whole-err", c_whole_err), ("panic", c_panic)]


def audit(pid, per_family=25):
    prop = check.load(pid)
    rng = random.Random(int(pid[1:]))
    cases = prop.gen(rng, "quick")
    impl = vc.run_impl(cases)
    fam = collections.defaultdict(list)
    for c, i in zip(cases, impl):
        ci = prop.canon_impl(c, i)
        if prop.oracle(c, ci) is not None:
            continue                       # (known finding instances etc.)
        fam[prop.tag(c, ci)].append((c, ci))
    rows = []
    for tag, lst in sorted(fam.items()):
        sample = lst if len(lst) <= per_family else random.Random(1).sample(lst, per_family)
        fired = collections.Counter()
        changed = collections.Counter()
        for c, ci in sample:
            for name, f in CORRUPTIONS:
                try:
                    bad = f(ci)
                except Exception:
                    continue
                if bad == ci:
                    continue
                changed[name] += 1
                try:
                    if prop.oracle(c, bad) is not None:
                        fired[name] += 1
                except Exception:
                    fired[name] += 1        # an oracle that cannot even parse the corrupted output objects loudly: counts
        rows.append((tag, len(lst), len(sample), fired, changed))
    return rows


def main():
    pids = sys.argv[1:] or ["C%02d" % i for i in range(1, 21)]
    ok, _ = vc.build_rust()
    assert ok
    dead = []
    for pid in pids:
        rows = audit(pid)
        print("== %s" % pid)
        # group tags by their first two ':'-separated components to keep the table readable
        agg = collections.OrderedDict()
        for tag, n, ns, fired, changed in rows:
            key = ":".join(tag.split(":")[:2])
            a = agg.setdefault(key, [0, 0, collections.Counter(), collections.Counter()])
            a[0] += n; a[1] += ns; a[2].update(fired); a[3].update(changed)
        for key, (n, ns, fired, changed) in agg.items():
            desc = ", ".join("%s %d/%d" % (k, fired[k], changed[k]) for k, _ in CORRUPTIONS if changed[k])
            print("  %-34s cases=%-6d sampled=%-4d fired: %s" % (key[:34], n, ns, desc or "(no corruption applicable)"))
            if sum(fired.values()) == 0:
                dead.append((pid, key, n))
    print("\nfamilies on which no corruption made the oracle fire (inspect by hand):")
    for pid, key, n in dead:
        print("  %s %s (%d cases)" % (pid, key, n))
    if not dead:
        print("  none")


if __name__ == "__main__":
    main()

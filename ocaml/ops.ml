(* operations of the line protocol, evaluated on the extracted models *)
open Conv
module L = Stdlib.List
module S = Stdlib.String

let res_pair = function
  | Base.Ok (s, d) -> Printf.sprintf "ok %s %s" (hex s) (hex d)
  | Base.Err _ -> "err"
  | Base.Panic _ -> "panic"

let split c s = S.split_on_char c s
let be12 n = hex (Base.be_enc (nat_of_int 12) n)

(* ---- core scenarios --------------------------------------------------------------------- *)
let core_op tok =
  let p = Array.of_list (split '.' tok) in
  let x = p.(1) = "b" in
  match p.(0) with
  | "s" -> CoreSys.OSeal (x, unhex p.(2))
  | "d" -> CoreSys.ODeliver (x, nat_of_int (int_of_string p.(2)))
  | "f" -> CoreSys.OFlip (x, nat_of_int (int_of_string p.(2)), nat_of_int (int_of_string p.(3)), n_of_int (int_of_string p.(4)))
  | "t" -> CoreSys.OTrunc (x, nat_of_int (int_of_string p.(2)), nat_of_int (int_of_string p.(3)))
  | "r" -> CoreSys.ORaw (x, unhex p.(2))
  | "k" -> CoreSys.OTick x
  | "n" -> CoreSys.ORotate (x, n_of_int (int_of_string p.(2)), n_of_dec p.(3), p.(4) = "1", unhex p.(5))
  | "p" -> CoreSys.OState x
  | _ -> failwith "bad core op"

let core_out = function
  | CoreSys.CSealed (k, c7, len) -> Printf.sprintf "S%d:%s:%d" (int_of_n k) (hex c7) (int_of_nat len)
  | CoreSys.COk p -> "ok:" ^ hex p
  | CoreSys.CErr -> "err"
  | CoreSys.CPanic -> "panic"
  | CoreSys.CNone -> "-"
  | CoreSys.CState (cur, st) ->
    Printf.sprintf "st:%d:%s" (int_of_n cur)
      (S.concat "," (L.map (fun (((snd_, mn), nm), sn) -> Printf.sprintf "%s/%s/%s/%s" (hex snd_) (be12 mn) (be12 nm) (be12 sn)) st))

let core_scenario a =
  match a with
  | _alg :: key :: ra :: rb :: ops ->
    let k = n_of_int (int_of_string key) in
    let rl s = L.map unhex (split ',' s) in
    let st = CoreSys.cst_init k (n_of_int 100001) (n_of_int 100002) (rl ra) (rl rb) in
    let (_, outs) = CoreSys.crun st (L.map core_op ops) in
    S.concat " " (L.map core_out outs)
  | _ -> failwith "bad core line"

let run (op : string) (a : string list) : string option =
  let arg i = L.nth a i in
  match op with
  | "frame" -> Some (res_pair (Dissect.frame_parse (unhex (arg 0))))
  | "packet" -> Some (res_pair (Dissect.packet_parse (unhex (arg 0))))
  | "matches" -> Some (b2s (RangeMatch.range_matches (unhex (arg 0)) (n_of_int (int_of_string (arg 1))) (unhex (arg 2))))
  | "nonce_inc" -> Some (hex (Nonce.nonce_increment (unhex (arg 0))))
  | "core" -> Some (core_scenario a)
  | "b62enc" -> Some (match Base62.to_base62 (unhex (arg 0)) with Base.Ok s -> "ok " ^ hex s | Base.Err _ -> "err" | Base.Panic _ -> "panic")
  | "b62dec" -> Some (match Base62.from_base62 (unhex (arg 0)) with Base.Ok s -> "ok " ^ hex s | Base.Err _ -> "err" | Base.Panic _ -> "panic")
  | "range_read" -> Some (match RangeMatch.range_read (unhex (arg 0)) with
      | Base.Ok ((b, p), _) -> Printf.sprintf "ok %s %d" (hex b) (int_of_n p) | Base.Err _ -> "err" | Base.Panic _ -> "panic")
  | _ -> None

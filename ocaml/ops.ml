(* operations of the line protocol, evaluated on the extracted models *)
open Conv
module L = Stdlib.List

let res_pair = function
  | Base.Ok (s, d) -> Printf.sprintf "ok %s %s" (hex s) (hex d)
  | Base.Err _ -> "err"
  | Base.Panic _ -> "panic"

let run (op : string) (a : string list) : string option =
  let arg i = L.nth a i in
  match op with
  | "frame" -> Some (res_pair (Dissect.frame_parse (unhex (arg 0))))
  | "packet" -> Some (res_pair (Dissect.packet_parse (unhex (arg 0))))
  | _ -> None

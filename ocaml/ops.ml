(* operations of the line protocol, evaluated on the extracted models *)
open Conv
module L = Stdlib.List
module S = Stdlib.String

let res_pair = function
  | Base.Ok (s, d) -> Printf.sprintf "ok %s %s" (hex s) (hex d)
  | Base.Err _ -> "err"
  | Base.Panic _ -> "panic"

let split c s = S.split_on_char c s
let be12 n = hex (Base.be_enc (nat_of_int 12) n)

(* ---- core scenarios --------------------------------------------------------------------- *)
let core_op tok =
  let p = Array.of_list (split '.' tok) in
  let x = p.(1) = "b" in
  match p.(0) with
  | "s" -> CoreSys.OSeal (x, unhex p.(2))
  | "d" -> CoreSys.ODeliver (x, nat_of_int (int_of_string p.(2)))
  | "f" -> CoreSys.OFlip (x, nat_of_int (int_of_string p.(2)), nat_of_int (int_of_string p.(3)), n_of_int (int_of_string p.(4)))
  | "t" -> CoreSys.OTrunc (x, nat_of_int (int_of_string p.(2)), nat_of_int (int_of_string p.(3)))
  | "r" -> CoreSys.ORaw (x, unhex p.(2))
  | "k" -> CoreSys.OTick x
  | "n" -> CoreSys.ORotate (x, n_of_int (int_of_string p.(2)), n_of_dec p.(3), p.(4) = "1", unhex p.(5))
  | "p" -> CoreSys.OState x
  | "q" -> CoreSys.OSetNonce (x, n_of_int (int_of_string p.(2)), unhex p.(3))
  | "z" -> CoreSys.OLog
  | _ -> failwith "bad core op"

let core_out = function
  | CoreSys.CSealed (k, c7, len) -> Printf.sprintf "S%d:%s:%d" (int_of_n k) (hex c7) (int_of_nat len)
  | CoreSys.COk p -> "ok:" ^ hex p
  | CoreSys.CErr -> "err"
  | CoreSys.CPanic -> "panic"
  | CoreSys.CNone -> "-"
  | CoreSys.CLog l -> "z" ^ S.concat "," (L.map (fun (k, nn) -> Printf.sprintf "k%d/%s" (int_of_n k) (hex nn)) l)
  | CoreSys.CState (cur, st) ->
    Printf.sprintf "st:%d:%s" (int_of_n cur)
      (S.concat "," (L.map (fun (((snd_, mn), nm), sn) -> Printf.sprintf "%s/%s/%s/%s" (hex snd_) (be12 mn) (be12 nm) (be12 sn)) st))

let core_scenario a =
  match a with
  | _alg :: key :: ra :: rb :: ops ->
    let k = n_of_int (int_of_string key) in
    let rl s = L.map unhex (split ',' s) in
    let st = CoreSys.cst_init k (n_of_int 100001) (n_of_int 100002) (rl ra) (rl rb) in
    let (_, outs) = CoreSys.crun st (L.map core_op ops) in
    S.concat " " (L.map core_out outs)
  | _ -> failwith "bad core line"

(* ---- table scenarios -------------------------------------------------------------------- *)
let parse_ranges s =
  if s = "-" || s = "" then []
  else L.map (fun r -> match split '/' r with
      | [b; p] -> (unhex b, n_of_int (int_of_string p))
      | _ -> failwith "bad range") (split ';' s)

let table_op tok =
  let p = Array.of_list (split '.' tok) in
  match p.(0) with
  | "T" -> TableSys.TTime (z_of_int (int_of_string p.(1)))
  | "S" -> TableSys.TSet (n_of_int (int_of_string p.(1)), parse_ranges p.(2))
  | "R" -> TableSys.TRemove (n_of_int (int_of_string p.(1)))
  | "L" -> TableSys.TLookup (unhex p.(1))
  | "C" -> TableSys.TCache (unhex p.(1), n_of_int (int_of_string p.(2)))
  | "H" -> TableSys.THousekeep
  | "D" -> TableSys.TDump
  | _ -> failwith "bad table op"

let table_dump claims cache =
  let c = L.map (fun (e : Table.claim) -> Printf.sprintf "%d:%s/%d@%d" (int_of_n e.c_peer) (hex e.c_base) (int_of_n e.c_prefix) (int_of_z e.c_timeout)) claims in
  let k = L.map (fun (e : Table.centry) -> (L.map int_of_n e.e_addr, Printf.sprintf "%s>%d@%d" (hex e.e_addr) (int_of_n e.e_peer) (int_of_z e.e_timeout))) cache in
  let k = L.map snd (L.sort compare k) in
  Printf.sprintf "claims=[%s];cache=[%s]" (S.concat "," c) (S.concat "," k)

let table_out = function
  | TableSys.TNone -> "-"
  | TableSys.TPeer None -> "none"
  | TableSys.TPeer (Some p) -> Printf.sprintf "p%d" (int_of_n p)
  | TableSys.TState (cl, ca) -> table_dump cl ca

let table_scenario a =
  match a with
  | cto :: clto :: ops ->
    let t = Table.table_new (z_of_int (int_of_string cto)) (z_of_int (int_of_string clto)) in
    let (_, outs) = TableSys.trun (t, z_of_int 0) (L.map table_op ops) in
    S.concat " " (L.map table_out outs)
  | _ -> failwith "bad table line"

(* ---- beacons ----------------------------------------------------------------------------- *)
let peers_of s = if s = "-" then [] else L.map unhex (split ';' s)
let peers_str p = if p = [] then "-" else S.concat ";" (L.map hex p)
let ttl_of s = if s = "none" then None else Some (n_of_int (int_of_string s))

let beacon_op op a =
  let arg i = L.nth a i in
  let key = unhex (arg 0) in
  let hour = n_of_int ((int_of_string (arg 1)) land 0xffff) in
  match op with
  | "beacon_enc" -> "ok " ^ hex (Beacon.encode key hour (peers_of (arg 2)))
  | "beacon_dec" -> "ok " ^ peers_str (Beacon.decode key hour (ttl_of (arg 2)) (unhex (arg 3)))
  | _ ->
    let b = Beacon.encode key hour (peers_of (arg 6)) in
    let text = unhex (arg 4) @ b @ unhex (arg 5) in
    let now = n_of_int ((int_of_string (arg 3)) land 0xffff) in
    Printf.sprintf "ok %s %s" (hex b) (peers_str (Beacon.decode key now (ttl_of (arg 2)) text))

(* ---- PeerCrypto scenarios ---------------------------------------------------------------- *)
let parse_algos spec : Conn.algos =
  match split '|' spec with
  | [pl; lst] ->
    let l = if lst = "" || lst = "-" then [] else
        L.map (fun e -> match split ':' e with
            | [id; sp] -> (n_of_int (int_of_string id), n_of_int (int_of_string ("0x" ^ sp)))
            | _ -> failwith "algo") (split ',' lst) in
    { Conn.a_list = l; a_plain = (pl = "p") }
  | _ -> failwith "algos"

let ni s = nat_of_int (int_of_string s)
let pc_op tok =
  let p = Array.of_list (split '.' tok) in
  match p.(0) with
  | "O" ->
    let trusted = if p.(5) = "-" then [] else L.map (fun k -> n_of_int (int_of_string k)) (split '+' p.(5)) in
    PcSys.PNew (ni p.(1), n_of_int (int_of_string p.(2)), n_of_int (int_of_string ("0x" ^ p.(3))), unhex p.(7),
                n_of_int (int_of_string p.(4)), trusted, parse_algos p.(6))
  | "I" -> PcSys.PInitialize (ni p.(1))
  | "D" -> PcSys.PDeliver (ni p.(1), ni p.(2))
  | "F" -> PcSys.PFlip (ni p.(1), ni p.(2), ni p.(3), n_of_int (int_of_string p.(4)))
  | "T" -> PcSys.PTrunc (ni p.(1), ni p.(2), ni p.(3))
  | "R" -> PcSys.PRaw (ni p.(1), unhex p.(2))
  | "E" -> PcSys.PTick (ni p.(1))
  | "S" -> PcSys.PSend (ni p.(1), n_of_int (int_of_string p.(2)), unhex p.(3))
  | "C" -> PcSys.PSetCounter (ni p.(1), n_of_int (int_of_string p.(2)))
  | "X" -> PcSys.PDrop (ni p.(1))
  | "Z" -> PcSys.PSealLog
  | "V" -> PcSys.PStale (ni p.(1), ni p.(2), ni p.(3))
  | "B" -> PcSys.PSealLog      (* harness-only read of real datagram bytes: no model counterpart (canonicalised away) *)
  | "Q" -> PcSys.PQuery (ni p.(1))
  | "L" -> PcSys.PLast (ni p.(1), ni p.(2), n_of_int (match p.(3) with "i" -> 0 | "r" -> 1 | "d" -> 2 | _ -> 3), ni p.(4))
  | _ -> failwith "bad pc op"

let describe (w : PeerCrypto.wire) =
  match w with
  | PeerCrypto.WInit m -> Printf.sprintf ">I%d" (int_of_n m.Conn.im_stage)
  | PeerCrypto.WBadInit -> ">I?"
  | PeerCrypto.WEmpty -> ">Z"
  | w -> Printf.sprintf ">D%d" (int_of_nat (PcSys.wire_len w))

let alg_name = function
  | None -> "PLAIN" | Some a -> (match int_of_n a with 1 -> "AES128" | 2 -> "AES256" | 3 -> "CHACHA20" | _ -> "?")

let pc_result (r : PeerCrypto.msg_result Base.res) =
  match r with
  | Base.Ok (PeerCrypto.MMessage (ty, body)) -> Printf.sprintf "Msg%d:%s" (int_of_n ty) (hex body)
  | Base.Ok (PeerCrypto.MInitialized p) -> "Init:" ^ hex p
  | Base.Ok (PeerCrypto.MInitializedWithReply p) -> "InitR:" ^ hex p
  | Base.Ok PeerCrypto.MReply -> "Reply"
  | Base.Ok PeerCrypto.MNone -> "None"
  | Base.Err c -> if int_of_n c = 2 then "fatal" else "err"
  | Base.Panic _ -> "panic"

let pc_query (p : PeerCrypto.peer_crypto) =
  let b x = if x then 1 else 0 in
  let init = match p.PeerCrypto.pc_init with
    | None -> "-/0/0/0/0"
    | Some i -> Printf.sprintf "%d/%d/%d/%d/%d" (int_of_n i.Conn.i_stage) (int_of_n i.Conn.i_retries) (int_of_n i.Conn.i_close_time)
                  (b (i.Conn.i_core <> None)) (b (i.Conn.i_ecdh <> None)) in
  let rot = match p.PeerCrypto.pc_rot with
    | None -> "-"
    | Some r -> Printf.sprintf "%s/%d/%d/%s/%d" (dec_of_n r.Conn.r_mid) (b (r.Conn.r_proposed <> None)) (b (r.Conn.r_pending <> None))
                  (match r.Conn.r_confirmed with Some (_, m) -> dec_of_n m | None -> "0") (b r.Conn.r_timeout) in
  let core = match p.PeerCrypto.pc_core with
    | None -> "-"
    | Some c -> Printf.sprintf "%d/%d" (int_of_n c.Core.current) (b c.Core.half) in
  Printf.sprintf "q:init=%s;rot=%s;plain=%d;core=%s;cnt=%d;alg=%s" init rot (b p.PeerCrypto.pc_plain) core (int_of_n p.PeerCrypto.pc_counter)
    (if p.PeerCrypto.pc_core = None then "PLAIN" else alg_name p.PeerCrypto.pc_alg)

let pc_out = function
  | PcSys.ONone -> "-"
  | PcSys.OOk w -> "ok" ^ describe w
  | PcSys.ORes (r, w) -> pc_result r ^ (match w with Some x -> describe x | None -> "")
  | PcSys.OQuery p -> pc_query p
  | PcSys.OSealLog -> "z"

let pc_scenario a =
  let (_, outs) = PcSys.prun PcSys.always_ok PcSys.pst0 (L.map pc_op a) in
  (* B.<k>.<hex> is a harness-only op: the real bytes of datagram k of the implementation's run, handed to the model line
     as an oracle value (the symbolic model has no signature bytes).  The model does nothing with it; it is echoed so that
     the oracle sees the same token on both sides. *)
  S.concat " " (L.map2 (fun tok o ->
      match split '.' tok with
      | "B" :: _ :: hx :: _ -> "b" ^ hx
      | "B" :: _ -> "-"
      (* Z.<n>.<log>: the seal log of the real run (key fingerprint / nonce pairs; the model has random-free symbolic keys and no
         counterpart), handed over by the model line for the no-reuse oracle; echoed *)
      | "Z" :: _ :: lg :: _ -> "z" ^ lg
      | _ -> pc_out o) a outs)

(* ---- NodeInfo codec ---------------------------------------------------------------------- *)
let addrs_str l = if l = [] then "-" else S.concat "," (L.map hex l)
let parse_addrs s = if s = "-" || s = "" then [] else L.map unhex (split ',' s)

let ni_to_str (n : NodeInfo.node_info) =
  let peers = if n.ni_peers = [] then "-" else
      S.concat "/" (L.map (fun (p : NodeInfo.peer_info) ->
          (match p.pi_node with Some i -> hex i | None -> "-") ^ ":" ^ addrs_str p.pi_addrs) n.ni_peers) in
  let claims = if n.ni_claims = [] then "-" else
      S.concat "," (L.map (fun (b, p) -> Printf.sprintf "%s/%d" (hex b) (int_of_n p)) n.ni_claims) in
  Printf.sprintf "node=%s;peers=%s;claims=%s;to=%s;addrs=%s" (hex n.ni_node) peers claims
    (match n.ni_timeout with Some t -> string_of_int (int_of_n t) | None -> "-") (addrs_str n.ni_addrs)

let split_once c s = match S.index_opt s c with
  | Some i -> (S.sub s 0 i, S.sub s (i + 1) (S.length s - i - 1))
  | None -> (s, "")

let ni_from_str s : NodeInfo.node_info =
  let node = ref [] and peers = ref [] and claims = ref [] and tmo = ref None and addrs = ref [] in
  L.iter (fun part ->
      let (k, v) = split_once '=' part in
      match k with
      | "node" -> node := unhex v
      | "peers" -> if v <> "-" then peers := L.map (fun p ->
          let (id, a) = split_once ':' p in
          { NodeInfo.pi_node = (if id = "-" then None else Some (unhex id)); pi_addrs = parse_addrs a }) (split '/' v)
      | "claims" -> if v <> "-" then claims := L.map (fun c -> let (b, p) = split_once '/' c in (unhex b, n_of_int (int_of_string p))) (split ',' v)
      | "to" -> if v <> "-" then tmo := Some (n_of_int (int_of_string v))
      | "addrs" -> addrs := parse_addrs v
      | _ -> failwith "ni field") (split ';' s);
  { NodeInfo.ni_node = !node; ni_peers = !peers; ni_claims = !claims; ni_timeout = !tmo; ni_addrs = !addrs }

let ni_op op a =
  let arg i = L.nth a i in
  match op with
  | "ni_enc" -> "ok " ^ hex (NodeInfo.ni_encode (ni_from_str (arg 0)))
  | "ni_dec" -> (match NodeInfo.ni_decode (unhex (arg 0)) with Base.Ok n -> "ok " ^ ni_to_str n | _ -> "err")
  | _ ->
    let e = NodeInfo.ni_encode (ni_from_str (arg 0)) in
    (match NodeInfo.ni_decode (e @ unhex (arg 1)) with
     | Base.Ok n -> Printf.sprintf "ok %s %s" (hex e) (ni_to_str n)
     | _ -> "err " ^ hex e)

(* ---- handshake / rotation codecs --------------------------------------------------------- *)
let algos_str (l, pl) =
  (if pl then "p" else "-") ^ "|" ^
  (if l = [] then "-" else S.concat "," (L.map (fun (a, sp) -> Printf.sprintf "%d:%08x" (int_of_n a) (int_of_n sp)) l))

let im_parse_m a =
  let arg i = L.nth a i in
  let msg = unhex (arg 0) in
  let signed_len = int_of_string (arg 1) in
  let sigb = unhex (arg 2) in
  let lookup_ok = arg 3 = "1" in
  let lookup _ _ = if lookup_ok then Some (n_of_int 1) else None in
  let verify _ prefix sg = (L.length prefix = signed_len) && sg = sigb in
  match InitMsg.read_from lookup verify msg with
  | Base.Ok (InitMsg.PPing (h, e, al), _) -> Printf.sprintf "ok ping %s %s %s" (hex h) (hex e) (algos_str al)
  | Base.Ok (InitMsg.PPong (h, e, al, p), _) -> Printf.sprintf "ok pong %s %s %s %s" (hex h) (hex e) (algos_str al) (hex p)
  | Base.Ok (InitMsg.PPeng (h, p), _) -> Printf.sprintf "ok peng %s %s" (hex h) (hex p)
  | Base.Err c -> (match int_of_n c with 1 -> "err parse" | 2 -> "err crypto" | _ -> "err init")
  | Base.Panic _ -> "panic"

(* ---- node scenarios --------------------------------------------------------------------- *)
let nz s = n_of_int (int_of_string s)
let node_cfg (p : string array) : Node.ncfg =
  let i = nz p.(1) in
  let (learning, broadcast, tap) = match p.(2) with
    | "tap-switch" -> (true, true, true) | "tap-hub" -> (false, true, true) | "tap-normal" -> (true, true, true)
    | "tun-router" -> (false, false, false) | "tun-normal" -> (false, false, false) | "tun-switch" -> (true, true, false)
    | "tun-hub" -> (false, true, false) | "tap-router" -> (false, false, true) | _ -> failwith "mode" in
  { Node.c_num = i; c_addr = i; c_peer_timeout = nz p.(3);
    c_keepalive = (if p.(4) = "-" then None else Some (nz p.(4)));
    c_switch_timeout = nz p.(5); c_learning = learning; c_broadcast = broadcast; c_tap = tap;
    c_claims = parse_ranges (S.concat "/" (split '/' p.(6)));
    c_key = nz p.(7);
    c_trusted = (if p.(8) = "-" then [] else L.map nz (split '+' p.(8)));
    c_algos = parse_algos p.(9);
    c_advertise = (if Array.length p > 10 && String.length p.(10) > 3 && String.sub p.(10) 0 3 = "adv" then L.map nz (split '+' (String.sub p.(10) 3 (String.length p.(10) - 3))) else []);
    c_hkfault = (Array.length p > 10 && p.(10) = "hkf") }

let node_op tok : NodeSys.sop * (BinNums.coq_N * BinNums.coq_N) list =
  let (body, salts) = split_once '@' tok in
  let p = Array.of_list (split '.' body) in
  let salts = if salts = "" then [] else
      L.map (fun e -> match split '=' e with
          | [k; v] -> (match split '>' k with
              | [nd; dst] -> (Node.salt_key (nz nd) (nz dst), n_of_int (int_of_string ("0x" ^ v)))
              | _ -> failwith "salt key")
          | _ -> failwith "salt") (split ';' salts) in
  let ni s = nat_of_int (int_of_string s) in
  let o = match p.(0) with
    | "N" -> if Array.length p > 10 && p.(10) = "nat" then NodeSys.SNewNat (nz p.(1), node_cfg p) else NodeSys.SNew (nz p.(1), node_cfg p)
    | "G" -> NodeSys.SGet (ni p.(1))
    | "B" -> NodeSys.SLoop (nz p.(1), nz p.(2), nz p.(3))
    | "T" -> NodeSys.STime (z_of_int (int_of_string p.(1)))
    | "C" -> NodeSys.SConnect (nz p.(1), nz p.(2))
    | "V" -> NodeSys.SConnect (nz p.(1), nz p.(2))     (* dialled via a beacon entry (an IPv4 address: the model's addresses are the mapped form) *)
    | "R" -> NodeSys.SReconnect (nz p.(1), nz p.(2))
    | "H" -> NodeSys.SHousekeep (nz p.(1))
    | "D" -> NodeSys.SDeliver (ni p.(1))
    | "J" -> NodeSys.SInject (ni p.(1), nz p.(2), nz p.(3))
    | "F" -> NodeSys.SFlip (ni p.(1), nz p.(2), nz p.(3), ni p.(4), nz p.(5))
    | "U" -> NodeSys.STrunc (ni p.(1), nz p.(2), nz p.(3), ni p.(4))
    | "W" -> NodeSys.SRaw (nz p.(1), nz p.(2), unhex p.(3))
    | "L" -> NodeSys.SLast (nz p.(1), nz p.(2), p.(3) = "i", ni p.(4))
    | "X" -> NodeSys.SDrop (ni p.(1))
    | "Z" -> NodeSys.SDropFrom (nz p.(1))
    | "K" -> NodeSys.SAlias (nz p.(1), nz p.(2))
    | "M" -> NodeSys.SMute (nz p.(1), p.(2) = "1")
    | "Q" -> NodeSys.SSetClaims (nz p.(1), (if p.(2) = "-" then [] else parse_ranges (S.concat "/" (split '/' p.(2)))))
    | "E" -> NodeSys.SClose (nz p.(1))
    | "A" -> NodeSys.SAll
    | "P" -> NodeSys.SIface (nz p.(1), unhex p.(2))
    | "O" -> NodeSys.SPopWrites (nz p.(1))
    | "S" -> NodeSys.SDump (nz p.(1))
    | _ -> failwith "bad node op" in
  (o, salts)

let kind_of (w : PeerCrypto.wire) =
  match w with
  | PeerCrypto.WInit m -> Printf.sprintf "I%d.%08x" (int_of_n m.Conn.im_stage) (int_of_n m.Conn.im_salt)
  | PeerCrypto.WBadInit -> "I?"
  | PeerCrypto.WEmpty -> "Z"
  | w -> Printf.sprintf "D%d" (int_of_nat (PcSys.wire_len w))

open BinNums
let emit_str l = if l = [(N0, PeerCrypto.WBadInit)] then "nat" else if l = [] then "-" else S.concat "," (L.map (fun (d, w) -> Printf.sprintf "%d:%s" (int_of_n d) (kind_of w)) l)

let node_dump (n : Node.node) =
  let b x = if x then 1 else 0 in
  let peers = L.sort compare (L.map (fun ((a, d) : BinNums.coq_N * Node.peer_data) ->
      (int_of_n a,
       Printf.sprintf "%d:%d:%s:%d:%d:%d:%s" (int_of_n a) (int_of_n (Base.be_val d.p_node))
         (if d.p_crypto.PeerCrypto.pc_core = None then "PLAIN" else alg_name d.p_crypto.PeerCrypto.pc_alg)
         (int_of_z d.p_timeout) (int_of_n d.p_peer_timeout) (b (d.p_crypto.PeerCrypto.pc_init <> None))
         (S.concat "+" (L.map string_of_int (L.sort compare (L.map int_of_n d.p_addrs)))))) n.n_peers) in
  let pend = L.sort compare (L.map (fun ((a, c) : BinNums.coq_N * PeerCrypto.peer_crypto) ->
      (int_of_n a, Printf.sprintf "%d:%s" (int_of_n a)
         (match c.PeerCrypto.pc_init with Some i -> Printf.sprintf "%d:%d" (int_of_n i.Conn.i_stage) (int_of_n i.Conn.i_retries) | None -> "-:0"))) n.n_pending) in
  let own = L.sort compare (L.map int_of_n n.n_own) in
  let rc = L.map (fun (e : Node.reconnect) -> Printf.sprintf "%d:%d:%d" (int_of_n e.rc_tries) (int_of_n e.rc_timeout) (int_of_z e.rc_next)) n.n_reconnect in
  Printf.sprintf "peers=[%s];pend=[%s];own=[%s];%s;np=%d;no=%d;drop=%d;inv=%d;rc=[%s]"
    (S.concat "," (L.map snd peers)) (S.concat "," (L.map snd pend)) (S.concat "," (L.map string_of_int own))
    (table_dump n.n_table.Table.claims n.n_table.Table.cache) (int_of_z n.n_next_peers) (int_of_z n.n_next_own_reset)
    (int_of_n n.n_dropped) (int_of_n n.n_invalid) (S.concat "," rc)

let node_out (dsts : int list ref) = function
  | NodeSys.SONone -> "-"
  | NodeSys.SOEmit l -> emit_str l
  | NodeSys.SOAll l -> Printf.sprintf "a%d[%s]" (L.length l) (S.concat "|" (L.map emit_str l))
  | NodeSys.SOWrites l -> if l = [] then "w-" else "w" ^ S.concat "," (L.map hex l)
  | NodeSys.SODump n -> node_dump n
  | NodeSys.SOMissing -> "nodg"
  | NodeSys.SOGet -> "g"
  | NodeSys.SONat -> "nat"

let node_scenario a =
  let (_, outs) = NodeSys.srun NodeSys.sys0 (L.map node_op a) in
  let r = ref [] in
  (* J.<k>.<dst>.<src>.zc : the harness (which has the real bytes) found that a truncation removed only zero bytes of a genuine
     handshake datagram, i.e. the parser saw the complete message (finding F11); the model runs the verbatim injection and
     echoes the marker so that both sides print the same token *)
  S.concat " " (L.map2 (fun tok o ->
      let body = fst (split_once '@' tok) in
      let s = node_out r o in
      match L.rev (split '.' body) with
      | "zc" :: _ when String.length body > 0 && body.[0] = 'J' -> "zc~" ^ s
      (* G.<k>.<hex>: the real bytes of captured datagram k, handed over by the model line for oracles that scan the wire; echoed *)
      | hx :: _ :: "G" :: [] when s = "g" -> "g" ^ hx
      | _ -> s) a outs)


(* ---- C20: configuration merging ---- *)
let cfg_items spec =
  if spec = "-" then [] else
  L.filter_map (fun kv -> if kv = "" then None else
    let p = String.index kv '=' in Some (String.sub kv 0 p, String.sub kv (p + 1) (String.length kv - p - 1)))
    (String.split_on_char ';' spec)
let cfg_list v = if v = "" then [] else String.split_on_char ',' v
let cfg_n v = n_of_int (int_of_string v)
let cfg_get items k = L.assoc_opt k items
let cfg_opt items k = match cfg_get items k with Some v -> Some (cfg_n v) | None -> None
let cfg_optb items k = match cfg_get items k with Some v -> Some (v = "1") | None -> None
let cfg_nl v = L.map cfg_n (cfg_list v)
let cfg_kv x = let p = String.index x ':' in (cfg_n (String.sub x 0 p), cfg_n (String.sub x (p + 1) (String.length x - p - 1)))

let cfg_file spec : ConfigMerge.config_file =
  let it = cfg_items spec in
  let has ks = L.exists (fun k -> cfg_get it k <> None) ks in
  let o = cfg_opt it in
  { ConfigMerge.cf_dev =
      (if has ["device"; "dtype"; "dname"; "dpath"; "dfix"] then
         Some { ConfigMerge.cfd_type = o "dtype"; cfd_name = o "dname"; cfd_path = o "dpath"; cfd_fix = cfg_optb it "dfix" }
       else None);
    cf_ip = o "ip";
    cf_advertise = (match cfg_get it "adv" with Some v -> Some (cfg_nl v) | None -> None);
    cf_ifup = o "ifup"; cf_ifdown = o "ifdown";
    cf_crypto = { ConfigMerge.cc_password = o "pw"; cc_private = o "priv"; cc_public = o "pub";
                  cc_trusted = (match cfg_get it "trusted" with Some v -> cfg_nl v | None -> []);
                  cc_algos = (match cfg_get it "algos" with Some v -> cfg_nl v | None -> []) };
    cf_listen = o "listen";
    cf_peers = (match cfg_get it "peers" with Some v -> Some (cfg_nl v) | None -> None);
    cf_peer_timeout = o "pt"; cf_keepalive = o "ka";
    cf_beacon_ =
      (if has ["beacon"; "bstore"; "bload"; "bint"; "bpw"] then
         Some { ConfigMerge.cfb_store = o "bstore"; cfb_load = o "bload"; cfb_interval = o "bint"; cfb_password = o "bpw" }
       else None);
    cf_mode = o "mode"; cf_switch_timeout = o "st";
    cf_claims = (match cfg_get it "claims" with Some v -> Some (cfg_nl v) | None -> None);
    cf_auto_claim = cfg_optb it "ac"; cf_port_forwarding = cfg_optb it "pf";
    cf_pid_file = o "pid"; cf_stats_file = o "stats";
    cf_statsd_ =
      (if has ["statsd"; "sdserver"; "sdprefix"] then Some { ConfigMerge.cfs_server = o "sdserver"; cfs_prefix = o "sdprefix" } else None);
    cf_user = o "user"; cf_group = o "group"; cf_hook = o "hook";
    cf_hooks = (match cfg_get it "hooks" with Some v -> L.map cfg_kv (cfg_list v) | None -> []) }

let cfg_args spec : ConfigMerge.args =
  let it = cfg_items spec in
  let o = cfg_opt it in
  let fl k = cfg_get it k <> None in
  let ls k = match cfg_get it k with Some v -> cfg_nl v | None -> [] in
  { ConfigMerge.a_type = o "type"; a_device = o "device"; a_device_path = o "dpath"; a_fix_rp_filter = fl "fix";
    a_ip = o "ip"; a_ifup = o "ifup"; a_advertise = ls "adv"; a_ifdown = o "ifdown";
    a_listen = o "listen"; a_peers = ls "peers"; a_peer_timeout = o "pt"; a_keepalive = o "ka";
    a_beacon_store = o "bstore"; a_beacon_load = o "bload"; a_beacon_interval = o "bint"; a_beacon_password = o "bpw";
    a_mode = o "mode"; a_switch_timeout = o "st"; a_claims = ls "claims";
    a_no_auto_claim = fl "noac"; a_no_port_forwarding = fl "nopf"; a_daemon = fl "daemon";
    a_pid_file = o "pid"; a_stats_file = o "stats"; a_statsd_server = o "sdserver"; a_statsd_prefix = o "sdprefix";
    a_user = o "user"; a_group = o "group";
    a_password = o "pw"; a_public_key = o "pub"; a_private_key = o "priv";
    a_trusted = ls "trusted"; a_algos = ls "algos";
    a_hook = (match cfg_get it "hook" with
              | Some v -> L.map (fun x -> if String.contains x ':' then (let (e, s) = cfg_kv x in ConfigMerge.HEvent (e, s))
                                          else ConfigMerge.HPlain (cfg_n x)) (cfg_list v)
              | None -> []) }

let cfg_str n =
  let i = int_of_n n in
  if i = 1000001 then "vpncloud%d" else if i = 1000002 then "3210" else "s" ^ string_of_int i
(* hook scripts: every fifth id stands for a script text that itself contains colons *)
let cfg_hs n = let i = int_of_n n in if i mod 5 = 0 then Printf.sprintf "s%d:p:q" i else cfg_str n
let cfg_ho = function Some n -> cfg_hs n | None -> "-"
let cfg_o = function Some n -> cfg_str n | None -> "-"
let cfg_on = function Some n -> string_of_int (int_of_n n) | None -> "-"
let cfg_l f l = if l = [] then "-" else S.concat "," (L.map f l)
let cfg_algo n = [| "plain"; "aes128"; "aes256"; "chacha20" |].(int_of_n n)
let cfg_dump (c : ConfigMerge.config) =
  let open ConfigMerge in
  let hooks = L.sort compare (L.map (fun (k, v) -> Printf.sprintf "e%d:%s" (int_of_n k) (cfg_hs v)) c.hooks) in
  S.concat ";" [
    "dtype=" ^ string_of_int (int_of_n c.device_type); "dname=" ^ cfg_str c.device_name; "dpath=" ^ cfg_o c.device_path;
    "fix=" ^ b2s c.fix_rp_filter; "ip=" ^ cfg_o c.ip; "adv=" ^ cfg_l cfg_str c.advertise; "ifup=" ^ cfg_o c.ifup; "ifdown=" ^ cfg_o c.ifdown;
    "pw=" ^ cfg_o c.crypto.cc_password; "priv=" ^ cfg_o c.crypto.cc_private; "pub=" ^ cfg_o c.crypto.cc_public;
    "trusted=" ^ cfg_l cfg_str c.crypto.cc_trusted; "algos=" ^ cfg_l cfg_algo c.crypto.cc_algos;
    "listen=" ^ cfg_str c.listen; "peers=" ^ cfg_l cfg_str c.peers; "pt=" ^ string_of_int (int_of_n c.peer_timeout); "ka=" ^ cfg_on c.keepalive;
    "bstore=" ^ cfg_o c.beacon_store; "bload=" ^ cfg_o c.beacon_load; "bint=" ^ string_of_int (int_of_n c.beacon_interval); "bpw=" ^ cfg_o c.beacon_password;
    "mode=" ^ string_of_int (int_of_n c.mode); "st=" ^ string_of_int (int_of_n c.switch_timeout); "claims=" ^ cfg_l cfg_str c.claims;
    "ac=" ^ b2s c.auto_claim; "pf=" ^ b2s c.port_forwarding; "daemon=" ^ b2s c.daemonize;
    "pid=" ^ cfg_o c.pid_file; "stats=" ^ cfg_o c.stats_file; "sdserver=" ^ cfg_o c.statsd_server; "sdprefix=" ^ cfg_o c.statsd_prefix;
    "user=" ^ cfg_o c.user; "group=" ^ cfg_o c.group; "hook=" ^ cfg_o c.hook; "hooks=" ^ cfg_l (fun x -> x) hooks ]

let cfg_op a =
  let c = ConfigMerge.effective (cfg_file (L.nth a 0)) (cfg_args (L.nth a 1)) in
  Printf.sprintf "eff %s rt %s" (cfg_dump c) (cfg_dump (ConfigMerge.file_roundtrip c))

let netmask_op a =
  match Netmask.parse_ip_netmask (unhex (L.nth a 0)) (L.nth a 1 = "1") with
  | Base.Ok m -> Printf.sprintf "ok %08x" (int_of_n m)
  | Base.Err _ -> "err"
  | Base.Panic _ -> "panic"

let run (op : string) (a : string list) : string option =
  let arg i = L.nth a i in
  match op with
  | "cfg" -> Some (cfg_op a)
  | "netmask" -> Some (netmask_op a)
  | "frame" -> Some (res_pair (Dissect.frame_parse (unhex (arg 0))))
  | "packet" -> Some (res_pair (Dissect.packet_parse (unhex (arg 0))))
  | "matches" -> Some (b2s (RangeMatch.range_matches (unhex (arg 0)) (n_of_int (int_of_string (arg 1))) (unhex (arg 2))))
  | "nonce_inc" -> Some (hex (Nonce.nonce_increment (unhex (arg 0))))
  | "core" -> Some (core_scenario a)
  | "table" -> Some (table_scenario a)
  | "pc" -> Some (pc_scenario a)
  | "node" -> Some (node_scenario a)
  | "ival" ->
    let pt = nz (arg 0) in
    let ka = if arg 1 = "-" then None else Some (nz (arg 1)) in
    let adv = if arg 2 = "-" then [] else L.map nz (split ',' (arg 2)) in
    let iv = Interval.announce_interval (Interval.update_freq pt ka) adv in
    Some (Printf.sprintf "ok %d sent=%d" (int_of_n iv) (L.length adv))
  | "ni_enc" | "ni_dec" | "ni_rt" -> Some (ni_op op a)
  | "im_parse_m" -> Some (im_parse_m a)
  | "rot_dec" -> Some (match Conn.rot_decode (unhex (arg 0)) with
      | Some m -> Printf.sprintf "ok %s %s %s" (dec_of_n m.Conn.rm_id) (hex m.Conn.rm_propose) (match m.Conn.rm_confirm with Some c -> hex c | None -> "none")
      | None -> "err")
  | "rot_enc" -> Some ("ok " ^ hex (Conn.rot_encode { Conn.rm_id = n_of_dec (arg 0); rm_propose = unhex (arg 1);
                                                    rm_confirm = (if arg 2 = "none" then None else Some (unhex (arg 2))) }))
  | "beacon_enc" | "beacon_dec" | "beacon_rt" -> Some (beacon_op op a)
  | "keyrt" ->
    let key = unhex (arg 0) in
    Some (match Base62.to_base62 key with
        | Base.Ok text ->
          let ok = (match Keys.parse_key32 text with Base.Ok k -> k = key | _ -> false) in
          Printf.sprintf "ok %s pub=%s priv=%s pair=%s new=%s" (hex text) (b2s ok) (b2s ok) (b2s ok) (b2s ok)
        | _ -> "panic")
  | "genkey" -> Some "ok same=1 printed=1 accepted=1 frompriv=1 trust=1 mixed=1"
  | "sha512" -> Some (hex (Sha512.sha512 (unhex (arg 0))))
  | "b62enc" -> Some (match Base62.to_base62 (unhex (arg 0)) with Base.Ok s -> "ok " ^ hex s | Base.Err _ -> "err" | Base.Panic _ -> "panic")
  | "b62dec" -> Some (match Base62.from_base62 (unhex (arg 0)) with Base.Ok s -> "ok " ^ hex s | Base.Err _ -> "err" | Base.Panic _ -> "panic")
  | "range_read" -> Some (match RangeMatch.range_read (unhex (arg 0)) with
      | Base.Ok ((b, p), _) -> Printf.sprintf "ok %s %d" (hex b) (int_of_n p) | Base.Err _ -> "err" | Base.Panic _ -> "panic")
  | _ -> None

(* Line-oriented evaluator around the extracted Gallina models.  Same protocol as the Rust driver:
   one case per input line, one result line per case. *)
let run_line line =
  match String.split_on_char ' ' (String.trim line) |> Stdlib.List.filter (fun s -> s <> "") with
  | [] -> "empty"
  | op :: a -> (match Ops.run op a with Some r -> r | None -> "unknown-op " ^ op)

let () =
  try
    while true do
      let line = input_line stdin in
      let r = try run_line line with e -> "model-exception " ^ Printexc.to_string e in
      print_string r; print_char '\n'
    done
  with End_of_file -> ()

(* Extraction of the executable models to OCaml for the correspondence run.
   ExtrOcamlBasic only; N, Z, positive and nat stay the extracted inductive types. *)
Require Extraction.
Require Import ExtrOcamlBasic.
From VpnModel Require Import Base Dissect RangeMatch Nonce Replay Interval Netmask Base62 Table TableSys Core CoreSys Sha512 Beacon Keys Conn PeerCrypto PcSys NodeInfo InitMsg Node NodeSys ConfigMerge.
Extraction Language OCaml.
Separate Extraction
  Base.be_val Base.be_enc Base.list_eqb
  N.add N.mul N.sub N.div N.modulo N.eqb N.ltb N.leb N.of_nat N.to_nat N.land N.lor N.lxor N.shiftl N.shiftr
  Z.add Z.mul Z.sub Z.of_N Z.to_N Z.ltb Z.leb Z.eqb
  Dissect.frame_parse Dissect.packet_parse
  RangeMatch.range_matches RangeMatch.range_read RangeMatch.range_write
  Nonce.nonce_increment
  Replay.run Replay.ref_run Replay.win0 Replay.ghost0
  Interval.get_keepalive Interval.update_freq Interval.announce_interval Interval.backoff_step Interval.backoff0
  Netmask.parse_ip_netmask Netmask.ip_part
  Base62.to_base62 Base62.from_base62
  Table.table_new Table.table_cache Table.table_housekeep Table.table_set_claims Table.table_remove_claims Table.table_lookup
  TableSys.trun
  Beacon.encode Beacon.decode Sha512.sha512
  Keys.parse_key32
  NodeInfo.ni_encode NodeInfo.ni_decode
  NodeSys.srun NodeSys.sys0 Node.salt_key
  InitMsg.read_from InitMsg.write_body Conn.rot_encode Conn.rot_decode
  PcSys.prun PcSys.pst0 PcSys.always_ok Conn.select_algorithm
  CoreSys.crun CoreSys.cst_init
  ConfigMerge.effective ConfigMerge.file_roundtrip.

(* Extraction of the executable models to OCaml for the correspondence run.
   ExtrOcamlBasic only; N, Z, positive and nat stay the extracted inductive types. *)
Require Extraction.
Require Import ExtrOcamlBasic.
From VpnModel Require Import Base Dissect.
Extraction Language OCaml.
Separate Extraction
  Base.be_val Base.be_enc Base.list_eqb
  N.add N.mul N.sub N.div N.modulo N.eqb N.ltb N.leb N.of_nat N.to_nat N.land N.lor N.lxor N.shiftl N.shiftr
  Z.add Z.mul Z.sub Z.of_N Z.to_N Z.ltb Z.leb Z.eqb
  Dissect.frame_parse Dissect.packet_parse.

#!/bin/sh
# build the extracted model runner: /verif/ocaml/gen/model_run
set -e
cd "$(dirname "$0")"
rm -rf gen && mkdir -p gen && cd gen
coqc -Q ../../coq/theories VpnModel ../Extract.v > extract.log 2>&1 || { cat extract.log; exit 1; }
cp ../conv.ml ../ops.ml ../model_run.ml .
rm -f *.mli
ORDER=$(ocamlfind ocamldep -sort *.ml)
ocamlfind ocamlopt -O3 -w -a -o model_run $ORDER 2>/dev/null || ocamlfind ocamlopt -w -a -o model_run $ORDER

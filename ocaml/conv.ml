(* conversions between OCaml values and the extracted inductive numbers *)
open BinNums
open Datatypes
module L = Stdlib.List

let rec pos_of_int i =
  if i = 1 then Coq_xH
  else if i land 1 = 1 then Coq_xI (pos_of_int (i lsr 1))
  else Coq_xO (pos_of_int (i lsr 1))
let n_of_int i = if i = 0 then N0 else Npos (pos_of_int i)
let rec int_of_pos = function
  | Coq_xH -> 1
  | Coq_xO p -> 2 * int_of_pos p
  | Coq_xI p -> 2 * int_of_pos p + 1
let int_of_n = function N0 -> 0 | Npos p -> int_of_pos p
let z_of_int i = if i = 0 then Z0 else if i > 0 then Zpos (pos_of_int i) else Zneg (pos_of_int (-i))
let int_of_z = function Z0 -> 0 | Zpos p -> int_of_pos p | Zneg p -> - (int_of_pos p)
let rec nat_of_int i = if i <= 0 then O else S (nat_of_int (i - 1))
let rec int_of_nat = function O -> 0 | S n -> 1 + int_of_nat n

(* decimal strings for values beyond 62 bits *)
let n_of_dec (s : string) =
  let ten = n_of_int 10 in
  let acc = ref N0 in
  String.iter (fun c -> acc := BinNat.N.add (BinNat.N.mul !acc ten) (n_of_int (Char.code c - 48))) s;
  !acc
let dec_of_n (n : coq_N) =
  if n = N0 then "0" else begin
    let ten = n_of_int 10 in
    let buf = Buffer.create 20 in
    let cur = ref n in
    let digits = ref [] in
    while !cur <> N0 do
      digits := int_of_n (BinNat.N.modulo !cur ten) :: !digits;
      cur := BinNat.N.div !cur ten
    done;
    L.iter (fun d -> Buffer.add_char buf (Char.chr (48 + d))) !digits;
    Buffer.contents buf
  end

let unhex s =
  if s = "-" then []
  else L.init (String.length s / 2) (fun i -> n_of_int (int_of_string ("0x" ^ String.sub s (2 * i) 2)))
let hex l =
  if l = [] then "-"
  else String.concat "" (L.map (fun b -> Printf.sprintf "%02x" (int_of_n b)) l)
let b2s b = if b then "1" else "0"

// verification hooks for rotate (compiled only with --cfg vpncloud_verif)
#![allow(dead_code, unused_imports)]
use super::*;


/// (message_id, proposed?, pending?, confirmed id or 0, timeout)
pub fn dump(r: &RotationState) -> (u64, bool, bool, u64, bool) {
    (r.message_id, r.proposed.is_some(), r.pending.is_some(), r.confirmed.as_ref().map(|c| c.1).unwrap_or(0), r.timeout)
}

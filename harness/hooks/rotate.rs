// verification hooks for rotate (compiled only with --cfg vpncloud_verif)
#![allow(dead_code, unused_imports)]
use super::*;


/// (message_id, proposed?, pending?, confirmed id or 0, timeout)
pub fn dump(r: &RotationState) -> (u64, bool, bool, u64, bool) {
    (r.message_id, r.proposed.is_some(), r.pending.is_some(), r.confirmed.as_ref().map(|c| c.1).unwrap_or(0), r.timeout)
}

/// decode a rotation message and re-encode what was understood: (id, propose, confirm)
pub fn rot_decode(d: &[u8]) -> Option<(u64, Vec<u8>, Option<Vec<u8>>)> {
    match RotationMessage::read_from(Cursor::new(d)) {
        Ok(m) => Some((m.message_id, m.propose.bytes().to_vec(), m.confirm.map(|c| c.bytes().to_vec()))),
        Err(_) => None,
    }
}

pub fn rot_encode(id: u64, propose: &[u8], confirm: Option<&[u8]>) -> Vec<u8> {
    let mut v = SmallVec::<[u8; 96]>::new();
    v.extend_from_slice(propose);
    let c = confirm.map(|c| {
        let mut w = SmallVec::<[u8; 96]>::new();
        w.extend_from_slice(c);
        EcdhPublicKey::new(&X25519, w)
    });
    let m = RotationMessage { message_id: id, propose: EcdhPublicKey::new(&X25519, v), confirm: c };
    let mut out = Vec::new();
    m.write_to(&mut out).unwrap();
    out
}

// verification hooks for init (compiled only with --cfg vpncloud_verif)
#![allow(dead_code, unused_imports)]
use super::*;


use std::cell::RefCell;
use std::collections::VecDeque;

thread_local! {
    static FORCED_SALTS: RefCell<VecDeque<[u8; 4]>> = RefCell::new(VecDeque::new());
    static SALT_LOG: RefCell<Vec<[u8; 4]>> = RefCell::new(Vec::new());
}

/// the harness prescribes the 4 random salt bytes of the next InitState objects (creation order)
pub fn push_salt(s: [u8; 4]) {
    FORCED_SALTS.with(|q| q.borrow_mut().push_back(s));
}

pub fn clear_salts() {
    FORCED_SALTS.with(|q| q.borrow_mut().clear());
    SALT_LOG.with(|q| q.borrow_mut().clear());
}

pub fn salts_left() -> usize {
    FORCED_SALTS.with(|q| q.borrow().len())
}

pub fn salt_log_len() -> usize {
    SALT_LOG.with(|q| q.borrow().len())
}

/// called from InitState::new (guarded line in src/crypto/init.rs)
pub fn force_salt(salt: &mut [u8]) {
    if let Some(s) = FORCED_SALTS.with(|q| q.borrow_mut().pop_front()) {
        salt.copy_from_slice(&s);
    }
    let mut a = [0u8; 4];
    a.copy_from_slice(salt);
    SALT_LOG.with(|q| q.borrow_mut().push(a));
}

pub fn stage<P: Payload>(i: &InitState<P>) -> u8 {
    i.next_stage
}
pub fn retries<P: Payload>(i: &InitState<P>) -> usize {
    i.failed_retries
}
pub fn close_time<P: Payload>(i: &InitState<P>) -> usize {
    i.close_time
}
pub fn has_last<P: Payload>(i: &InitState<P>) -> bool {
    i.last_message.is_some()
}
pub fn has_ecdh<P: Payload>(i: &InitState<P>) -> bool {
    i.ecdh_private_key.is_some()
}
pub fn has_core<P: Payload>(i: &InitState<P>) -> bool {
    i.crypto.is_some()
}
pub fn salted_hash<P: Payload>(i: &InitState<P>) -> Vec<u8> {
    i.salted_node_id_hash.to_vec()
}

/// Build salt + key hash + body, sign it with the key pair of `seed`, append signature (optionally
/// corrupted) and tail, optionally truncate, and run InitMsg::read_from on it.
/// Returns (message bytes, signed length, signature, parse result as text).
pub fn build_and_parse(
    body: &[u8], seed: &[u8], trusted: &[Ed25519PublicKey], sig_ok: bool, hash_ok: bool, tail: &[u8], truncate: Option<usize>,
    sig_len: Option<(u8, usize)>, key_salt: Option<[u8; 4]>, forged_sig: bool,
) -> (Vec<u8>, usize, Vec<u8>, String) {
    let kp = Ed25519KeyPair::from_seed_unchecked(seed).unwrap();
    let mut pk = [0u8; ED25519_PUBLIC_KEY_LEN];
    pk.clone_from_slice(kp.public_key().as_ref());
    let salt = key_salt.unwrap_or([0x11u8, 0x22, 0x33, 0x44]);
    let mut hash = InitMsg::calculate_hash(&pk, &salt);
    if !hash_ok {
        hash[0] ^= 1;
    }
    let mut msg = salt.to_vec();
    msg.extend_from_slice(&hash);
    msg.extend_from_slice(body);
    let signed = msg.len();
    let sig = kp.sign(&msg);
    let mut sigb = sig.as_ref().to_vec();
    let genuine = sigb.clone();
    if !sig_ok {
        sigb[5] ^= 0x10;
    }
    if forged_sig {
        // what a party WITHOUT any key can write into the signature field: R = the identity point, S = 0.  Under a public key of
        // small order (the all-zero key decodes to one) such a "signature" verifies for about one message in four
        sigb = vec![0u8; 64];
        sigb[0] = 1;
    }
    match sig_len {
        None => {
            msg.push(sigb.len() as u8);
            msg.extend_from_slice(&sigb);
        }
        Some((declared, present)) => {
            // declared signature length vs signature bytes actually present (padded with a fixed pattern)
            msg.push(declared);
            let mut padded = sigb.clone();
            padded.resize(present.max(sigb.len()), 0xa5);
            msg.extend_from_slice(&padded[..present]);
        }
    }
    msg.extend_from_slice(tail);
    if let Some(n) = truncate {
        msg.truncate(n);
    }
    let res = match InitMsg::read_from(&msg, trusted) {
        Ok((m, _)) => {
            let algos = |a: &Algorithms| -> String {
                let l: Vec<String> = a
                    .algorithm_speeds
                    .iter()
                    .map(|(al, s)| {
                        let id = if *al == &AES_128_GCM { 1 } else if *al == &AES_256_GCM { 2 } else { 3 };
                        format!("{}:{:08x}", id, s.to_bits())
                    })
                    .collect();
                format!("{}|{}", if a.allow_unencrypted { "p" } else { "-" }, if l.is_empty() { "-".to_string() } else { l.join(",") })
            };
            let hx = |b: &[u8]| -> String {
                if b.is_empty() {
                    "-".to_string()
                } else {
                    b.iter().map(|x| format!("{:02x}", x)).collect()
                }
            };
            match m {
                InitMsg::Ping { salted_node_id_hash, ecdh_public_key, algorithms } => {
                    format!("ok ping {} {} {}", hx(&salted_node_id_hash), hx(ecdh_public_key.bytes()), algos(&algorithms))
                }
                InitMsg::Pong { salted_node_id_hash, ecdh_public_key, algorithms, encrypted_payload } => format!(
                    "ok pong {} {} {} {}",
                    hx(&salted_node_id_hash),
                    hx(ecdh_public_key.bytes()),
                    algos(&algorithms),
                    hx(encrypted_payload.message())
                ),
                InitMsg::Peng { salted_node_id_hash, encrypted_payload } => {
                    format!("ok peng {} {}", hx(&salted_node_id_hash), hx(encrypted_payload.message()))
                }
            }
        }
        Err(Error::Parse(_)) => "err parse".into(),
        Err(Error::Crypto(_)) => "err crypto".into(),
        Err(Error::CryptoInit(_)) => "err init".into(),
        Err(_) => "err other".into(),
    };
    (msg, signed, genuine, res)
}

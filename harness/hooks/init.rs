// verification hooks for init (compiled only with --cfg vpncloud_verif)
#![allow(dead_code, unused_imports)]
use super::*;


use std::cell::RefCell;
use std::collections::VecDeque;

thread_local! {
    static FORCED_SALTS: RefCell<VecDeque<[u8; 4]>> = RefCell::new(VecDeque::new());
    static SALT_LOG: RefCell<Vec<[u8; 4]>> = RefCell::new(Vec::new());
}

/// the harness prescribes the 4 random salt bytes of the next InitState objects (creation order)
pub fn push_salt(s: [u8; 4]) {
    FORCED_SALTS.with(|q| q.borrow_mut().push_back(s));
}

pub fn clear_salts() {
    FORCED_SALTS.with(|q| q.borrow_mut().clear());
    SALT_LOG.with(|q| q.borrow_mut().clear());
}

pub fn salts_left() -> usize {
    FORCED_SALTS.with(|q| q.borrow().len())
}

pub fn salt_log_len() -> usize {
    SALT_LOG.with(|q| q.borrow().len())
}

/// called from InitState::new (guarded line in src/crypto/init.rs)
pub fn force_salt(salt: &mut [u8]) {
    if let Some(s) = FORCED_SALTS.with(|q| q.borrow_mut().pop_front()) {
        salt.copy_from_slice(&s);
    }
    let mut a = [0u8; 4];
    a.copy_from_slice(salt);
    SALT_LOG.with(|q| q.borrow_mut().push(a));
}

pub fn stage<P: Payload>(i: &InitState<P>) -> u8 {
    i.next_stage
}
pub fn retries<P: Payload>(i: &InitState<P>) -> usize {
    i.failed_retries
}
pub fn close_time<P: Payload>(i: &InitState<P>) -> usize {
    i.close_time
}
pub fn has_last<P: Payload>(i: &InitState<P>) -> bool {
    i.last_message.is_some()
}
pub fn has_ecdh<P: Payload>(i: &InitState<P>) -> bool {
    i.ecdh_private_key.is_some()
}
pub fn has_core<P: Payload>(i: &InitState<P>) -> bool {
    i.crypto.is_some()
}
pub fn salted_hash<P: Payload>(i: &InitState<P>) -> Vec<u8> {
    i.salted_node_id_hash.to_vec()
}

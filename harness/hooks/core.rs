// verification hooks for core (compiled only with --cfg vpncloud_verif)
#![allow(dead_code, unused_imports)]
use super::*;


pub fn nonce_increment(b: &[u8]) -> Vec<u8> {
    let mut n = Nonce::zero();
    n.0.copy_from_slice(b);
    n.increment();
    n.0.to_vec()
}

pub fn set_send_nonce(core: &mut CryptoCore, slot: usize, b: &[u8]) {
    core.keys[slot].send_nonce.0.copy_from_slice(b);
}

pub fn half_byte(core: &CryptoCore) -> u8 {
    if core.nonce_half {
        0x80
    } else {
        0x00
    }
}

/// (current_key, [(send, min, next_min, seen); 4])
pub fn dump(core: &CryptoCore) -> (usize, Vec<(Vec<u8>, Vec<u8>, Vec<u8>, Vec<u8>)>) {
    (
        core.current_key,
        core.keys
            .iter()
            .map(|k| (k.send_nonce.0.to_vec(), k.min_nonce.0.to_vec(), k.next_min_nonce.0.to_vec(), k.seen_nonce.0.to_vec()))
            .collect(),
    )
}

pub fn nonce_half(core: &CryptoCore) -> bool {
    core.nonce_half
}

pub fn current_key(core: &CryptoCore) -> usize {
    core.current_key
}

pub use super::{create_dummy_pair, CryptoCore};

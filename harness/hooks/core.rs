// verification hooks for core (compiled only with --cfg vpncloud_verif)
#![allow(dead_code, unused_imports)]
use super::*;


pub fn nonce_increment(b: &[u8]) -> Vec<u8> {
    let mut n = Nonce::zero();
    n.0.copy_from_slice(b);
    n.increment();
    n.0.to_vec()
}

pub fn set_send_nonce(core: &mut CryptoCore, slot: usize, b: &[u8]) {
    core.keys[slot].send_nonce.0.copy_from_slice(b);
}

pub fn half_byte(core: &CryptoCore) -> u8 {
    if core.nonce_half {
        0x80
    } else {
        0x00
    }
}

/// (current_key, [(send, min, next_min, seen); 4])
pub fn dump(core: &CryptoCore) -> (usize, Vec<(Vec<u8>, Vec<u8>, Vec<u8>, Vec<u8>)>) {
    (
        core.current_key,
        core.keys
            .iter()
            .map(|k| (k.send_nonce.0.to_vec(), k.min_nonce.0.to_vec(), k.next_min_nonce.0.to_vec(), k.seen_nonce.0.to_vec()))
            .collect(),
    )
}

pub fn nonce_half(core: &CryptoCore) -> bool {
    core.nonce_half
}

pub fn current_key(core: &CryptoCore) -> usize {
    core.current_key
}

pub use super::{create_dummy_pair, CryptoCore};

use std::cell::RefCell;
thread_local! {
    static SEAL_LOG: RefCell<Vec<([u8; 8], [u8; 12])>> = RefCell::new(Vec::new());
}

/// fingerprint of key material: tag of sealing nothing under the all-ones nonce (never used by traffic:
/// real nonces start with 0x00 or 0x80 followed by zero bytes)
pub fn key_fingerprint(key: &LessSafeKey) -> [u8; 8] {
    let mut empty: [u8; 0] = [];
    let tag = key
        .seal_in_place_separate_tag(aead::Nonce::assume_unique_for_key([0xff; 12]), aead::Aad::empty(), &mut empty)
        .expect("fingerprint");
    let mut fp = [0u8; 8];
    fp.copy_from_slice(&tag.as_ref()[..8]);
    fp
}

/// called from CryptoCore::encrypt (guarded line in src/crypto/core.rs)
pub fn log_seal(key: &LessSafeKey, nonce: &[u8; 12]) {
    let fp = key_fingerprint(key);
    SEAL_LOG.with(|l| l.borrow_mut().push((fp, *nonce)));
}

pub fn take_seal_log() -> Vec<([u8; 8], [u8; 12])> {
    SEAL_LOG.with(|l| std::mem::take(&mut *l.borrow_mut()))
}

// verification hooks for core (compiled only with --cfg vpncloud_verif)
#![allow(dead_code, unused_imports)]
use super::*;


pub fn nonce_increment(b: &[u8]) -> Vec<u8> {
    let mut n = Nonce::zero();
    n.0.copy_from_slice(b);
    n.increment();
    n.0.to_vec()
}

// verification hooks for common (compiled only with --cfg vpncloud_verif)
#![allow(dead_code, unused_imports)]
use super::*;


pub fn parse_public_key(s: &str) -> Result<Ed25519PublicKey, Error> {
    Crypto::parse_public_key(s)
}

pub fn parse_private_key_pub(s: &str) -> Result<Vec<u8>, Error> {
    Crypto::parse_private_key(s).map(|kp| kp.public_key().as_ref().to_vec())
}

pub fn parse_keypair_pub(privk: &str, pubk: &str) -> Result<Vec<u8>, Error> {
    Crypto::parse_keypair(privk, pubk).map(|kp| kp.public_key().as_ref().to_vec())
}

pub fn own_public_key(c: &Crypto) -> Vec<u8> {
    c.key_pair.public_key().as_ref().to_vec()
}

pub fn trusted_keys(c: &Crypto) -> Vec<Vec<u8>> {
    c.trusted_keys.iter().map(|k| k.to_vec()).collect()
}

/// a Crypto context with prescribed algorithm speeds (no timing loop) built from a 32-byte seed
pub fn crypto_with(node_id: NodeId, seed: &[u8], trusted: &[Vec<u8>], speeds: &[(u8, f32)], allow_unencrypted: bool) -> Crypto {
    let key_pair = Ed25519KeyPair::from_seed_unchecked(seed).unwrap();
    let mut tk: Vec<Ed25519PublicKey> = vec![];
    for t in trusted {
        let mut k = [0u8; ED25519_PUBLIC_KEY_LEN];
        k.copy_from_slice(t);
        tk.push(k);
    }
    let mut algos = Algorithms { algorithm_speeds: smallvec![], allow_unencrypted };
    for (id, s) in speeds {
        let a: &'static Algorithm = match id {
            1 => &aead::AES_128_GCM,
            2 => &aead::AES_256_GCM,
            3 => &aead::CHACHA20_POLY1305,
            _ => panic!("bad algo id"),
        };
        algos.algorithm_speeds.push((a, *s));
    }
    Crypto { node_id, key_pair: Arc::new(key_pair), trusted_keys: tk.into_boxed_slice().into(), algorithms: algos }
}

pub fn set_algorithms(c: &mut Crypto, speeds: &[(u8, f32)], allow_unencrypted: bool) {
    let mut algos = Algorithms { algorithm_speeds: smallvec![], allow_unencrypted };
    for (id, s) in speeds {
        let a: &'static Algorithm = match id {
            1 => &aead::AES_128_GCM,
            2 => &aead::AES_256_GCM,
            3 => &aead::CHACHA20_POLY1305,
            _ => panic!("bad algo id"),
        };
        algos.algorithm_speeds.push((a, *s));
    }
    c.algorithms = algos;
}

pub fn seed_public_key(seed: &[u8]) -> Vec<u8> {
    Ed25519KeyPair::from_seed_unchecked(seed).unwrap().public_key().as_ref().to_vec()
}

pub struct PcDump {
    pub init_stage: Option<u8>,
    pub init_retries: usize,
    pub init_close: usize,
    pub init_has_core: bool,
    pub init_has_ecdh: bool,
    pub rot: Option<(u64, bool, bool, u64, bool)>,
    pub unencrypted: bool,
    pub core: Option<(usize, bool)>,
    pub counter: usize,
}

pub fn pc_dump<P: Payload>(p: &PeerCrypto<P>) -> PcDump {
    PcDump {
        init_stage: p.init.as_ref().map(|i| crate::crypto::verif_init::stage(i)),
        init_retries: p.init.as_ref().map(|i| crate::crypto::verif_init::retries(i)).unwrap_or(0),
        init_close: p.init.as_ref().map(|i| crate::crypto::verif_init::close_time(i)).unwrap_or(0),
        init_has_core: p.init.as_ref().map(|i| crate::crypto::verif_init::has_core(i)).unwrap_or(false),
        init_has_ecdh: p.init.as_ref().map(|i| crate::crypto::verif_init::has_ecdh(i)).unwrap_or(false),
        rot: p.rotation.as_ref().map(|r| crate::crypto::verif_rotate::dump(r)),
        unencrypted: p.unencrypted,
        core: p.core.as_ref().map(|c| (crate::crypto::verif_core::current_key(c), crate::crypto::verif_core::nonce_half(c))),
        counter: p.rotate_counter,
    }
}

pub fn pc_set_counter<P: Payload>(p: &mut PeerCrypto<P>, v: usize) {
    p.rotate_counter = v;
}

pub fn pc_core_mut<P: Payload>(p: &mut PeerCrypto<P>) -> Option<&mut CryptoCore> {
    p.core.as_mut()
}

/// an established, unencrypted PeerCrypto without handshake object (for interval tests)
pub fn pc_plain<P: Payload>(node_id: NodeId) -> PeerCrypto<P> {
    PeerCrypto { node_id, init: None, rotation: None, unencrypted: true, core: None, rotate_counter: 0 }
}

// verification hooks for cloud (compiled only with --cfg vpncloud_verif)
#![allow(dead_code, unused_imports)]
use super::*;


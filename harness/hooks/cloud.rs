// verification hooks for cloud (compiled only with --cfg vpncloud_verif)
#![allow(dead_code, unused_imports)]
use super::*;


use crate::device::MockDevice;
use crate::net::MockSocket;
use crate::util::MockTimeSource;

pub struct PeerDump {
    pub addr: SocketAddr,
    pub node_id: NodeId,
    pub alg: &'static str,
    pub timeout: Time,
    pub peer_timeout: u16,
    pub has_init: bool,
    pub addrs: Vec<SocketAddr>,
}

impl<P: Protocol> GenericCloud<MockDevice, P, MockSocket, MockTimeSource> {
    pub fn v_socket(&mut self) -> &mut MockSocket {
        &mut self.socket
    }
    pub fn v_device(&mut self) -> &mut MockDevice {
        &mut self.device
    }
    pub fn v_socket_event(&mut self) {
        let mut buffer = MsgBuffer::new(SPACE_BEFORE);
        self.handle_socket_event(&mut buffer);
    }
    pub fn v_device_event(&mut self) {
        let mut buffer = MsgBuffer::new(SPACE_BEFORE);
        self.handle_device_event(&mut buffer);
    }
    pub fn v_housekeep(&mut self) -> bool {
        self.housekeep().is_ok()
    }
    /// what a node does last when it shuts down (end of `run`): CLOSE to every peer
    pub fn v_close(&mut self) {
        let mut buffer = MsgBuffer::new(SPACE_BEFORE);
        let _ = self.broadcast_msg(MESSAGE_TYPE_CLOSE, &mut buffer);
    }
    /// the beacon path: `connect_sock` with an address as the beacon decoder returns it (a plain IPv4 socket address)
    pub fn v_connect_sock_v4(&mut self, port: u16) {
        let a: SocketAddr = format!("127.0.0.1:{}", port).parse().unwrap();
        let _ = self.connect_sock(a);
    }
    pub fn v_node_id(&self) -> NodeId {
        self.node_id
    }
    pub fn v_peers(&self) -> Vec<PeerDump> {
        let mut v: Vec<PeerDump> = self
            .peers
            .iter()
            .map(|(a, d)| PeerDump {
                addr: *a,
                node_id: d.node_id,
                alg: d.crypto.algorithm_name(),
                timeout: d.timeout,
                peer_timeout: d.peer_timeout,
                has_init: d.crypto.has_init(),
                addrs: d.addrs.iter().copied().collect(),
            })
            .collect();
        v.sort_by_key(|p| p.addr);
        v
    }
    pub fn v_pending(&self) -> Vec<(SocketAddr, crate::crypto::verif::PcDump)> {
        let mut v: Vec<(SocketAddr, crate::crypto::verif::PcDump)> =
            self.pending_inits.iter().map(|(a, c)| (*a, crate::crypto::verif::pc_dump(c))).collect();
        v.sort_by_key(|p| p.0);
        v
    }
    pub fn v_peer_crypto(&self, a: &SocketAddr) -> Option<crate::crypto::verif::PcDump> {
        self.peers.get(a).map(|d| crate::crypto::verif::pc_dump(&d.crypto))
    }
    pub fn v_own(&self) -> Vec<SocketAddr> {
        let mut v: Vec<SocketAddr> = self.own_addresses.iter().copied().collect();
        v.sort();
        v
    }
    pub fn v_table(&self) -> &ClaimTable<MockTimeSource> {
        &self.table
    }
    pub fn v_sched(&self) -> (Time, Time) {
        (self.next_peers, self.next_own_address_reset)
    }
    pub fn v_counters(&self) -> (usize, usize) {
        // totals over all statistics periods
        (
            self.traffic.dropped.out_packets + self.traffic.dropped.out_packets_total,
            self.traffic.dropped.in_packets + self.traffic.dropped.in_packets_total,
        )
    }
    pub fn v_replace_crypto(&mut self, c: Crypto) {
        self.crypto = c;
    }
    /// keep the key pair and trusted keys that Crypto::new derived from the configuration, prescribe only the
    /// cipher list and speeds (the real speed measurement is timing dependent)
    pub fn v_set_algorithms(&mut self, speeds: &[(u8, f32)], allow_unencrypted: bool) {
        crate::crypto::verif::set_algorithms(&mut self.crypto, speeds, allow_unencrypted);
    }
    pub fn v_add_reconnect(&mut self, addrs: Vec<SocketAddr>) {
        let now = MockTimeSource::now();
        self.reconnect_peers.push(ReconnectEntry {
            address: None,
            tries: 0,
            timeout: 1,
            resolved: addrs.into_iter().collect(),
            next: now,
            final_timeout: None,
        })
    }
    /// the node's own claims change at run time (what a re-configuration or a restart with other claims announces)
    pub fn v_set_claims(&mut self, claims: Vec<crate::types::Range>) {
        self.claims = claims.into_iter().collect();
    }
    pub fn v_reconnect(&self) -> Vec<(u16, u16, Time)> {
        self.reconnect_peers.iter().map(|e| (e.tries, e.timeout, e.next)).collect()
    }
    /// insert an established, unencrypted fake peer advertising `peer_timeout` (interval tests)
    pub fn v_fake_peer(&mut self, addr: SocketAddr, peer_timeout: u16) {
        let now = MockTimeSource::now();
        self.peers.insert(
            addr,
            PeerData {
                addrs: smallvec![addr],
                last_seen: now,
                timeout: now + 100000,
                peer_timeout,
                node_id: [9; 16],
                crypto: crate::crypto::verif::pc_plain([9; 16]),
            },
        );
    }
}

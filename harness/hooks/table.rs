// verification hooks for table (compiled only with --cfg vpncloud_verif)
#![allow(dead_code, unused_imports)]
use super::*;


/// claims in Vec order: (peer, base bytes, prefix, timeout); cache sorted by address: (addr bytes, peer, timeout)
pub fn dump<TS: TimeSource>(t: &ClaimTable<TS>) -> (Vec<(SocketAddr, Vec<u8>, u8, Time)>, Vec<(Vec<u8>, SocketAddr, Time)>) {
    let claims = t
        .claims
        .iter()
        .map(|e| (e.peer, e.claim.base.data[..e.claim.base.len as usize].to_vec(), e.claim.prefix_len, e.timeout))
        .collect();
    let mut cache: Vec<(Vec<u8>, SocketAddr, Time)> =
        t.cache.iter().map(|(a, v)| (a.data[..a.len as usize].to_vec(), v.peer, v.timeout)).collect();
    cache.sort();
    (claims, cache)
}

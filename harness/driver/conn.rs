// Per-connection state machines (CryptoCore, RotationState, InitState, PeerCrypto).
use super::{hex, num, unhex};

pub fn run(_op: &str, _a: &[&str]) -> Option<String> {
    None
}

// Per-connection state machines (CryptoCore, RotationState, InitState, PeerCrypto).
use super::{hex, num, unhex};
use crate::crypto::verif_core as hc;
use crate::crypto::verif_core::{CryptoCore};
use crate::util::MsgBuffer;
use ring::aead::{self, LessSafeKey, UnboundKey};

pub fn algo(name: &str) -> &'static aead::Algorithm {
    match name {
        "aes128" => &aead::AES_128_GCM,
        "aes256" => &aead::AES_256_GCM,
        "chacha" => &aead::CHACHA20_POLY1305,
        _ => panic!("unknown algo"),
    }
}

/// deterministic key material for a symbolic key name
pub fn key_material(id: u64, len: usize) -> Vec<u8> {
    // injective: the name itself in the first 8 bytes, a fixed pattern behind it
    let idb = id.to_be_bytes();
    (0..len).map(|i| if i < 8 { idb[i] } else { (i as u8).wrapping_mul(7).wrapping_add(1) }).collect()
}

pub fn mk_key(a: &'static aead::Algorithm, id: u64) -> LessSafeKey {
    LessSafeKey::new(UnboundKey::new(a, &key_material(id, a.key_len())).unwrap())
}

fn start_nonce(half: bool, rnd6: &[u8]) -> Vec<u8> {
    let mut n = vec![0u8; 12];
    n[0] = if half { 0x80 } else { 0 };
    n[6..].copy_from_slice(rnd6);
    n
}

fn core_scenario(a: &[&str]) -> String {
    let alg = algo(a[0]);
    let key: u64 = num(a[1]);
    let ra: Vec<Vec<u8>> = a[2].split(',').map(unhex).collect();
    let rb: Vec<Vec<u8>> = a[3].split(',').map(unhex).collect();
    let mut ca = CryptoCore::new(mk_key(alg, key), true);
    let mut cb = CryptoCore::new(mk_key(alg, key), false);
    for i in 0..4 {
        hc::set_send_nonce(&mut ca, i, &start_nonce(true, &ra[i]));
        hc::set_send_nonce(&mut cb, i, &start_nonce(false, &rb[i]));
    }
    let mut sent: Vec<Vec<u8>> = vec![];
    let mut out: Vec<String> = vec![];
    for tok in &a[4..] {
        let p: Vec<&str> = tok.split('.').collect();
        let is_b = p[1] == "b";
        let core = if is_b { &mut cb } else { &mut ca };
        let mut deliver = |core: &mut CryptoCore, bytes: &[u8]| -> String {
            let mut buf = MsgBuffer::new(8);
            buf.clone_from(bytes);
            let r = std::panic::catch_unwind(std::panic::AssertUnwindSafe(|| core.decrypt(&mut buf)));
            match r {
                Ok(Ok(())) => format!("ok:{}", hex(buf.message())),
                Ok(Err(_)) => "err".to_string(),
                Err(_) => "panic".to_string(),
            }
        };
        match p[0] {
            "s" => {
                let mut buf = MsgBuffer::new(8);
                buf.clone_from(&unhex(p[2]));
                core.encrypt(&mut buf);
                let m = buf.message().to_vec();
                out.push(format!("S{}:{}:{}", m[0], hex(&m[1..8]), m.len()));
                sent.push(m);
            }
            "d" => {
                let i: usize = num(p[2]);
                if i < sent.len() {
                    let d = sent[i].clone();
                    out.push(deliver(core, &d));
                } else {
                    out.push("-".into());
                }
            }
            "f" => {
                let i: usize = num(p[2]);
                let pos: usize = num(p[3]);
                let bit: u32 = num(p[4]);
                if i < sent.len() && pos < sent[i].len() {
                    let mut d = sent[i].clone();
                    d[pos] ^= 1u8 << bit;
                    out.push(deliver(core, &d));
                } else {
                    out.push("-".into());
                }
            }
            "t" => {
                let i: usize = num(p[2]);
                let len: usize = num(p[3]);
                if i < sent.len() {
                    let mut d = sent[i].clone();
                    d.truncate(len);
                    out.push(deliver(core, &d));
                } else {
                    out.push("-".into());
                }
            }
            "r" => {
                let d = unhex(p[2]);
                out.push(deliver(core, &d));
            }
            "k" => {
                core.every_second();
                out.push("-".into());
            }
            "n" => {
                let kid: u64 = num(p[2]);
                let id: u64 = num(p[3]);
                let use_: bool = p[4] == "1";
                let rnd = unhex(p[5]);
                let half = hc::nonce_half(core);
                core.rotate_key(mk_key(alg, kid), id, use_);
                hc::set_send_nonce(core, (id % 4) as usize, &start_nonce(half, &rnd));
                out.push("-".into());
            }
            "p" => {
                let (cur, st) = hc::dump(core);
                let s: Vec<String> =
                    st.iter().map(|(a, b, c, d)| format!("{}/{}/{}/{}", hex(a), hex(b), hex(c), hex(d))).collect();
                out.push(format!("st:{}:{}", cur, s.join(",")));
            }
            _ => panic!("bad core op"),
        }
    }
    out.join(" ")
}

pub fn run(op: &str, a: &[&str]) -> Option<String> {
    Some(match op {
        "core" => core_scenario(a),
        _ => return None,
    })
}

// Per-connection state machines (CryptoCore, RotationState, InitState, PeerCrypto).
use super::{hex, num, unhex};
use crate::crypto::verif_core as hc;
use crate::crypto::verif_core::{CryptoCore};
use crate::util::MsgBuffer;
use ring::aead::{self, LessSafeKey, UnboundKey};

pub fn algo(name: &str) -> &'static aead::Algorithm {
    match name {
        "aes128" => &aead::AES_128_GCM,
        "aes256" => &aead::AES_256_GCM,
        "chacha" => &aead::CHACHA20_POLY1305,
        _ => panic!("unknown algo"),
    }
}

/// deterministic key material for a symbolic key name
pub fn key_material(id: u64, len: usize) -> Vec<u8> {
    // injective: the name itself in the first 8 bytes, a fixed pattern behind it
    let idb = id.to_be_bytes();
    (0..len).map(|i| if i < 8 { idb[i] } else { (i as u8).wrapping_mul(7).wrapping_add(1) }).collect()
}

pub fn mk_key(a: &'static aead::Algorithm, id: u64) -> LessSafeKey {
    LessSafeKey::new(UnboundKey::new(a, &key_material(id, a.key_len())).unwrap())
}

fn start_nonce(half: bool, rnd6: &[u8]) -> Vec<u8> {
    let mut n = vec![0u8; 12];
    n[0] = if half { 0x80 } else { 0 };
    n[6..].copy_from_slice(rnd6);
    n
}

fn core_scenario(a: &[&str]) -> String {
    hc::take_seal_log();
    let alg = algo(a[0]);
    let key: u64 = num(a[1]);
    let ra: Vec<Vec<u8>> = a[2].split(',').map(unhex).collect();
    let rb: Vec<Vec<u8>> = a[3].split(',').map(unhex).collect();
    let mut ca = CryptoCore::new(mk_key(alg, key), true);
    let mut cb = CryptoCore::new(mk_key(alg, key), false);
    for i in 0..4 {
        hc::set_send_nonce(&mut ca, i, &start_nonce(true, &ra[i]));
        hc::set_send_nonce(&mut cb, i, &start_nonce(false, &rb[i]));
    }
    let mut sent: Vec<Vec<u8>> = vec![];
    let mut out: Vec<String> = vec![];
    for tok in &a[4..] {
        let p: Vec<&str> = tok.split('.').collect();
        let is_b = p[1] == "b";
        let core = if is_b { &mut cb } else { &mut ca };
        let mut deliver = |core: &mut CryptoCore, bytes: &[u8]| -> String {
            let mut buf = MsgBuffer::new(8);
            buf.clone_from(bytes);
            let r = std::panic::catch_unwind(std::panic::AssertUnwindSafe(|| core.decrypt(&mut buf)));
            match r {
                Ok(Ok(())) => format!("ok:{}", hex(buf.message())),
                Ok(Err(_)) => "err".to_string(),
                Err(_) => "panic".to_string(),
            }
        };
        match p[0] {
            "s" => {
                let mut buf = MsgBuffer::new(8);
                buf.clone_from(&unhex(p[2]));
                core.encrypt(&mut buf);
                let m = buf.message().to_vec();
                out.push(format!("S{}:{}:{}", m[0], hex(&m[1..8]), m.len()));
                sent.push(m);
            }
            "d" => {
                let i: usize = num(p[2]);
                if i < sent.len() {
                    let d = sent[i].clone();
                    out.push(deliver(core, &d));
                } else {
                    out.push("-".into());
                }
            }
            "f" => {
                let i: usize = num(p[2]);
                let pos: usize = num(p[3]);
                let bit: u32 = num(p[4]);
                if i < sent.len() && pos < sent[i].len() {
                    let mut d = sent[i].clone();
                    d[pos] ^= 1u8 << bit;
                    out.push(deliver(core, &d));
                } else {
                    out.push("-".into());
                }
            }
            "t" => {
                let i: usize = num(p[2]);
                let len: usize = num(p[3]);
                if i < sent.len() {
                    let mut d = sent[i].clone();
                    d.truncate(len);
                    out.push(deliver(core, &d));
                } else {
                    out.push("-".into());
                }
            }
            "r" => {
                let d = unhex(p[2]);
                out.push(deliver(core, &d));
            }
            "k" => {
                core.every_second();
                out.push("-".into());
            }
            "n" => {
                let kid: u64 = num(p[2]);
                let id: u64 = num(p[3]);
                let use_: bool = p[4] == "1";
                let rnd = unhex(p[5]);
                let half = hc::nonce_half(core);
                core.rotate_key(mk_key(alg, kid), id, use_);
                hc::set_send_nonce(core, (id % 4) as usize, &start_nonce(half, &rnd));
                out.push("-".into());
            }
            "q" => {
                hc::set_send_nonce(core, num(p[2]), &unhex(p[3]));
                out.push("-".into());
            }
            "z" => {
                let log = hc::take_seal_log();
                out.push(format!("z{}", log.iter().map(|(f, n)| format!("{}/{}", hex(f), hex(n))).collect::<Vec<_>>().join(",")));
            }
            "p" => {
                let (cur, st) = hc::dump(core);
                let s: Vec<String> =
                    st.iter().map(|(a, b, c, d)| format!("{}/{}/{}/{}", hex(a), hex(b), hex(c), hex(d))).collect();
                out.push(format!("st:{}:{}", cur, s.join(",")));
            }
            _ => panic!("bad core op"),
        }
    }
    out.join(" ")
}

pub fn run(op: &str, a: &[&str]) -> Option<String> {
    Some(match op {
        "core" => core_scenario(a),
        "pc" => pc_scenario(a),
        _ => return None,
    })
}

// ---- PeerCrypto scenarios ----------------------------------------------------------------------
use crate::crypto::{verif as hcm, verif_init as hi, Crypto, MessageResult, Payload, PeerCrypto};
use crate::error::Error;
use std::collections::HashMap;
use std::io::Read;

#[derive(Debug, PartialEq)]
pub struct VPayload(pub Vec<u8>);

impl Payload for VPayload {
    fn write_to(&self, buffer: &mut MsgBuffer) {
        let n = self.0.len();
        buffer.buffer()[..n].copy_from_slice(&self.0);
        buffer.set_length(n)
    }
    fn read_from<R: Read>(mut r: R) -> Result<Self, Error> {
        let mut data = Vec::new();
        r.read_to_end(&mut data).map_err(|_| Error::Parse("Buffer too small"))?;
        Ok(VPayload(data))
    }
}

pub fn key_seed(k: u8) -> Vec<u8> {
    (0..32).map(|i| if i == 0 { k } else { i as u8 }).collect()
}

pub fn parse_algos(spec: &str) -> (bool, Vec<(u8, f32)>) {
    let (pl, list) = spec.split_once('|').unwrap();
    let mut v = vec![];
    if !list.is_empty() && list != "-" {
        for e in list.split(',') {
            let (id, sp) = e.split_once(':').unwrap();
            v.push((num::<u8>(id), f32::from_bits(u32::from_str_radix(sp, 16).unwrap())));
        }
    }
    (pl == "p", v)
}

pub fn describe(d: &[u8]) -> String {
    if d.is_empty() {
        return ">Z".into();
    }
    if d[0] == 0xff {
        // 0xff, salt(4), keyhash(4), then TLV parts; the stage part comes first
        if d.len() > 12 && d[9] == 1 {
            return format!(">I{}", d[12]);
        }
        return ">I?".into();
    }
    format!(">D{}", d.len())
}

fn result_str(r: Result<MessageResult<VPayload>, Error>, buf: &MsgBuffer) -> String {
    match r {
        Ok(MessageResult::Message(t)) => format!("Msg{}:{}", t, hex(buf.message())),
        Ok(MessageResult::Initialized(p)) => format!("Init:{}", hex(&p.0)),
        Ok(MessageResult::InitializedWithReply(p)) => format!("InitR:{}", hex(&p.0)),
        Ok(MessageResult::Reply) => "Reply".into(),
        Ok(MessageResult::None) => "None".into(),
        Err(Error::CryptoInitFatal(_)) => "fatal".into(),
        Err(_) => "err".into(),
    }
}

fn pc_scenario(a: &[&str]) -> String {
    hi::clear_salts();
    hc::take_seal_log();
    let mut objs: HashMap<u32, PeerCrypto<VPayload>> = HashMap::new();
    let mut sent: Vec<Vec<u8>> = vec![];
    let mut meta: Vec<(u32, char)> = vec![];
    let mut out: Vec<String> = vec![];
    fn kind_of(is_send: bool, d: &[u8]) -> char {
        if d.is_empty() {
            'z'
        } else if d[0] == 0xff {
            'i'
        } else if is_send {
            'd'
        } else {
            'r'
        }
    }
    for tok in a {
        let p: Vec<&str> = tok.split('.').collect();
        let op = p[0];
        let res = std::panic::catch_unwind(std::panic::AssertUnwindSafe(|| -> String {
            match op {
                "O" => {
                    let id: u32 = num(p[1]);
                    let node: u8 = num(p[2]);
                    let salt = unhex(p[3]);
                    let key: u8 = num(p[4]);
                    let trusted: Vec<Vec<u8>> =
                        if p[5] == "-" { vec![] } else { p[5].split('+').map(|k| hcm::seed_public_key(&key_seed(num(k)))).collect() };
                    let (plain, speeds) = parse_algos(p[6]);
                    let payload = unhex(p[7]);
                    let crypto = hcm::crypto_with([node; 16], &key_seed(key), &trusted, &speeds, plain);
                    hi::push_salt([salt[0], salt[1], salt[2], salt[3]]);
                    objs.insert(id, crypto.peer_instance(VPayload(payload)));
                    "-".into()
                }
                "I" => {
                    let o = objs.get_mut(&num(p[1])).unwrap();
                    let mut buf = MsgBuffer::new(100);
                    match o.initialize(&mut buf) {
                        Ok(()) => {
                            let d = buf.message().to_vec();
                            let s = describe(&d);
                            meta.push((num(p[1]), kind_of(false, &d)));
                            sent.push(d);
                            format!("ok{}", s)
                        }
                        Err(_) => "err".into(),
                    }
                }
                "B" => {
                    // read-only: the bytes of captured datagram k (lets oracles and the model line use real lengths)
                    let k: usize = num(p[1]);
                    if k >= sent.len() {
                        "-".into()
                    } else {
                        format!("b{}", hex(&sent[k]))
                    }
                }
                "D" | "F" | "T" | "R" | "L" => {
                    let o = objs.get_mut(&num(p[1])).unwrap();
                    let data: Vec<u8> = match op {
                        "D" => {
                            let k: usize = num(p[2]);
                            if k >= sent.len() {
                                return "-".into();
                            }
                            sent[k].clone()
                        }
                        "F" => {
                            let k: usize = num(p[2]);
                            let pos: usize = num(p[3]);
                            if k >= sent.len() || pos >= sent[k].len() {
                                return "-".into();
                            }
                            let mut d = sent[k].clone();
                            d[pos] ^= 1 << num::<u32>(p[4]);
                            d
                        }
                        "T" => {
                            let k: usize = num(p[2]);
                            if k >= sent.len() {
                                return "-".into();
                            }
                            let mut d = sent[k].clone();
                            d.truncate(num(p[3]));
                            d
                        }
                        "L" => {
                            let src: u32 = num(p[2]);
                            let kind: char = p[3].chars().next().unwrap();
                            let n: usize = num(p[4]);
                            let idx: Vec<usize> = (0..sent.len()).rev().filter(|&i| meta[i] == (src, kind)).collect();
                            if n >= idx.len() {
                                return "-".into();
                            }
                            sent[idx[n]].clone()
                        }
                        _ => unhex(p[2]),
                    };
                    let mut buf = MsgBuffer::new(100);
                    buf.clone_from(&data);
                    let r = o.handle_message(&mut buf);
                    let reply = matches!(r, Ok(MessageResult::Reply) | Ok(MessageResult::InitializedWithReply(_)));
                    let mut s = result_str(r, &buf);
                    if reply {
                        let d = buf.message().to_vec();
                        s.push_str(&describe(&d));
                        meta.push((num(p[1]), kind_of(false, &d)));
                        sent.push(d);
                    }
                    s
                }
                "E" => {
                    let o = objs.get_mut(&num(p[1])).unwrap();
                    let mut buf = MsgBuffer::new(100);
                    let r = o.every_second(&mut buf);
                    let reply = matches!(r, Ok(MessageResult::Reply));
                    let mut s = result_str(r, &buf);
                    if reply {
                        let d = buf.message().to_vec();
                        s.push_str(&describe(&d));
                        meta.push((num(p[1]), kind_of(false, &d)));
                        sent.push(d);
                    }
                    s
                }
                "S" => {
                    let o = objs.get_mut(&num(p[1])).unwrap();
                    let mut buf = MsgBuffer::new(100);
                    buf.clone_from(&unhex(p[3]));
                    match o.send_message(num(p[2]), &mut buf) {
                        Ok(()) => {
                            let d = buf.message().to_vec();
                            let s = describe(&d);
                            meta.push((num(p[1]), kind_of(true, &d)));
                            sent.push(d);
                            format!("ok{}", s)
                        }
                        Err(_) => "err".into(),
                    }
                }
                "C" => {
                    // set the rotation counter so that the next every_second cycles
                    let o = objs.get_mut(&num(p[1])).unwrap();
                    hcm::pc_set_counter(o, num(p[2]));
                    "-".into()
                }
                "X" => {
                    objs.remove(&num(p[1]));
                    "-".into()
                }
                "V" => {
                    // V.<obj>.<k>.<cut>: the receive buffer first held datagram k in full (an earlier delivery), then the
                    // datagram cut to <cut> bytes is received into the SAME buffer (as the event loop reuses it)
                    let o = objs.get_mut(&num(p[1])).unwrap();
                    let k: usize = num(p[2]);
                    let cut: usize = num(p[3]);
                    if k >= sent.len() {
                        return "-".into();
                    }
                    let full = sent[k].clone();
                    let mut buf = MsgBuffer::new(100);
                    buf.clone_from(&full);
                    buf.clear();
                    buf.set_length(cut.min(full.len()));
                    let n = cut.min(full.len());
                    buf.message_mut().copy_from_slice(&full[..n]);
                    let r = o.handle_message(&mut buf);
                    let reply = matches!(r, Ok(MessageResult::Reply) | Ok(MessageResult::InitializedWithReply(_)));
                    let mut s = result_str(r, &buf);
                    if reply {
                        let d = buf.message().to_vec();
                        s.push_str(&describe(&d));
                        meta.push((num(p[1]), kind_of(false, &d)));
                        sent.push(d);
                    }
                    s
                }
                "Z" => {
                    let log = hc::take_seal_log();
                    format!("z{}", log.iter().map(|(f, n)| format!("{}/{}", hex(f), hex(n))).collect::<Vec<_>>().join(","))
                }
                "Q" => {
                    let o = objs.get(&num(p[1])).unwrap();
                    let d = hcm::pc_dump(o);
                    format!(
                        "q:init={}/{}/{}/{}/{};rot={};plain={};core={};cnt={};alg={}",
                        d.init_stage.map(|s| s.to_string()).unwrap_or("-".into()),
                        d.init_retries,
                        d.init_close,
                        d.init_has_core as u8,
                        d.init_has_ecdh as u8,
                        d.rot.map(|r| format!("{}/{}/{}/{}/{}", r.0, r.1 as u8, r.2 as u8, r.3, r.4 as u8)).unwrap_or("-".into()),
                        d.unencrypted as u8,
                        d.core.map(|c| format!("{}/{}", c.0, c.1 as u8)).unwrap_or("-".into()),
                        d.counter,
                        o.algorithm_name()
                    )
                }
                _ => panic!("bad pc op"),
            }
        }));
        out.push(match res {
            Ok(s) => s,
            Err(_) => "panic".into(),
        });
    }
    out.join(" ")
}

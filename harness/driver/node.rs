// Node-level scenarios on GenericCloud with mock socket / device / time.
//
// One line = one scenario: nodes, a harness-owned network (every datagram ever sent is kept and can be
// delivered, duplicated, mutated, re-addressed or dropped), a clock, interface frames.
use super::conn::{key_seed, parse_algos};
use super::pure::{mk_addr, table_dump};
use super::{hex, num, unhex};
use crate::cloud::GenericCloud;
use crate::config::Config;
use crate::crypto::verif as hcm;
use crate::device::{MockDevice, Type};
use crate::net::MockSocket;
use crate::payload::{Frame, Packet};
use crate::types::Mode;
use crate::util::{MockTimeSource, TimeSource};
use std::collections::{HashMap, VecDeque};
use std::net::SocketAddr;

type TapNode = GenericCloud<MockDevice, Frame, MockSocket, MockTimeSource>;
type TunNode = GenericCloud<MockDevice, Packet, MockSocket, MockTimeSource>;

enum AnyNode {
    Tap(TapNode),
    Tun(TunNode),
}

macro_rules! with_node {
    ($n:expr, $x:ident => $e:expr) => {
        match $n {
            AnyNode::Tap($x) => $e,
            AnyNode::Tun($x) => $e,
        }
    };
}

fn addr_of(i: u32) -> SocketAddr {
    format!("[::]:{}", i).parse().unwrap()
}

fn claim_str(spec: &str) -> String {
    let (b, p) = spec.split_once('/').unwrap();
    let bytes = unhex(b);
    let a = mk_addr(&bytes);
    format!("{}/{}", a, p)
}

fn kind_of(d: &[u8]) -> String {
    if d.is_empty() {
        return "Z".into();
    }
    if d[0] == 0xff {
        if d.len() >= 20 && d[9] == 1 {
            return format!("I{}.{}", d[12], hex(&d[16..20]));
        }
        return "I?".into();
    }
    format!("D{}", d.len())
}

struct World {
    nodes: HashMap<u32, AnyNode>,
    ids: HashMap<[u8; 16], u32>,
    sent: Vec<(u32, u32, Vec<u8>)>, // (src node, dst port, bytes)
    queue: VecDeque<usize>,
    alias: Vec<(u32, u32)>, // node -> public address of its port-forwarding router (no hair-pinning)
    muted: Vec<u32>,        // nodes whose datagrams are currently lost on the way out
    // (node i, port j) -> the IPv4-mapped form under which i last addressed j: a dual-stack socket shows the replies of an IPv4
    // peer as coming from that form
    forms: HashMap<(u32, u32), SocketAddr>,
}

impl World {
    fn collect(&mut self, i: u32) -> String {
        let node = self.nodes.get_mut(&i).unwrap();
        let mut out: Vec<(SocketAddr, Vec<u8>)> = vec![];
        with_node!(node, n => {
            while let Some(x) = n.v_socket().pop_outbound() {
                out.push(x);
            }
        });
        out.sort_by_key(|x| x.0.port()); // stable: keeps emission order per destination
        let mut toks = vec![];
        for (dst, data) in out {
            let v4ish = match dst {
                SocketAddr::V4(_) => true,
                SocketAddr::V6(a6) => {
                    let sg = a6.ip().segments();
                    sg[0] == 0 && sg[1] == 0 && sg[2] == 0 && sg[3] == 0 && sg[4] == 0 && sg[5] == 0xffff
                }
            };
            if v4ish {
                self.forms.insert((i, dst.port() as u32), crate::net::mapped_addr(dst));
            } else {
                self.forms.remove(&(i, dst.port() as u32));
            }
            toks.push(format!("{}:{}", dst.port(), kind_of(&data)));
            if !self.muted.contains(&i) {
                self.queue.push_back(self.sent.len());
            }
            self.sent.push((i, dst.port() as u32, data));
        }
        if toks.is_empty() {
            "-".into()
        } else {
            toks.join(",")
        }
    }

    /// where a datagram of node `from` addressed to `dst` ends up: (receiving node, source address it sees)
    fn route(&self, from: u32, dst: u32) -> Option<(u32, u32)> {
        let seen = self.alias.iter().find(|e| e.0 == from).map(|e| e.1).unwrap_or(from);
        match self.alias.iter().find(|e| e.1 == dst) {
            Some(e) => {
                if e.0 == from {
                    None
                } else {
                    Some((e.0, seen))
                }
            }
            // the private address of a node behind such a router is not reachable from outside
            None => {
                if self.alias.iter().any(|e| e.0 == dst) {
                    None
                } else {
                    Some((dst, seen))
                }
            }
        }
    }

    fn deliver(&mut self, dst: u32, src: u32, data: Vec<u8>) -> String {
        if !self.nodes.contains_key(&dst) {
            return "nodg".into();
        }
        let from = self.forms.get(&(dst, src)).copied().unwrap_or_else(|| addr_of(src));
        let node = self.nodes.get_mut(&dst).unwrap();
        let accepted = with_node!(node, n => {
            if n.v_socket().put_inbound(from, data) {
                n.v_socket_event();
                true
            } else {
                false
            }
        });
        if !accepted {
            return "nat".into();
        }
        self.collect(dst)
    }
}

fn node_scenario(a: &[&str]) -> String {
    crate::crypto::verif_init::clear_salts();
    MockTimeSource::set_time(1);
    MockSocket::set_nat(false);
    let mut w = World { nodes: HashMap::new(), ids: HashMap::new(), sent: vec![], queue: VecDeque::new(), alias: vec![], muted: vec![], forms: HashMap::new() };
    let mut out: Vec<String> = vec![];
    for tok in a {
        let p: Vec<&str> = tok.split('.').collect();
        let r = std::panic::catch_unwind(std::panic::AssertUnwindSafe(|| -> String {
            match p[0] {
                // N.<i>.<mode>.<peer_timeout>.<keepalive|->.<switch_timeout>.<claims|->.<key>.<trusted>.<algos>
                "N" => {
                    let i: u32 = num(p[1]);
                    let mut c = Config::default();
                    let (dt, mode) = match p[2] {
                        "tap-switch" => (Type::Tap, Mode::Switch),
                        "tap-hub" => (Type::Tap, Mode::Hub),
                        "tap-normal" => (Type::Tap, Mode::Normal),
                        "tun-router" => (Type::Tun, Mode::Router),
                        "tun-normal" => (Type::Tun, Mode::Normal),
                        "tun-switch" => (Type::Tun, Mode::Switch),
                        "tun-hub" => (Type::Tun, Mode::Hub),
                        "tap-router" => (Type::Tap, Mode::Router),
                        _ => panic!("mode"),
                    };
                    c.device_type = dt;
                    c.mode = mode;
                    c.peer_timeout = num(p[3]);
                    c.keepalive = if p[4] == "-" { None } else { Some(num(p[4])) };
                    c.switch_timeout = num(p[5]);
                    c.claims = if p[6] == "-" { vec![] } else { p[6].split(';').map(claim_str).collect() };
                    c.auto_claim = false;
                    c.port_forwarding = false;
                    c.listen = format!("[::]:{}", i);
                    // keys go through Crypto::new (configured as printed base-62 text): private key = the key pair's
                    // seed, trusted keys = the listed public keys, none listed = the node trusts its own key only
                    c.crypto.algorithms = vec!["plain".into()];
                    let key: u8 = num(p[7]);
                    let trusted: Vec<Vec<u8>> =
                        if p[8] == "-" { vec![] } else { p[8].split('+').map(|k| hcm::seed_public_key(&key_seed(num(k)))).collect() };
                    c.crypto.private_key = Some(crate::util::to_base62(&key_seed(key)));
                    c.crypto.trusted_keys = trusted.iter().map(|k| crate::util::to_base62(k)).collect();
                    let (plain, speeds) = parse_algos(p[9]);
                    MockSocket::set_nat(p.len() > 10 && p[10] == "nat");
                    if p.len() > 10 && p[10].starts_with("adv") {
                        // advertise_addresses: the node reports further addresses as its own (adv<j>+<k>+...)
                        c.advertise_addresses = p[10][3..].split('+').map(|a| format!("[::]:{}", a)).collect();
                    }
                    if p.len() > 10 && p[10] == "hkf" {
                        // a lasting local fault in a housekeeping step: a beacon file that cannot be read (housekeep then returns
                        // early at the beacon step on every tick)
                        c.beacon_load = Some("/nonexistent/verif-no-such-beacon-file".into());
                        c.beacon_interval = 1;
                    }
                    let node = match dt {
                        Type::Tap => {
                            let mut n = TapNode::new(&c, MockSocket::new(addr_of(i)), MockDevice::new(), None, None);
                            let id = n.v_node_id();
                            n.v_set_algorithms(&speeds, plain);
                            w.ids.insert(id, i);
                            AnyNode::Tap(n)
                        }
                        Type::Tun => {
                            let mut n = TunNode::new(&c, MockSocket::new(addr_of(i)), MockDevice::new(), None, None);
                            let id = n.v_node_id();
                            n.v_set_algorithms(&speeds, plain);
                            w.ids.insert(id, i);
                            AnyNode::Tun(n)
                        }
                    };
                    w.nodes.insert(i, node);
                    "-".into()
                }
                "T" => {
                    MockTimeSource::set_time(num(p[1]));
                    "-".into()
                }
                "C" => {
                    let i: u32 = num(p[1]);
                    let node = w.nodes.get_mut(&i).unwrap();
                    with_node!(node, n => { n.connect(addr_of(num(p[2]))).ok(); });
                    w.collect(i)
                }
                "E" => {
                    // E.<i>: node i shuts down gracefully - its last act is a CLOSE to every peer (the node itself is not used afterwards)
                    let i: u32 = num(p[1]);
                    let node = w.nodes.get_mut(&i).unwrap();
                    with_node!(node, n => n.v_close());
                    w.collect(i)
                }
                "V" => {
                    // V.<i>.<j>: node i learnt node j from a beacon, as a plain IPv4 address (the beacon path calls connect_sock directly)
                    let i: u32 = num(p[1]);
                    let node = w.nodes.get_mut(&i).unwrap();
                    with_node!(node, n => n.v_connect_sock_v4(num::<u16>(p[2])));
                    w.collect(i)
                }
                "R" => {
                    let i: u32 = num(p[1]);
                    let node = w.nodes.get_mut(&i).unwrap();
                    with_node!(node, n => n.v_add_reconnect(vec![addr_of(num(p[2]))]));
                    "-".into()
                }
                "H" => {
                    let i: u32 = num(p[1]);
                    let node = w.nodes.get_mut(&i).unwrap();
                    let ok = with_node!(node, n => n.v_housekeep());
                    let s = w.collect(i);
                    if ok {
                        s
                    } else {
                        format!("hkerr,{}", s)
                    }
                }
                "D" => {
                    let k: usize = num(p[1]);
                    if k >= w.sent.len() {
                        return "nodg".into();
                    }
                    w.queue.retain(|x| *x != k);
                    let (src, dst, data) = w.sent[k].clone();
                    match w.route(src, dst) {
                        Some((d, s)) => w.deliver(d, s, data),
                        None => "nodg".into(),
                    }
                }
                "J" | "F" | "U" => {
                    let k: usize = num(p[1]);
                    if k >= w.sent.len() {
                        return "nodg".into();
                    }
                    let mut data = w.sent[k].2.clone();
                    if p[0] == "F" {
                        let pos: usize = num(p[4]);
                        if pos >= data.len() {
                            return "nodg".into();
                        }
                        data[pos] ^= 1 << num::<u32>(p[5]);
                    }
                    // A truncation of a genuine HANDSHAKE datagram that removes only 0x00 bytes is seen by the handshake parser
                    // as the complete message again (it is handed MsgBuffer::buffer(), and the fresh receive buffer is zero
                    // filled behind the message: finding F11).  The harness says so ("zc~" prefix) because only it has the
                    // real bytes; for the model such an op is the verbatim injection of datagram k.
                    let mut zero_completed = false;
                    if p[0] == "U" {
                        let cut: usize = num(p[4]);
                        zero_completed = !data.is_empty() && data[0] == 0xff && cut > 0 && cut < data.len() && data[cut..].iter().all(|b| *b == 0);
                        data.truncate(cut);
                    }
                    let r = w.deliver(num(p[2]), num(p[3]), data);
                    if zero_completed {
                        format!("zc~{}", r)
                    } else {
                        r
                    }
                }
                "I" => {
                    // I.<k>.<dst>.<src>.<part>.<value>: captured HANDSHAKE datagram k with the two-byte length field of its
                    // <part>-th part (in wire order) set to <value>; "nodg" if k is no handshake datagram, has no such part or
                    // already carries that value
                    let k: usize = num(p[1]);
                    if k >= w.sent.len() {
                        return "nodg".into();
                    }
                    let mut data = w.sent[k].2.clone();
                    let part: usize = num(p[4]);
                    let value: u16 = num(p[5]);
                    if data.len() < 10 || data[0] != 0xff {
                        return "nodg".into();
                    }
                    let mut pos = 9; // marker byte, key salt, key hash
                    let mut idx = 0;
                    loop {
                        if pos + 3 > data.len() || data[pos] == 0 {
                            return "nodg".into();
                        }
                        let len = ((data[pos + 1] as usize) << 8) | data[pos + 2] as usize;
                        if idx == part {
                            if len == value as usize {
                                return "nodg".into();
                            }
                            data[pos + 1] = (value >> 8) as u8;
                            data[pos + 2] = value as u8;
                            break;
                        }
                        pos += 3 + len;
                        idx += 1;
                    }
                    w.deliver(num(p[2]), num(p[3]), data)
                }
                "W" => w.deliver(num(p[1]), num(p[2]), unhex(p[3])),
                "Y" => {
                    // Y.<dst>.<src>.<cipher 1|2|3>.<key id byte>.<nonce half 0|1>.<key byte>.<plaintext hex>
                    // what a party WITHOUT any key of the mesh can fabricate: a well-formed datagram sealed under a guessable key
                    // (every key byte equal), for a chosen cipher, key slot and nonce half
                    use ring::aead::{self, Aad, LessSafeKey, Nonce, UnboundKey};
                    let alg: &'static aead::Algorithm = match num::<u8>(p[3]) {
                        1 => &aead::AES_128_GCM,
                        2 => &aead::AES_256_GCM,
                        _ => &aead::CHACHA20_POLY1305,
                    };
                    let key = LessSafeKey::new(UnboundKey::new(alg, &vec![num::<u8>(p[6]); alg.key_len()]).unwrap());
                    let mut nonce = [0u8; 12];
                    nonce[0] = if p[5] == "1" { 0x80 } else { 0 };
                    nonce[11] = 1;
                    let mut data = unhex(p[7]);
                    let tag = key.seal_in_place_separate_tag(Nonce::assume_unique_for_key(nonce), Aad::empty(), &mut data).unwrap();
                    let mut dg = vec![num::<u8>(p[4])];
                    dg.extend_from_slice(&nonce[5..]);
                    dg.extend_from_slice(&data);
                    dg.extend_from_slice(tag.as_ref());
                    w.deliver(num(p[1]), num(p[2]), dg)
                }
                "L" => {
                    // L.<dst>.<src>.<kind i|d>.<n>: n-th last datagram that src sent to dst of that kind
                    let dst: u32 = num(p[1]);
                    let src: u32 = num(p[2]);
                    let want_init = p[3] == "i";
                    let n: usize = num(p[4]);
                    let idx: Vec<usize> = (0..w.sent.len())
                        .rev()
                        .filter(|&i| w.sent[i].0 == src && w.sent[i].1 == dst && (!w.sent[i].2.is_empty() && (w.sent[i].2[0] == 0xff) == want_init))
                        .collect();
                    if n >= idx.len() {
                        return "nodg".into();
                    }
                    let data = w.sent[idx[n]].2.clone();
                    w.deliver(dst, src, data)
                }
                "G" => {
                    let k: usize = num(p[1]);
                    if k >= w.sent.len() {
                        return "nodg".into();
                    }
                    format!("g{}", hex(&w.sent[k].2))
                }
                "B" => {
                    // B.<node>.<to>.<from>: loop back to <node> the latest handshake datagram it sent to address <to>, as if from <from>
                    let me: u32 = num(p[1]);
                    let to: u32 = num(p[2]);
                    let from: u32 = num(p[3]);
                    let idx = (0..w.sent.len()).rev().find(|&i| w.sent[i].0 == me && w.sent[i].1 == to && !w.sent[i].2.is_empty() && w.sent[i].2[0] == 0xff);
                    match idx {
                        None => "nodg".into(),
                        Some(i) => {
                            let data = w.sent[i].2.clone();
                            w.deliver(me, from, data)
                        }
                    }
                }
                "X" => {
                    // drop datagram k from the delivery queue
                    let k: usize = num(p[1]);
                    w.queue.retain(|x| *x != k);
                    "-".into()
                }
                "Q" => {
                    // Q.<i>.<claims ';'-separated | ->: node i's own claims from now on
                    let i: u32 = num(p[1]);
                    let cl: Vec<crate::types::Range> =
                        if p[2] == "-" { vec![] } else { p[2].split(';').map(|c| claim_str(c).parse().unwrap()).collect() };
                    let node = w.nodes.get_mut(&i).unwrap();
                    with_node!(node, n => { n.v_set_claims(cl) });
                    "-".into()
                }
                "M" => {
                    // from now on everything node i sends is lost (1) / gets through again (0)
                    let i: u32 = num(p[1]);
                    w.muted.retain(|x| *x != i);
                    if p[2] == "1" {
                        w.muted.push(i);
                    }
                    "-".into()
                }
                "K" => {
                    // node i sits behind a port-forwarding router with public address p
                    let i: u32 = num(p[1]);
                    let pa: u32 = num(p[2]);
                    w.alias.retain(|e| e.0 != i);
                    w.alias.push((i, pa));
                    "-".into()
                }
                "Z" => {
                    // lose everything in flight that node i sent (i = 0: everything)
                    let i: u32 = num(p[1]);
                    let sent = &w.sent;
                    w.queue.retain(|k| !(i == 0 || sent[*k].0 == i));
                    "-".into()
                }
                "A" => {
                    // deliver everything in flight, FIFO, until quiet (bounded)
                    let mut n = 0;
                    let mut log = vec![];
                    while let Some(k) = w.queue.pop_front() {
                        let (src0, dst0, data) = w.sent[k].clone();
                        match w.route(src0, dst0) {
                            Some((dst, src)) if w.nodes.contains_key(&dst) => {
                                let r = w.deliver(dst, src, data);
                                log.push(format!("n{}>{}", dst, r));
                            }
                            _ => log.push(format!("n{}>-", dst0)),
                        }
                        n += 1;
                        if n > 400 {
                            break;
                        }
                    }
                    format!("a{}[{}]", n, log.join("|"))
                }
                "P" => {
                    let i: u32 = num(p[1]);
                    let node = w.nodes.get_mut(&i).unwrap();
                    with_node!(node, n => {
                        n.v_device().put_inbound(unhex(p[2]));
                        n.v_device_event();
                    });
                    w.collect(i)
                }
                "O" => {
                    let i: u32 = num(p[1]);
                    let node = w.nodes.get_mut(&i).unwrap();
                    let mut v = vec![];
                    with_node!(node, n => {
                        while let Some(f) = n.v_device().pop_outbound() {
                            v.push(hex(&f));
                        }
                    });
                    if v.is_empty() {
                        "w-".into()
                    } else {
                        format!("w{}", v.join(","))
                    }
                }
                "S" => {
                    let i: u32 = num(p[1]);
                    let node = w.nodes.get(&i).unwrap();
                    with_node!(node, n => {
                        let peers: Vec<String> = n
                            .v_peers()
                            .iter()
                            .map(|d| {
                                let mut ad: Vec<u16> = d.addrs.iter().map(|a| a.port()).collect();
                                ad.sort();
                                format!(
                                    "{}:{}:{}:{}:{}:{}:{}",
                                    d.addr.port(),
                                    w.ids.get(&d.node_id).map(|x| x.to_string()).unwrap_or("?".into()),
                                    d.alg,
                                    d.timeout,
                                    d.peer_timeout,
                                    d.has_init as u8,
                                    ad.iter().map(|x| x.to_string()).collect::<Vec<_>>().join("+")
                                )
                            })
                            .collect();
                        let pend: Vec<String> = n
                            .v_pending()
                            .iter()
                            .map(|(a, d)| format!("{}:{}:{}", a.port(), d.init_stage.map(|s| s.to_string()).unwrap_or("-".into()), d.init_retries))
                            .collect();
                        let own: Vec<String> = n.v_own().iter().map(|a| a.port().to_string()).collect();
                        let (np, no) = n.v_sched();
                        let (dr, inv) = n.v_counters();
                        let rc: Vec<String> = n.v_reconnect().iter().map(|(t, to, nx)| format!("{}:{}:{}", t, to, nx)).collect();
                        format!(
                            "peers=[{}];pend=[{}];own=[{}];{};np={};no={};drop={};inv={};rc=[{}]",
                            peers.join(","),
                            pend.join(","),
                            own.join(","),
                            table_dump(n.v_table()),
                            np,
                            no,
                            dr,
                            inv,
                            rc.join(",")
                        )
                    })
                }
                _ => panic!("bad node op"),
            }
        }));
        out.push(match r {
            Ok(s) => s,
            Err(e) => {
                let msg = if let Some(s) = e.downcast_ref::<&str>() {
                    s.to_string()
                } else if let Some(s) = e.downcast_ref::<String>() {
                    s.clone()
                } else {
                    "?".into()
                };
                format!("panic:{}", msg.chars().map(|c| if c.is_whitespace() || c == ',' { '_' } else { c }).take(60).collect::<String>())
            }
        });
    }
    out.join(" ")
}

pub fn run(op: &str, a: &[&str]) -> Option<String> {
    Some(match op {
        "node" => node_scenario(a),
        "ival" => interval_op(a),
        _ => return None,
    })
}

// ---- announcement interval on a real node (C15) -------------------------------------------------
// ival <own peer timeout> <keepalive|-> <adv1,adv2,...|-> : a real node with fake established peers that
// advertise the given timeouts runs one housekeeping round; prints the delay until the next announcement
pub fn interval_op(a: &[&str]) -> String {
    MockTimeSource::set_time(1000);
    MockSocket::set_nat(false);
    let mut c = Config::default();
    c.device_type = Type::Tun;
    c.peer_timeout = num(a[0]);
    c.keepalive = if a[1] == "-" { None } else { Some(num(a[1])) };
    c.auto_claim = false;
    c.port_forwarding = false;
    c.listen = "[::]:1".into();
    c.crypto.password = Some("x".into());
    c.crypto.algorithms = vec!["plain".into()];
    let mut n = TunNode::new(&c, MockSocket::new(addr_of(1)), MockDevice::new(), None, None);
    if a[2] != "-" {
        for (i, t) in a[2].split(',').enumerate() {
            n.v_fake_peer(addr_of(100 + i as u32), num(t));
        }
    }
    let ok = n.v_housekeep();
    let (np, _) = n.v_sched();
    let mut sent = 0;
    while n.v_socket().pop_outbound().is_some() {
        sent += 1;
    }
    format!("{} {} sent={}", if ok { "ok" } else { "hkerr" }, np - 1000, sent)
}

// Node-level scenarios on GenericCloud with mock socket / device / time.
use super::{hex, num, unhex};

pub fn run(_op: &str, _a: &[&str]) -> Option<String> {
    None
}

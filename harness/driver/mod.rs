// Correspondence driver for the /verif Coq models.
//
// Compiled INTO the vpncloud binary only with `--cfg vpncloud_verif` (see MANIFEST.hooks) and only
// active when VPNCLOUD_VERIF_DRIVER=1.  It reads one case per line on stdin (`<op> <args...>`),
// runs the case on the real code inside catch_unwind and prints exactly one result line per case.
// Every case is self-contained (no state survives a line), so cases can be sharded, replayed and
// shrunk individually.
#![allow(dead_code, unused_imports, clippy::all)]

use std::{
    io::{self, BufRead, Write},
    panic::{self, AssertUnwindSafe},
};

pub mod pure;
pub mod conn;
pub mod node;
pub mod cfg;

pub fn hex(b: &[u8]) -> String {
    let mut s = String::with_capacity(b.len() * 2 + 1);
    if b.is_empty() {
        s.push('-');
    }
    for x in b {
        s.push_str(&format!("{:02x}", x));
    }
    s
}

pub fn unhex(s: &str) -> Vec<u8> {
    if s == "-" {
        return vec![];
    }
    let b = s.as_bytes();
    assert!(b.len() % 2 == 0, "odd hex");
    (0..b.len() / 2)
        .map(|i| u8::from_str_radix(std::str::from_utf8(&b[2 * i..2 * i + 2]).unwrap(), 16).unwrap())
        .collect()
}

pub fn num<T: std::str::FromStr>(s: &str) -> T
where
    T::Err: std::fmt::Debug,
{
    s.parse::<T>().unwrap()
}

struct NullLogger;
impl log::Log for NullLogger {
    fn enabled(&self, _: &log::Metadata) -> bool {
        false
    }
    fn log(&self, _: &log::Record) {}
    fn flush(&self) {}
}

fn run_line(line: &str) -> String {
    let toks: Vec<&str> = line.split_whitespace().collect();
    if toks.is_empty() {
        return "empty".to_string();
    }
    let op = toks[0];
    let a = &toks[1..];
    if let Some(r) = pure::run(op, a) {
        return r;
    }
    if let Some(r) = conn::run(op, a) {
        return r;
    }
    if let Some(r) = node::run(op, a) {
        return r;
    }
    if let Some(r) = cfg::run(op, a) {
        return r;
    }
    format!("unknown-op {}", op)
}

pub fn dispatch() -> bool {
    if std::env::var("VPNCLOUD_VERIF_DRIVER").ok().as_deref() != Some("1") {
        return false;
    }
    let _ = log::set_boxed_logger(Box::new(NullLogger));
    log::set_max_level(log::LevelFilter::Off);
    panic::set_hook(Box::new(|_| {}));
    let stdin = io::stdin();
    let stdout = io::stdout();
    let mut out = io::BufWriter::new(stdout.lock());
    for line in stdin.lock().lines() {
        let line = line.unwrap();
        let res = panic::catch_unwind(AssertUnwindSafe(|| run_line(&line)));
        match res {
            Ok(s) => writeln!(out, "{}", s).unwrap(),
            Err(e) => {
                let msg = if let Some(s) = e.downcast_ref::<&str>() {
                    s.to_string()
                } else if let Some(s) = e.downcast_ref::<String>() {
                    s.clone()
                } else {
                    "?".to_string()
                };
                let msg: String = msg.chars().map(|c| if c.is_whitespace() { '_' } else { c }).take(80).collect();
                writeln!(out, "panic {}", msg).unwrap()
            }
        }
        // one answer per line, flushed at once: the checker's watchdog attributes a hang to the case that is being processed
        out.flush().unwrap();
    }
    out.flush().unwrap();
    true
}

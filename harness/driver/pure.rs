// Stateless operations on the pure parts of vpncloud (dissectors, range matching, base-62, netmask,
// nonce counter, interval arithmetic, codecs).
use super::{hex, num, unhex};
use crate::{
    payload::{Frame, Packet, Protocol},
    types::{Address, Range},
    util::{from_base62, to_base62},
};
use std::io::Cursor;

pub fn addr_s(a: &Address) -> String {
    hex(&a.data[..a.len as usize])
}

pub fn mk_addr(b: &[u8]) -> Address {
    let mut data = [0u8; 16];
    data[..b.len()].copy_from_slice(b);
    Address { data, len: b.len() as u8 }
}

pub fn run(op: &str, a: &[&str]) -> Option<String> {
    Some(match op {
        "frame" => match Frame::parse(&unhex(a[0])) {
            Ok((s, d)) => format!("ok {} {}", addr_s(&s), addr_s(&d)),
            Err(_) => "err".into(),
        },
        "packet" => match Packet::parse(&unhex(a[0])) {
            Ok((s, d)) => format!("ok {} {}", addr_s(&s), addr_s(&d)),
            Err(_) => "err".into(),
        },
        "matches" => {
            let r = Range { base: mk_addr(&unhex(a[0])), prefix_len: num(a[1]) };
            format!("{}", r.matches(mk_addr(&unhex(a[2]))) as u8)
        }
        "nonce_inc" => hex(&crate::crypto::verif_core::nonce_increment(&unhex(a[0]))),
        "netmask" => {
            // argument is hex of the utf-8 text so that arbitrary strings can be passed
            let s = String::from_utf8(unhex(a[0])).unwrap();
            match crate::parse_ip_netmask(&s) {
                Ok((ip, mask)) => format!("ok {} {}", hex(&ip.octets()), hex(&mask.octets())),
                Err(_) => "err".into(),
            }
        }
        "b62enc" => format!("ok {}", hex(to_base62(&unhex(a[0])).as_bytes())),
        "b62dec" => {
            let s = String::from_utf8(unhex(a[0])).unwrap();
            match from_base62(&s) {
                Ok(v) => format!("ok {}", hex(&v)),
                Err(_) => "err".into(),
            }
        }
        "range_read" => match Range::read_from(Cursor::new(unhex(a[0]))) {
            Ok(r) => format!("ok {} {}", addr_s(&r.base), r.prefix_len),
            Err(_) => "err".into(),
        },
        "table" => table_scenario(a),
        "beacon_enc" | "beacon_dec" | "beacon_rt" => beacon_op(op, a),
        "keyrt" | "genkey" => key_op(op, a),
        "ni_enc" | "ni_dec" | "ni_rt" => ni_op(op, a),
        "im_parse" | "rot_dec" | "rot_enc" | "pubkey" => codec_op(op, a),
        _ => return None,
    })
}

// ---- ClaimTable scenarios --------------------------------------------------------------------
use crate::table::ClaimTable;
use crate::types::RangeList;
use crate::util::MockTimeSource;
use std::net::SocketAddr;

pub fn peer_addr(n: u16) -> SocketAddr {
    format!("[::]:{}", n).parse().unwrap()
}

pub fn parse_ranges(s: &str) -> RangeList {
    let mut l = RangeList::new();
    if s == "-" || s.is_empty() {
        return l;
    }
    for r in s.split(';') {
        let (b, p) = r.split_once('/').unwrap();
        l.push(Range { base: mk_addr(&unhex(b)), prefix_len: num(p) });
    }
    l
}

pub fn table_dump(t: &ClaimTable<MockTimeSource>) -> String {
    let (claims, cache) = crate::table::verif::dump(t);
    let c: Vec<String> = claims.iter().map(|(p, b, pl, to)| format!("{}:{}/{}@{}", p.port(), hex(b), pl, to)).collect();
    let k: Vec<String> = cache.iter().map(|(a, p, to)| format!("{}>{}@{}", hex(a), p.port(), to)).collect();
    format!("claims=[{}];cache=[{}]", c.join(","), k.join(","))
}

pub fn table_scenario(a: &[&str]) -> String {
    MockTimeSource::set_time(0);
    let mut t = ClaimTable::<MockTimeSource>::new(num(a[0]), num(a[1]));
    let mut out: Vec<String> = vec![];
    for tok in &a[2..] {
        let p: Vec<&str> = tok.split('.').collect();
        match p[0] {
            "T" => {
                MockTimeSource::set_time(num(p[1]));
                out.push("-".into())
            }
            "S" => {
                t.set_claims(peer_addr(num(p[1])), parse_ranges(p[2]));
                out.push("-".into())
            }
            "R" => {
                t.remove_claims(peer_addr(num(p[1])));
                out.push("-".into())
            }
            "L" => out.push(match t.lookup(mk_addr(&unhex(p[1]))) {
                Some(a) => format!("p{}", a.port()),
                None => "none".into(),
            }),
            "C" => {
                t.cache(mk_addr(&unhex(p[1])), peer_addr(num(p[2])));
                out.push("-".into())
            }
            "H" => {
                t.housekeep();
                out.push("-".into())
            }
            "D" => out.push(table_dump(&t)),
            _ => panic!("bad table op"),
        }
    }
    out.join(" ")
}

// ---- beacons -----------------------------------------------------------------------------------
use crate::beacon::BeaconSerializer;
use std::net::{Ipv4Addr, Ipv6Addr, SocketAddrV4, SocketAddrV6};

pub fn sockaddr_of(b: &[u8]) -> SocketAddr {
    if b.len() == 6 {
        SocketAddr::V4(SocketAddrV4::new(Ipv4Addr::new(b[0], b[1], b[2], b[3]), ((b[4] as u16) << 8) | b[5] as u16))
    } else {
        let mut ip = [0u8; 16];
        ip.copy_from_slice(&b[..16]);
        SocketAddr::V6(SocketAddrV6::new(Ipv6Addr::from(ip), ((b[16] as u16) << 8) | b[17] as u16, 0, 0))
    }
}

pub fn sockaddr_bytes(a: &SocketAddr) -> Vec<u8> {
    match a {
        SocketAddr::V4(a) => {
            let mut v = a.ip().octets().to_vec();
            v.extend_from_slice(&a.port().to_be_bytes());
            v
        }
        SocketAddr::V6(a) => {
            let mut v = a.ip().octets().to_vec();
            v.extend_from_slice(&a.port().to_be_bytes());
            v
        }
    }
}

fn peers_str(p: &[SocketAddr]) -> String {
    if p.is_empty() {
        return "-".into();
    }
    p.iter().map(|a| hex(&sockaddr_bytes(a))).collect::<Vec<_>>().join(";")
}

pub fn beacon_op(op: &str, a: &[&str]) -> String {
    let ser = BeaconSerializer::<MockTimeSource>::new(&unhex(a[0]));
    let hour: i64 = num(a[1]);
    MockTimeSource::set_time(hour * 3600 + 17);
    match op {
        "beacon_enc" => {
            let peers: Vec<SocketAddr> = if a[2] == "-" { vec![] } else { a[2].split(';').map(|x| sockaddr_of(&unhex(x))).collect() };
            format!("ok {}", hex(ser.encode(&peers).as_bytes()))
        }
        "beacon_dec" => {
            let ttl: Option<u16> = if a[2] == "none" { None } else { Some(num(a[2])) };
            let text = String::from_utf8(unhex(a[3])).unwrap();
            format!("ok {}", peers_str(&ser.decode(&text, ttl)))
        }
        "beacon_rt" => {
            // encode at hour a[1], embed (prefix a[4], suffix a[5]), decode at hour a[3] with ttl a[2]
            let peers: Vec<SocketAddr> = if a[6] == "-" { vec![] } else { a[6].split(';').map(|x| sockaddr_of(&unhex(x))).collect() };
            let b = ser.encode(&peers);
            let text = format!("{}{}{}", String::from_utf8(unhex(a[4])).unwrap(), b, String::from_utf8(unhex(a[5])).unwrap());
            let ttl: Option<u16> = if a[2] == "none" { None } else { Some(num(a[2])) };
            let now: i64 = num(a[3]);
            MockTimeSource::set_time(now * 3600 + 5);
            format!("ok {} {}", hex(b.as_bytes()), peers_str(&ser.decode(&text, ttl)))
        }
        _ => unreachable!(),
    }
}

// ---- keys (C18) -------------------------------------------------------------------------------
use crate::crypto::{verif as hcm, Config as CryptoConfig, Crypto};

pub fn key_op(op: &str, a: &[&str]) -> String {
    match op {
        // key bytes -> text -> parsed back as public key / private key / key pair
        "keyrt" => {
            let key = unhex(a[0]);
            let text = to_base62(&key);
            let as_pub = match hcm::parse_public_key(&text) {
                Ok(k) => (k.to_vec() == key) as u8,
                Err(_) => 0,
            };
            let expect_pub = hcm::seed_public_key(&key);
            let as_priv = match hcm::parse_private_key_pub(&text) {
                Ok(p) => (p == expect_pub) as u8,
                Err(_) => 0,
            };
            let as_pair = match hcm::parse_keypair_pub(&text, &to_base62(&expect_pub)) {
                Ok(p) => (p == expect_pub) as u8,
                Err(_) => 0,
            };
            // and through Crypto::new as private + trusted key
            let cfg = CryptoConfig { private_key: Some(text.clone()), trusted_keys: vec![to_base62(&expect_pub)], algorithms: vec!["plain".into()], ..Default::default() };
            let via_new = match Crypto::new([0; 16], &cfg) {
                Ok(c) => (hcm::own_public_key(&c) == expect_pub && hcm::trusted_keys(&c) == vec![expect_pub.clone()]) as u8,
                Err(_) => 0,
            };
            format!("ok {} pub={} priv={} pair={} new={}", hex(text.as_bytes()), as_pub, as_priv, as_pair, via_new)
        }
        // password -> generated pair, twice, and through Crypto::new in two instances
        "genkey" => {
            let pw = String::from_utf8(unhex(a[0])).unwrap();
            let (p1, q1) = Crypto::generate_keypair(Some(&pw));
            let (p2, q2) = Crypto::generate_keypair(Some(&pw));
            let cfg = CryptoConfig { password: Some(pw.clone()), algorithms: vec!["plain".into()], ..Default::default() };
            let c1 = Crypto::new([1; 16], &cfg).unwrap();
            let c2 = Crypto::new([2; 16], &cfg).unwrap();
            let same = (p1 == p2 && q1 == q2 && hcm::own_public_key(&c1) == hcm::own_public_key(&c2)) as u8;
            let printed_matches = (to_base62(&hcm::own_public_key(&c1)) == q1) as u8;
            let cfgk = CryptoConfig { private_key: Some(p1.clone()), public_key: Some(q1.clone()), trusted_keys: vec![q1.clone()], algorithms: vec!["plain".into()], ..Default::default() };
            let accepted = match Crypto::new([3; 16], &cfgk) {
                Ok(c) => (hcm::own_public_key(&c) == hcm::own_public_key(&c1)) as u8,
                Err(_) => 0,
            };
            let from_priv = match Crypto::public_key_from_private_key(&p1) {
                Ok(q) => (q == q1) as u8,
                Err(_) => 0,
            };
            let trusts_self = (hcm::trusted_keys(&c1) == vec![hcm::own_public_key(&c2)]) as u8;
            // the printed public key listed as a trusted key next to ANOTHER key (and twice): a node using the same password must
            // still trust that key - nodes sharing a password trust each other whatever else the list holds
            let (_, q_other) = Crypto::generate_keypair(Some(&format!("{}-another-node", pw)));
            let mut mixed = 1u8;
            for list in [vec![q1.clone(), q_other.clone()], vec![q_other.clone(), q1.clone()], vec![q1.clone(), q1.clone(), q_other.clone()]] {
                let cfgm = CryptoConfig { password: Some(pw.clone()), trusted_keys: list, algorithms: vec!["plain".into()], ..Default::default() };
                match Crypto::new([4; 16], &cfgm) {
                    Ok(c) => {
                        let t = hcm::trusted_keys(&c);
                        if !t.contains(&hcm::own_public_key(&c1)) || t.len() < 2 {
                            mixed = 0;
                        }
                    }
                    Err(_) => mixed = 0,
                }
            }
            format!("ok same={} printed={} accepted={} frompriv={} trust={} mixed={} pub={}", same, printed_matches, accepted, from_priv, trusts_self, mixed, hex(&hcm::own_public_key(&c1)))
        }
        _ => unreachable!(),
    }
}

// ---- NodeInfo codec (C16) ---------------------------------------------------------------------
use crate::messages::{NodeInfo, PeerInfo};
use crate::util::MsgBuffer;

pub fn addrs_str(l: &[SocketAddr]) -> String {
    if l.is_empty() {
        return "-".into();
    }
    l.iter().map(|a| hex(&sockaddr_bytes(a))).collect::<Vec<_>>().join(",")
}

pub fn parse_addrs(s: &str) -> Vec<SocketAddr> {
    if s == "-" || s.is_empty() {
        return vec![];
    }
    s.split(',').map(|x| sockaddr_of(&unhex(x))).collect()
}

pub fn ni_to_str(n: &NodeInfo) -> String {
    let peers = if n.peers.is_empty() {
        "-".to_string()
    } else {
        n.peers
            .iter()
            .map(|p| format!("{}:{}", p.node_id.map(|i| hex(&i)).unwrap_or("-".into()), addrs_str(&p.addrs)))
            .collect::<Vec<_>>()
            .join("/")
    };
    let claims = if n.claims.is_empty() {
        "-".to_string()
    } else {
        n.claims.iter().map(|r| format!("{}/{}", addr_s(&r.base), r.prefix_len)).collect::<Vec<_>>().join(",")
    };
    format!(
        "node={};peers={};claims={};to={};addrs={}",
        hex(&n.node_id),
        peers,
        claims,
        n.peer_timeout.map(|t| t.to_string()).unwrap_or("-".into()),
        addrs_str(&n.addrs)
    )
}

pub fn ni_from_str(s: &str) -> NodeInfo {
    let mut node_id = [0u8; 16];
    let mut peers = smallvec::SmallVec::new();
    let mut claims = RangeList::new();
    let mut peer_timeout = None;
    let mut addrs = smallvec::SmallVec::new();
    for part in s.split(';') {
        let (k, v) = part.split_once('=').unwrap();
        match k {
            "node" => node_id.copy_from_slice(&unhex(v)),
            "peers" => {
                if v != "-" {
                    for p in v.split('/') {
                        let (id, a) = p.split_once(':').unwrap();
                        let nid = if id == "-" {
                            None
                        } else {
                            let mut x = [0u8; 16];
                            x.copy_from_slice(&unhex(id));
                            Some(x)
                        };
                        peers.push(PeerInfo { node_id: nid, addrs: parse_addrs(a).into_iter().collect() });
                    }
                }
            }
            "claims" => {
                if v != "-" {
                    for c in v.split(',') {
                        let (b, p) = c.split_once('/').unwrap();
                        claims.push(Range { base: mk_addr(&unhex(b)), prefix_len: num(p) });
                    }
                }
            }
            "to" => {
                if v != "-" {
                    peer_timeout = Some(num(v))
                }
            }
            "addrs" => addrs = parse_addrs(v).into_iter().collect(),
            _ => panic!("bad ni field"),
        }
    }
    NodeInfo { node_id, peers, claims, peer_timeout, addrs }
}

pub fn ni_op(op: &str, a: &[&str]) -> String {
    match op {
        "ni_enc" => {
            let n = ni_from_str(a[0]);
            let mut buf = MsgBuffer::new(100);
            n.encode(&mut buf);
            format!("ok {}", hex(buf.message()))
        }
        "ni_dec" => match NodeInfo::decode(Cursor::new(unhex(a[0]))) {
            Ok(n) => format!("ok {}", ni_to_str(&n)),
            Err(_) => "err".into(),
        },
        // encode, append a tail (a[1]), decode
        "ni_rt" => {
            let n = ni_from_str(a[0]);
            let mut buf = MsgBuffer::new(100);
            n.encode(&mut buf);
            let mut d = buf.message().to_vec();
            d.extend_from_slice(&unhex(a[1]));
            match NodeInfo::decode(Cursor::new(d)) {
                Ok(n2) => format!("ok {} {}", hex(buf.message()), ni_to_str(&n2)),
                Err(_) => format!("err {}", hex(buf.message())),
            }
        }
        _ => unreachable!(),
    }
}

// ---- handshake / rotation message codecs (C16) ------------------------------------------------
pub fn codec_op(op: &str, a: &[&str]) -> String {
    match op {
        // im_parse <bodyhex> <sigok 0/1> <hashok 0/1> <tailhex> <truncate|-> <trusted 0/1>
        "im_parse" => {
            let body = unhex(a[0]);
            let seed = crate::verif_driver::conn::key_seed(1);
            let pk = hcm::seed_public_key(&seed);
            let mut pka = [0u8; 32];
            pka.copy_from_slice(&pk);
            let other = hcm::seed_public_key(&crate::verif_driver::conn::key_seed(2));
            let mut oka = [0u8; 32];
            oka.copy_from_slice(&other);
            let trusted: Vec<[u8; 32]> = if a[5] == "1" { vec![oka, pka] } else { vec![oka] };
            let trunc = if a[4] == "-" { None } else { Some(num::<usize>(a[4])) };
            // a[1]: 1 = genuine signature, 0 = corrupted, L<declared>.<present> = genuine bytes with a prescribed length byte,
            //       Z = the key-less forgery (identity point, zero scalar)
            let sig_len = if a[1].starts_with('L') {
                let v: Vec<&str> = a[1][1..].split('.').collect();
                Some((num::<u8>(v[0]), num::<usize>(v[1])))
            } else {
                None
            };
            // optional 7th argument: the 4-byte salt of the key hash (default 11223344)
            let key_salt = if a.len() > 6 {
                let v = unhex(a[6]);
                Some([v[0], v[1], v[2], v[3]])
            } else {
                None
            };
            let (msg, signed, sig, res) =
                crate::crypto::verif_init::build_and_parse(&body, &seed, &trusted, a[1] != "0", a[2] == "1", &unhex(a[3]), trunc, sig_len, key_salt, a[1] == "Z");
            format!("{} MSG={} SIGNED={} SIG={}", res, hex(&msg), signed, hex(&sig))
        }
        // the public key of harness key pair k (constants of the harness; pinned in py/props/c01.py)
        "pubkey" => format!("ok {}", hex(&hcm::seed_public_key(&crate::verif_driver::conn::key_seed(num(a[0]))))),
        "rot_dec" => match crate::crypto::verif_rotate::rot_decode(&unhex(a[0])) {
            Some((id, p, c)) => format!("ok {} {} {}", id, hex(&p), c.map(|c| hex(&c)).unwrap_or("none".into())),
            None => "err".into(),
        },
        "rot_enc" => {
            let c = if a[2] == "none" { None } else { Some(unhex(a[2])) };
            format!("ok {}", hex(&crate::crypto::verif_rotate::rot_encode(num(a[0]), &unhex(a[1]), c.as_deref())))
        }
        _ => unreachable!(),
    }
}

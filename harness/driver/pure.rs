// Stateless operations on the pure parts of vpncloud (dissectors, range matching, base-62, netmask,
// nonce counter, interval arithmetic, codecs).
use super::{hex, num, unhex};
use crate::{
    payload::{Frame, Packet, Protocol},
    types::{Address, Range},
    util::{from_base62, to_base62},
};
use std::io::Cursor;

pub fn addr_s(a: &Address) -> String {
    hex(&a.data[..a.len as usize])
}

pub fn mk_addr(b: &[u8]) -> Address {
    let mut data = [0u8; 16];
    data[..b.len()].copy_from_slice(b);
    Address { data, len: b.len() as u8 }
}

pub fn run(op: &str, a: &[&str]) -> Option<String> {
    Some(match op {
        "frame" => match Frame::parse(&unhex(a[0])) {
            Ok((s, d)) => format!("ok {} {}", addr_s(&s), addr_s(&d)),
            Err(_) => "err".into(),
        },
        "packet" => match Packet::parse(&unhex(a[0])) {
            Ok((s, d)) => format!("ok {} {}", addr_s(&s), addr_s(&d)),
            Err(_) => "err".into(),
        },
        "matches" => {
            let r = Range { base: mk_addr(&unhex(a[0])), prefix_len: num(a[1]) };
            format!("{}", r.matches(mk_addr(&unhex(a[2]))) as u8)
        }
        "nonce_inc" => hex(&crate::crypto::verif_core::nonce_increment(&unhex(a[0]))),
        "netmask" => {
            // argument is hex of the utf-8 text so that arbitrary strings can be passed
            let s = String::from_utf8(unhex(a[0])).unwrap();
            match crate::parse_ip_netmask(&s) {
                Ok((ip, mask)) => format!("ok {} {}", hex(&ip.octets()), hex(&mask.octets())),
                Err(_) => "err".into(),
            }
        }
        "b62enc" => format!("ok {}", hex(to_base62(&unhex(a[0])).as_bytes())),
        "b62dec" => {
            let s = String::from_utf8(unhex(a[0])).unwrap();
            match from_base62(&s) {
                Ok(v) => format!("ok {}", hex(&v)),
                Err(_) => "err".into(),
            }
        }
        "range_read" => match Range::read_from(Cursor::new(unhex(a[0]))) {
            Ok(r) => format!("ok {} {}", addr_s(&r.base), r.prefix_len),
            Err(_) => "err".into(),
        },
        _ => return None,
    })
}

// C20: configuration merging.  `cfg <file-spec> <args-spec>`: the file spec is rendered as YAML text and
// parsed with serde_yaml, the args spec as an argument vector parsed with structopt, so the glue
// around merge_file / merge_args is exercised too.  Specs are `;`-separated `key=value` items with
// numeric codes (strings are ids rendered as "s<id>"); `-` is the empty spec.
use crate::config::{Args, Config, ConfigFile};
use crate::{device::Type, types::Mode};
use std::collections::BTreeMap;
use structopt::StructOpt;

fn s(id: &str) -> String {
    format!("s{}", id)
}
/// hook scripts: every fifth id stands for a script text that itself contains colons (a URL, host:port, PATH=/a:/b)
fn hs(id: &str) -> String {
    match id.parse::<u64>() {
        Ok(n) if n % 5 == 0 => format!("s{}:p:q", id),
        _ => format!("s{}", id),
    }
}
fn items(spec: &str) -> Vec<(String, String)> {
    if spec == "-" {
        return vec![];
    }
    spec.split(';')
        .filter(|x| !x.is_empty())
        .map(|kv| {
            let p = kv.find('=').unwrap();
            (kv[..p].to_string(), kv[p + 1..].to_string())
        })
        .collect()
}
fn list(v: &str) -> Vec<String> {
    if v.is_empty() {
        vec![]
    } else {
        v.split(',').map(|x| x.to_string()).collect()
    }
}
const TYPES: [&str; 2] = ["tun", "tap"];
const MODES: [&str; 4] = ["normal", "hub", "switch", "router"];
const ALGOS: [&str; 4] = ["plain", "aes128", "aes256", "chacha20"];
fn idx(v: &str) -> usize {
    v.parse::<usize>().unwrap()
}
fn b(v: &str) -> &'static str {
    if v == "1" {
        "true"
    } else {
        "false"
    }
}

fn yaml(spec: &str) -> String {
    let mut top: Vec<String> = vec![];
    let mut sub: BTreeMap<&'static str, Vec<String>> = BTreeMap::new();
    let mut add_sub = |name: &'static str, line: Option<String>| {
        let e = sub.entry(name).or_insert_with(Vec::new);
        if let Some(l) = line {
            e.push(l);
        }
    };
    let ylist = |key: &str, v: &str, f: &dyn Fn(&str) -> String| -> String {
        let l = list(v);
        if l.is_empty() {
            format!("{}: []", key)
        } else {
            format!("{}:\n{}", key, l.iter().map(|x| format!("  - {}", f(x))).collect::<Vec<_>>().join("\n"))
        }
    };
    for (k, v) in items(spec) {
        match &k as &str {
            "device" => add_sub("device", None),
            "dtype" => add_sub("device", Some(format!("type: {}", TYPES[idx(&v)]))),
            "dname" => add_sub("device", Some(format!("name: {}", s(&v)))),
            "dpath" => add_sub("device", Some(format!("path: {}", s(&v)))),
            "dfix" => add_sub("device", Some(format!("fix-rp-filter: {}", b(&v)))),
            "beacon" => add_sub("beacon", None),
            "bstore" => add_sub("beacon", Some(format!("store: {}", s(&v)))),
            "bload" => add_sub("beacon", Some(format!("load: {}", s(&v)))),
            "bint" => add_sub("beacon", Some(format!("interval: {}", v))),
            "bpw" => add_sub("beacon", Some(format!("password: {}", s(&v)))),
            "statsd" => add_sub("statsd", None),
            "sdserver" => add_sub("statsd", Some(format!("server: {}", s(&v)))),
            "sdprefix" => add_sub("statsd", Some(format!("prefix: {}", s(&v)))),
            "pw" => add_sub("crypto", Some(format!("password: {}", s(&v)))),
            "priv" => add_sub("crypto", Some(format!("private-key: {}", s(&v)))),
            "pub" => add_sub("crypto", Some(format!("public-key: {}", s(&v)))),
            "trusted" => add_sub("crypto", Some(format!("trusted-keys: [{}]", list(&v).iter().map(|x| s(x)).collect::<Vec<_>>().join(", ")))),
            "algos" => add_sub("crypto", Some(format!("algorithms: [{}]", list(&v).iter().map(|x| ALGOS[idx(x)].to_string()).collect::<Vec<_>>().join(", ")))),
            "hooks" => {
                add_sub("hooks", None);
                for kv in list(&v) {
                    let p = kv.find(':').unwrap();
                    add_sub("hooks", Some(format!("e{}: \"{}\"", &kv[..p], hs(&kv[p + 1..]))));
                }
            }
            "ip" => top.push(format!("ip: {}", s(&v))),
            "adv" => top.push(ylist("advertise-addresses", &v, &|x| s(x))),
            "ifup" => top.push(format!("ifup: {}", s(&v))),
            "ifdown" => top.push(format!("ifdown: {}", s(&v))),
            "listen" => top.push(format!("listen: {}", s(&v))),
            "peers" => top.push(ylist("peers", &v, &|x| s(x))),
            "pt" => top.push(format!("peer-timeout: {}", v)),
            "ka" => top.push(format!("keepalive: {}", v)),
            "mode" => top.push(format!("mode: {}", MODES[idx(&v)])),
            "st" => top.push(format!("switch-timeout: {}", v)),
            "claims" => top.push(ylist("claims", &v, &|x| s(x))),
            "ac" => top.push(format!("auto-claim: {}", b(&v))),
            "pf" => top.push(format!("port-forwarding: {}", b(&v))),
            "pid" => top.push(format!("pid-file: {}", s(&v))),
            "stats" => top.push(format!("stats-file: {}", s(&v))),
            "user" => top.push(format!("user: {}", s(&v))),
            "group" => top.push(format!("group: {}", s(&v))),
            "hook" => top.push(format!("hook: {}", s(&v))),
            other => panic!("unknown file key {}", other),
        }
    }
    for (name, lines) in sub {
        if lines.is_empty() {
            top.push(format!("{}: {{}}", name));
        } else {
            top.push(format!("{}:\n{}", name, lines.iter().map(|l| format!("  {}", l)).collect::<Vec<_>>().join("\n")));
        }
    }
    if top.is_empty() {
        "{}".to_string()
    } else {
        top.join("\n") + "\n"
    }
}

fn argv(spec: &str) -> Vec<String> {
    let mut out = vec!["vpncloud".to_string()];
    let mut opt = |name: &str, val: String| {
        out.push(format!("--{}", name));
        out.push(val);
    };
    let mut flags = vec![];
    for (k, v) in items(spec) {
        match &k as &str {
            "type" => opt("type", TYPES[idx(&v)].to_string()),
            "device" => opt("device", s(&v)),
            "dpath" => opt("device-path", s(&v)),
            "fix" => flags.push("--fix-rp-filter"),
            "ip" => opt("ip", s(&v)),
            "ifup" => opt("ifup", s(&v)),
            "adv" => list(&v).iter().for_each(|x| opt("advertise_addresses", s(x))),
            "ifdown" => opt("ifdown", s(&v)),
            "listen" => opt("listen", s(&v)),
            "peers" => list(&v).iter().for_each(|x| opt("peer", s(x))),
            "pt" => opt("peer-timeout", v.clone()),
            "ka" => opt("keepalive", v.clone()),
            "bstore" => opt("beacon-store", s(&v)),
            "bload" => opt("beacon-load", s(&v)),
            "bint" => opt("beacon-interval", v.clone()),
            "bpw" => opt("beacon-password", s(&v)),
            "mode" => opt("mode", MODES[idx(&v)].to_string()),
            "st" => opt("switch-timeout", v.clone()),
            "claims" => list(&v).iter().for_each(|x| opt("claim", s(x))),
            "noac" => flags.push("--no-auto-claim"),
            "nopf" => flags.push("--no-port-forwarding"),
            "daemon" => flags.push("--daemon"),
            "pid" => opt("pid-file", s(&v)),
            "stats" => opt("stats-file", s(&v)),
            "sdserver" => opt("statsd-server", s(&v)),
            "sdprefix" => opt("statsd-prefix", s(&v)),
            "user" => opt("user", s(&v)),
            "group" => opt("group", s(&v)),
            "pw" => opt("password", s(&v)),
            "pub" => opt("public-key", s(&v)),
            "priv" => opt("private-key", s(&v)),
            "trusted" => list(&v).iter().for_each(|x| opt("trusted-key", s(x))),
            "algos" => list(&v).iter().for_each(|x| opt("algorithm", ALGOS[idx(x)].to_string())),
            // hook items: "<id>" plain, "<event>:<id>" per event
            "hook" => list(&v).iter().for_each(|x| match x.find(':') {
                Some(p) => opt("hook", format!("e{}:{}", &x[..p], hs(&x[p + 1..]))),
                None => opt("hook", s(x)),    // (a plain script with a colon would be read as EVENT:SCRIPT - the syntax is ambiguous there)
            }),
            other => panic!("unknown args key {}", other),
        }
    }
    for f in flags {
        out.push(f.to_string());
    }
    out
}

fn o(x: &Option<String>) -> String {
    x.clone().unwrap_or_else(|| "-".to_string())
}
fn on(x: &Option<u32>) -> String {
    x.map(|v| v.to_string()).unwrap_or_else(|| "-".to_string())
}
fn l(x: &[String]) -> String {
    if x.is_empty() {
        "-".to_string()
    } else {
        x.join(",")
    }
}

pub fn dump(c: &Config) -> String {
    let ty = match c.device_type {
        Type::Tun => 0,
        Type::Tap => 1,
    };
    let mode = match c.mode {
        Mode::Normal => 0,
        Mode::Hub => 1,
        Mode::Switch => 2,
        Mode::Router => 3,
    };
    let mut hooks: Vec<String> = c.hooks.iter().map(|(k, v)| format!("{}:{}", k, v)).collect();
    hooks.sort();
    let f = vec![
        format!("dtype={}", ty),
        format!("dname={}", c.device_name),
        format!("dpath={}", o(&c.device_path)),
        format!("fix={}", c.fix_rp_filter as u8),
        format!("ip={}", o(&c.ip)),
        format!("adv={}", l(&c.advertise_addresses)),
        format!("ifup={}", o(&c.ifup)),
        format!("ifdown={}", o(&c.ifdown)),
        format!("pw={}", o(&c.crypto.password)),
        format!("priv={}", o(&c.crypto.private_key)),
        format!("pub={}", o(&c.crypto.public_key)),
        format!("trusted={}", l(&c.crypto.trusted_keys)),
        format!("algos={}", l(&c.crypto.algorithms.iter().map(|a| a.to_lowercase()).collect::<Vec<_>>())),
        format!("listen={}", c.listen),
        format!("peers={}", l(&c.peers)),
        format!("pt={}", c.peer_timeout),
        format!("ka={}", on(&c.keepalive)),
        format!("bstore={}", o(&c.beacon_store)),
        format!("bload={}", o(&c.beacon_load)),
        format!("bint={}", c.beacon_interval),
        format!("bpw={}", o(&c.beacon_password)),
        format!("mode={}", mode),
        format!("st={}", c.switch_timeout),
        format!("claims={}", l(&c.claims)),
        format!("ac={}", c.auto_claim as u8),
        format!("pf={}", c.port_forwarding as u8),
        format!("daemon={}", c.daemonize as u8),
        format!("pid={}", o(&c.pid_file)),
        format!("stats={}", o(&c.stats_file)),
        format!("sdserver={}", o(&c.statsd_server)),
        format!("sdprefix={}", o(&c.statsd_prefix)),
        format!("user={}", o(&c.user)),
        format!("group={}", o(&c.group)),
        format!("hook={}", o(&c.hook)),
        format!("hooks={}", l(&hooks)),
    ];
    f.join(";")
}

pub fn run(op: &str, a: &[&str]) -> Option<String> {
    if op != "cfg" {
        return None;
    }
    std::env::remove_var("PASSWORD");
    std::env::remove_var("PRIVATE_KEY");
    let text = yaml(a[0]);
    let file = match serde_yaml::from_str::<ConfigFile>(&text) {
        Ok(f) => f,
        Err(e) => return Some(format!("fileerr {}", e.to_string().replace(char::is_whitespace, "_"))),
    };
    let args = match Args::from_iter_safe(argv(a[1])) {
        Ok(x) => x,
        Err(e) => return Some(format!("argerr {}", e.message.chars().take(60).collect::<String>().replace(char::is_whitespace, "_"))),
    };
    let mut c = Config::default();
    c.merge_file(file);
    c.merge_args(args);
    let eff = dump(&c);
    // round trip through the file form, including the YAML text
    let back = c.clone().into_config_file();
    let text2 = serde_yaml::to_string(&back).unwrap();
    let file2 = match serde_yaml::from_str::<ConfigFile>(&text2) {
        Ok(f) => f,
        Err(e) => return Some(format!("eff {} rterr {}", eff, e.to_string().replace(char::is_whitespace, "_"))),
    };
    let mut c2 = Config::default();
    c2.merge_file(file2);
    Some(format!("eff {} rt {}", eff, dump(&c2)))
}

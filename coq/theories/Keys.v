(* Model of the key text handling of Crypto (src/crypto/common.rs): generate_keypair prints keys with
   to_base62, parse_private_key / parse_public_key / parse_keypair read them back.  After the fix of
   finding F10 (decoded keys are left-padded to 32 bytes; base 62 drops leading zero bytes).
   PBKDF2 and Ed25519 are oracle functions (Section variables): kdf, pk_of. *)
From VpnModel Require Import Base Base62.

Definition pad32 (b : bytes) : res bytes :=
  if (32 <? length b)%nat then Err 1 else Ok (zeros (32 - length b) ++ b).

(* Err 1 = wrong size, Err 2 = not base 62 *)
Definition parse_key32 (text : bytes) : res bytes :=
  match from_base62 text with
  | Ok b => pad32 b
  | Err _ => Err 2
  | Panic s => Panic s
  end.

Section KeyOracles.
  Variable kdf : bytes -> bytes.      (* PBKDF2-HMAC-SHA256(password, fixed salt, 4096) -> 32 bytes *)
  Variable pk_of : bytes -> bytes.    (* Ed25519 public key of a 32-byte seed *)

  (* generate_keypair: (private text, public text) for a seed *)
  Definition print_keypair (seed : bytes) : res bytes * res bytes := (to_base62 seed, to_base62 (pk_of seed)).

  Record crypto_cfg := { cfg_password : option bytes; cfg_private : option bytes; cfg_public : option bytes;
                         cfg_trusted : list bytes }.

  (* Crypto::new key selection: (own seed, own public key, trusted keys).  Err 3 = neither given,
     Err 4 = public key does not match the private key (ring rejects the pair) *)
  Definition crypto_new (c : crypto_cfg) : res (bytes * bytes * list bytes) :=
    let own :=
      match cfg_private c with
      | Some priv =>
          match parse_key32 priv with
          | Ok seed =>
              match cfg_public c with
              | Some pub => match parse_key32 pub with
                            | Ok pk => if list_eqb pk (pk_of seed) then Ok seed else Err 4
                            | Err e => Err e | Panic s => Panic s
                            end
              | None => Ok seed
              end
          | Err e => Err e | Panic s => Panic s
          end
      | None => match cfg_password c with
                | Some pw => Ok (kdf pw)
                | None => Err 3
                end
      end in
    match own with
    | Ok seed =>
        let fix parse_all (l : list bytes) : res (list bytes) :=
          match l with
          | [] => Ok []
          | t :: r => match parse_key32 t with
                      | Ok k => match parse_all r with Ok ks => Ok (k :: ks) | Err e => Err e | Panic s => Panic s end
                      | Err e => Err e | Panic s => Panic s
                      end
          end in
        match parse_all (cfg_trusted c) with
        | Ok [] => Ok (seed, pk_of seed, [pk_of seed])
        | Ok ks => Ok (seed, pk_of seed, ks)
        | Err e => Err e | Panic s => Panic s
        end
    | Err e => Err e | Panic s => Panic s
    end.
End KeyOracles.

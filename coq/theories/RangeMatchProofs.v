From VpnModel Require Import Base RangeMatch.
From Coq Require Import ZifyBool ZifyNat ZifyN.
Ltac Zify.zify_post_hook ::= Z.div_mod_to_equations.

(* length of the longest common prefix of two bit strings *)
Fixpoint lcp (u v : list bool) : nat :=
  match u, v with
  | a :: u', b :: v' => if Bool.eqb a b then S (lcp u' v') else O
  | _, _ => O
  end.

Lemma lcp_le : forall u v, (lcp u v <= length u)%nat.
Proof. induction u as [|a u IH]; intros [|b v]; simpl; try lia. destruct (Bool.eqb a b); [specialize (IH v)|]; lia. Qed.

Lemma lcp_refl : forall u, lcp u u = length u.
Proof. induction u as [|a u IH]; simpl; [reflexivity|]. rewrite Bool.eqb_reflx, IH. reflexivity. Qed.

Lemma lcp_app_same : forall u a b, lcp (u ++ a) (u ++ b) = (length u + lcp a b)%nat.
Proof. induction u as [|x u IH]; intros a b; simpl; [reflexivity|]. rewrite Bool.eqb_reflx, IH. reflexivity. Qed.

Lemma lcp_app_diff : forall u v a b, length u = length v -> u <> v -> lcp (u ++ a) (v ++ b) = lcp u v.
Proof.
  induction u as [|x u IH]; intros [|y v] a b Hl Hne; simpl in *; try congruence; try lia.
  destruct (Bool.eqb x y) eqn:E; [|reflexivity].
  apply Bool.eqb_prop in E. subst. f_equal. apply IH; [lia|]. intros H. apply Hne. subst. reflexivity.
Qed.

(* p <= lcp u v  <->  the first p bits agree (for equally long strings, p within the length) *)
Lemma lcp_firstn : forall u v p, length u = length v ->
  (p <= lcp u v)%nat <-> ((p <= length u)%nat /\ firstn p u = firstn p v).
Proof.
  induction u as [|a u IH]; intros v p Hl; destruct v as [|b v]; simpl in Hl; try lia.
  - rewrite !firstn_nil. simpl. split; [intros H; split; [exact H|reflexivity]|intros [H _]; exact H].
  - destruct p as [|p].
    + simpl. split; intros; [split; [lia|reflexivity]|lia].
    + cbn [lcp firstn length]. destruct (Bool.eqb a b) eqn:E.
      * apply Bool.eqb_prop in E. subst. pose proof (IH v p ltac:(lia)) as [I1 I2]. split.
        -- intros H. destruct (I1 ltac:(lia)) as [H1 H2]. split; [lia|]. rewrite H2. reflexivity.
        -- intros [H1 H2]. inversion H2 as [H0]. assert (p <= lcp u v)%nat by (apply I2; split; [lia|exact H0]). lia.
      * split; [lia|]. intros [_ H]. inversion H. subst. rewrite Bool.eqb_reflx in E. discriminate.
Qed.

(* byte level facts, by a finite sweep over all 256 x 256 byte pairs lifted with forallb_forall *)
Definition range256 : list N := map N.of_nat (seq 0 256).

Lemma in_range256 : forall x, x < 256 -> In x range256.
Proof.
  intros x H. unfold range256. apply in_map_iff. exists (N.to_nat x). split; [lia|].
  apply in_seq. lia.
Qed.

Definition byte_fact (x y : N) : bool :=
  Nat.eqb (lcp (bits8 x) (bits8 y)) (N.to_nat (if N.lxor x y =? 0 then 8 else lz8 (N.lxor x y)))
  && Bool.eqb (N.lxor x y =? 0) (x =? y)
  && Bool.eqb (x =? y) (if list_eq_dec Bool.bool_dec (bits8 x) (bits8 y) then true else false).

Lemma byte_sweep : forallb (fun x => forallb (fun y => byte_fact x y) range256) range256 = true.
Proof. vm_compute. reflexivity. Qed.

Lemma byte_facts : forall x y, x < 256 -> y < 256 -> byte_fact x y = true.
Proof.
  intros x y Hx Hy. pose proof byte_sweep as H.
  rewrite forallb_forall in H. specialize (H x (in_range256 x Hx)).
  rewrite forallb_forall in H. exact (H y (in_range256 y Hy)).
Qed.

Lemma bits8_length : forall x, length (bits8 x) = 8%nat.
Proof. reflexivity. Qed.

Lemma bits_length : forall l, length (bits l) = (8 * length l)%nat.
Proof. induction l as [|x l IH]; simpl; [reflexivity|]. rewrite IH. lia. Qed.

Lemma match_len_lcp : forall a b, all_bytes a -> all_bytes b -> length a = length b ->
  match_len a b = N.of_nat (lcp (bits a) (bits b)).
Proof.
  induction a as [|x a IH]; intros [|y b] Ha Hb Hl; simpl in Hl; try lia; [reflexivity|].
  inversion Ha as [|? ? Hx Ha']; inversion Hb as [|? ? Hy Hb']; subst.
  pose proof (byte_facts x y Hx Hy) as F. unfold byte_fact in F.
  apply andb_true_iff in F. destruct F as [F F3]. apply andb_true_iff in F. destruct F as [F1 F2].
  apply Nat.eqb_eq in F1. apply Bool.eqb_prop in F2. apply Bool.eqb_prop in F3.
  cbn [match_len]. change (bits (x :: a)) with (bits8 x ++ bits a). change (bits (y :: b)) with (bits8 y ++ bits b).
  destruct (N.lxor x y =? 0) eqn:E.
  - symmetry in F2. apply N.eqb_eq in F2. subst y.
    rewrite lcp_app_same, bits8_length. rewrite (IH b Ha' Hb' ltac:(lia)). lia.
  - rewrite lcp_app_diff; [lia|reflexivity|].
    intros Heq. rewrite <- F2 in F3. destruct (list_eq_dec Bool.bool_dec (bits8 x) (bits8 y)); congruence.
Qed.

(* C11-T1: matches = "same length, prefix within the address, first prefix_len bits agree" *)
Theorem matches_spec : forall base p addr, all_bytes base -> all_bytes addr ->
  range_matches base p addr = true <->
  (length base = length addr /\ (N.to_nat p <= 8 * length addr)%nat /\
   firstn (N.to_nat p) (bits addr) = firstn (N.to_nat p) (bits base)).
Proof.
  intros base p addr Hb Ha. unfold range_matches.
  destruct (Nat.eqb (length base) (length addr)) eqn:El; cbn [negb].
  - apply Nat.eqb_eq in El.
    rewrite (match_len_lcp addr base Ha Hb ltac:(lia)).
    pose proof (lcp_firstn (bits addr) (bits base) (N.to_nat p) ltac:(rewrite !bits_length; lia)) as L.
    rewrite bits_length in L. split.
    + intros H. assert (Hp : (N.to_nat p <= lcp (bits addr) (bits base))%nat) by lia.
      apply L in Hp. tauto.
    + intros (_ & H1 & H2). assert (Hp : (N.to_nat p <= lcp (bits addr) (bits base))%nat) by (apply L; tauto). lia.
  - apply Nat.eqb_neq in El. split; [discriminate|]. intros (H & _). lia.
Qed.

Corollary overlong_never_matches : forall base p addr, all_bytes base -> all_bytes addr ->
  (8 * length addr < N.to_nat p)%nat -> range_matches base p addr = false.
Proof.
  intros base p addr Hb Ha Hp. destruct (range_matches base p addr) eqn:E; [|reflexivity].
  apply matches_spec in E; try assumption. lia.
Qed.

(* wire codec of a range *)
Lemma range_roundtrip : forall b p tail, (length b <= 16)%nat ->
  range_read (range_write (b, p) ++ tail) = Ok ((b, p), tail).
Proof.
  intros b p tail Hl. unfold range_write, range_read, addr_read, lenN. cbn [fst snd app].
  assert ((16 <? N.of_nat (length b)) = false) as -> by lia.
  rewrite Nat2N.id.
  assert (Nat.ltb (length ((b ++ [p]) ++ tail)) (length b) = false) as ->.
  { apply Nat.ltb_ge. rewrite !app_length. lia. }
  rewrite <- !app_assoc.
  rewrite firstn_app, Nat.sub_diag, firstn_all. cbn [firstn]. rewrite app_nil_r.
  rewrite skipn_app, Nat.sub_diag, skipn_all. cbn [skipn app]. reflexivity.
Qed.

From VpnModel Require Import Base Nonce Core CoreProofs.
From Coq Require Import ZifyBool ZifyNat ZifyN.
Ltac Zify.zify_post_hook ::= Z.div_mod_to_equations.

Lemma le_val_bound : forall l, all_bytes l -> le_val l < 256 ^ N.of_nat (length l).
Proof.
  induction l as [|b t IH]; intros H; [simpl; lia|].
  inversion H as [|? ? Hb Ht]; subst. specialize (IH Ht).
  cbn [le_val length]. rewrite Nat2N.inj_succ, N.pow_succ_r'. nia.
Qed.

Lemma inc_le_length : forall l, length (inc_le l) = length l.
Proof. induction l as [|b t IH]; [reflexivity|]. cbn [inc_le]. destruct (0 <? (b + 1) mod 256); cbn [length]; [reflexivity|]. rewrite IH. reflexivity. Qed.

Lemma inc_le_bytes : forall l, all_bytes l -> all_bytes (inc_le l).
Proof.
  induction l as [|b t IH]; intros H; [constructor|]. inversion H as [|? ? Hb Ht]; subst.
  cbn [inc_le]. destruct (0 <? (b + 1) mod 256).
  - constructor; [lia|exact Ht].
  - constructor; [lia|apply IH; exact Ht].
Qed.

Lemma inc_le_spec : forall l, all_bytes l -> le_val (inc_le l) = (le_val l + 1) mod 256 ^ N.of_nat (length l).
Proof.
  induction l as [|b t IH]; intros H; [simpl; reflexivity|].
  inversion H as [|? ? Hb Ht]; subst. specialize (IH Ht).
  pose proof (le_val_bound t Ht) as Bt.
  cbn [inc_le le_val length]. rewrite Nat2N.inj_succ, N.pow_succ_r'.
  set (P := 256 ^ N.of_nat (length t)) in *.
  assert (HP : 0 < P) by (unfold P; assert (256 ^ N.of_nat (length t) <> 0) by (apply N.pow_nonzero; lia); lia).
  destruct (0 <? (b + 1) mod 256) eqn:E.
  - cbn [le_val]. assert (b + 1 < 256) by lia.
    assert (E1 : (b + 1) mod 256 = b + 1) by (apply N.mod_small; lia).
    assert (E2 : (b + 256 * le_val t + 1) mod (256 * P) = b + 256 * le_val t + 1) by (apply N.mod_small; nia).
    rewrite E1, E2. lia.
  - cbn [le_val]. assert (Hb255 : b = 255) by lia. subst b. rewrite IH.
    change ((255 + 1) mod 256) with 0.
    destruct (N.eq_dec (le_val t + 1) P) as [Heq|Hne].
    + rewrite Heq, N.mod_same by lia.
      replace (255 + 256 * le_val t + 1) with (256 * P) by lia. rewrite N.mod_same by lia. lia.
    + assert (E1 : (le_val t + 1) mod P = le_val t + 1) by (apply N.mod_small; lia).
      assert (E2 : (255 + 256 * le_val t + 1) mod (256 * P) = 255 + 256 * le_val t + 1) by (apply N.mod_small; nia).
      rewrite E1, E2. lia.
Qed.

Lemma be_val_acc_app : forall l acc x, be_val_acc acc (l ++ [x]) = be_val_acc acc l * 256 + x.
Proof. induction l as [|b t IH]; intros acc x; simpl; [reflexivity|]. apply IH. Qed.

Lemma be_val_rev : forall l, be_val (rev l) = le_val l.
Proof.
  induction l as [|b t IH]; [reflexivity|]. unfold be_val in *. simpl rev. rewrite be_val_acc_app, IH. cbn [le_val]. lia.
Qed.

Lemma all_bytes_rev : forall l, all_bytes l -> all_bytes (rev l).
Proof. intros l H. unfold all_bytes in *. apply Forall_rev. exact H. Qed.

(* C04-T1: the byte loop of Nonce::increment is +1 modulo 256^len, with the carry across every byte *)
Theorem increment_spec : forall b, all_bytes b ->
  be_val (nonce_increment b) = (be_val b + 1) mod 256 ^ N.of_nat (length b).
Proof.
  intros b H. unfold nonce_increment. rewrite be_val_rev.
  rewrite inc_le_spec by (apply all_bytes_rev; exact H).
  rewrite rev_length. rewrite <- be_val_rev, rev_involutive. reflexivity.
Qed.

Lemma increment_length : forall b, length (nonce_increment b) = length b.
Proof. intros. unfold nonce_increment. rewrite rev_length, inc_le_length, rev_length. reflexivity. Qed.

Lemma increment_bytes : forall b, all_bytes b -> all_bytes (nonce_increment b).
Proof. intros b H. unfold nonce_increment. apply all_bytes_rev. apply inc_le_bytes. apply all_bytes_rev. exact H. Qed.

(* k-fold increment *)
Fixpoint inc_n (k : nat) (b : bytes) : bytes := match k with O => b | S j => nonce_increment (inc_n j b) end.

Lemma inc_n_props : forall k b, all_bytes b -> length b = 12%nat ->
  all_bytes (inc_n k b) /\ length (inc_n k b) = 12%nat /\
  (be_val b + N.of_nat k < 2 ^ 96 -> be_val (inc_n k b) = be_val b + N.of_nat k).
Proof.
  induction k as [|k IH]; intros b Hb Hl; cbn [inc_n].
  - repeat split; try assumption. intros _. lia.
  - destruct (IH b Hb Hl) as (I1 & I2 & I3). repeat split.
    + apply increment_bytes. exact I1.
    + rewrite increment_length. exact I2.
    + intros Hlt. rewrite increment_spec by exact I1. rewrite I2.
      change (256 ^ N.of_nat 12) with (2 ^ 96). rewrite I3 by lia. rewrite N.mod_small by lia. lia.
Qed.

(* value and half of a fresh counter *)
Lemma start_value : forall h r, all_bytes r -> length r = 6%nat ->
  be_val (nonce_start h r) = (if h then 2 ^ 95 else 0) + be_val r /\ be_val r < 2 ^ 48 /\
  all_bytes (nonce_start h r) /\ length (nonce_start h r) = 12%nat.
Proof.
  intros h r Hr Hl. destruct r as [|a [|b [|c [|d [|e [|f [|]]]]]]]; simpl in Hl; try lia.
  unfold all_bytes in Hr.
  repeat match goal with H : Forall _ (_ :: _) |- _ => inversion H; clear H; subst end.
  unfold nonce_start, be_val. cbn [app be_val_acc]. repeat split.
  - destruct h; lia.
  - lia.
  - repeat constructor; try lia. destruct h; lia.
Qed.

(* the top bit of the 96-bit value is the half marker (byte 0 is 0x80 or 0x00 at creation) *)
Definition in_half (h : bool) (v : N) : Prop := if h then 2 ^ 95 <= v < 2 ^ 96 else v < 2 ^ 95.

(* C04-T2: the first k seals of a slot use strictly increasing nonces, all in the slot's own half,
   for every random start value and every k below 2^95 - 2^48 *)
Theorem strict_and_own_half : forall h r k, all_bytes r -> length r = 6%nat ->
  N.of_nat k < 2 ^ 95 - 2 ^ 48 ->
  be_val (inc_n k (nonce_start h r)) = be_val (nonce_start h r) + N.of_nat k /\
  in_half h (be_val (inc_n k (nonce_start h r))).
Proof.
  intros h r k Hr Hl Hk. destruct (start_value h r Hr Hl) as (V & B & A & L).
  destruct (inc_n_props k _ A L) as (_ & _ & I). assert (Hv : be_val (inc_n k (nonce_start h r)) = be_val (nonce_start h r) + N.of_nat k).
  { apply I. rewrite V. destruct h; lia. }
  split; [exact Hv|]. rewrite Hv, V. unfold in_half. destruct h; lia.
Qed.

(* C04-T5: a counter that no longer fits the 56 transmitted bits is not what the receiver
   reconstructs, so the seal does not open (and nothing wraps onto a used value: T2) *)
Theorem overflow_undecryptable : forall n k p rhalf,
  length n = 12%nat -> (exists i, (1 <= i <= 4)%nat /\ nth_b i n <> 0) ->
  aead_open k (nonce_rebuild rhalf (nonce_wire n)) (Seal k n p) = None.
Proof.
  intros n k p rhalf Hl (i & Hi & Hnz).
  destruct (aead_open k (nonce_rebuild rhalf (nonce_wire n)) (Seal k n p)) eqn:E; [|reflexivity].
  apply aead_open_iff in E. inversion E as [Heq]. exfalso. apply Hnz.
  destruct n as [|b0 [|b1 [|b2 [|b3 [|b4 t]]]]]; simpl in Hl; try lia.
  unfold nonce_rebuild, nonce_wire in Heq. cbn [skipn app] in Heq. inversion Heq. subst.
  unfold nth_b. do 5 (destruct i as [|i]; [try lia; try reflexivity|]). lia.
Qed.

(* conversely the receiver's reconstruction equals the nonce used iff bytes 1..4 are zero and the
   half byte is the opposite of the receiver's *)
Theorem rebuild_exact : forall n (rhalf : bool), length n = 12%nat ->
  nth_b 0%nat n = (if rhalf then 0 else 128) -> nth_b 1%nat n = 0 -> nth_b 2%nat n = 0 -> nth_b 3%nat n = 0 -> nth_b 4%nat n = 0 ->
  nonce_rebuild rhalf (nonce_wire n) = n.
Proof.
  intros n rhalf Hl H0 H1 H2 H3 H4.
  destruct n as [|b0 [|b1 [|b2 [|b3 [|b4 t]]]]]; simpl in Hl; try lia.
  unfold nth_b in *. simpl in H0, H1, H2, H3, H4. subst. reflexivity.
Qed.

(* ---------------------------------------------------------------------------------------- *)
(* the transmitted 56 bits *)

Lemma inc_le_prefix : forall lo hi, Exists (fun b => b <> 255) lo -> all_bytes lo -> inc_le (lo ++ hi) = inc_le lo ++ hi.
Proof.
  induction lo as [|b t IH]; intros hi Hex Hb; [inversion Hex|].
  inversion Hb as [|? ? Hb0 Hbt]; subst. cbn [app inc_le].
  destruct (0 <? (b + 1) mod 256) eqn:E; [reflexivity|].
  assert (b = 255) by lia. subst b. cbn [app]. f_equal. apply IH; [|exact Hbt].
  inversion Hex as [? ? H|? ? H]; [congruence|exact H].
Qed.

(* a counter whose low 7 bytes are not all 0xff keeps its upper 5 bytes when incremented *)
Lemma increment_keeps_top : forall hi lo, length lo = 7%nat -> all_bytes lo -> Exists (fun b => b <> 255) lo ->
  nonce_increment (hi ++ lo) = hi ++ nonce_increment lo.
Proof.
  intros hi lo Hl Hb Hex. unfold nonce_increment. rewrite rev_app_distr.
  rewrite inc_le_prefix; [rewrite rev_app_distr, rev_involutive; reflexivity| |].
  - apply Exists_exists in Hex. destruct Hex as (x & Hin & Hx). apply Exists_exists. exists x. split; [apply in_rev in Hin; exact Hin|exact Hx].
  - apply all_bytes_rev. exact Hb.
Qed.

(* C02/C04: the nonce a sender uses equals what the receiver reconstructs, as long as the counter
   fits the 56 transmitted bits (low 7 bytes not all 0xff before the increment) *)
Theorem rebuild_after_increment : forall (hf : bool) lo, length lo = 7%nat -> all_bytes lo -> Exists (fun b => b <> 255) lo ->
  let n := (if hf then 128 else 0) :: [0; 0; 0; 0] ++ lo in
  nonce_rebuild (negb hf) (nonce_wire (nonce_increment n)) = nonce_increment n /\
  length (nonce_increment n) = 12%nat.
Proof.
  intros hf lo Hl Hb Hex n. unfold n.
  change ((if hf then 128 else 0) :: [0; 0; 0; 0] ++ lo) with ([(if hf then 128 else 0); 0; 0; 0; 0] ++ lo).
  rewrite increment_keeps_top by assumption.
  assert (Hl' : length (nonce_increment lo) = 7%nat) by (rewrite increment_length; exact Hl).
  split; [|rewrite app_length; cbn [length]; lia].
  unfold nonce_rebuild, nonce_wire. cbn [app skipn]. destruct hf; reflexivity.
Qed.

From VpnModel Require Import Base Base62.
From Coq Require Import ZifyBool ZifyNat ZifyN.
Ltac Zify.zify_post_hook ::= Z.div_mod_to_equations.

Definition digits_lt (base : N) (l : list N) : Prop := Forall (fun d => d < base) l.
(* canonical little-endian numeral: digits in range, most significant (= last) digit non-zero *)
Definition canon (base : N) (l : list N) : Prop := digits_lt base l /\ (l = [] \/ last l 0 <> 0).

Lemma pow_pos : forall b n, 0 < b -> 0 < b ^ n.
Proof. intros b n H. assert (b ^ n <> 0) by (apply N.pow_nonzero; lia). lia. Qed.

Lemma lval_bound : forall base l, 0 < base -> digits_lt base l -> lval base l < base ^ N.of_nat (length l).
Proof.
  intros base l Hb. induction l as [|d t IH]; intros H; [cbn [lval length N.of_nat]; rewrite N.pow_0_r; lia|].
  inversion H as [|? ? Hd Ht]; subst. specialize (IH Ht).
  cbn [lval length]. rewrite Nat2N.inj_succ, N.pow_succ_r'.
  set (P := base ^ N.of_nat (length t)) in *. clearbody P. nia.
Qed.

Lemma lval_app : forall base a b, lval base (a ++ b) = lval base a + base ^ N.of_nat (length a) * lval base b.
Proof.
  intros base a b. induction a as [|d t IH]; [cbn [app lval length N.of_nat]; rewrite N.pow_0_r; lia|].
  cbn [app lval length]. rewrite IH, Nat2N.inj_succ, N.pow_succ_r'. lia.
Qed.

Lemma mul_add_spec : forall base mult buf carry, 0 < base ->
  length (fst (mul_add base mult buf carry)) = length buf /\
  digits_lt base (fst (mul_add base mult buf carry)) /\
  lval base (fst (mul_add base mult buf carry)) + base ^ N.of_nat (length buf) * snd (mul_add base mult buf carry)
    = carry + mult * lval base buf.
Proof.
  intros base mult buf. induction buf as [|x t IH]; intros carry Hb.
  - cbn [mul_add fst snd lval length N.of_nat]. rewrite N.pow_0_r. split; [reflexivity|split; [constructor|lia]].
  - cbn [mul_add]. specialize (IH ((carry + x * mult) / base) Hb).
    destruct (mul_add base mult t ((carry + x * mult) / base)) as [t' c'] eqn:E. cbn [fst snd] in *.
    destruct IH as (I1 & I2 & I3). repeat split.
    + cbn [length]. rewrite I1. reflexivity.
    + constructor; [apply N.mod_lt; lia|exact I2].
    + cbn [lval length]. rewrite Nat2N.inj_succ, N.pow_succ_r'.
      pose proof (N.div_mod (carry + x * mult) base ltac:(lia)) as Hdm. nia.
Qed.

(* one multiply-add step followed by "push the carry if non-zero" *)
Definition gstep (base mult : N) (buf : list N) (carry : N) : list N :=
  let '(b, c) := mul_add base mult buf carry in if 0 <? c then b ++ [c] else b.

Lemma last_app_single : forall (l : list N) x d, last (l ++ [x]) d = x.
Proof. intros l x d. apply last_last. Qed.

Lemma canon_lower : forall base l, 1 < base -> canon base l -> l <> [] -> base ^ N.of_nat (length l - 1) <= lval base l.
Proof.
  intros base l Hb [Hd Hc] Hne. destruct Hc as [Hc|Hc]; [contradiction|].
  destruct (exists_last Hne) as (m & z & ->). rewrite last_app_single in Hc.
  rewrite lval_app, app_length. cbn [length lval]. replace (length m + 1 - 1)%nat with (length m) by lia.
  assert (0 < base ^ N.of_nat (length m)) by (apply pow_pos; lia). nia.
Qed.

Lemma last_zero_upper : forall base m, 0 < base -> digits_lt base m -> lval base (m ++ [0]) < base ^ N.of_nat (length m).
Proof. intros base m Hb Hd. rewrite lval_app. cbn [lval]. pose proof (lval_bound base m Hb Hd). lia. Qed.

Lemma gstep_spec : forall base mult buf carry,
  1 < base -> 1 <= mult <= base -> carry < mult -> canon base buf ->
  canon base (gstep base mult buf carry) /\
  lval base (gstep base mult buf carry) = carry + mult * lval base buf /\
  snd (mul_add base mult buf carry) < base /\
  (length buf <= length (gstep base mult buf carry) <= S (length buf))%nat.
Proof.
  intros base mult buf carry Hb Hm Hc [Hd Hcan].
  pose proof (mul_add_spec base mult buf carry ltac:(lia)) as (S1 & S2 & S3).
  pose proof (lval_bound base buf ltac:(lia) Hd) as Bv.
  unfold gstep. destruct (mul_add base mult buf carry) as [b c] eqn:E. cbn [fst snd] in *.
  assert (HP : 0 < base ^ N.of_nat (length buf)) by (apply pow_pos; lia).
  assert (Hcb : c < base) by nia.
  destruct (0 <? c) eqn:Ec.
  - repeat split.
    + apply Forall_app. split; [exact S2|]. constructor; [exact Hcb|constructor].
    + right. rewrite last_app_single. lia.
    + rewrite lval_app. cbn [lval]. rewrite S1. lia.
    + exact Hcb.
    + rewrite app_length. cbn [length]. lia.
    + rewrite app_length. cbn [length]. lia.
  - assert (c = 0) by lia. subst c. repeat split; try lia; try exact S2; try exact Hcb.
    destruct (list_eq_dec N.eq_dec b []) as [Hb0|Hb0]; [left; exact Hb0|]. right.
    assert (Hbuf : buf <> []) by (intros ->; destruct b; [congruence|discriminate]).
    pose proof (canon_lower base buf Hb (conj Hd Hcan) Hbuf) as Hl.
    destruct (exists_last Hb0) as (m & z & ->). rewrite last_app_single. intros ->.
    rewrite app_length in S1. cbn [length] in S1.
    assert (Hdm : digits_lt base m) by (apply Forall_app in S2; tauto).
    pose proof (last_zero_upper base m ltac:(lia) Hdm) as Hu.
    replace (length buf - 1)%nat with (length m) in Hl by lia. nia.
Qed.

(* two canonical numerals with the same value are the same list *)
Lemma canon_unique : forall base a b, 1 < base -> canon base a -> canon base b -> lval base a = lval base b -> a = b.
Proof.
  intros base a. induction a as [|x a IH]; intros b Hb Ha Hcb Hv.
  - destruct b as [|y b]; [reflexivity|]. exfalso.
    pose proof (canon_lower base (y :: b) Hb Hcb ltac:(discriminate)) as Hl. rewrite <- Hv in Hl. cbn [lval] in Hl.
    assert (0 < base ^ N.of_nat (length (y :: b) - 1)) by (apply pow_pos; lia). lia.
  - destruct b as [|y b].
    + exfalso. pose proof (canon_lower base (x :: a) Hb Ha ltac:(discriminate)) as Hl. rewrite Hv in Hl. cbn [lval] in Hl.
      assert (0 < base ^ N.of_nat (length (x :: a) - 1)) by (apply pow_pos; lia). lia.
    + destruct Ha as [Hda Hca]. destruct Hcb as [Hdb Hcb'].
      inversion Hda as [|? ? Hx Hda']; inversion Hdb as [|? ? Hy Hdb']; subst.
      cbn [lval] in Hv.
      assert (Hxy : x = y /\ lval base a = lval base b).
      { assert (Hx' : (x + base * lval base a) mod base = x) by (rewrite (N.mul_comm base), N.mod_add by lia; apply N.mod_small; lia).
        assert (Hy' : (y + base * lval base b) mod base = y) by (rewrite (N.mul_comm base), N.mod_add by lia; apply N.mod_small; lia).
        rewrite Hv in Hx'. rewrite Hx' in Hy'. subst y. split; [reflexivity|].
        assert (He : base * lval base a = base * lval base b) by lia.
        apply N.mul_cancel_l in He; [exact He|lia]. }
      destruct Hxy as [-> Hv']. f_equal. apply IH; try assumption.
      * split; [exact Hda'|]. destruct a as [|a0 a']; [left; reflexivity|]. right.
        destruct Hca as [Hca|Hca]; [discriminate|]. exact Hca.
      * split; [exact Hdb'|]. destruct b as [|b0 b']; [left; reflexivity|]. right.
        destruct Hcb' as [Hcb'|Hcb']; [discriminate|]. exact Hcb'.
Qed.

(* ---------------------------------------------------------------------------------------- *)
(* to_base62 *)

Lemma b62_step_ok : forall cap buf m, canon 62 buf -> m < 16 -> (length buf < cap)%nat ->
  b62_step cap buf m = Ok (gstep 62 16 buf m).
Proof.
  intros cap buf m Hc Hm Hcap. pose proof (gstep_spec 62 16 buf m ltac:(lia) ltac:(lia) Hm Hc) as (_ & _ & G3 & _).
  pose proof (mul_add_spec 62 16 buf m ltac:(lia)) as (S1 & _ & _).
  unfold b62_step, gstep. destruct (mul_add 62 16 buf m) as [b d]. cbn [fst snd] in *.
  assert ((d <? 62) = true) as -> by lia. cbn [negb].
  destruct (0 <? d); [|reflexivity]. assert (Nat.ltb (length b) cap = true) as -> by (apply Nat.ltb_lt; lia). reflexivity.
Qed.

(* value of a nibble string, most significant first *)
Fixpoint nib_val (acc : N) (ns : list N) : N := match ns with [] => acc | m :: t => nib_val (acc * 16 + m) t end.

Lemma b62_nibbles_spec : forall ns cap buf n,
  canon 62 buf -> Forall (fun m => m < 16) ns -> lval 62 buf < 16 ^ N.of_nat n -> (n + length ns <= cap)%nat ->
  exists b, b62_nibbles cap buf ns = Ok b /\ canon 62 b /\ lval 62 b = nib_val (lval 62 buf) ns.
Proof.
  induction ns as [|m t IH]; intros cap buf n Hc Hn Hv Hcap.
  - exists buf. split; [reflexivity|split; [exact Hc|reflexivity]].
  - inversion Hn as [|? ? Hm Ht]; subst. cbn [length] in Hcap.
    (* the buffer has at most n digits *)
    assert (Hlen : (length buf <= n)%nat).
    { destruct (list_eq_dec N.eq_dec buf []) as [->|Hne]; [simpl; lia|].
      pose proof (canon_lower 62 buf ltac:(lia) Hc Hne) as Hl.
      destruct (Nat.le_gt_cases (length buf) n) as [H|H]; [exact H|exfalso].
      assert (16 ^ N.of_nat n <= 62 ^ N.of_nat n) by (apply N.pow_le_mono_l; lia).
      assert (62 ^ N.of_nat n <= 62 ^ N.of_nat (length buf - 1)) by (apply N.pow_le_mono_r; lia).
      lia. }
    cbn [b62_nibbles]. rewrite (b62_step_ok cap buf m Hc Hm ltac:(lia)).
    pose proof (gstep_spec 62 16 buf m ltac:(lia) ltac:(lia) Hm Hc) as (G1 & G2 & _ & _).
    destruct (IH cap (gstep 62 16 buf m) (S n) G1 Ht) as (b & Hb1 & Hb2 & Hb3).
    + rewrite G2. rewrite Nat2N.inj_succ, N.pow_succ_r'. lia.
    + lia.
    + exists b. split; [exact Hb1|split; [exact Hb2|]].
      rewrite Hb3, G2. cbn [nib_val]. f_equal. lia.
Qed.

Lemma nibbles_props : forall data, all_bytes data ->
  Forall (fun m => m < 16) (nibbles data) /\ length (nibbles data) = (2 * length data)%nat /\
  forall acc, nib_val acc (nibbles data) = be_val_acc acc data.
Proof.
  induction data as [|b t IH]; intros H; [repeat split; constructor|].
  inversion H as [|? ? Hb Ht]; subst. destruct (IH Ht) as (I1 & I2 & I3).
  unfold nibbles in *. cbn [flat_map app]. repeat split.
  - constructor; [lia|]. constructor; [lia|exact I1].
  - cbn [length]. rewrite I2. lia.
  - intros acc. cbn [nib_val be_val_acc]. rewrite I3. f_equal. lia.
Qed.

(* C17-T1 / C18: to_base62 never panics and yields the canonical base-62 numeral of the big-endian value *)
Theorem to_base62_spec : forall data, all_bytes data ->
  exists ds, to_base62_digits data = Ok ds /\ canon 62 (rev ds) /\ lval 62 (rev ds) = be_val data.
Proof.
  intros data H. destruct (nibbles_props data H) as (N1 & N2 & N3).
  destruct (b62_nibbles_spec (nibbles data) (2 * length data) [] 0) as (b & Hb1 & Hb2 & Hb3).
  - split; [constructor|left; reflexivity].
  - exact N1.
  - simpl. lia.
  - lia.
  - exists (rev b). unfold to_base62_digits. rewrite Hb1. rewrite rev_involutive. split; [reflexivity|split; [exact Hb2|]].
    rewrite Hb3. cbn [lval]. rewrite N3. reflexivity.
Qed.

(* ---------------------------------------------------------------------------------------- *)
(* from_base62 *)

Lemma from_step_gstep : forall buf v, canon 256 buf -> v < 62 -> from_step buf v = gstep 256 62 buf v.
Proof.
  intros buf v Hc Hv. pose proof (gstep_spec 256 62 buf v ltac:(lia) ltac:(lia) Hv Hc) as (_ & _ & G3 & _).
  unfold from_step, gstep. destruct (mul_add 256 62 buf v) as [b c]. cbn [snd] in G3.
  destruct (0 <? c); [|reflexivity]. rewrite N.mod_small by exact G3. reflexivity.
Qed.

Lemma from_fold_spec : forall ds buf, canon 256 buf -> Forall (fun d => d < 62) ds ->
  canon 256 (fold_left from_step ds buf) /\
  lval 256 (fold_left from_step ds buf) = val_acc 62 (lval 256 buf) ds.
Proof.
  induction ds as [|d t IH]; intros buf Hc Hd; [split; [exact Hc|reflexivity]|].
  inversion Hd as [|? ? Hd1 Ht]; subst. cbn [fold_left val_acc].
  rewrite (from_step_gstep buf d Hc Hd1).
  pose proof (gstep_spec 256 62 buf d ltac:(lia) ltac:(lia) Hd1 Hc) as (G1 & G2 & _ & _).
  destruct (IH _ G1 Ht) as [I1 I2]. split; [exact I1|]. rewrite I2, G2. f_equal. lia.
Qed.

Lemma val_acc_rev : forall base l acc, val_acc base acc l = lval base (rev l) + base ^ N.of_nat (length l) * acc.
Proof.
  intros base l. induction l as [|d t IH]; intros acc; [cbn [val_acc rev lval length N.of_nat]; rewrite N.pow_0_r; lia|].
  cbn [val_acc rev length]. rewrite IH, lval_app, rev_length. cbn [lval]. rewrite Nat2N.inj_succ, N.pow_succ_r'.
  set (P := base ^ N.of_nat (length t)). clearbody P. lia.
Qed.

Lemma be_val_lval : forall l, be_val l = lval 256 (rev l).
Proof.
  intros l. unfold be_val.
  assert (H : forall acc, be_val_acc acc l = lval 256 (rev l) + 256 ^ N.of_nat (length l) * acc).
  { induction l as [|b t IH]; intros acc; [cbn [be_val_acc rev lval length N.of_nat]; rewrite N.pow_0_r; lia|].
    cbn [be_val_acc rev length]. rewrite IH, lval_app, rev_length. cbn [lval]. rewrite Nat2N.inj_succ, N.pow_succ_r'.
    set (P := 256 ^ N.of_nat (length t)). clearbody P. lia. }
  rewrite H. lia.
Qed.

Theorem from_base62_spec : forall ds, Forall (fun d => d < 62) ds ->
  canon 256 (rev (from_base62_digits ds)) /\ be_val (from_base62_digits ds) = lval 62 (rev ds).
Proof.
  intros ds H. unfold from_base62_digits. rewrite rev_involutive.
  destruct (from_fold_spec ds [] (conj (Forall_nil _) (or_introl eq_refl)) H) as [F1 F2].
  split; [exact F1|]. rewrite be_val_lval, rev_involutive, F2, val_acc_rev. cbn [lval]. lia.
Qed.

(* strip0 is the canonical form of a big-endian byte string *)
Lemma strip0_spec : forall l, all_bytes l -> canon 256 (rev (strip0 l)) /\ be_val (strip0 l) = be_val l /\
  (length (strip0 l) <= length l)%nat.
Proof.
  induction l as [|b t IH]; intros H.
  - simpl. repeat split; [constructor|left; reflexivity|lia].
  - inversion H as [|? ? Hb Ht]; subst. destruct (IH Ht) as (I1 & I2 & I3).
    cbn [strip0]. destruct b as [|p].
    + repeat split; [destruct I1; assumption|destruct I1; assumption| |cbn [length]; lia].
      rewrite I2. unfold be_val. cbn [be_val_acc]. reflexivity.
    + repeat split; [| |cbn [length]; lia].
      * cbn [rev]. apply Forall_app. split; [apply Forall_rev; exact Ht|constructor; [exact Hb|constructor]].
      * right. cbn [rev]. rewrite last_app_single. discriminate.
Qed.

Lemma strip0_spec_len : forall l, (length (strip0 l) <= length l)%nat.
Proof. induction l as [|b t IH]; [simpl; lia|]. cbn [strip0]. destruct b; cbn [length]; lia. Qed.

Lemma char_roundtrip : forall d, d < 62 -> b62_val (b62_char d) = Some d.
Proof.
  intros d H. unfold b62_char, b62_val.
  destruct (d <? 10) eqn:E1.
  - assert ((48 <=? 48 + d) && (48 + d <=? 57) = true) as -> by lia. f_equal. lia.
  - destruct (d <? 36) eqn:E2.
    + assert ((48 <=? 65 + (d - 10)) && (65 + (d - 10) <=? 57) = false) as -> by lia.
      assert ((65 <=? 65 + (d - 10)) && (65 + (d - 10) <=? 90) = true) as -> by lia. f_equal. lia.
    + assert ((48 <=? 97 + (d - 36)) && (97 + (d - 36) <=? 57) = false) as -> by lia.
      assert ((65 <=? 97 + (d - 36)) && (97 + (d - 36) <=? 90) = false) as -> by lia.
      assert ((97 <=? 97 + (d - 36)) && (97 + (d - 36) <=? 122) = true) as -> by lia. f_equal. lia.
Qed.

Lemma chars_vals_map : forall ds, Forall (fun d => d < 62) ds -> chars_vals (map b62_char ds) = Some ds.
Proof.
  induction ds as [|d t IH]; intros H; [reflexivity|]. inversion H as [|? ? Hd Ht]; subst.
  cbn [map chars_vals]. rewrite (char_roundtrip d Hd), (IH Ht). reflexivity.
Qed.

(* C17-T1: decoding the text of a byte string yields the string without its leading zero bytes *)
Theorem base62_roundtrip : forall data, all_bytes data ->
  exists s, to_base62 data = Ok s /\ from_base62 s = Ok (strip0 data).
Proof.
  intros data H. destruct (to_base62_spec data H) as (ds & T1 & T2 & T3).
  exists (map b62_char ds). unfold to_base62. rewrite T1. split; [reflexivity|].
  assert (Hds : Forall (fun d => d < 62) ds).
  { destruct T2 as [T2 _]. apply Forall_rev in T2. rewrite rev_involutive in T2. exact T2. }
  unfold from_base62. rewrite (chars_vals_map ds Hds). f_equal.
  destruct (from_base62_spec ds Hds) as [F1 F2]. destruct (strip0_spec data H) as (S1 & S2 & _).
  assert (Heq : rev (from_base62_digits ds) = rev (strip0 data)).
  { apply (canon_unique 256); try assumption; [lia|]. rewrite <- !be_val_lval. rewrite F2, T3, S2. reflexivity. }
  rewrite <- (rev_involutive (from_base62_digits ds)), Heq, rev_involutive. reflexivity.
Qed.

(* a byte string survives the text round trip exactly iff it has no leading zero byte *)
Corollary base62_roundtrip_exact : forall data, all_bytes data -> nth_b 0%nat data <> 0 ->
  exists s, to_base62 data = Ok s /\ from_base62 s = Ok data.
Proof.
  intros data H Hnz. destruct (base62_roundtrip data H) as (s & H1 & H2). exists s. split; [exact H1|].
  rewrite H2. destruct data as [|b t]; [reflexivity|]. unfold nth_b in Hnz. cbn in Hnz. destruct b; [contradiction|reflexivity].
Qed.

Theorem to_base62_no_panic : forall data, all_bytes data -> is_ok (to_base62 data) = true.
Proof. intros data H. destruct (base62_roundtrip data H) as (s & H1 & _). rewrite H1. reflexivity. Qed.

Theorem from_base62_total : forall s, is_panic (from_base62 s) = false.
Proof. intros s. unfold from_base62. destruct (chars_vals s); reflexivity. Qed.

(* C10 / C02 at node level: a frame read from the interface of one node comes out of the interface of the
   selected peer, byte-identical and exactly once. *)
From VpnModel Require Import Base Nonce Replay Core CoreProofs Conn PeerCrypto SealProofs NodeInfo Table Node NodeProofs.

Definition in_sync (cA cB : core) : Prop :=
  wf_core cA /\ wf_core cB /\
  s_key (get_slot cB (current cA)) = s_key (get_slot cA (current cA)) /\
  nonce_rebuild (half cB) (nonce_wire (nonce_increment (s_send (get_slot cA (current cA))))) =
    nonce_increment (s_send (get_slot cA (current cA))) /\
  accepts (s_win (get_slot cB (current cA))) (be_val (nonce_increment (s_send (get_slot cA (current cA))))) = true.

Lemma pc_seal_ok : forall p c ty body, pc_plain p = false -> pc_core p = Some c ->
  exists p', pc_seal p ty body = (p', Ok (WData (snd (core_encrypt c (ty :: body))))).
Proof.
  intros p c ty body Hp Hc. unfold pc_seal. rewrite Hp, Hc. destruct (core_encrypt c (ty :: body)) as [c' dg]. eexists. reflexivity.
Qed.

Theorem unicast_end_to_end : forall salts now now' nA nB frame s d s' d' addrA addrB pdA pdB cA cB tA',
  parse_frame (n_cfg nA) frame = Ok (s, d) ->
  table_lookup (n_table nA) now d = (Some addrB, tA') ->
  aget (n_peers nA) addrB = Some pdA -> pc_plain (p_crypto pdA) = false -> pc_core (p_crypto pdA) = Some cA ->
  aget (n_peers nB) addrA = Some pdB -> aget (n_pending nB) addrA = None ->
  pc_plain (p_crypto pdB) = false -> pc_core (p_crypto pdB) = Some cB ->
  in_sync cA cB ->
  parse_frame (n_cfg nB) frame = Ok (s', d') ->
  exists w, snd (handle_iface salts now nA frame) = [XSend addrB w] /\
            snd (handle_net salts now' nB addrA w) = [XWrite frame].
Proof.
  intros salts now now' nA nB frame s d s' d' addrA addrB pdA pdB cA cB tA' HpA Hlk HaA HplA HcA HaB HpendB HplB HcB (WA & WB & Hk & Hn & Hw) HpB.
  destruct (pc_seal_ok (p_crypto pdA) cA MESSAGE_TYPE_DATA frame HplA HcA) as [pA' Hs].
  exists (WData (snd (core_encrypt cA (MESSAGE_TYPE_DATA :: frame)))). split.
  - unfold handle_iface. rewrite HpA, Hlk. unfold send_data. cbn [upd n_peers]. rewrite HaA. unfold pc_send. rewrite Hs. reflexivity.
  - assert (Hrt : snd (fst (pc_handle payload_ok (p_crypto pdB) (WData (snd (core_encrypt cA (MESSAGE_TYPE_DATA :: frame)))))) = Ok (MMessage MESSAGE_TYPE_DATA frame)).
    { exact (pc_roundtrip payload_ok (p_crypto pdA) (p_crypto pdB) cA cB MESSAGE_TYPE_DATA frame pA' _ HplA HplB HcA HcB WA WB Hk Hn Hw eq_refl Hs). }
    unfold handle_net. cbn [is_init_wire orb]. unfold ahas. rewrite HaB. cbn [negb].
    destruct (pc_handle payload_ok (p_crypto pdB) (WData (snd (core_encrypt cA (MESSAGE_TYPE_DATA :: frame))))) as [[pc' r] reply].
    cbn [fst snd] in Hrt. subst r. cbn [handle_result]. change (MESSAGE_TYPE_DATA =? MESSAGE_TYPE_DATA) with true. cbn iota.
    cbn [upd n_cfg]. rewrite HpB. destruct (c_learning (n_cfg nB)); reflexivity.
Qed.

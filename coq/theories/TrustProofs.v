(* C01: peers come only from handshake messages that verified under a trusted key. *)
From VpnModel Require Import Base Nonce Replay Core Conn PeerCrypto NodeInfo Table Node NodeProofs InitProofs.

Definition is_initialized (r : msg_result) : bool :=
  match r with MInitialized _ | MInitializedWithReply _ => true | _ => false end.

Lemma untrusted_rejected : forall ok s m, existsb (N.eqb (im_signer m)) (i_trusted s) = false ->
  handle_init ok s m = (s, Err 1, None).
Proof. intros ok s m H. unfold handle_init. rewrite H. reflexivity. Qed.

Lemma success_needs_trust : forall ok s m p ini, snd (fst (handle_init ok s m)) = Ok (ISuccess p ini) ->
  existsb (N.eqb (im_signer m)) (i_trusted s) = true.
Proof.
  intros ok s m p ini H. destruct (existsb (N.eqb (im_signer m)) (i_trusted s)) eqn:E; [reflexivity|].
  rewrite untrusted_rejected in H by exact E. discriminate.
Qed.

Ltac crunch H :=
  repeat (match type of H with
          | context [match ?x with _ => _ end] => destruct x eqn:?
          | context [if ?x then _ else _] => destruct x eqn:?
          end; try discriminate);
  try (inversion H; subst; clear H); try discriminate.

Lemma pc_initialized_needs_trust : forall ok p w p' r rep, pc_handle ok p w = (p', Ok r, rep) -> is_initialized r = true ->
  exists i m, w = WInit m /\ pc_init p = Some i /\ existsb (N.eqb (im_signer m)) (i_trusted i) = true.
Proof.
  intros ok p w p' r rep H Hr. destruct w as [m| | |d|b].
  - cbn [pc_handle] in H. unfold pc_handle_init in H. destruct (pc_init p) as [i|] eqn:Ei; [|discriminate].
    exists i, m. split; [reflexivity|]. split; [reflexivity|].
    destruct (handle_init ok i m) as [[i' r0] reply] eqn:Eh.
    destruct r0 as [[|payload ini]|e|s]; try discriminate.
    + inversion H; subst. discriminate.
    + apply (success_needs_trust ok i m payload ini). rewrite Eh. reflexivity.
  - exfalso. cbn [pc_handle] in H. destruct (pc_init p); discriminate.
  - discriminate.
  - exfalso. cbn [pc_handle] in H. crunch H; discriminate.
  - exfalso. cbn [pc_handle] in H. crunch H; discriminate.
Qed.

(* ---- node level ---- *)
Lemma ahas_aset : forall (A:Type) (l : list (N * A)) k v a, ahas (aset l k v) a = (a =? k) || ahas l a.
Proof.
  intros A l k v a. unfold ahas. destruct (a =? k) eqn:E.
  - apply N.eqb_eq in E. subst. rewrite aget_aset_same. reflexivity.
  - apply N.eqb_neq in E. rewrite aget_aset_other by congruence. reflexivity.
Qed.

Lemma ahas_adel : forall (A:Type) (l : list (N * A)) k a, ahas (adel l k) a = true -> ahas l a = true.
Proof.
  intros A l k a H. unfold ahas in *. destruct (N.eq_dec a k) as [->|Hne].
  - rewrite aget_adel_same in H. discriminate.
  - rewrite aget_adel_other in H by congruence. exact H.
Qed.

Lemma connect_peers : forall salts n addrs, n_peers (fst (connect salts n addrs)) = n_peers n.
Proof.
  intros salts n addrs. unfold connect. destruct (existsb _ addrs); [reflexivity|].
  assert (G : forall l acc, n_peers (fst (fold_left (fun acc a => let '(m, fx) := acc in let '(m', fx') := connect_sock salts m a in (m', fx ++ fx')) l acc)) = n_peers (fst acc)).
  { induction l as [|a t IH]; intros [m fx]; [reflexivity|]. cbn [fold_left].
    destruct (connect_sock salts m a) as [m' fx'] eqn:E. rewrite IH. cbn [fst].
    pose proof (connect_sock_peers salts m a) as [Hp _]. rewrite E in Hp. exact Hp. }
  apply G.
Qed.

Lemma connect_to_peers_peers : forall salts ps n, n_peers (fst (connect_to_peers salts n ps)) = n_peers n.
Proof.
  intros salts ps n. unfold connect_to_peers.
  set (f := fun (acc : node * list effect) (p : peer_info) => _).
  assert (G : forall l acc, n_peers (fst (fold_left f l acc)) = n_peers (fst acc)).
  { induction l as [|p t IH]; intros [m fx]; [reflexivity|]. cbn [fold_left]. rewrite IH. unfold f. cbn [fst].
    destruct (existsb _ (map addr_of_bytes (pi_addrs p))); [reflexivity|].
    destruct (pi_node p) as [id|].
    - destruct (list_eqb id _); [reflexivity|]. destruct (existsb _ (n_peers m)); [reflexivity|].
      destruct (connect salts m _) as [m' fx'] eqn:E. cbn [fst]. pose proof (connect_peers salts m (map addr_of_bytes (pi_addrs p))) as Hc. rewrite E in Hc. exact Hc.
    - destruct (connect salts m _) as [m' fx'] eqn:E. cbn [fst]. pose proof (connect_peers salts m (map addr_of_bytes (pi_addrs p))) as Hc. rewrite E in Hc. exact Hc. }
  apply G.
Qed.

Lemma update_peer_info_has : forall salts now n addr info a,
  ahas (n_peers (fst (update_peer_info salts now n addr info))) a = ahas (n_peers n) a.
Proof.
  intros salts now n addr info a. unfold update_peer_info. destruct (aget (n_peers n) addr) as [pd|] eqn:E; [|reflexivity].
  assert (Hk : forall v, ahas (aset (n_peers n) addr v) a = ahas (n_peers n) a).
  { intro v. rewrite ahas_aset. destruct (a =? addr) eqn:Ea; [|reflexivity]. apply N.eqb_eq in Ea. subst. unfold ahas. rewrite E. reflexivity. }
  destruct info as [i|]; [|cbn [fst upd n_peers]; apply Hk].
  rewrite connect_to_peers_peers. cbn [upd n_peers]. apply Hk.
Qed.

Lemma add_new_peer_has : forall salts now n addr info a,
  ahas (n_peers (fst (add_new_peer salts now n addr info))) a = true -> ahas (n_peers n) a = true \/ a = addr.
Proof.
  intros salts now n addr info a H. unfold add_new_peer in H. destruct (aget (n_pending n) addr); [|left; exact H].
  rewrite update_peer_info_has in H. cbn [upd n_peers] in H. rewrite ahas_aset in H.
  destruct (a =? addr) eqn:E; [right; apply N.eqb_eq; exact E|left; exact H].
Qed.

Lemma handle_result_has : forall salts now n src r reply a,
  ahas (n_peers (fst (handle_result salts now n src r reply))) a = true ->
  ahas (n_peers n) a = true \/ (a = src /\ is_initialized r = true).
Proof.
  intros salts now n src r reply a H. destruct r as [ty body|p|p| |]; cbn [handle_result] in H.
  - left. destruct (ty =? MESSAGE_TYPE_DATA).
    { destruct (parse_frame (n_cfg n) body) as [[s d]|e|s]; [|exact H|exact H]. destruct (c_learning (n_cfg n)); exact H. }
    destruct (ty =? MESSAGE_TYPE_NODE_INFO).
    { destruct (ni_decode body); [rewrite update_peer_info_has in H; exact H|exact H|exact H]. }
    destruct (ty =? MESSAGE_TYPE_KEEPALIVE); [rewrite update_peer_info_has in H; exact H|].
    destruct (ty =? MESSAGE_TYPE_CLOSE); [|exact H].
    cbn [fst] in H. unfold remove_peer in H. destruct (aget (n_peers n) src); [|exact H]. cbn [upd n_peers] in H. apply ahas_adel in H. exact H.
  - destruct (ni_decode p) as [info|e|s]; [|left; exact H|left; exact H].
    apply add_new_peer_has in H. destruct H as [H|H]; [left; exact H|right; split; [exact H|reflexivity]].
  - destruct (ni_decode p) as [info|e|s]; [|left; exact H|left; exact H].
    destruct (add_new_peer salts now n src info) as [n1 fx] eqn:E. cbn [fst] in H.
    assert (H' : ahas (n_peers (fst (add_new_peer salts now n src info))) a = true) by (rewrite E; exact H).
    apply add_new_peer_has in H'. destruct H' as [H'|H']; [left; exact H'|right; split; [exact H'|reflexivity]].
  - left. exact H.
  - left. exact H.
Qed.

(* the handshake object that answered: the pending one, the established peer's, or a new one *)
Definition answering_object (salts : list (N * N)) (n : node) (src : N) (pc : peer_crypto) : Prop :=
  aget (n_pending n) src = Some pc \/
  (exists pd, aget (n_peers n) src = Some pd /\ pc = p_crypto pd) \/
  pc = snd (new_instance n (salt_for salts (c_num (n_cfg n)) src)).

Theorem peer_creation_needs_trust : forall salts now n src w a,
  ahas (n_peers n) a = false -> ahas (n_peers (fst (handle_net salts now n src w))) a = true ->
  a = src /\ exists pc i m, answering_object salts n src pc /\ w = WInit m /\ pc_init pc = Some i /\
                            existsb (N.eqb (im_signer m)) (i_trusted i) = true.
Proof.
  intros salts now n src w a Hno H. unfold handle_net in H.
  assert (K : forall n1 pc pc' r reply, answering_object salts n src pc -> pc_handle payload_ok pc w = (pc', Ok r, reply) ->
              ahas (n_peers n1) a = false ->
              ahas (n_peers (fst (handle_result salts now n1 src r reply))) a = true ->
              a = src /\ exists pc i m, answering_object salts n src pc /\ w = WInit m /\ pc_init pc = Some i /\
                            existsb (N.eqb (im_signer m)) (i_trusted i) = true).
  { intros n1 pc pc' r reply Ho Hh Hn1 Hr. apply handle_result_has in Hr. destruct Hr as [Hr|[Ha Hi]]; [congruence|].
    split; [exact Ha|]. destruct (pc_initialized_needs_trust _ _ _ _ _ _ Hh Hi) as (i & m & Hw & Hpi & Ht).
    exists pc, i, m. repeat split; assumption. }
  destruct (if is_init_wire w || negb (ahas (n_peers n) src) then aget (n_pending n) src else None) as [pc|] eqn:Ep.
  - assert (Hpend : aget (n_pending n) src = Some pc) by (destruct (is_init_wire w || negb (ahas (n_peers n) src)); [exact Ep|discriminate]).
    destruct (pc_handle payload_ok pc w) as [[pc' r] reply] eqn:Eh. destruct r as [res|c|s].
    + eapply K; [left; exact Hpend|exact Eh| |exact H]. cbn [upd n_peers]. exact Hno.
    + exfalso. destruct (c =? 2); cbn [fst upd with_invalid n_peers] in H; congruence.
    + exfalso. cbn [fst upd n_peers] in H. congruence.
  - destruct (is_init_wire w) eqn:Ew.
    + destruct (match aget (n_peers n) src with Some pd => if pc_has_init (p_crypto pd) then Some pd else None | None => None end) as [pd|] eqn:Epd.
      * assert (Hpd : aget (n_peers n) src = Some pd).
        { destruct (aget (n_peers n) src) as [pd0|]; [|discriminate]. destruct (pc_has_init (p_crypto pd0)); [exact Epd|discriminate]. }
        destruct (pc_handle payload_ok (p_crypto pd) w) as [[pc' r] reply] eqn:Eh.
        assert (Hn1 : forall v, ahas (aset (n_peers n) src v) a = false).
        { intro v. rewrite ahas_aset. destruct (a =? src) eqn:Ea; [|exact Hno]. apply N.eqb_eq in Ea. subst. unfold ahas in Hno. rewrite Hpd in Hno. discriminate. }
        destruct r as [res|c|s].
        -- eapply K; [right; left; exists pd; split; [exact Hpd|reflexivity]|exact Eh| |exact H]. cbn [upd n_peers]. apply Hn1.
        -- exfalso. cbn [fst with_invalid upd n_peers] in H. rewrite Hn1 in H. discriminate.
        -- exfalso. cbn [fst upd n_peers] in H. rewrite Hn1 in H. discriminate.
      * destruct (new_instance n (salt_for salts (c_num (n_cfg n)) src)) as [n0 pc] eqn:En.
        assert (Hn0 : n_peers n0 = n_peers n) by (unfold new_instance in En; inversion En; reflexivity).
        destruct (pc_handle payload_ok pc w) as [[pc' r] reply] eqn:Eh. destruct r as [res|c|s].
        -- eapply K; [right; right; rewrite En; reflexivity|exact Eh| |exact H]. cbn [upd n_peers]. rewrite Hn0. exact Hno.
        -- exfalso. cbn [fst with_invalid n_peers] in H. rewrite Hn0 in H. congruence.
        -- exfalso. cbn [fst] in H. rewrite Hn0 in H. congruence.
    + destruct (aget (n_peers n) src) as [pd|] eqn:Hpd.
      * destruct (pc_handle payload_ok (p_crypto pd) w) as [[pc' r] reply] eqn:Eh.
        assert (Hn1 : forall v, ahas (aset (n_peers n) src v) a = false).
        { intro v. rewrite ahas_aset. destruct (a =? src) eqn:Ea; [|exact Hno]. apply N.eqb_eq in Ea. subst. unfold ahas in Hno. rewrite Hpd in Hno. discriminate. }
        destruct r as [res|c|s].
        -- eapply K; [right; left; exists pd; split; [exact Hpd|reflexivity]|exact Eh| |exact H]. cbn [upd n_peers]. apply Hn1.
        -- exfalso. cbn [fst with_invalid upd n_peers] in H. rewrite Hn1 in H. discriminate.
        -- exfalso. cbn [fst upd n_peers] in H. rewrite Hn1 in H. discriminate.
      * exfalso. cbn [fst with_invalid n_peers] in H. congruence.
Qed.

(* the objects a node creates carry exactly the configured trusted keys *)
Lemma new_instance_trust : forall n salt i, pc_init (snd (new_instance n salt)) = Some i -> i_trusted i = eff_trusted (n_cfg n).
Proof. intros n salt i H. unfold new_instance, pc_new in H. cbn in H. inversion H. reflexivity. Qed.

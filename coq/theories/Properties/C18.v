(* C18 — Generated and password-derived keys are always usable and deterministic.
   Pinned statements only.  PBKDF2 (kdf) and Ed25519 public-key derivation (pk_of) are oracle
   functions; the only facts assumed about them are their output lengths. *)
From VpnModel Require Import Base Base62 Base62Proofs Keys KeysProofs.

(* T1: every 32-byte key printed by key generation is accepted when configured and denotes the same
   bytes — including keys with leading zero bytes (finding F10, repaired) *)
Theorem C18_accept_generated : forall key, all_bytes key -> length key = 32%nat ->
  exists text, to_base62 key = Ok text /\ parse_key32 text = Ok key.
Proof. exact accept_generated. Qed.

Theorem C18_parse_total : forall text, is_panic (parse_key32 text) = false.
Proof. exact parse_key32_total. Qed.

Theorem C18_parse_len : forall text k, parse_key32 text = Ok k -> length k = 32%nat.
Proof. exact parse_key32_len. Qed.

(* T2: password -> key pair is a function; the printed pair, configured as private (+ public, +
   trusted) key, selects exactly that pair; a private key alone yields its matching public key *)
Theorem C18_password_keys : forall kdf pk_of pw,
  crypto_new kdf pk_of {| cfg_password := Some pw; cfg_private := None; cfg_public := None; cfg_trusted := [] |}
  = Ok (kdf pw, pk_of (kdf pw), [pk_of (kdf pw)]).
Proof. exact password_keys. Qed.

Theorem C18_printed_pair_accepted : forall (kdf pk_of : bytes -> bytes),
  (forall s, length (pk_of s) = 32%nat /\ all_bytes (pk_of s)) ->
  forall seed, all_bytes seed -> length seed = 32%nat ->
  exists tpriv tpub,
    print_keypair pk_of seed = (Ok tpriv, Ok tpub) /\
    crypto_new kdf pk_of {| cfg_password := None; cfg_private := Some tpriv; cfg_public := Some tpub; cfg_trusted := [tpub] |}
      = Ok (seed, pk_of seed, [pk_of seed]) /\
    crypto_new kdf pk_of {| cfg_password := None; cfg_private := Some tpriv; cfg_public := None; cfg_trusted := [] |}
      = Ok (seed, pk_of seed, [pk_of seed]).
Proof. exact printed_pair_accepted. Qed.

(* T3: password-only nodes trust each other iff their derived public keys are equal *)
Theorem C18_password_trust : forall kdf pk_of p1 p2 s1 k1 t1 s2 k2 t2,
  crypto_new kdf pk_of {| cfg_password := Some p1; cfg_private := None; cfg_public := None; cfg_trusted := [] |} = Ok (s1, k1, t1) ->
  crypto_new kdf pk_of {| cfg_password := Some p2; cfg_private := None; cfg_public := None; cfg_trusted := [] |} = Ok (s2, k2, t2) ->
  (In k2 t1 <-> k1 = k2) /\ (In k1 t2 <-> k1 = k2).
Proof. exact password_trust. Qed.

Example C18_ex_leading_zero :
  let key := 0 :: 0 :: map N.of_nat (seq 1 30) in
  match to_base62 key with Ok t => parse_key32 t = Ok key | _ => False end.
Proof. vm_compute. reflexivity. Qed.

Print Assumptions C18_accept_generated.
Print Assumptions C18_parse_total.
Print Assumptions C18_parse_len.
Print Assumptions C18_password_keys.
Print Assumptions C18_printed_pair_accepted.
Print Assumptions C18_password_trust.

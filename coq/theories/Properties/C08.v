(* C08 — No datagram from an outsider can crash a node.
   Pinned statements only.  Datagrams of a sender without a trusted key reach the model as the wire
   values WBadInit (init marker, signature does not verify: random bytes, edits of genuine
   messages), WEmpty, WData (DShort n) (too short for header and tag) and WData (DG _ _ Junk _)
   (not a genuine seal under any key the node holds): `unverifiable`.  The byte-level decoders that
   classify a datagram are total functions in the model (C16) and are run against the real parser
   for every length 0..80 and every first byte in every receiver state (py/props/c08.py); a panic
   of the real code shows up there as a `panic` result line the model does not produce. *)
From VpnModel Require Import Base Core CoreProofs Conn PeerCrypto NodeInfo Table Node NodeProofs Dissect DissectProofs InitProofs InvProofs TrustProofs NextHopProofs NoPanicProofs.

(* at every stage of a connection object: ordinary error (never the Panic result), object unchanged, no reply *)
Theorem C08_object_drops : forall ok p w, unverifiable w -> pc_plain p = false ->
  pc_handle ok p w = (p, Err 1, None).
Proof. exact pc_handle_unverifiable. Qed.

(* node level, any source (unknown, pending, established): peers, pending handshakes, own addresses, table, schedule unchanged and nothing emitted *)
Theorem C08_node_no_residue : forall salts now n src w, unverifiable w -> all_encrypted n ->
  same_state n (fst (handle_net salts now n src w)) /\ snd (handle_net salts now n src w) = [].
Proof. exact unverifiable_no_residue. Qed.

(* and so for every sequence of such datagrams *)
Theorem C08_node_sequence : forall salts now l n, Forall (fun x => unverifiable (snd x)) l -> all_encrypted n ->
  same_state n (fst (inject_all salts now n l)) /\ snd (inject_all salts now n l) = [].
Proof. exact unverifiable_sequence. Qed.

(* for EVERY wire value - replays of genuine handshake messages included - a connection object whose handshake state satisfies the invariant (waiting for a pong implies still holding the ECDH key) never reaches the unwrap of a consumed key *)
Theorem C08_no_consumed_key_unwrap : forall ok p w, pinv p -> snd (fst (pc_handle ok p w)) <> Panic 11.
Proof. exact pc_no_panic11. Qed.

(* that invariant survives every outcome that is neither fatal nor a panic *)
Theorem C08_invariant_preserved : forall ok p w, pinv p ->
  pfatal (snd (fst (pc_handle ok p w))) = false -> panics (snd (fst (pc_handle ok p w))) = false ->
  pinv (fst (fst (pc_handle ok p w))).
Proof. exact pinv_preserved. Qed.

(* (the same at the level of the handshake state machine) *)
Theorem C08_invariant_preserved_init : forall ok s m, ecdh_inv s ->
  fatal (snd (fst (handle_init ok s m))) = false -> panics (snd (fst (handle_init ok s m))) = false ->
  ecdh_inv (fst (fst (handle_init ok s m))).
Proof. exact ecdh_inv_preserved. Qed.

(* new connection objects satisfy it *)
Theorem C08_invariant_new : forall node salt payload key trusted al fresh rnd, pinv (pc_new node salt payload key trusted al fresh rnd).
Proof. exact pinv_new. Qed.

(* and the cooperating site at node level: a fatal handshake error from a pending object removes that object in the same step, so a state that violates the invariant never survives (a change that makes the pong decryption error non-fatal breaks exactly this pair) *)
Theorem C08_fatal_object_deleted : forall salts now n src w pc,
  aget (n_pending n) src = Some pc -> (is_init_wire w || negb (ahas (n_peers n) src)) = true ->
  snd (fst (pc_handle payload_ok pc w)) = Err 2 ->
  aget (n_pending (fst (handle_net salts now n src w))) src = None.
Proof. exact pending_fatal_deleted. Qed.

(* the datagram decryption path has no panic result for any datagram (after the fixes of F1 and F2) *)
Theorem C08_core_never_panics : forall c d, is_panic (snd (core_decrypt c d)) = false.
Proof. exact decrypt_never_panics. Qed.

(* a datagram that is not a genuine seal leaves the crypto core untouched *)
Theorem C08_core_junk : forall c d,
  match d with DShort _ => True | DG _ _ Junk _ => True | _ => False end ->
  exists e, core_decrypt c d = (c, Err e).
Proof. exact core_decrypt_junk. Qed.

(* WHOLE RUNS: as long as everything that ever arrived was well-formed - wf_wire: ECDH public keys of 32 bytes, sealed messages non-empty; unverifiable bytes are (C08_outsider_is_wellformed), and so are verbatim replays of what honest nodes sent - the next datagram, from ANY source and handled by whichever connection or handshake object answers for that source, does not panic: no unwrap of a consumed key, no failed key agreement, no empty-buffer assertion, no index past an empty message.  Invariant QP of every node step: pending handshake objects keep their ECDH key while they wait for a pong (a fatal error deletes them in the same step), the handshake objects of established peers have completed and stay so *)
Theorem C08_reachable_no_panic : forall salts c t0 evs src w pc, Forall (fun te => wf_event (snd te)) evs -> wf_wire w ->
  answering_object salts (nrun salts (node_new c t0) evs) src pc ->
  panics (snd (fst (pc_handle payload_ok pc w))) = false.
Proof. exact reachable_no_panic. Qed.

(* what a party without keys can fabricate is well-formed in that sense *)
Theorem C08_outsider_is_wellformed : forall w, unverifiable w -> wf_wire w.
Proof. exact unverifiable_wf. Qed.

(* and the per-second housekeeping of a connection object has no panic result at all *)
Theorem C08_housekeeping_never_panics : forall p, panics (snd (fst (pc_every_second p))) = false.
Proof. exact every_second_never_panics. Qed.

(* Ethernet dissection never panics *)
Theorem C08_frame_never_panics : forall d, is_panic (frame_parse d) = false.
Proof. exact frame_no_panic. Qed.

(* IP dissection never panics *)
Theorem C08_packet_never_panics : forall d, is_panic (packet_parse d) = false.
Proof. exact packet_no_panic. Qed.

Example C08_ex : unverifiable (WData (DG 200 [0;0;0;0;0;0;1] Junk 40)) /\ unverifiable (WData (DShort 0)).
Proof. split; exact I. Qed.

(* the two handshake messages that lead to the example state of NextHopProofs are well-formed: the premise of C08_reachable_no_panic is satisfiable by a real exchange *)
Example C08_ex_wf : Forall (fun te => wf_event (snd te)) ex_evs.
Proof. exact ex_wf. Qed.

Print Assumptions C08_object_drops.
Print Assumptions C08_node_no_residue.
Print Assumptions C08_node_sequence.
Print Assumptions C08_no_consumed_key_unwrap.
Print Assumptions C08_invariant_preserved.
Print Assumptions C08_invariant_preserved_init.
Print Assumptions C08_invariant_new.
Print Assumptions C08_fatal_object_deleted.
Print Assumptions C08_core_never_panics.
Print Assumptions C08_core_junk.
Print Assumptions C08_reachable_no_panic.
Print Assumptions C08_outsider_is_wellformed.
Print Assumptions C08_housekeeping_never_panics.
Print Assumptions C08_frame_never_panics.
Print Assumptions C08_packet_never_panics.

(* C02 — Payload travels sealed: confidential, tamper-evident, delivered byte-identical.
   Pinned statements only.  The AEAD is the ideal one of the model (Core.v: Seal k n p opens only
   under the same key and nonce, every altered ciphertext/tag is Junk); that ring's ciphers realise
   it is the cryptographic assumption of the trusted base, and the correspondence check runs the
   real ciphers on the same flips, truncations, reflections and cross-injections.
   PARTIAL: "cleartext never appears on the wire" is a statement about the real cipher output; the
   theorem below shows every emitted datagram is a seal of the payload, the byte-level absence of
   the cleartext is checked on the real datagrams by py/props/c02.py. *)
From VpnModel Require Import Base Nonce NonceProofs Replay Core CoreProofs Conn PeerCrypto SealProofs Table Node NodeProofs EndToEndProofs NextHopProofs SealedWireProofs.

(* what one end seals the other end opens byte-identical (same key under the key id, nonce reconstructible, window admits) *)
Theorem C02_core_roundtrip : forall c1 c2 p, wf_core c1 -> wf_core c2 ->
  s_key (get_slot c2 (current c1)) = s_key (get_slot c1 (current c1)) ->
  let n' := nonce_increment (s_send (get_slot c1 (current c1))) in
  nonce_rebuild (half c2) (nonce_wire n') = n' ->
  accepts (s_win (get_slot c2 (current c1))) (be_val n') = true ->
  snd (core_decrypt c2 (snd (core_encrypt c1 p))) = Ok p.
Proof. exact core_roundtrip. Qed.

(* the nonce premise holds for every counter that fits the 56 transmitted bits, the receiver being the opposite half *)
Theorem C02_nonce_reconstructed : forall (hf : bool) lo, length lo = 7%nat -> all_bytes lo -> Exists (fun b => b <> 255) lo ->
  let n := (if hf then 128 else 0) :: [0; 0; 0; 0] ++ lo in
  nonce_rebuild (negb hf) (nonce_wire (nonce_increment n)) = nonce_increment n /\
  length (nonce_increment n) = 12%nat.
Proof. exact rebuild_after_increment. Qed.

(* unless plain, everything PeerCrypto sends is a datagram produced by the core seal *)
Theorem C02_pc_sealed : forall p ty body p' w, pc_plain p = false -> pc_seal p ty body = (p', Ok w) ->
  exists c, pc_core p = Some c /\ w = WData (snd (core_encrypt c (ty :: body))) /\
            pc_core p' = Some (fst (core_encrypt c (ty :: body))).
Proof. exact pc_seal_sealed. Qed.

(* and that datagram is key id, 7 counter bytes and the AEAD seal of (type :: body) under the current key *)
Theorem C02_wire_shape : forall c pl, exists keyid ctr7 k n j,
  snd (core_encrypt c pl) = DG keyid ctr7 (Seal k n pl) j /\ k = s_key (get_slot c (current c)).
Proof. exact sealed_wire_shape. Qed.

(* end to end at the PeerCrypto level: the receiver reports exactly the type and bytes sent *)
Theorem C02_pc_roundtrip : forall ok p1 p2 c1 c2 ty body p1' w, pc_plain p1 = false -> pc_plain p2 = false ->
  pc_core p1 = Some c1 -> pc_core p2 = Some c2 -> wf_core c1 -> wf_core c2 ->
  s_key (get_slot c2 (current c1)) = s_key (get_slot c1 (current c1)) ->
  let n' := nonce_increment (s_send (get_slot c1 (current c1))) in
  nonce_rebuild (half c2) (nonce_wire n') = n' ->
  accepts (s_win (get_slot c2 (current c1))) (be_val n') = true ->
  (ty =? MESSAGE_TYPE_ROTATION) = false ->
  pc_seal p1 ty body = (p1', Ok w) ->
  snd (fst (pc_handle ok p2 w)) = Ok (MMessage ty body).
Proof. exact pc_roundtrip. Qed.

(* node to node: the receiving node hands to its interface exactly the bytes the sending node read from its interface *)
Theorem C02_node_end_to_end : forall salts now now' nA nB frame s d s' d' addrA addrB pdA pdB cA cB tA',
  parse_frame (n_cfg nA) frame = Ok (s, d) ->
  table_lookup (n_table nA) now d = (Some addrB, tA') ->
  aget (n_peers nA) addrB = Some pdA -> pc_plain (p_crypto pdA) = false -> pc_core (p_crypto pdA) = Some cA ->
  aget (n_peers nB) addrA = Some pdB -> aget (n_pending nB) addrA = None ->
  pc_plain (p_crypto pdB) = false -> pc_core (p_crypto pdB) = Some cB ->
  in_sync cA cB ->
  parse_frame (n_cfg nB) frame = Ok (s', d') ->
  exists w, snd (handle_iface salts now nA frame) = [XSend addrB w] /\
            snd (handle_net salts now' nB addrA w) = [XWrite frame].
Proof. exact unicast_end_to_end. Qed.

(* the node writes to its interface exactly the body of a DATA message, or nothing *)
Theorem C02_interface_gets_body : forall salts now n src body reply,
  snd (handle_result salts now n src (MMessage MESSAGE_TYPE_DATA body) reply) = [XWrite body] \/
  snd (handle_result salts now n src (MMessage MESSAGE_TYPE_DATA body) reply) = [].
Proof. exact data_no_relay. Qed.

(* a datagram opens iff key id in range, genuine seal under the slot key and reconstructed nonce, window admits *)
Theorem C02_open_iff : forall c keyid ctr7 x j p, wf_core c ->
  snd (core_decrypt c (DG keyid ctr7 x j)) = Ok p <->
  (keyid < 4 /\ x = Seal (s_key (get_slot c keyid)) (nonce_rebuild (half c) ctr7) p /\
   accepts (s_win (get_slot c keyid)) (be_val (nonce_rebuild (half c) ctr7)) = true).
Proof. exact decrypt_ok_iff. Qed.

(* reflected back to its own sender: never opens (own half never reconstructed) *)
Theorem C02_reflected : forall c p, wf_core c ->
  nth_b 0%nat (nonce_increment (s_send (get_slot c (current c)))) = (if half c then 128 else 0) ->
  is_ok (snd (core_decrypt (fst (core_encrypt c p)) (snd (core_encrypt c p)))) = false.
Proof. exact reflected_never_opens. Qed.

(* sealed for a different connection (different key): never opens *)
Theorem C02_foreign : forall c keyid ctr7 k nn p j, wf_core c -> keyid < 4 ->
  k <> s_key (get_slot c keyid) -> is_ok (snd (core_decrypt c (DG keyid ctr7 (Seal k nn p) j))) = false.
Proof. exact foreign_key_never_opens. Qed.

(* any bit flip in ciphertext or tag: never opens *)
Theorem C02_altered : forall c d pos bit, (8 <= pos)%nat ->
  is_ok (snd (core_decrypt c (dgram_flip d pos bit))) = false.
Proof. exact altered_never_opens. Qed.

(* truncated: never opens *)
Theorem C02_truncated : forall c d len, (len < dgram_len d)%nat -> is_ok (snd (core_decrypt c (dgram_truncate d len))) = false.
Proof. exact truncated_never_opens. Qed.

(* a datagram that does not open is an ordinary error with no reply *)
Theorem C02_rejected_silently : forall ok p c d, pc_plain p = false -> pc_core p = Some c ->
  is_ok (snd (core_decrypt c d)) = false ->
  snd (fst (pc_handle ok p (WData d))) = Err 1 /\ snd (pc_handle ok p (WData d)) = None.
Proof. exact pc_reject_silent. Qed.

(* and leaves the crypto core untouched *)
Theorem C02_rejected_unchanged : forall c d, is_ok (snd (core_decrypt c d)) = false -> fst (core_decrypt c d) = c.
Proof. exact decrypt_fail_unchanged. Qed.

(* NODE, every reachable state: a node whose configuration does not allow the plain algorithm never emits an unencrypted message, never puts its node information (addresses, claims, peer list) into a handshake message unsealed, and never holds an unencrypted connection - for every sequence of events (datagrams of any content from any source, interface reads, housekeeping, dials), at any times, with any handshake salts.  Invariant NE of every node step: each connection and handshake object keeps plain = false; a handshake object that is to answer with a payload already holds the negotiated cipher (IE), because select_algorithm cannot answer plain unless the own configuration allows it *)
Theorem C02_no_cleartext_ever : forall salts c t0 evs, a_plain (c_algos c) = false ->
  (forall dst w, In (XSend dst w) (nrun_fx salts (node_new c t0) evs) ->
     match w with
     | WPlain _ => False                                             (* never an unencrypted message *)
     | WInit m => match im_payload m with Some (PPlain _) => False | _ => True end   (* node information in a handshake message: absent or sealed *)
     | _ => True
     end) /\
  (forall a pd, aget (n_peers (nrun salts (node_new c t0) evs)) a = Some pd -> pc_plain (p_crypto pd) = false).
Proof. exact no_cleartext_ever. Qed.

(* header flips (key id, counter) are covered by C02_open_iff: the key id selects another slot (other
   key or none), a counter flip changes the reconstructed nonce, so the seal no longer matches *)
Example C02_ex_roundtrip :
  let k := 7 in let r := [1;2;3;4;5;6] in
  let a := core_new k 99 true r r r r in
  let b := core_new k 98 false r r r r in
  snd (core_decrypt b (snd (core_encrypt a [9;9;9]))) = Ok [9;9;9] /\
  is_ok (snd (core_decrypt a (snd (core_encrypt a [9;9;9])))) = false.
Proof. vm_compute. split; reflexivity. Qed.

(* the example node of NextHopProofs (plain not allowed) emits a handshake message with a sealed payload: C02_no_cleartext_ever is not vacuous *)
Example C02_ex_sealed_payload : a_plain (c_algos cB) = false /\
  existsb (fun e => match e with XSend _ (WInit m) => match im_payload m with Some (PSealed _) => true | _ => false end | _ => false end)
          (nrun_fx salts (node_new cB 1) ex_evs) = true.
Proof. exact ex_sealed_payload. Qed.

Print Assumptions C02_core_roundtrip.
Print Assumptions C02_nonce_reconstructed.
Print Assumptions C02_pc_sealed.
Print Assumptions C02_wire_shape.
Print Assumptions C02_pc_roundtrip.
Print Assumptions C02_node_end_to_end.
Print Assumptions C02_interface_gets_body.
Print Assumptions C02_open_iff.
Print Assumptions C02_reflected.
Print Assumptions C02_foreign.
Print Assumptions C02_altered.
Print Assumptions C02_truncated.
Print Assumptions C02_rejected_silently.
Print Assumptions C02_rejected_unchanged.
Print Assumptions C02_no_cleartext_ever.

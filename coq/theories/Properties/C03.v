(* C03 — Replay window: a captured datagram dies within two housekeeping ticks.
   Pinned statements only.  Counters are >= 1 (a sender increments before its first seal; the
   all-zero nonce is never produced), which is the `pos_hist` premise. *)
From VpnModel Require Import Base Nonce Replay ReplayProofs Core CoreProofs Conn PeerCrypto NodeInfo Table Node TickProofs NextHopProofs TickPeersProofs PcInvariant CoreWfProofs.

(* T1: for every history of deliveries and ticks the three-register window accepts exactly the
   deliveries the history-only reference accepts: counter greater than every counter accepted
   before the tick preceding the most recent tick (ghost sets g2/g1/g0 of Replay.v). *)
Theorem C03_accept_iff : forall h, pos_hist h -> fst (run win0 h) = fst (ref_run ghost0 h).
Proof. exact accept_iff_history. Qed.

(* the same from every state related to a history summary, with the relation preserved: this is the
   induction that T1 is an instance of *)
Theorem C03_invariant : forall h w g, Inv w g -> pos_hist h ->
  fst (run w h) = fst (ref_run g h) /\ Inv (snd (run w h)) (snd (ref_run g h)).
Proof. exact run_agrees. Qed.

(* T2: something at least as new accepted, then two ticks: rejected from then on, whatever follows *)
Theorem C03_dies_in_two_ticks : forall h m n rest,
  pos_hist h -> 1 <= m -> n <= m -> accepts (after h) m = true -> pos_hist rest ->
  accepts (snd (run (after (h ++ [Deliver m; Tick; Tick])) rest)) n = false.
Proof. exact dies_in_two_ticks. Qed.

(* T3: newer than everything seen is always accepted *)
Theorem C03_newest_always : forall h n, pos_hist h -> seen (after h) < n -> accepts (after h) n = true.
Proof. exact newest_accepted. Qed.

(* lift to CryptoCore: a datagram opens iff key id in range, genuine seal under the slot's key and the
   reconstructed nonce, and the slot's window accepts the counter *)
Theorem C03_core_decrypt_iff : forall c keyid ctr7 x j p, wf_core c ->
  snd (core_decrypt c (DG keyid ctr7 x j)) = Ok p <->
  (keyid < 4 /\ x = Seal (s_key (get_slot c keyid)) (nonce_rebuild (half c) ctr7) p /\
   accepts (s_win (get_slot c keyid)) (be_val (nonce_rebuild (half c) ctr7)) = true).
Proof. exact decrypt_ok_iff. Qed.

Theorem C03_core_window_moves : forall c keyid ctr7 x j p, wf_core c ->
  snd (core_decrypt c (DG keyid ctr7 x j)) = Ok p ->
  let c' := fst (core_decrypt c (DG keyid ctr7 x j)) in
  s_win (get_slot c' keyid) = snd (deliver (s_win (get_slot c keyid)) (be_val (nonce_rebuild (half c) ctr7))) /\
  (forall i, i <> keyid -> i < 4 -> get_slot c' i = get_slot c i) /\
  s_key (get_slot c' keyid) = s_key (get_slot c keyid) /\ s_send (get_slot c' keyid) = s_send (get_slot c keyid) /\
  current c' = current c /\ half c' = half c.
Proof. exact decrypt_ok_window. Qed.

Theorem C03_core_reject_unchanged : forall c d, is_ok (snd (core_decrypt c d)) = false -> fst (core_decrypt c d) = c.
Proof. exact decrypt_fail_unchanged. Qed.

(* every_second ticks every slot exactly once; rotate_key starts a fresh window *)
Theorem C03_core_tick : forall c i,
  get_slot (core_tick c) i =
  (if (N.to_nat i <? length (slots c))%nat
   then {| s_key := s_key (get_slot c i); s_send := s_send (get_slot c i); s_win := tick (s_win (get_slot c i)) |}
   else get_slot c i).
Proof. exact tick_all_slots. Qed.

Theorem C03_core_rotate_fresh : forall c k id use r, wf_core c ->
  get_slot (core_rotate c k id use r) (id mod 4) = new_slot k (half c) r /\
  (forall i, i <> id mod 4 -> get_slot (core_rotate c k id use r) i = get_slot c i) /\
  current (core_rotate c k id use r) = (if use then id mod 4 else current c).
Proof. exact rotate_fresh_window. Qed.

(* T5 (connection object): every housekeeping second PeerCrypto::every_second moves the window of every key slot of a connection that has
   a crypto core - whatever the handshake object or the key rotation do in that second (a slot may instead be re-keyed: fresh window) *)
Theorem C03_every_second_ticks_windows : forall p c, pc_core p = Some c -> wf_core c ->
  exists c', pc_core (fst (fst (pc_every_second p))) = Some c' /\ wf_core c' /\
             forall i, i < 4 -> s_win (get_slot c' i) = tick (s_win (get_slot c i)) \/ s_win (get_slot c' i) = win0.
Proof. exact every_second_ticks_windows. Qed.

(* T6 (node): one housekeeping pass over the peers applies every_second exactly once to every peer and touches nothing else,
   in every state a node can reach (the peer map never lists an address twice) *)
Theorem C03_tick_peers_once : forall n, NoDup (map fst (n_peers n)) ->
  (forall a, aget (n_peers (fst (fst (tick_peers n)))) a = option_map tick_pd (aget (n_peers n) a)) /\
  n_pending (fst (fst (tick_peers n))) = n_pending n /\ n_table (fst (fst (tick_peers n))) = n_table n.
Proof. exact tick_peers_ticks_each_once. Qed.

Theorem C03_reachable_tick_peers_once : forall salts c t0 evs,
  let n := nrun salts (node_new c t0) evs in
  NoDup (map fst (n_peers n)) /\ NoDup (map fst (n_pending n)) /\
  forall a, aget (n_peers (fst (fst (tick_peers n)))) a = option_map tick_pd (aget (n_peers n) a).
Proof. exact reachable_tick_peers_once_full. Qed.

(* T7 (node, closing the chain): in EVERY reachable node state the crypto core of every connection is well-formed (four key slots,
   sending slot in range: the premise of the window theorems above), and one housekeeping pass over the peers moves the replay
   window of every key slot of every encrypted peer connection - or re-keys the slot, which starts a fresh window *)
Theorem C03_reachable_cores_wf : forall c salts t0 evs,
  let n := nrun salts (node_new c t0) evs in
  (forall a pd co, aget (n_peers n) a = Some pd -> pc_core (p_crypto pd) = Some co -> wf_core co) /\
  (forall a pc co, aget (n_pending n) a = Some pc -> pc_core pc = Some co -> wf_core co).
Proof. exact reachable_cores_wf. Qed.

Theorem C03_reachable_housekeeping_moves_every_window : forall c salts t0 evs a pd co,
  let n := nrun salts (node_new c t0) evs in
  aget (n_peers n) a = Some pd -> pc_core (p_crypto pd) = Some co ->
  exists pd' co', aget (n_peers (fst (fst (tick_peers n)))) a = Some pd' /\ pc_core (p_crypto pd') = Some co' /\ wf_core co' /\
    forall i, i < 4 -> s_win (get_slot co' i) = tick (s_win (get_slot co i)) \/ s_win (get_slot co' i) = win0.
Proof. exact reachable_housekeeping_moves_every_window. Qed.

(* non-vacuity *)
Example C03_ex_history :
  fst (run win0 [Deliver 5; Deliver 3; Tick; Deliver 4; Tick; Deliver 4; Deliver 6; Tick; Deliver 5; Deliver 7])
  = [true; true; true; false; true; false; true].
Proof. vm_compute. reflexivity. Qed.
Example C03_ex_pos : pos_hist [Deliver 5; Deliver 3; Tick; Deliver 4].
Proof. repeat constructor; discriminate. Qed.

Example C03_ex_node_tick : map fst (n_peers (fst (fst (tick_peers ex_b)))) = [1001].
Proof. exact ex_tick_peers. Qed.

Example C03_ex_peer_has_core : exists pd co, aget (n_peers ex_b) 1001 = Some pd /\ pc_core (p_crypto pd) = Some co.
Proof. exact ex_peer_has_core. Qed.

Print Assumptions C03_accept_iff.
Print Assumptions C03_invariant.
Print Assumptions C03_dies_in_two_ticks.
Print Assumptions C03_newest_always.
Print Assumptions C03_core_decrypt_iff.
Print Assumptions C03_core_window_moves.
Print Assumptions C03_core_reject_unchanged.
Print Assumptions C03_core_tick.
Print Assumptions C03_core_rotate_fresh.
Print Assumptions C03_every_second_ticks_windows.
Print Assumptions C03_tick_peers_once.
Print Assumptions C03_reachable_tick_peers_once.
Print Assumptions C03_reachable_cores_wf.
Print Assumptions C03_reachable_housekeeping_moves_every_window.

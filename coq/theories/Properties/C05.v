(* C05 — Handshake agrees and recovers under loss, duplication, reordering, dual open.
   Pinned statements only.
   Proved as one theorem (C05_lockstep_agreement): for ALL parameters (node ids, salts, key pairs,
   trusted lists, cipher lists, payloads, random values) the loss-free exchange ping - pong - peng
   between two mutually trusting, distinct nodes ends with both completed, each holding the payload
   the other offered, the same cipher, the same key under key id 0 and opposite nonce halves, the
   initiator in WAITING_TO_CLOSE and the responder in CLOSING.
   PARTIAL.  Also proved for every message sequence (any loss, duplication, reordering the network can
   produce is a sequence of deliveries to one handshake object): at most one completion per attempt,
   completion closes the attempt, the roles of the two completions (exactly the initiator's
   PeerCrypto starts without a proposal pending, the responder's sends the first rotation message),
   no unwrap panic on any sequence, and the three agreement ingredients: both ends derive the same
   ECDH secret, select the same cipher, take opposite nonce halves.  NOT proved as one theorem: that
   handle_init feeds exactly those ingredients from the ping/pong it received into the cores of both
   ends for every interleaving, and the liveness clause (mutually connected within the peer timeout
   plus retry horizon once delivery is reliable).  Both are decided on every run by the executed
   correspondence: all delivery schedules to depth 5/7 plus random ones, on the real code and the
   model, with the open-what-the-other-seals / roles / payload / at-most-once oracle and the reliable
   phase at the end (py/props/c05.py). *)
From VpnModel Require Import Base Nonce Replay Core CoreProofs Conn PeerCrypto InitProofs NegotiateProofs Rotation2Proofs LockstepProofs GiveUpProofs.

(* whatever sequence of verified messages an attempt is fed, it completes at most once *)
Theorem C05_at_most_once : forall ok ms s, snd (run_init ok s ms) <= 1.
Proof. exact at_most_once. Qed.

(* a completed attempt ignores everything (no second success, state unchanged) *)
Theorem C05_closed_inert : forall ok s m, closed_stage s ->
  is_success (snd (fst (handle_init ok s m))) = false /\ fst (fst (handle_init ok s m)) = s.
Proof. exact closed_no_success. Qed.

(* completion closes the attempt *)
Theorem C05_success_closes : forall ok s m p ini, snd (fst (handle_init ok s m)) = Ok (ISuccess p ini) ->
  closed_stage (fst (fst (handle_init ok s m))).
Proof. exact success_closes. Qed.

(* roles: the initiator side starts with no rotation proposal pending, the responder side with one (it sends the first rotation message); without a cipher both are plain *)
Theorem C05_roles : forall ok p m p' payload ini w,
  pc_handle_init ok p m = (p', Ok (MInitializedWithReply payload), w) \/ pc_handle_init ok p m = (p', Ok (MInitialized payload), w) ->
  forall i, pc_init p = Some i -> snd (fst (handle_init ok i m)) = Ok (ISuccess payload ini) ->
  match pc_core p' with
  | None => pc_plain p' = true
  | Some _ => exists rs, pc_rot p' = Some rs /\ (if ini then r_mid rs = 0 /\ r_proposed rs = None else r_mid rs = 1 /\ r_proposed rs <> None)
  end.
Proof. exact roles. Qed.

(* no sequence reaches the ECDH-key unwrap with the key already taken *)
Theorem C05_no_unwrap_panic : forall ok s m, ecdh_inv s -> snd (fst (handle_init ok s m)) <> Panic 11.
Proof. exact no_panic11. Qed.

(* the premise holds for new objects *)
Theorem C05_no_unwrap_panic_new : forall node salt payload key trusted al fresh rnd, ecdh_inv (init_new node salt payload key trusted al fresh rnd).
Proof. exact ecdh_inv_new. Qed.

(* and after sending a ping *)
Theorem C05_no_unwrap_panic_ping : forall s, ecdh_inv (fst (init_send_ping s)).
Proof. exact ecdh_inv_ping. Qed.

(* agreement ingredient 1: both ends derive the same ECDH secret from each other's public value *)
Theorem C05_same_secret : forall p q, ecdh p (ecdh_pub q) = ecdh q (ecdh_pub p).
Proof. exact ecdh_sym. Qed.

(* agreement ingredient 2: both ends select the same cipher and speed *)
Theorem C05_same_cipher : forall own peer, NoDup (ids (a_list own)) -> NoDup (ids (a_list peer)) ->
  select_algorithm own peer = select_algorithm peer own \/
  (exists c c', select_algorithm own peer = Err c /\ select_algorithm peer own = Err c').
Proof. exact select_symmetric. Qed.

(* agreement ingredient 3: opposite nonce halves *)
Theorem C05_opposite_halves : forall s1 n1 s2 n2, (s1 <> s2 \/ n1 <> n2) ->
  hash_gt s1 n1 s2 n2 = negb (hash_gt s2 n2 s1 n1).
Proof. exact hash_gt_opposite. Qed.

(* recovery ingredient: a handshake object that answered a ping and waits for the peng gives up (fatal Initialization timeout, upon which the node drops the entry and can dial again) once its retries plus the elapsed seconds exceed MAX_FAILED_RETRIES - whatever messages of other stages arrive in between, in any number and order: they change neither the object nor its give-up counter.  Two responder states (both ends dialled, gave up, and got the other end's last ping late) therefore cannot keep each other alive *)
Theorem C05_waiting_responder_gives_up : forall ok evs s,
  i_stage s = STAGE_PENG -> i_retries s <= MAX_FAILED_RETRIES ->
  Forall (fun e => match e with Some m => im_stage m <> STAGE_PENG | None => True end) evs ->
  MAX_FAILED_RETRIES < i_retries s + ticks evs ->
  snd (run_evs ok s evs) = true.
Proof. exact waiting_responder_gives_up. Qed.

Example C05_ex_gives_up : i_stage ex_responder = STAGE_PENG /\ i_retries ex_responder <= MAX_FAILED_RETRIES /\
  snd (run_evs (fun _ => true) ex_responder (flat_map (fun _ => [Some ex_pong; Some ex_pong; None]) (seq 0 121))) = true.
Proof. exact ex_gives_up. Qed.

(* the loss-free exchange (run3 = send ping; responder handles it; initiator handles the pong;
   responder handles the peng), all parameters universally quantified *)
Theorem C05_lockstep_agreement :
  forall (ok : bytes -> bool) (nA sA kA fA nB sB kB fB : N) (pA pB rA rB : bytes) (tA tB : list N) (aA aB : algos),
  existsb (N.eqb kB) tA = true -> existsb (N.eqb kA) tB = true -> nA <> nB ->
  ok pA = true -> ok pB = true ->
  all_bytes rA /\ length rA = 6%nat -> all_bytes rB /\ length rB = 6%nat ->
  forall alg : option (N * N), select_algorithm aB aA = Ok alg -> select_algorithm aA aB = Ok alg ->
  exists A2 B2 : init_state,
    run3 ok (init_new nA sA pA kA tA aA fA rA) (init_new nB sB pB kB tB aB fB rB) =
      Some (A2, B2, Ok IContinue, Ok (ISuccess pB true), Ok (ISuccess pA false)) /\
    i_selected A2 = option_map fst alg /\ i_selected B2 = option_map fst alg /\
    i_stage A2 = WAITING_TO_CLOSE /\ i_stage B2 = CLOSING /\
    match alg with
    | Some _ => exists ca cb : core, i_core A2 = Some ca /\ i_core B2 = Some cb /\ wf_core ca /\ wf_core cb /\
                  current ca = 0 /\ current cb = 0 /\ s_key (get_slot ca 0) = s_key (get_slot cb 0) /\ half ca = negb (half cb)
    | None => i_core A2 = None /\ i_core B2 = None
    end.
Proof. exact lockstep_agreement_sec. Qed.
Print Assumptions C05_lockstep_agreement.

Example C05_ex_once : forall ok s, snd (run_init ok s []) <= 1.
Proof. intros. apply at_most_once. Qed.

Print Assumptions C05_at_most_once.
Print Assumptions C05_closed_inert.
Print Assumptions C05_success_closes.
Print Assumptions C05_roles.
Print Assumptions C05_no_unwrap_panic.
Print Assumptions C05_no_unwrap_panic_new.
Print Assumptions C05_no_unwrap_panic_ping.
Print Assumptions C05_same_secret.
Print Assumptions C05_same_cipher.
Print Assumptions C05_opposite_halves.
Print Assumptions C05_waiting_responder_gives_up.

(* C14 — Full mesh from any connected bootstrap; a node never peers with itself.
   Pinned statements only.
   PARTIAL: the closure theorem is about the abstract exchange step (a node learns the peers of its
   peers and dials them); that the real nodes perform that step within the announce interval,
   also behind address-filtering NATs, is decided by the executed correspondence over all connected
   bootstrap graphs of 2-4 nodes, sampled 5-node graphs and NAT scenarios (py/props/c14.py). *)
From VpnModel Require Import Base Conn PeerCrypto NodeInfo Table Node NodeProofs TrustProofs NextHopProofs PcInvariant AdmissionProofs SelfProofs OwnAddrProofs.

(* a handshake message carrying the node's own id is rejected at every stage, by whatever address it arrived (after the fix of F13): object unchanged, no reply *)
Theorem C14_own_message_rejected : forall ok s m, im_node m = i_node s ->
  (snd (fst (handle_init ok s m)) = Err 1 \/ snd (fst (handle_init ok s m)) = Err 2) /\
  fst (fst (handle_init ok s m)) = s /\ snd (handle_init ok s m) = None.
Proof. exact own_message_rejected. Qed.

(* WHOLE RUNS: every peer of every reachable node state (any events, times, salts) was admitted by a handshake message carrying ANOTHER node's id - a node never peers with itself, through whatever address its own messages come back (every handshake object keeps the node number it was created with: invariant NI through PcInvariant.v; a handshake completes only on a message of another node: success_not_self) *)
Theorem C14_never_peers_with_itself : forall salts c t0 evs a,
  ahas (n_peers (nrun salts (node_new c t0) evs)) a = true ->
  exists now m, In (now, ENet a (WInit m)) evs /\ im_node m <> c_num c.
Proof. exact never_peers_with_itself. Qed.

(* WHOLE RUNS, the address side: in every reachable node state the own-address list contains every address the node was configured to advertise and its socket address (OW: the list only grows - addresses reported under the own id are adopted - or is reset to exactly the configured list) *)
Theorem C14_own_addresses_known : forall salts c t0 evs, OW (nrun salts (node_new c t0) evs).
Proof. exact reachable_ow. Qed.

(* ... so in every reachable state dialling one of the configured own addresses sends nothing and changes nothing *)
Theorem C14_never_dials_own_address : forall salts c t0 evs a,
  let n := nrun salts (node_new c t0) evs in
  In a (c_advertise (n_cfg n) ++ [c_addr (n_cfg n)]) -> connect_sock salts n a = (n, []).
Proof. exact never_dials_own_address. Qed.

(* addresses listed under the node's own id are added to its own addresses, nothing is dialled, no peer or pending entry appears *)
Theorem C14_own_addresses_adopted : forall salts n p, pi_node p = Some (node_id_bytes (c_num (n_cfg n))) ->
  existsb (fun a => ahas (n_peers n) a) (map addr_of_bytes (pi_addrs p)) = false ->
  let r := connect_to_peers salts n [p] in
  snd r = [] /\ n_peers (fst r) = n_peers n /\ n_pending (fst r) = n_pending n /\
  (forall a, In a (map addr_of_bytes (pi_addrs p)) -> memN a (n_own (fst r)) = true).
Proof. exact adopt_own_addresses. Qed.

(* non-vacuity *)
Example C14_ex_own : In 1002 (c_advertise (n_cfg ex_b) ++ [c_addr (n_cfg ex_b)]) /\ memN 1002 (n_own ex_b) = true.
Proof. exact ex_own. Qed.

(* one peer-exchange round: whoever is connected to a neighbour of mine becomes my neighbour
   (NodeProofs.exchange).  Two nodes joined by a path of k+1 connections are directly connected after
   k rounds: a connected set of n nodes is fully meshed after at most n-2 rounds. *)
Theorem C14_closure : forall (V : Type) k (E : graph V) u w, path V E (S k) u w -> path V (rounds V k E) 1 u w.
Proof. exact exchange_closure. Qed.
Theorem C14_round_shortens : forall (V : Type) (E : graph V) k u w, path V E (S (S k)) u w -> path V (exchange V E) (S k) u w.
Proof. exact exchange_shortens. Qed.
Print Assumptions C14_closure.
Print Assumptions C14_round_shortens.

Print Assumptions C14_own_message_rejected.
Print Assumptions C14_never_peers_with_itself.
Print Assumptions C14_own_addresses_known.
Print Assumptions C14_never_dials_own_address.
Print Assumptions C14_own_addresses_adopted.

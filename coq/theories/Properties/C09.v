(* C09 — Established connections survive forged and replayed traffic.
   Pinned statements only.  What a party without a trusted key can fabricate is (a) unverifiable
   datagrams (C08) and (b) verbatim replays of genuine datagrams.  (a) leaves no trace; a replayed
   handshake message to an established peer whose own handshake object is gone is answered by a new
   pending object that never touches the established entry (after the fix of F8) and is reaped; a
   replayed data or rotation datagram is subject to the replay window (C03) and the duplicate
   rotation rule (C07).
   PARTIAL: the end-to-end statement "payload keeps flowing both ways during and after the attack"
   is decided by the executed correspondence (py/props/c09.py re-injects every captured datagram
   at several offsets from three source choices and then runs a 400 s probe phase). *)
From VpnModel Require Import Base Nonce Replay ReplayProofs Core CoreProofs Conn PeerCrypto Node NodeProofs Rotation2 Rotation2Proofs NodeInfo Table SurviveProofs.

(* HEADLINE: whatever datagram arrives from whatever claimed source, every established peer stays a peer, unless the datagram OPENED (genuine seal under the connection key and admitted by the replay window: C02/C03) as a CLOSE message of that very peer *)
Theorem C09_established_peer_survives : forall salts now n src w a,
  ahas (n_peers n) a = true ->
  ahas (n_peers (fst (handle_net salts now n src w))) a = true \/
  (a = src /\ exists pc r, snd (fst (pc_handle payload_ok pc w)) = Ok r /\ is_close r = true).
Proof. exact established_peer_survives. Qed.

(* after the crypto layer a peer entry is removed only by a CLOSE message, and only the sender's *)
Theorem C09_close_only : forall salts now n src r reply a, ahas (n_peers n) a = true ->
  ahas (n_peers (fst (handle_result salts now n src r reply))) a = true \/ (a = src /\ is_close r = true).
Proof. exact handle_result_keeps. Qed.

(* forged datagrams: no trace, from any claimed source *)
Theorem C09_forged_no_trace : forall salts now l n, Forall (fun x => unverifiable (snd x)) l -> all_encrypted n ->
  same_state n (fst (inject_all salts now n l)) /\ snd (inject_all salts now n l) = [].
Proof. exact unverifiable_sequence. Qed.

(* a replayed (genuine, verifying) handshake message from the address of an established peer: peer entry, routes and own addresses unchanged, only replies are emitted *)
Theorem C09_replayed_init_keeps_peer : forall salts now n src m pd,
  aget (n_peers n) src = Some pd -> pc_has_init (p_crypto pd) = false -> aget (n_pending n) src = None ->
  let r := handle_net salts now n src (WInit m) in
  n_peers (fst r) = n_peers n /\ n_table (fst r) = n_table n /\ n_own (fst r) = n_own n /\
  Forall (fun e => is_send e = true) (snd r).
Proof. exact replayed_init_keeps_peer. Qed.

(* reaping the pending handshakes such replays create never touches peers or routes *)
Theorem C09_pending_reap_keeps_peer : forall l n,
  n_peers (fold_left (fun m addr => upd m (n_peers m) (adel (n_pending m) addr) (n_own m) (n_table m)) l n) = n_peers n /\
  n_table (fold_left (fun m addr => upd m (n_peers m) (adel (n_pending m) addr) (n_own m) (n_table m)) l n) = n_table n.
Proof. exact fold_adel_pending_peers. Qed.

(* a replayed data datagram is dropped once two housekeeping ticks passed (C03) *)
Theorem C09_replayed_data_dies : forall h m n rest,
  pos_hist h -> 1 <= m -> n <= m -> accepts (after h) m = true -> pos_hist rest ->
  accepts (snd (run (after (h ++ [Deliver m; Tick; Tick])) rest)) n = false.
Proof. exact dies_in_two_ticks. Qed.

(* and a dropped datagram leaves the core as it was *)
Theorem C09_replayed_data_no_state : forall c d, is_ok (snd (core_decrypt c d)) = false -> fst (core_decrypt c d) = c.
Proof. exact decrypt_fail_unchanged. Qed.

(* a re-delivered rotation message changes nothing (C07) *)
Theorem C09_replayed_rotation : forall n seen S R toS toR m, Shape n seen S R toS toR -> In m toS ->
  rend_deliver S m = Ok S.
Proof. exact duplicate_harmless_S. Qed.

Print Assumptions C09_established_peer_survives.
Print Assumptions C09_close_only.
Print Assumptions C09_forged_no_trace.
Print Assumptions C09_replayed_init_keeps_peer.
Print Assumptions C09_pending_reap_keeps_peer.
Print Assumptions C09_replayed_data_dies.
Print Assumptions C09_replayed_data_no_state.
Print Assumptions C09_replayed_rotation.

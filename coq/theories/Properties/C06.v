(* C06 — Cipher negotiation is symmetric and cannot be downgraded.  Pinned statements only.
   Speeds are f32 bit patterns of non-negative, non-NaN floats (their order is the numeric order);
   lists are duplicate-free in the cipher id (NoDup (ids _)), as parse_algorithms / the wire decoder
   of an honest peer produce them. *)
From VpnModel Require Import Base Core Conn PeerCrypto NegotiateProofs Table Node NextHopProofs SealedWireProofs.
From Coq Require Import Permutation.

Theorem C06_plain_iff : forall own peer,
  select_algorithm own peer = Ok None <-> (a_plain own = true /\ a_plain peer = true).
Proof. exact plain_iff. Qed.

Theorem C06_fail_iff : forall own peer, NoDup (ids (a_list own)) -> NoDup (ids (a_list peer)) ->
  ((exists c, select_algorithm own peer = Err c) <->
   (a_plain own && a_plain peer = false /\ forall a, ~ (In a (ids (a_list own)) /\ In a (ids (a_list peer))))).
Proof. exact fail_iff. Qed.

Theorem C06_best_minspeed : forall own peer a s, NoDup (ids (a_list own)) -> NoDup (ids (a_list peer)) ->
  select_algorithm own peer = Ok (Some (a, s)) ->
  (exists s1 s2, In (a, s1) (a_list own) /\ In (a, s2) (a_list peer) /\ s = minsp s1 s2) /\
  (forall a' s1 s2, In (a', s1) (a_list own) -> In (a', s2) (a_list peer) -> minsp s1 s2 <= s).
Proof. exact best_minspeed. Qed.

(* both ends (each with its own list as `own`) obtain the same result *)
Theorem C06_symmetric : forall own peer, NoDup (ids (a_list own)) -> NoDup (ids (a_list peer)) ->
  select_algorithm own peer = select_algorithm peer own \/
  (exists c c', select_algorithm own peer = Err c /\ select_algorithm peer own = Err c').
Proof. exact select_symmetric. Qed.

(* the outcome depends on the two advertised sets and speeds only, not on list order *)
Theorem C06_order_independent : forall own own' peer peer',
  NoDup (ids (a_list own)) -> NoDup (ids (a_list peer)) ->
  Permutation (a_list own) (a_list own') -> Permutation (a_list peer) (a_list peer') ->
  a_plain own = a_plain own' -> a_plain peer = a_plain peer' ->
  select_algorithm own peer = select_algorithm own' peer' \/
  (exists c c', select_algorithm own peer = Err c /\ select_algorithm own' peer' = Err c').
Proof. exact select_order_independent. Qed.

(* an altered list in transit is an altered signed message: it does not verify and is dropped
   without touching the handshake (the signature covers the whole message; modelling decision WBadInit) *)
Theorem C06_transit_edit_dropped : forall payload_ok p, pc_handle payload_ok p WBadInit = (p, Err 1, None).
Proof. intros payload_ok p. unfold pc_handle. destruct (pc_init p); reflexivity. Qed.

(* NODE, every reachable state: the negotiation never falls back to "plain" on a node that does not allow it - whatever the peers
   offer, whatever arrives, in whatever order: no unencrypted message leaves, no node information travels unsealed, no peer's
   connection is unencrypted *)
Theorem C06_never_plain_unless_allowed : forall salts c t0 evs, a_plain (c_algos c) = false ->
  (forall dst w, In (XSend dst w) (nrun_fx salts (node_new c t0) evs) ->
     match w with
     | WPlain _ => False
     | WInit m => match im_payload m with Some (PPlain _) => False | _ => True end
     | _ => True
     end) /\
  (forall a pd, aget (n_peers (nrun salts (node_new c t0) evs)) a = Some pd -> pc_plain (p_crypto pd) = false).
Proof. exact no_cleartext_ever. Qed.

Example C06_ex_tie :
  let a := {| a_list := [(1, 600); (2, 600)]; a_plain := false |} in
  let b := {| a_list := [(2, 600); (1, 600)]; a_plain := false |} in
  select_algorithm a b = Ok (Some (1, 600)) /\ select_algorithm b a = Ok (Some (1, 600)).
Proof. vm_compute. split; reflexivity. Qed.

Print Assumptions C06_plain_iff.
Print Assumptions C06_fail_iff.
Print Assumptions C06_best_minspeed.
Print Assumptions C06_symmetric.
Print Assumptions C06_order_independent.
Print Assumptions C06_transit_edit_dropped.
Print Assumptions C06_never_plain_unless_allowed.

(* C15 — Silent peers time out; healthy peers never do, for every timeout setting.
   Pinned statements only.  All configurable values are u16 seconds (N here, the u16 arithmetic of
   the code after the fix of F7 is saturating subtraction: Interval.sat_sub).
   PARTIAL: "in a mesh with stable membership on a delivering network no healthy peer is ever timed
   out" combines interval_safe with message delivery; it is decided by the executed correspondence
   on heterogeneous meshes for the grid of timeout/keepalive values (py/props/c15.py). *)
From VpnModel Require Import Base Interval IntervalProofs NodeInfo Table TableProofs Nonce Replay Core Conn PeerCrypto Node NodeProofs ScheduleProofs NextHopProofs TickPeersProofs FloodProofs AnnounceProofs RedialProofs.

(* whenever a node schedules its next announcement the delay is at most one second or strictly shorter than every timeout its peers advertised *)
Theorem C15_interval_safe : forall upd advertised, advertised <> [] ->
  let i := announce_interval upd advertised in
  i <= 1 \/ (forall x, In x advertised -> i < x).
Proof. exact interval_safe. Qed.

(* node level: the announcement step of housekeeping (C15_housekeep_expires_first shows where it sits) sets the next announcement to now + that interval, computed from the timeouts its current peers advertised *)
Theorem C15_node_schedule_safe : forall now n3,
  let '(m, fx) := broadcast n3 MESSAGE_TYPE_NODE_INFO (ni_encode (create_node_info n3)) in
  let advertised := map (fun e => p_peer_timeout (snd e)) (n_peers n3) in
  let iv := announce_interval (update_freq (c_peer_timeout (n_cfg m)) (c_keepalive (n_cfg m)))
                              (map (fun e => p_peer_timeout (snd e)) (n_peers m)) in
  n_next_peers (with_sched m (now + Z.of_N iv)%Z (n_next_own_reset m) (n_reconnect m)) = (now + Z.of_N iv)%Z /\
  (advertised <> [] -> iv <= 1 \/ forall x, In x advertised -> iv < x).
Proof. exact announcement_schedule_safe. Qed.

(* EVERY REACHABLE STATE ("healthy peers never time out" needs the announcements to go out): whenever an announcement is due, the housekeeping tick emits it to every node that is still a peer after the expiry and crypto phases of that very tick, once each - whether or not a later housekeeping step fails (c_hkfault): the announcement sits before the steps that can fail (hk3 = the node after expiry, table sweep and crypto housekeeping) *)
Theorem C15_reachable_announcement_reaches_every_peer : forall salts c t0 evs now,
  let n := nrun salts (node_new c t0) evs in
  (n_next_peers n <= now)%Z ->
  let n3 := hk3 salts now n in
  let ann := snd (broadcast n3 MESSAGE_TYPE_NODE_INFO (ni_encode (create_node_info n3))) in
  (exists pre post, snd (housekeep salts now n) = pre ++ ann ++ post) /\
  map dst_of ann = map (fun e => Some (fst e)) (n_peers n3).
Proof. exact reachable_announcement_reaches_every_peer. Qed.

(* with no peers the own update frequency, capped at 90 s *)
Theorem C15_interval_no_peers : forall upd, announce_interval upd [] = N.min upd 90.
Proof. exact interval_no_peers. Qed.

(* the default keepalive is at least 1 and below the peer timeout *)
Theorem C15_keepalive_default : forall pt, 1 <= get_keepalive pt None /\ (2 <= pt -> get_keepalive pt None < pt).
Proof. exact keepalive_default. Qed.

(* a peer whose timeout passed is removed at the next housekeeping tick together with all its claims and learned entries *)
Theorem C15_expired_removed : forall salts now n addr pd, (0 < now)%Z ->
  aget (n_peers n) addr = Some pd -> (p_timeout pd < now)%Z ->
  aget (n_peers (fst (expire_phase salts now n))) addr = None /\
  (forall c, In c (claims (n_table (fst (expire_phase salts now n)))) -> c_peer c <> addr) /\
  (forall e, In e (cache (n_table (fst (expire_phase salts now n)))) -> e_peer e <> addr).
Proof. exact expired_peers_removed. Qed.

(* housekeeping begins with that expiry phase (and re-dials the address) *)
Theorem C15_housekeep_expires_first : forall salts now n,
  fst (housekeep salts now n) =
  fst (let '(n1, fx1) := expire_phase salts now n in
       let n2 := upd n1 (n_peers n1) (n_pending n1) (n_own n1) (table_housekeep (n_table n1) now) in
       let '(n3, fx3) := crypto_housekeep salts now n2 in
       let '(n4, fx4) :=
         if (n_next_peers n3 <=? now)%Z then
           let '(m, fx) := broadcast n3 MESSAGE_TYPE_NODE_INFO (ni_encode (create_node_info n3)) in
           let iv := announce_interval (update_freq (c_peer_timeout (n_cfg m)) (c_keepalive (n_cfg m)))
                                       (map (fun e => p_peer_timeout (snd e)) (n_peers m)) in
           (with_sched m (now + Z.of_N iv)%Z (n_next_own_reset m) (n_reconnect m), fx)
         else (n3, []) in
       let '(n5, fx5) := reconnect_step salts now n4 in
       let n6 := if negb (c_hkfault (n_cfg n5)) && (n_next_own_reset n5 <=? now)%Z
                 then with_sched (upd n5 (n_peers n5) (n_pending n5) (c_advertise (n_cfg n5) ++ [c_addr (n_cfg n5)]) (n_table n5)) (n_next_peers n5) (now + 300)%Z (n_reconnect n5)
                 else n5 in
       (n6, fx1 ++ fx3 ++ fx4 ++ fx5)).
Proof. exact housekeep_starts_with_expire. Qed.

(* ... and RE-DIALLED: the same housekeeping tick sends a fresh stage-1 handshake message (no payload) to the address of every peer it removes, whatever that peer advertised and whatever else the node holds - unless the address is one of the node's own or a handshake with it is already pending (the two cases in which connect_sock does nothing) *)
Theorem C15_expired_redialled : forall salts now n addr pd,
  aget (n_peers n) addr = Some pd -> (p_timeout pd < now)%Z ->
  memN addr (n_own n) = false -> ahas (n_pending n) addr = false ->
  exists e, In e (snd (housekeep salts now n)) /\ is_ping_to addr e.
Proof. exact housekeep_redials_expired. Qed.

(* reconnect back-off: the delay stays within 1..3600 s, tries within 0..10, the next attempt lies in the future and at most one hour ahead *)
Theorem C15_backoff_bounds : forall now e, backoff_ok e ->
  backoff_ok (backoff_step now e) /\
  ((bnext e <= now)%Z -> (now < bnext (backoff_step now e) <= now + 3600)%Z).
Proof. exact backoff_step_ok. Qed.

(* initially *)
Theorem C15_backoff_init : forall now, backoff_ok (backoff0 now).
Proof. exact backoff0_ok. Qed.

(* and after any number of failed attempts: configured peers are retried indefinitely *)
Theorem C15_backoff_forever : forall times e, backoff_ok e -> backoff_ok (backoff_run e times).
Proof. exact backoff_run_ok. Qed.

(* non-vacuity *)
Example C15_ex_redial_premises : exists pd, aget (n_peers ex_b) 1001 = Some pd /\ (p_timeout pd < 1000)%Z /\
  memN 1001 (n_own ex_b) = false /\ ahas (n_pending ex_b) 1001 = false.
Proof. exact ex_redial. Qed.

Example C15_ex_announcement_due : (n_next_peers ex_b <= 5)%Z /\
  map dst_of (snd (broadcast (hk3 salts 5 ex_b) MESSAGE_TYPE_NODE_INFO (ni_encode (create_node_info (hk3 salts 5 ex_b))))) = [Some 1001].
Proof. exact ex_announcement. Qed.

Print Assumptions C15_interval_safe.
Print Assumptions C15_node_schedule_safe.
Print Assumptions C15_reachable_announcement_reaches_every_peer.
Print Assumptions C15_interval_no_peers.
Print Assumptions C15_keepalive_default.
Print Assumptions C15_expired_removed.
Print Assumptions C15_housekeep_expires_first.
Print Assumptions C15_expired_redialled.
Print Assumptions C15_backoff_bounds.
Print Assumptions C15_backoff_init.
Print Assumptions C15_backoff_forever.

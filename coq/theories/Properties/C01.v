(* C01 — Only holders of a mutually trusted key can become peers.
   Pinned statements only.  A handshake datagram whose signature does not verify under a key the
   receiver trusts is the wire value WBadInit of the model (random bytes with the init marker, any
   flip/truncation/edit of a genuine message, a message signed by an unknown key): the byte-level
   parser InitMsg.read_from maps all of those to an error before any field is used (C16 ties that
   parser to the code); a well-formed message signed with a key outside the trusted list is WInit m
   with im_signer m not in i_trusted.
   PARTIAL: "two nodes become peers exactly when each trusts the other" has a liveness direction
   (trust => they do become peers) that is decided by the executed correspondence over all trust
   relations (py/props/c01.py), not by a theorem. *)
From VpnModel Require Import Base Core Conn PeerCrypto Table Node NodeProofs InitProofs TrustProofs NextHopProofs PcInvariant AdmissionProofs.

(* a message signed with a key outside the trusted list: rejected, state untouched, no reply *)
Theorem C01_untrusted_signer_rejected : forall ok s m, existsb (N.eqb (im_signer m)) (i_trusted s) = false ->
  handle_init ok s m = (s, Err 1, None).
Proof. exact untrusted_rejected. Qed.

(* a handshake object completes only on a message signed by a trusted key *)
Theorem C01_success_needs_trust : forall ok s m p ini, snd (fst (handle_init ok s m)) = Ok (ISuccess p ini) ->
  existsb (N.eqb (im_signer m)) (i_trusted s) = true.
Proof. exact success_needs_trust. Qed.

(* PeerCrypto reports Initialized (the only result that creates a peer) only for such a message *)
Theorem C01_initialized_needs_trust : forall ok p w p' r rep, pc_handle ok p w = (p', Ok r, rep) -> is_initialized r = true ->
  exists i m, w = WInit m /\ pc_init p = Some i /\ existsb (N.eqb (im_signer m)) (i_trusted i) = true.
Proof. exact pc_initialized_needs_trust. Qed.

(* node level: a new peer entry appears only for the sender of a trusted, verified handshake message *)
Theorem C01_peer_needs_trust : forall salts now n src w a,
  ahas (n_peers n) a = false -> ahas (n_peers (fst (handle_net salts now n src w))) a = true ->
  a = src /\ exists pc i m, answering_object salts n src pc /\ w = WInit m /\ pc_init pc = Some i /\
                            existsb (N.eqb (im_signer m)) (i_trusted i) = true.
Proof. exact peer_creation_needs_trust. Qed.

(* object level: unverifiable input leaves every handshake stage exactly as it was, no reply *)
Theorem C01_unverifiable_object : forall ok p w, unverifiable w -> pc_plain p = false ->
  pc_handle ok p w = (p, Err 1, None).
Proof. exact pc_handle_unverifiable. Qed.

(* node level (unknown sender / pending / established): no peer, no pending entry, no table change, no effect *)
Theorem C01_unverifiable_node : forall salts now n src w, unverifiable w -> all_encrypted n ->
  same_state n (fst (handle_net salts now n src w)) /\ snd (handle_net salts now n src w) = [].
Proof. exact unverifiable_no_residue. Qed.

(* any sequence of such datagrams from any sources *)
Theorem C01_unverifiable_sequence : forall salts now l n, Forall (fun x => unverifiable (snd x)) l -> all_encrypted n ->
  same_state n (fst (inject_all salts now n l)) /\ snd (inject_all salts now n l) = [].
Proof. exact unverifiable_sequence. Qed.

(* WHOLE RUNS: every peer a node has in any reachable state (any events, times, salts) was admitted by a handshake message that arrived from that very address and verified under a key of the node's trusted list (its own key if none is configured) - induction over arbitrary event sequences; only datagrams can make a peer (interface reads, housekeeping, dials never do), and every handshake object keeps the trusted list it was created with (invariant TI through PcInvariant.v) *)
Theorem C01_every_peer_was_admitted : forall salts c t0 evs a,
  ahas (n_peers (nrun salts (node_new c t0) evs)) a = true ->
  exists now m, In (now, ENet a (WInit m)) evs /\ existsb (N.eqb (im_signer m)) (eff_trusted c) = true.
Proof. exact every_peer_was_admitted. Qed.

(* the object invariant behind it, for every reachable state: every connection / handshake object of the node carries exactly the configured trusted keys *)
Theorem C01_objects_keep_trusted_list : forall c salts t0 evs,
  let n := nrun salts (node_new c t0) evs in
  n_cfg n = c /\
  (forall a pc i, aget (n_pending n) a = Some pc -> pc_init pc = Some i -> i_trusted i = eff_trusted c) /\
  (forall a pd i, aget (n_peers n) a = Some pd -> pc_init (p_crypto pd) = Some i -> i_trusted i = eff_trusted c).
Proof. exact reachable_ti. Qed.

(* non-vacuity: WBadInit is unverifiable; a fresh node with one pending handshake is all_encrypted *)
Example C01_ex_unverifiable : unverifiable WBadInit /\ unverifiable (WData (DShort 3)) /\ unverifiable WEmpty.
Proof. repeat split. Qed.

(* the reachable example state of NextHopProofs has a peer (admitted by A's ping and peng): C01_every_peer_was_admitted is not vacuous *)
Example C01_ex_peer : ahas (n_peers (nrun salts (node_new cB 1) ex_evs)) 1001 = true.
Proof. exact (proj2 (proj2 ex_reachable_selects)). Qed.

Print Assumptions C01_untrusted_signer_rejected.
Print Assumptions C01_success_needs_trust.
Print Assumptions C01_initialized_needs_trust.
Print Assumptions C01_peer_needs_trust.
Print Assumptions C01_unverifiable_object.
Print Assumptions C01_unverifiable_node.
Print Assumptions C01_unverifiable_sequence.
Print Assumptions C01_every_peer_was_admitted.
Print Assumptions C01_objects_keep_trusted_list.

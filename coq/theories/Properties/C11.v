(* C11 — Routing follows the most specific live claim.  Pinned statements only. *)
From VpnModel Require Import Base RangeMatch RangeMatchProofs Table TableProofs Nonce Replay Core Conn PeerCrypto NodeInfo Node NodeProofs NextHopProofs TickPeersProofs FloodProofs.

(* T1: Range::matches = same address length, prefix within the address, first prefix_len bits agree —
   for every byte string and every prefix 0..255 (over-long prefixes never match) *)
Theorem C11_matches_spec : forall base p addr, all_bytes base -> all_bytes addr ->
  range_matches base p addr = true <->
  (length base = length addr /\ (N.to_nat p <= 8 * length addr)%nat /\
   firstn (N.to_nat p) (bits addr) = firstn (N.to_nat p) (bits base)).
Proof. exact matches_spec. Qed.

Theorem C11_overlong_never : forall base p addr, all_bytes base -> all_bytes addr ->
  (8 * length addr < N.to_nat p)%nat -> range_matches base p addr = false.
Proof. exact overlong_never_matches. Qed.

(* T2 + T3a: uncached destination -> a claim in the table that matches with maximal prefix length
   (None iff nothing matches); the cached decision expires no later than now + switch timeout and
   no later than the claim it came from; claims untouched *)
Theorem C11_lookup_uncached : forall t now a, cache_get (cache t) a = None ->
  match fst (table_lookup t now a) with
  | Some p => exists c, In c (claims t) /\ c_peer c = p /\ cmatches a c = true /\
                (forall c', In c' (claims t) -> cmatches a c' = true -> c_prefix c' <= c_prefix c) /\
                cache_get (cache (snd (table_lookup t now a))) a =
                  Some {| e_addr := a; e_peer := p; e_timeout := Z.min (now + cache_timeout t) (c_timeout c) |} /\
                claims (snd (table_lookup t now a)) = claims t
  | None => (forall c, In c (claims t) -> cmatches a c = false) /\ snd (table_lookup t now a) = t
  end.
Proof. exact lookup_uncached. Qed.

Theorem C11_lookup_cached : forall t now a e, cache_get (cache t) a = Some e ->
  table_lookup t now a = (Some (e_peer e), t).
Proof. exact lookup_cached. Qed.

(* T3b: the sweep drops every entry past its expiry; removing a peer drops every claim and every
   cached decision that points at it (now > 0: expiry 0 means "delete") *)
Theorem C11_sweep_exact : forall t now,
  (forall c, In c (claims (table_housekeep t now)) <-> (In c (claims t) /\ (now <= c_timeout c)%Z)) /\
  (forall e, In e (cache (table_housekeep t now)) <-> (In e (cache t) /\ (now <= e_timeout e)%Z)).
Proof. exact housekeep_exact. Qed.

Theorem C11_peer_removed_nothing_cached : forall t now peer, (0 < now)%Z ->
  let t' := table_remove_claims t now peer in
  (forall c, In c (claims t') -> c_peer c <> peer) /\
  (forall e, In e (cache t') -> e_peer e <> peer) /\
  (forall c, c_peer c <> peer -> (In c (claims t') <-> (In c (claims t) /\ (now <= c_timeout c)%Z))) /\
  (forall e, e_peer e <> peer -> (In e (cache t') <-> (In e (cache t) /\ (now <= e_timeout e)%Z))).
Proof. exact remove_claims_clean. Qed.

(* T5 (node clause): no live claim and no cached decision for the destination - router mode drops the frame and counts it ... *)
Theorem C11_unknown_dest_router_drops : forall salts now n frame s d t',
  parse_frame (n_cfg n) frame = Ok (s, d) -> table_lookup (n_table n) now d = (None, t') -> c_broadcast (n_cfg n) = false ->
  snd (handle_iface salts now n frame) = [] /\ n_dropped (fst (handle_iface salts now n frame)) = n_dropped n + 1.
Proof. exact iface_unknown_router_drops. Qed.

(* ... while switch and hub modes send it to all peers: to every peer exactly once, in every state a node can reach *)
Theorem C11_unknown_dest_flooded_to_all_peers : forall salts c t0 evs now frame s d t',
  let n := nrun salts (node_new c t0) evs in
  parse_frame (n_cfg n) frame = Ok (s, d) -> table_lookup (n_table n) now d = (None, t') -> c_broadcast (n_cfg n) = true ->
  map dst_of (snd (handle_iface salts now n frame)) = map (fun e => Some (fst e)) (n_peers n).
Proof. exact reachable_flood_every_peer_once. Qed.

(* T6 (node clause): a decision - cached or fresh - is never for a non-peer, in every state a node can reach ("never beyond the life of
   the ... peer it came from") *)
Theorem C11_decision_is_for_a_peer : forall salts c t0 evs now dst p, Forall (fun te => (0 < fst te)%Z) evs ->
  fst (table_lookup (n_table (nrun salts (node_new c t0) evs)) now dst) = Some p ->
  ahas (n_peers (nrun salts (node_new c t0) evs)) p = true.
Proof. exact next_hop_is_peer. Qed.

Example C11_ex_lpm :
  let t := table_set_claims (table_set_claims (table_new 300 300) 5 1 [([10;0;0;0], 8)]) 5 2 [([10;1;0;0], 16)] in
  (fst (table_lookup t 6 [10;1;2;3]), fst (table_lookup t 6 [10;2;2;3]), fst (table_lookup t 6 [11;0;0;0])) = (Some 2, Some 1, None).
Proof. vm_compute. reflexivity. Qed.

Print Assumptions C11_matches_spec.
Print Assumptions C11_overlong_never.
Print Assumptions C11_lookup_uncached.
Print Assumptions C11_lookup_cached.
Print Assumptions C11_sweep_exact.
Print Assumptions C11_peer_removed_nothing_cached.
Print Assumptions C11_unknown_dest_router_drops.
Print Assumptions C11_unknown_dest_flooded_to_all_peers.
Print Assumptions C11_decision_is_for_a_peer.

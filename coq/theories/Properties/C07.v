(* C07 — Key rotation never strands traffic and keeps keys fresh.  Pinned statements only.
   System: two ends (RotationState + CryptoCore each) and the set of all rotation messages ever sent;
   a schedule is any list of steps {cycle at A/B, deliver ANY message ever sent to A/B (so loss,
   duplication, reordering and delay are all schedules), window tick, payload sealing}. *)
From VpnModel Require Import Base Nonce Replay Core CoreProofs Conn PeerCrypto Rotation2 Rotation2Proofs.

(* T1: for every schedule, from the state right after any handshake: the agree_ephemeral unwrap is
   never hit, and at every instant the key each end currently seals with is held by its peer under
   that key id with identical key material *)
Theorem C07_send_key_held : forall k0 da db fa fb ha ops,
  let s := fst (rsys_run (rsys_init k0 da db fa fb ha) ops) in
  snd (rsys_run (rsys_init k0 da db fa fb ha) ops) = false /\
  send_key (ea s) = held_key (eb s) (ea s) /\ send_key (eb s) = held_key (ea s) (eb s).
Proof. exact send_key_held. Qed.

(* the inductive invariant behind T1 *)
Theorem C07_invariant_step : forall s o, Inv s -> snd (rsys_step s o) = false /\ Inv (fst (rsys_step s o)).
Proof. exact inv_step. Qed.

Theorem C07_invariant_init : forall k0 da db fa fb ha, Inv (rsys_init k0 da db fa fb ha).
Proof. exact inv_init. Qed.

(* hence fresh payload is decryptable: a datagram sealed under the send key opens at the peer as soon
   as the peer's window admits the counter (Core.v's decrypt characterisation) *)
Theorem C07_fresh_payload_opens : forall c keyid ctr7 x j p, wf_core c ->
  snd (core_decrypt c (DG keyid ctr7 x j)) = Ok p <->
  (keyid < 4 /\ x = Seal (s_key (get_slot c keyid)) (nonce_rebuild (half c) ctr7) p /\
   accepts (s_win (get_slot c keyid)) (be_val (nonce_rebuild (half c) ctr7)) = true).
Proof. exact decrypt_ok_iff. Qed.

(* T2: duplicates and stale messages are ignored by the end that is ahead *)
Theorem C07_duplicates_ignored : forall n seen S R toS toR m, Shape n seen S R toS toR -> In m toS ->
  rend_deliver S m = Ok S.
Proof. exact duplicate_harmless_S. Qed.

(* T3: a lost message only postpones: the sender's cycle sets a flag, the next one re-sends the same
   message; the shape (hence T1) is kept *)
Theorem C07_loss_postpones : forall n seen S R toS toR, Shape n seen S R toS toR ->
  Shape n seen (fst (rend_cycle S)) R toS (app_opt toR (snd (rend_cycle S))).
Proof. exact S_cycle. Qed.

(* T4: while messages get through each cycle of the end whose turn it is advances the key id by one
   and the other end seals with it on arrival *)
Theorem C07_progress : forall n S R toS toR, Shape n true S R toS toR ->
  exists m R' S', rend_cycle R = (R', Some m) /\ rm_id m = n + 1 /\
    rend_deliver S m = Ok S' /\ Shape (n + 1) true R' S' toR (toS ++ [m]) /\
    current (e_core S') = (n + 1) mod 4.
Proof. exact progress. Qed.

(* T5: a cycle happens exactly when the per-second counter reaches the rotation interval (120) *)
Theorem C07_counter : forall p rs,
  pc_init p = None -> pc_rot p = Some rs ->
  let p' := fst (fst (pc_every_second p)) in
  (pc_counter p + 1 <? ROTATE_INTERVAL = true ->
     pc_rot p' = Some rs /\ pc_counter p' = pc_counter p + 1 /\ snd (pc_every_second p) = None) /\
  (pc_counter p + 1 <? ROTATE_INTERVAL = false ->
     pc_counter p' = 0 /\ pc_rot p' = Some (fst (fst (fst (rot_cycle rs (pc_fresh p)))))).
Proof. exact counter_cycles. Qed.

(* non-vacuity: a concrete schedule with loss, duplicates and stale deliveries *)
Example C07_ex_schedule :
  let s := fst (rsys_run (rsys_init 7 100 101 1000 2000 true)
                 [RDeliverB 0; RCycleB; RCycleA; RDeliverA 0; RDeliverA 0; RCycleA; RCycleA; RDeliverB 0; RDeliverB 1;
                  RCycleB; RDeliverA 1; RCycleA; RDeliverB 2; RSealA [1]; RTickB; RCycleB; RDeliverA 2]) in
  (current (e_core (ea s)), current (e_core (eb s)), send_key (ea s) =? held_key (eb s) (ea s), send_key (eb s) =? held_key (ea s) (eb s))
  = (2, 1, true, true).
Proof. vm_compute. reflexivity. Qed.

Print Assumptions C07_send_key_held.
Print Assumptions C07_invariant_step.
Print Assumptions C07_invariant_init.
Print Assumptions C07_fresh_payload_opens.
Print Assumptions C07_duplicates_ignored.
Print Assumptions C07_loss_postpones.
Print Assumptions C07_progress.
Print Assumptions C07_counter.

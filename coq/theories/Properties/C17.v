(* C17 — Beacons round-trip, are found inside arbitrary text, respect age and password.
   Pinned statements only.  SHA-512 is modelled bit-exact (Sha512.v), so no hash oracle is assumed;
   the statements hold for every key (password). *)
From VpnModel Require Import Base Base62 Base62Proofs Sha512 Beacon BeaconProofs.

(* T1: base 62 text of a byte string decodes to the string without its leading zero bytes; the
   encoder never hits its assert / index panic sites *)
Theorem C17_base62_roundtrip : forall data, all_bytes data ->
  exists s, to_base62 data = Ok s /\ from_base62 s = Ok (strip0 data).
Proof. exact base62_roundtrip. Qed.

Theorem C17_base62_value : forall data, all_bytes data ->
  exists ds, to_base62_digits data = Ok ds /\ canon 62 (rev ds) /\ lval 62 (rev ds) = be_val data.
Proof. exact to_base62_spec. Qed.

(* T2: masking is an involution, encrypt/decrypt of the body round-trips with a verifying seed byte *)
Theorem C17_mask_involutive : forall key ty seed data, mask key ty seed (mask key ty seed data) = data.
Proof. exact mask_involutive. Qed.

Theorem C17_crypt_roundtrip : forall key data, decrypt_data key (encrypt_data key data) = (data, true).
Proof. exact crypt_roundtrip. Qed.

(* T3: for every key, hour stamp, peer list (IPv4 entries in order, then IPv6 entries in order) and
   every age limit that admits the stamp, the list is recovered exactly — unless the first six bytes
   of the masked body are all zero (base 62 drops leading zero bytes; the decoder, after the fix of
   F9a, restores up to five of them; the residual has probability 2^-48 per beacon) *)
Theorem C17_roundtrip : forall key hour now ttl peers,
  Forall peer_ok peers -> hour < 65536 -> (length (filter is_v4 peers) < 256)%nat ->
  (match ttl with None => True | Some t => (now + 65536 - hour) mod 65536 <= t \/ (hour + 65536 - now) mod 65536 <= t end) ->
  ~ f9a_residual key hour peers ->
  peerlist_decode key now ttl (peerlist_encode key hour peers) = filter is_v4 peers ++ filter (fun p => negb (is_v4 p)) peers.
Proof. exact peerlist_roundtrip. Qed.

(* T4: embedded in text: separators vanish (sanitize distributes over ++ and is the identity on
   alphanumerics), and where the scanner's two `find` calls hit, the body between them is decoded *)
Theorem C17_sanitize_app : forall a b, sanitize (a ++ b) = sanitize a ++ sanitize b.
Proof. exact sanitize_app. Qed.
Theorem C17_sanitize_alnum : forall l, forallb is_alnum l = true -> sanitize l = l.
Proof. exact sanitize_alnum. Qed.
Theorem C17_embedded : forall fuel key now ttl bgn en data pos found body_len,
  find bgn (skipn pos data) = Some found ->
  find en (skipn (pos + found + length bgn) data) = Some body_len ->
  exists more,
    scan (S fuel) key now ttl bgn en data pos =
    peerlist_decode key now ttl (firstn body_len (skipn (pos + found + length bgn) data)) ++ more.
Proof. exact scan_embedded. Qed.

(* T5: age: a stamp is refused exactly when it is further than ttl away in both directions (mod 2^16);
   this is the plain decoder's first test, shown on the unmasked list *)
Theorem C17_plain_roundtrip : forall hour now ttl peers,
  Forall peer_ok peers -> hour < 65536 -> (length (filter is_v4 peers) < 256)%nat ->
  (match ttl with None => True | Some t => (now + 65536 - hour) mod 65536 <= t \/ (hour + 65536 - now) mod 65536 <= t end) ->
  plain_decode now ttl (peerlist_plain hour peers) = filter is_v4 peers ++ filter (fun p => negb (is_v4 p)) peers.
Proof. exact plain_roundtrip. Qed.

(* T6: no panic sites: sanitised text always parses as base 62 (the `expect`), and every slice the
   scanner takes is inside the text with start <= end (after the fix of F9b) *)
Theorem C17_sanitized_decodes : forall l, forallb is_alnum l = true -> is_ok (from_base62 l) = true.
Proof. exact sanitized_decodes. Qed.
Theorem C17_sanitize_is_alnum : forall l, forallb is_alnum (sanitize l) = true.
Proof. exact sanitize_is_alnum. Qed.
Theorem C17_slices_in_range : forall bgn en data pos found body_len,
  (pos <= length data)%nat ->
  find bgn (skipn pos data) = Some found ->
  find en (skipn (pos + found + length bgn) data) = Some body_len ->
  (pos + found + length bgn <= pos + found + length bgn + body_len)%nat /\
  (pos + found + length bgn + body_len + length en <= length data)%nat.
Proof. exact scan_slices_in_range. Qed.

(* non-vacuity: the in-tree test beacon *)
Example C17_ex_roundtrip :
  let key := [109;121;115;101;99;114;101;116;107;101;121] in
  decode key 2000 (Some 24) (encode key 2000 [[1;2;3;4;22;46]; [6;6;6;6;0;53]]) = [[1;2;3;4;22;46]; [6;6;6;6;0;53]].
Proof. vm_compute. reflexivity. Qed.

Print Assumptions C17_base62_roundtrip.
Print Assumptions C17_base62_value.
Print Assumptions C17_mask_involutive.
Print Assumptions C17_crypt_roundtrip.
Print Assumptions C17_roundtrip.
Print Assumptions C17_sanitize_app.
Print Assumptions C17_sanitize_alnum.
Print Assumptions C17_embedded.
Print Assumptions C17_plain_roundtrip.
Print Assumptions C17_sanitized_decodes.
Print Assumptions C17_sanitize_is_alnum.
Print Assumptions C17_slices_in_range.

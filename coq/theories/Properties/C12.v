(* C12 — Routes track peers: exactly the announced claims, nothing for the disconnected.
   Table half; the node half (every peer-removal path calls remove_claims) is in Node/NodeProofs. *)
From VpnModel Require Import Base RangeMatch Table TableProofs Nonce Replay Core Conn PeerCrypto NodeInfo Node NodeProofs RoutesProofs NextHopProofs ClaimsExactProofs.

(* T1: after set_claims the ranges attributed to the peer are exactly the announced ones, all with a
   fresh expiry; live entries of other peers untouched; if any claim of the peer was dropped all its
   cached decisions are gone, and cached decisions of other peers only ever disappear *)
Theorem C12_set_claims_exact : forall t now peer new,
  (0 < now)%Z -> (0 <= claim_timeout t)%Z ->
  let t' := table_set_claims t now peer new in
  (forall r, (exists c, In c (claims t') /\ c_peer c = peer /\ crange c = r) <-> In r new) /\
  (forall c, In c (claims t') -> c_peer c = peer -> c_timeout c = (now + claim_timeout t)%Z) /\
  (forall c, c_peer c <> peer -> (In c (claims t') <-> (In c (claims t) /\ (now <= c_timeout c)%Z))) /\
  ((exists e, In e (claims t) /\ c_peer e = peer /\ ~ In (crange e) new) ->
     forall e, In e (cache t') -> e_peer e <> peer) /\
  (forall e, In e (cache t') -> e_peer e <> peer -> In e (cache t)) /\
  cache_timeout t' = cache_timeout t /\ claim_timeout t' = claim_timeout t.
Proof. exact set_claims_exact. Qed.

(* T2: a claim not re-announced disappears at the first sweep after its expiry *)
Theorem C12_expire : forall t now,
  (forall c, In c (claims (table_housekeep t now)) <-> (In c (claims t) /\ (now <= c_timeout c)%Z)) /\
  (forall e, In e (cache (table_housekeep t now)) <-> (In e (cache t) /\ (now <= e_timeout e)%Z)).
Proof. exact housekeep_exact. Qed.

(* T3 (table half): removal leaves no claim and no cached/learned address pointing at the peer *)
Theorem C12_remove_clean : forall t now peer, (0 < now)%Z ->
  let t' := table_remove_claims t now peer in
  (forall c, In c (claims t') -> c_peer c <> peer) /\
  (forall e, In e (cache t') -> e_peer e <> peer) /\
  (forall c, c_peer c <> peer -> (In c (claims t') <-> (In c (claims t) /\ (now <= c_timeout c)%Z))) /\
  (forall e, e_peer e <> peer -> (In e (cache t') <-> (In e (cache t) /\ (now <= e_timeout e)%Z))).
Proof. exact remove_claims_clean. Qed.

(* T3 (node half): every path on which a node drops a peer drops the peer's routes in the same step.
   no_routes n a = a is not a peer, no claim and no cached/learned address points at a. *)
(* (a) the peer's timeout passed: housekeeping's expiry phase *)
Theorem C12_expired_peer_routes_removed : forall salts now n addr pd, (0 < now)%Z ->
  aget (n_peers n) addr = Some pd -> (p_timeout pd < now)%Z ->
  aget (n_peers (fst (expire_phase salts now n))) addr = None /\
  (forall c, In c (claims (n_table (fst (expire_phase salts now n)))) -> c_peer c <> addr) /\
  (forall e, In e (cache (n_table (fst (expire_phase salts now n)))) -> e_peer e <> addr).
Proof. exact expired_peers_removed. Qed.

(* (b) the peer sent CLOSE *)
Theorem C12_closed_peer_routes_removed : forall salts now n src body reply, (0 < now)%Z ->
  no_routes (fst (handle_result salts now n src (MMessage MESSAGE_TYPE_CLOSE body) reply)) src \/
  (aget (n_peers n) src = None /\ fst (handle_result salts now n src (MMessage MESSAGE_TYPE_CLOSE body) reply) = n).
Proof. exact close_removes_routes. Qed.

(* (c) the peer's connection object failed in the crypto housekeeping (after the fix of F4);
   crypto_housekeep ends with remove_failed on the failed addresses (C12_crypto_housekeep_shape) *)
Theorem C12_failed_peer_routes_removed : forall salts now del m fx addr, (0 < now)%Z ->
  In addr del -> ahas (n_peers m) addr = true ->
  no_routes (fst (remove_failed salts now del (m, fx))) addr.
Proof. exact failed_peer_routes_removed. Qed.

Theorem C12_crypto_housekeep_shape : forall salts now n,
  crypto_housekeep salts now n =
  let '(n1, fx1, del1) := tick_pending n in
  let '(n2, fx2, del2) := tick_peers n1 in
  remove_failed salts now del2
    (fold_left (fun m addr => upd m (n_peers m) (adel (n_pending m) addr) (n_own m) (n_table m)) del1 n2, fx1 ++ fx2).
Proof. exact crypto_housekeep_shape. Qed.


(* T1 at node level: whenever a node processes the node information of a connected peer - in a NODE_INFO message, or as the payload
   that completes a handshake - the claims attributed to that peer become exactly the announced ones with a fresh expiry, and other
   peers' live claims are untouched.
   claims_exactly t' t now addr announced :=
     (forall r, (exists c, In c (claims t') /\ c_peer c = addr /\ crange c = r) <-> In r announced) /\
     (forall c, In c (claims t') -> c_peer c = addr -> c_timeout c = now + claim_timeout t) /\
     (forall c, c_peer c <> addr -> (In c (claims t') <-> In c (claims t) /\ now <= c_timeout c)) *)
Theorem C12_node_info_message_sets_claims_exactly : forall salts now n src pd body info reply, (0 < now)%Z -> (0 <= claim_timeout (n_table n))%Z ->
  aget (n_peers n) src = Some pd -> ni_decode body = Ok info ->
  claims_exactly (n_table (fst (handle_result salts now n src (MMessage MESSAGE_TYPE_NODE_INFO body) reply))) (n_table n) now src (ni_claims info).
Proof. exact node_info_message_sets_claims_exactly. Qed.

Theorem C12_handshake_payload_sets_claims_exactly : forall salts now n src pc info, (0 < now)%Z -> (0 <= claim_timeout (n_table n))%Z ->
  aget (n_pending n) src = Some pc ->
  claims_exactly (n_table (fst (add_new_peer salts now n src info))) (n_table n) now src (ni_claims info).
Proof. exact handshake_payload_sets_claims_exactly. Qed.

(* T4 (last sentence of the property, as an invariant): in EVERY state a node can reach - any events (datagrams from any source,
   interface reads, housekeeping, dials) at any times > 0, any handshake salts - every claim and every cached / learned address of the
   table belongs to a current peer, and handshake objects still in the pending map hold no key material (which is why they cannot
   deliver data that would teach the table an address of a non-peer) *)
Theorem C12_reachable_routes_point_at_peers : forall salts c t0 evs, Forall (fun te => (0 < fst te)%Z) evs ->
  let n := nrun salts (node_new c t0) evs in
  (forall cl, In cl (claims (n_table n)) -> ahas (n_peers n) (c_peer cl) = true) /\
  (forall e, In e (cache (n_table n)) -> ahas (n_peers n) (e_peer e) = true) /\
  (forall a pc, aget (n_pending n) a = Some pc -> pc_plain pc = false /\ pc_core pc = None).
Proof. exact reachable_routes_point_at_peers. Qed.

(* one step preserves it (INV n = RT n /\ PI n: the two halves above) *)
Theorem C12_step_keeps_routes_at_peers : forall salts now n e, (0 < now)%Z -> INV n -> INV (fst (step salts now n e)).
Proof. exact step_inv. Qed.

(* hence: whatever next hop a lookup selects is a peer, and the interface path never meets "Sending to node that is not a peer" *)
Theorem C12_next_hop_is_peer : forall salts c t0 evs now dst p, Forall (fun te => (0 < fst te)%Z) evs ->
  fst (table_lookup (n_table (nrun salts (node_new c t0) evs)) now dst) = Some p ->
  ahas (n_peers (nrun salts (node_new c t0) evs)) p = true.
Proof. exact next_hop_is_peer. Qed.

Theorem C12_iface_never_selects_non_peer : forall salts c t0 evs now frame s dst p t', Forall (fun te => (0 < fst te)%Z) evs ->
  let n := nrun salts (node_new c t0) evs in
  parse_frame (n_cfg n) frame = Ok (s, dst) -> table_lookup (n_table n) now dst = (Some p, t') ->
  exists pd, aget (n_peers n) p = Some pd.
Proof. exact iface_never_selects_non_peer. Qed.


Example C12_ex_shrink :
  let t := table_set_claims (table_new 300 300) 5 1 [([10;0;0;0], 8); ([10;1;0;0], 16)] in
  map crange (claims (table_set_claims t 6 1 [([10;0;0;0], 8)])) = [([10;0;0;0], 8)].
Proof. exact set_claims_shrink. Qed.

(* a reachable state whose table does select a next hop (node B after A's ping and peng): the theorems above are not vacuous *)
Example C12_ex_reachable_selects : Forall (fun te => (0 < fst te)%Z) ex_evs /\
  fst (table_lookup (n_table (nrun salts (node_new cB 1) ex_evs)) 2 [10;0;1;9]) = Some 1001 /\
  ahas (n_peers (nrun salts (node_new cB 1) ex_evs)) 1001 = true.
Proof. exact ex_reachable_selects. Qed.

Print Assumptions C12_set_claims_exact.
Print Assumptions C12_expire.
Print Assumptions C12_remove_clean.
Print Assumptions C12_expired_peer_routes_removed.
Print Assumptions C12_closed_peer_routes_removed.
Print Assumptions C12_failed_peer_routes_removed.
Print Assumptions C12_crypto_housekeep_shape.
Print Assumptions C12_reachable_routes_point_at_peers.
Print Assumptions C12_step_keeps_routes_at_peers.
Print Assumptions C12_next_hop_is_peer.
Print Assumptions C12_iface_never_selects_non_peer.
Print Assumptions C12_node_info_message_sets_claims_exactly.
Print Assumptions C12_handshake_payload_sets_claims_exactly.

(* C12 — Routes track peers: exactly the announced claims, nothing for the disconnected.
   Table half; the node half (every peer-removal path calls remove_claims) is in Node/NodeProofs. *)
From VpnModel Require Import Base RangeMatch Table TableProofs.

(* T1: after set_claims the ranges attributed to the peer are exactly the announced ones, all with a
   fresh expiry; live entries of other peers untouched; if any claim of the peer was dropped all its
   cached decisions are gone, and cached decisions of other peers only ever disappear *)
Theorem C12_set_claims_exact : forall t now peer new,
  (0 < now)%Z -> (0 <= claim_timeout t)%Z ->
  let t' := table_set_claims t now peer new in
  (forall r, (exists c, In c (claims t') /\ c_peer c = peer /\ crange c = r) <-> In r new) /\
  (forall c, In c (claims t') -> c_peer c = peer -> c_timeout c = (now + claim_timeout t)%Z) /\
  (forall c, c_peer c <> peer -> (In c (claims t') <-> (In c (claims t) /\ (now <= c_timeout c)%Z))) /\
  ((exists e, In e (claims t) /\ c_peer e = peer /\ ~ In (crange e) new) ->
     forall e, In e (cache t') -> e_peer e <> peer) /\
  (forall e, In e (cache t') -> e_peer e <> peer -> In e (cache t)) /\
  cache_timeout t' = cache_timeout t /\ claim_timeout t' = claim_timeout t.
Proof. exact set_claims_exact. Qed.

(* T2: a claim not re-announced disappears at the first sweep after its expiry *)
Theorem C12_expire : forall t now,
  (forall c, In c (claims (table_housekeep t now)) <-> (In c (claims t) /\ (now <= c_timeout c)%Z)) /\
  (forall e, In e (cache (table_housekeep t now)) <-> (In e (cache t) /\ (now <= e_timeout e)%Z)).
Proof. exact housekeep_exact. Qed.

(* T3 (table half): removal leaves no claim and no cached/learned address pointing at the peer *)
Theorem C12_remove_clean : forall t now peer, (0 < now)%Z ->
  let t' := table_remove_claims t now peer in
  (forall c, In c (claims t') -> c_peer c <> peer) /\
  (forall e, In e (cache t') -> e_peer e <> peer) /\
  (forall c, c_peer c <> peer -> (In c (claims t') <-> (In c (claims t) /\ (now <= c_timeout c)%Z))) /\
  (forall e, e_peer e <> peer -> (In e (cache t') <-> (In e (cache t) /\ (now <= e_timeout e)%Z))).
Proof. exact remove_claims_clean. Qed.

Example C12_ex_shrink :
  let t := table_set_claims (table_new 300 300) 5 1 [([10;0;0;0], 8); ([10;1;0;0], 16)] in
  map crange (claims (table_set_claims t 6 1 [([10;0;0;0], 8)])) = [([10;0;0;0], 8)].
Proof. exact set_claims_shrink. Qed.

Print Assumptions C12_set_claims_exact.
Print Assumptions C12_expire.
Print Assumptions C12_remove_clean.

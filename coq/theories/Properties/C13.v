(* C13 — Switch learning is per VLAN and expires; hub and router learn nothing.
   Pinned statements only.  Addresses are the 8-byte (VLAN, MAC) keys of Dissect.v (after the fix of
   F5 a priority tag, VLAN 0, yields the same key as no tag: C19). *)
From VpnModel Require Import Base Dissect DissectProofs Core Conn PeerCrypto Table TableProofs Node NodeProofs.

(* learning mode: the frame's source key now points to the sending peer with the switch timeout, every other key and all claims unchanged; hub/router mode: table untouched *)
Theorem C13_learns : forall salts now n src body reply s d,
  parse_frame (n_cfg n) body = Ok (s, d) ->
  let n' := fst (handle_result salts now n src (MMessage MESSAGE_TYPE_DATA body) reply) in
  if c_learning (n_cfg n)
  then cache_get (cache (n_table n')) s = Some {| e_addr := s; e_peer := src; e_timeout := (now + cache_timeout (n_table n))%Z |} /\
       (forall b, b <> s -> cache_get (cache (n_table n')) b = cache_get (cache (n_table n)) b) /\
       claims (n_table n') = claims (n_table n)
  else n_table n' = n_table n.
Proof. exact data_learns. Qed.

(* table level: cache() replaces the entry of exactly that key *)
Theorem C13_learn_exact : forall t now a p,
  cache_get (cache (table_cache t now a p)) a = Some {| e_addr := a; e_peer := p; e_timeout := (now + cache_timeout t)%Z |} /\
  (forall b, b <> a -> cache_get (cache (table_cache t now a p)) b = cache_get (cache t) b) /\
  claims (table_cache t now a p) = claims t.
Proof. exact learn_exact. Qed.

(* a learned key resolves to its peer *)
Theorem C13_lookup_learned : forall t now a e, cache_get (cache t) a = Some e ->
  table_lookup t now a = (Some (e_peer e), t).
Proof. exact lookup_cached. Qed.

(* housekeeping removes exactly the entries whose timeout passed *)
Theorem C13_expires : forall t now,
  (forall c, In c (claims (table_housekeep t now)) <-> (In c (claims t) /\ (now <= c_timeout c)%Z)) /\
  (forall e, In e (cache (table_housekeep t now)) <-> (In e (cache t) /\ (now <= e_timeout e)%Z)).
Proof. exact housekeep_exact. Qed.

(* a disconnecting peer takes its learned entries with it *)
Theorem C13_disconnect : forall t now peer, (0 < now)%Z ->
  let t' := table_remove_claims t now peer in
  (forall c, In c (claims t') -> c_peer c <> peer) /\
  (forall e, In e (cache t') -> e_peer e <> peer) /\
  (forall c, c_peer c <> peer -> (In c (claims t') <-> (In c (claims t) /\ (now <= c_timeout c)%Z))) /\
  (forall e, e_peer e <> peer -> (In e (cache t') <-> (In e (cache t) /\ (now <= e_timeout e)%Z))).
Proof. exact remove_claims_clean. Qed.

(* the key contains the 12-bit VLAN id: the same MAC in another VLAN is another key *)
Theorem C13_per_vlan : forall dst src a b rest,
  length dst = 6%nat -> length src = 6%nat -> a < 256 -> b < 256 ->
  frame_parse (dst ++ src ++ 129 :: 0 :: a :: b :: rest) =
    if vid a b =? 0 then Ok (src, dst)
    else Ok (be_enc 2 (vid a b) ++ src, be_enc 2 (vid a b) ++ dst).
Proof. exact frame_tagged. Qed.

(* untagged frames have VLAN 0 *)
Theorem C13_untagged : forall dst src e0 e1 rest,
  length dst = 6%nat -> length src = 6%nat -> (e0, e1) <> (129, 0) ->
  frame_parse (dst ++ src ++ e0 :: e1 :: rest) = Ok (src, dst).
Proof. exact frame_untagged. Qed.

(* unknown destinations: one datagram per peer in flooding modes (never an interface write) *)
Theorem C13_unknown_floods : forall salts now n frame,
  Forall (fun e => is_send e = true) (snd (handle_iface salts now n frame)).
Proof. exact iface_read_effects. Qed.

Print Assumptions C13_learns.
Print Assumptions C13_learn_exact.
Print Assumptions C13_lookup_learned.
Print Assumptions C13_expires.
Print Assumptions C13_disconnect.
Print Assumptions C13_per_vlan.
Print Assumptions C13_untagged.
Print Assumptions C13_unknown_floods.

(* C10 — Forwarding isolation: no relaying, exact once-only delivery.
   Pinned statements only.
   PARTIAL: the mesh-wide conservation statement (each frame delivered byte-identical exactly once to
   every selected peer and to no other node) quantifies over networks of nodes; it is decided by the
   executed correspondence on 2-5 node meshes with a conservation oracle (py/props/c10.py).  The
   per-node theorems below are the facts that oracle rests on. *)
From VpnModel Require Import Base Nonce Replay Core CoreProofs Conn PeerCrypto SealProofs Table Node NodeProofs TrustProofs EndToEndProofs NextHopProofs TickPeersProofs FloodProofs.

(* END TO END (two nodes): a frame read from the interface of node A whose destination resolves to peer B causes exactly one datagram, to B, and that datagram makes B write exactly that frame to its interface and nothing else, whenever the two connection objects are in sync (B holds A's sealing key under its id, nonce reconstructible, window admits: the C07/C04/C03 invariants) *)
Theorem C10_unicast_end_to_end : forall salts now now' nA nB frame s d s' d' addrA addrB pdA pdB cA cB tA',
  parse_frame (n_cfg nA) frame = Ok (s, d) ->
  table_lookup (n_table nA) now d = (Some addrB, tA') ->
  aget (n_peers nA) addrB = Some pdA -> pc_plain (p_crypto pdA) = false -> pc_core (p_crypto pdA) = Some cA ->
  aget (n_peers nB) addrA = Some pdB -> aget (n_pending nB) addrA = None ->
  pc_plain (p_crypto pdB) = false -> pc_core (p_crypto pdB) = Some cB ->
  in_sync cA cB ->
  parse_frame (n_cfg nB) frame = Ok (s', d') ->
  exists w, snd (handle_iface salts now nA frame) = [XSend addrB w] /\
            snd (handle_net salts now' nB addrA w) = [XWrite frame].
Proof. exact unicast_end_to_end. Qed.

(* an interface read only ever causes datagrams to peers, never an interface write *)
Theorem C10_iface_only_sends : forall salts now n frame,
  Forall (fun e => is_send e = true) (snd (handle_iface salts now n frame)).
Proof. exact iface_read_effects. Qed.

(* and a datagram goes to an address only if it is an established peer *)
Theorem C10_send_to_peers_only : forall n addr ty body,
  snd (send_data n addr ty body) = [] \/
  (exists w, snd (send_data n addr ty body) = [XSend addr w] /\ ahas (n_peers n) addr = true).
Proof. exact send_data_effects. Qed.

(* payload received from a peer causes at most one interface write of exactly that body and no datagram to anyone: no relaying *)
Theorem C10_no_relay : forall salts now n src body reply,
  snd (handle_result salts now n src (MMessage MESSAGE_TYPE_DATA body) reply) = [XWrite body] \/
  snd (handle_result salts now n src (MMessage MESSAGE_TYPE_DATA body) reply) = [].
Proof. exact data_no_relay. Qed.

(* router mode, unknown destination: dropped and counted *)
Theorem C10_unknown_dest_router : forall salts now n frame s d t',
  parse_frame (n_cfg n) frame = Ok (s, d) -> table_lookup (n_table n) now d = (None, t') -> c_broadcast (n_cfg n) = false ->
  snd (handle_iface salts now n frame) = [] /\ n_dropped (fst (handle_iface salts now n frame)) = n_dropped n + 1.
Proof. exact iface_unknown_router_drops. Qed.

(* datagrams from non-peers (nothing verifiable) never reach the interface *)
Theorem C10_non_peer_nothing : forall salts now n src w, unverifiable w -> all_encrypted n ->
  same_state n (fst (handle_net salts now n src w)) /\ snd (handle_net salts now n src w) = [].
Proof. exact unverifiable_no_residue. Qed.

(* what is delivered is byte-identical to what was sealed *)
Theorem C10_byte_identical : forall ok p1 p2 c1 c2 ty body p1' w, pc_plain p1 = false -> pc_plain p2 = false ->
  pc_core p1 = Some c1 -> pc_core p2 = Some c2 -> wf_core c1 -> wf_core c2 ->
  s_key (get_slot c2 (current c1)) = s_key (get_slot c1 (current c1)) ->
  let n' := nonce_increment (s_send (get_slot c1 (current c1))) in
  nonce_rebuild (half c2) (nonce_wire n') = n' ->
  accepts (s_win (get_slot c2 (current c1))) (be_val n') = true ->
  (ty =? MESSAGE_TYPE_ROTATION) = false ->
  pc_seal p1 ty body = (p1', Ok w) ->
  snd (fst (pc_handle ok p2 w)) = Ok (MMessage ty body).
Proof. exact pc_roundtrip. Qed.

(* a flood (broadcast) emits, for the peers in map order, exactly the datagram each peer's connection object seals - nothing else, nobody twice, nobody skipped (peer map without duplicate addresses) *)
Theorem C10_flood_exact : forall n ty body, NoDup (keys (n_peers n)) ->
  snd (broadcast n ty body) = flat_map (seal_fx ty body) (n_peers n).
Proof. exact broadcast_exact. Qed.

(* in EVERY reachable node state (any events, any times, any salts) a frame whose destination the table does not know is, in a flooding mode, sent to every peer exactly once: the peer map never lists an address twice (TickPeersProofs.reachable_nd) and every peer's connection object can seal (FloodProofs.reachable_se) *)
Theorem C10_reachable_flood_every_peer_once : forall salts c t0 evs now frame s d t',
  let n := nrun salts (node_new c t0) evs in
  parse_frame (n_cfg n) frame = Ok (s, d) -> table_lookup (n_table n) now d = (None, t') -> c_broadcast (n_cfg n) = true ->
  map dst_of (snd (handle_iface salts now n frame)) = map (fun e => Some (fst e)) (n_peers n).
Proof. exact reachable_flood_every_peer_once. Qed.

(* non-vacuity: the reachable example state of NextHopProofs floods to its one peer *)
Example C10_ex_flood : map dst_of (snd (broadcast ex_b MESSAGE_TYPE_DATA [1;2;3])) = [Some 1001].
Proof. exact ex_flood. Qed.

Print Assumptions C10_unicast_end_to_end.
Print Assumptions C10_iface_only_sends.
Print Assumptions C10_send_to_peers_only.
Print Assumptions C10_no_relay.
Print Assumptions C10_unknown_dest_router.
Print Assumptions C10_non_peer_nothing.
Print Assumptions C10_byte_identical.
Print Assumptions C10_flood_exact.
Print Assumptions C10_reachable_flood_every_peer_once.

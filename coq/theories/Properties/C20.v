(* C20 — Configuration sources combine as documented.
   Pinned statements only.  Strings are tokens; the theorems start from the parsed ConfigFile / Args
   values (YAML and command-line parsing - serde_yaml, structopt - are exercised by the
   correspondence run, which renders every case as YAML text and an argument vector).
   pick a f d = command-line value if given, else file value, else default; picko likewise with
   "not set" as the default. *)
From VpnModel Require Import Base ConfigMerge ConfigProofs Netmask NetmaskProofs.

(* every scalar setting: command line, else file, else the documented default (spec_scalars lists all 25, with the defaults) *)
Theorem C20_precedence : forall f a, spec_scalars f a (effective f a).
Proof. exact precedence_scalars. Qed.

(* one-way switches: --fix-rp-filter/--daemon can only switch on, --no-auto-claim/--no-port-forwarding only off; otherwise file, else default *)
Theorem C20_switches : forall f a,
  let c := effective f a in
  fix_rp_filter c = (a_fix_rp_filter a || pick None (sub (cf_dev f) cfd_fix) false) /\
  auto_claim c = (negb (a_no_auto_claim a) && pick None (cf_auto_claim f) true) /\
  port_forwarding c = (negb (a_no_port_forwarding a) && pick None (cf_port_forwarding f) true) /\
  daemonize c = a_daemon a.
Proof. exact precedence_switches. Qed.

(* peers, claims, advertised addresses, trusted keys: file entries then command-line entries; per-event hooks: command line wins per event, else file *)
Theorem C20_lists_accumulate : forall f a,
  let c := effective f a in
  peers c = ov (cf_peers f) [] ++ a_peers a /\
  claims c = ov (cf_claims f) [] ++ a_claims a /\
  advertise c = ov (cf_advertise f) [] ++ a_advertise a /\
  cc_trusted (crypto c) = cc_trusted (cf_crypto f) ++ a_trusted a /\
  (forall k, hget (hooks c) k = picko (last_event k (a_hook a)) (last_kv k (cf_hooks f))).
Proof. exact lists_accumulate. Qed.

(* (the cipher list is replaced by a non-empty later source, not accumulated - stated as the code has it) *)
Theorem C20_algorithms_replace : forall f a,
  cc_algos (crypto (effective f a)) =
  match a_algos a with [] => (match cc_algos (cf_crypto f) with [] => [] | l => l end) | l => l end.
Proof. exact algorithms_replace. Qed.

(* the plain hook is the last plain --hook, else the previous value *)
Theorem C20_hook_plain : forall l cur, args_hook cur l = picko (last_plain l) cur.
Proof. exact args_hook_spec. Qed.

(* turning a configuration into file form and merging it into the defaults reproduces it (daemonize is command-line only; the hook map has unique keys) *)
Theorem C20_file_roundtrip : forall c, daemonize c = false -> NoDup (map fst (hooks c)) -> file_roundtrip c = c.
Proof. exact file_roundtrip_id. Qed.

(* every prefix length 0..32 gives the mask with that many leading one bits (after the fix of F12 for 0) *)
Theorem C20_netmask : forall p, p <= 32 -> mask_of_prefix p = leading_ones p.
Proof. exact mask_spec. Qed.

(* a successful parse means: prefix <= 32, that mask, address parsed *)
Theorem C20_netmask_result : forall text ip_ok m, parse_ip_netmask text ip_ok = Ok m ->
  exists p, p <= 32 /\ m = leading_ones p /\ ip_ok = true /\
    parse_u8 (len_part text) = Some p.
Proof. exact netmask_result. Qed.

(* /24 when the prefix is omitted *)
Theorem C20_netmask_default : forall text, find_byte 47 text = None ->
  parse_ip_netmask text true = Ok (leading_ones 24).
Proof. exact netmask_default_24. Qed.

(* an error above 32 *)
Theorem C20_netmask_overlong : forall text ip_ok p,
  parse_u8 (len_part text) = Some p ->
  32 < p -> parse_ip_netmask text ip_ok = Err 1.
Proof. exact netmask_overlong. Qed.

(* never a panic *)
Theorem C20_netmask_no_panic : forall text ip_ok, is_panic (parse_ip_netmask text ip_ok) = false.
Proof. exact netmask_no_panic. Qed.

Example C20_ex_precedence :
  let f := {| cf_dev := None; cf_ip := Some 5; cf_advertise := None; cf_ifup := None; cf_ifdown := None; cf_crypto := default_crypto;
              cf_listen := Some 6; cf_peers := Some [1; 2]; cf_peer_timeout := None; cf_keepalive := None; cf_beacon_ := None;
              cf_mode := None; cf_switch_timeout := None; cf_claims := None; cf_auto_claim := None; cf_port_forwarding := Some false;
              cf_pid_file := None; cf_stats_file := None; cf_statsd_ := None; cf_user := None; cf_group := None; cf_hook := None;
              cf_hooks := [(1, 10)] |} in
  let a := {| a_type := None; a_device := None; a_device_path := None; a_fix_rp_filter := false; a_ip := Some 7; a_ifup := None;
              a_advertise := []; a_ifdown := None; a_listen := None; a_peers := [3]; a_peer_timeout := None; a_keepalive := None;
              a_beacon_store := None; a_beacon_load := None; a_beacon_interval := None; a_beacon_password := None; a_mode := None;
              a_switch_timeout := None; a_claims := []; a_no_auto_claim := false; a_no_port_forwarding := false; a_daemon := false;
              a_pid_file := None; a_stats_file := None; a_statsd_server := None; a_statsd_prefix := None; a_user := None; a_group := None;
              a_password := None; a_public_key := None; a_private_key := None; a_trusted := []; a_algos := [];
              a_hook := [HEvent 1 11; HPlain 12] |} in
  let c := effective f a in
  ip c = Some 7 /\ listen c = 6 /\ peers c = [1; 2; 3] /\ peer_timeout c = 300 /\ port_forwarding c = false /\
  hook c = Some 12 /\ hooks c = [(1, 11)] /\ file_roundtrip c = c.
Proof. vm_compute. repeat split; reflexivity. Qed.

Print Assumptions C20_precedence.
Print Assumptions C20_switches.
Print Assumptions C20_lists_accumulate.
Print Assumptions C20_algorithms_replace.
Print Assumptions C20_hook_plain.
Print Assumptions C20_file_roundtrip.
Print Assumptions C20_netmask.
Print Assumptions C20_netmask_result.
Print Assumptions C20_netmask_default.
Print Assumptions C20_netmask_overlong.
Print Assumptions C20_netmask_no_panic.

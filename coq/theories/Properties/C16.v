(* C16 — Wire codecs round-trip, skip unknown parts, and are total.
   Pinned statements only.  Totality: every decoder of the model is a Gallina function (structural
   recursion or explicit fuel bounded by the input length), so it ends with a value or an error on
   every byte string by construction; that the model decoders ARE the real ones is the executed
   correspondence on arbitrary bytes (py/props/c16.py: round-trips, mutated encodings, random bytes,
   TLV lengths up to 0xffff).
   PARTIAL: the NodeInfo round-trip (with the seven-addresses normalisation) is not yet proved as a
   theorem; it is decided by the correspondence (ni_rt cases) and the python reference. *)
From VpnModel Require Import Base RangeMatch Conn NodeInfo InitMsg CodecProofs DissectProofs.

(* rotation messages decode to what was encoded, whatever follows *)
Theorem C16_rotation_roundtrip : forall m tail, rot_wf m -> rot_decode (rot_encode m ++ tail) = Some m.
Proof. exact rot_roundtrip. Qed.

(* handshake messages (every stage, optional parts) decode to what was encoded *)
Theorem C16_init_roundtrip : forall lookup verify pfx p sig tail key,
  length pfx = 8%nat -> parsed_ok p -> (length sig < 256)%nat ->
  lookup (firstn 4 pfx) (firstn 4 (skipn 4 pfx)) = Some key ->
  verify key (pfx ++ write_body p) sig = true ->
  read_from lookup verify (pfx ++ write_body p ++ [lenN sig] ++ sig ++ tail) = Ok (p, key).
Proof. exact initmsg_roundtrip. Qed.

(* a handshake part with an unknown tag is skipped *)
Theorem C16_init_unknown_skipped : forall fu tag body r f, (5 < tag) -> lenN body < 65536 ->
  parse_parts (S fu) (enc_tlv tag body ++ r) f = parse_parts fu r f.
Proof. exact pp_unknown. Qed.

Print Assumptions C16_rotation_roundtrip.
Print Assumptions C16_init_roundtrip.
Print Assumptions C16_init_unknown_skipped.

(* C16 — Wire codecs round-trip, skip unknown parts, and are total.
   Pinned statements only.  Totality: every decoder of the model is a Gallina function (structural
   recursion or explicit fuel bounded by the input length), so it ends with a value or an error on
   every byte string by construction; that the model decoders ARE the real ones is the executed
   correspondence on arbitrary bytes (py/props/c16.py: round-trips, mutated encodings, random bytes,
   TLV lengths up to 0xffff).
   PARTIAL: that the REAL decoders never panic, hang or allocate beyond the datagram is decided by the
   correspondence run only (the model decoders are total by construction). *)
From VpnModel Require Import Base RangeMatch Conn NodeInfo NodeInfoProofs InitMsg CodecProofs DissectProofs.

(* node information decodes to exactly what was encoded up to the normalisation (at most seven addresses per family and entry, IPv6 before IPv4), whatever follows the end marker; ni_wf = what an honest encoder is given (16-byte ids, 6/18-byte addresses, claims of at most 16 address bytes, parts below 64 KiB) *)
Theorem C16_nodeinfo_roundtrip : forall x tail, ni_wf x -> ni_decode (ni_encode x ++ tail) = Ok (ni_normalise x).
Proof. exact nodeinfo_roundtrip. Qed.

(* a node-information part with an unknown tag is skipped *)
Theorem C16_nodeinfo_unknown_skipped : forall f acc tag body r, 5 < tag -> lenN body < 65536 ->
  dec_parts (S f) acc (enc_part tag body ++ r) = dec_parts f acc r.
Proof. exact nodeinfo_unknown_skipped. Qed.

(* the node-information decoder has no panic result for any byte string *)
Theorem C16_nodeinfo_total : forall d, is_panic (ni_decode d) = false.
Proof. exact nodeinfo_decode_total. Qed.

(* rotation messages decode to what was encoded, whatever follows *)
Theorem C16_rotation_roundtrip : forall m tail, rot_wf m -> rot_decode (rot_encode m ++ tail) = Some m.
Proof. exact rot_roundtrip. Qed.

(* handshake messages (every stage, optional parts) decode to what was encoded *)
Theorem C16_init_roundtrip : forall lookup verify pfx p sig tail key,
  length pfx = 8%nat -> parsed_ok p -> (length sig < 256)%nat ->
  lookup (firstn 4 pfx) (firstn 4 (skipn 4 pfx)) = Some key ->
  verify key (pfx ++ write_body p) sig = true ->
  read_from lookup verify (pfx ++ write_body p ++ [lenN sig] ++ sig ++ tail) = Ok (p, key).
Proof. exact initmsg_roundtrip. Qed.

(* a handshake part with an unknown tag is skipped *)
Theorem C16_init_unknown_skipped : forall fu tag body r f, (5 < tag) -> lenN body < 65536 ->
  parse_parts (S fu) (enc_tlv tag body ++ r) f = parse_parts fu r f.
Proof. exact pp_unknown. Qed.

Example C16_ex_wf : exists x, ni_wf x /\ ni_peers x <> [] /\ ni_claims x <> [].
Proof. eexists. split; [exact ni_wf_example|]. split; discriminate. Qed.

Print Assumptions C16_nodeinfo_roundtrip.
Print Assumptions C16_nodeinfo_unknown_skipped.
Print Assumptions C16_nodeinfo_total.
Print Assumptions C16_rotation_roundtrip.
Print Assumptions C16_init_roundtrip.
Print Assumptions C16_init_unknown_skipped.

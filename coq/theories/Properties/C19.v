(* C19 — Address dissection of frames and packets is exact and total.
   Only pinned statements, each closed by `exact <lemma>`; proofs live in DissectProofs.v. *)
From VpnModel Require Import Base Dissect DissectProofs.

(* shorter than an Ethernet header: rejected *)
Theorem C19_frame_short : forall d : bytes, (length d < 14)%nat -> frame_parse d = Err 1.
Proof. exact frame_short. Qed.

(* ethertype <> 0x8100: exactly the MAC pair at offsets 6 and 0, whatever follows *)
Theorem C19_frame_untagged : forall dst src e0 e1 rest,
  length dst = 6%nat -> length src = 6%nat -> (e0, e1) <> (129, 0) ->
  frame_parse (dst ++ src ++ e0 :: e1 :: rest) = Ok (src, dst).
Proof. exact frame_untagged. Qed.

(* 802.1Q tag but no room for the tag-control bytes: rejected *)
Theorem C19_frame_tag_short : forall dst src rest,
  length dst = 6%nat -> length src = 6%nat -> (length rest < 2)%nat ->
  frame_parse (dst ++ src ++ 129 :: 0 :: rest) = Err 2.
Proof. exact frame_tag_short. Qed.

(* one 802.1Q tag: MAC pair extended by the 12-bit VLAN id (PCP/DEI bits dropped), VLAN 0 folded
   into the untagged form; nested tags (inside rest) are never looked at *)
Theorem C19_frame_tagged : forall dst src a b rest,
  length dst = 6%nat -> length src = 6%nat -> a < 256 -> b < 256 ->
  frame_parse (dst ++ src ++ 129 :: 0 :: a :: b :: rest) =
    if vid a b =? 0 then Ok (src, dst)
    else Ok (be_enc 2 (vid a b) ++ src, be_enc 2 (vid a b) ++ dst).
Proof. exact frame_tagged. Qed.

(* the four cases above cover every byte string *)
Theorem C19_frame_shape : forall d : bytes, (14 <= length d)%nat ->
  exists dst src e0 e1 rest, length dst = 6%nat /\ length src = 6%nat /\ d = dst ++ src ++ e0 :: e1 :: rest.
Proof. exact frame_shape. Qed.

Theorem C19_frame_no_panic : forall d, is_panic (frame_parse d) = false.
Proof. exact frame_no_panic. Qed.

Theorem C19_packet_empty : packet_parse [] = Err 3.
Proof. exact packet_empty. Qed.

Theorem C19_packet_v4 : forall src dst rest b0 h,
  b0 / 16 = 4 -> length (b0 :: h) = 12%nat -> length src = 4%nat -> length dst = 4%nat ->
  packet_parse ((b0 :: h) ++ src ++ dst ++ rest) = Ok (src, dst).
Proof. exact packet_v4. Qed.

Theorem C19_packet_v6 : forall src dst rest b0 h,
  b0 / 16 = 6 -> length (b0 :: h) = 8%nat -> length src = 16%nat -> length dst = 16%nat ->
  packet_parse ((b0 :: h) ++ src ++ dst ++ rest) = Ok (src, dst).
Proof. exact packet_v6. Qed.

Theorem C19_packet_v4_short : forall b0 t, b0 / 16 = 4 -> (length (b0 :: t) < 20)%nat -> packet_parse (b0 :: t) = Err 4.
Proof. exact packet_v4_short. Qed.

Theorem C19_packet_v6_short : forall b0 t, b0 / 16 = 6 -> (length (b0 :: t) < 40)%nat -> packet_parse (b0 :: t) = Err 5.
Proof. exact packet_v6_short. Qed.

Theorem C19_packet_other : forall b0 t, b0 / 16 <> 4 -> b0 / 16 <> 6 -> packet_parse (b0 :: t) = Err 6.
Proof. exact packet_other. Qed.

Theorem C19_packet_no_panic : forall d, is_panic (packet_parse d) = false.
Proof. exact packet_no_panic. Qed.

(* non-vacuity: concrete frames / packets meeting the hypotheses *)
Example C19_ex_tagged :
  frame_parse ([6;5;4;3;2;1] ++ [1;2;3;4;5;6] ++ 129 :: 0 :: 100 :: 210 :: [1;2;3]) =
  Ok ([4;210;1;2;3;4;5;6], [4;210;6;5;4;3;2;1]).
Proof. vm_compute. reflexivity. Qed.
Example C19_ex_v4 :
  packet_parse ((69 :: [0;0;0;0;0;0;0;0;0;0;0]) ++ [192;168;1;1] ++ [192;168;1;2] ++ []) = Ok ([192;168;1;1], [192;168;1;2]).
Proof. vm_compute. reflexivity. Qed.

Print Assumptions C19_frame_short.
Print Assumptions C19_frame_untagged.
Print Assumptions C19_frame_tag_short.
Print Assumptions C19_frame_tagged.
Print Assumptions C19_frame_shape.
Print Assumptions C19_frame_no_panic.
Print Assumptions C19_packet_empty.
Print Assumptions C19_packet_v4.
Print Assumptions C19_packet_v6.
Print Assumptions C19_packet_v4_short.
Print Assumptions C19_packet_v6_short.
Print Assumptions C19_packet_other.
Print Assumptions C19_packet_no_panic.

(* C04 — No (key, nonce) pair is ever used twice.
   Pinned statements only.  Keys are names (N); "a rotated-in key is fresh" is the premise
   fresh_rotations (it comes out of a new ECDH exchange: C07 shows both ends derive it, the
   cryptographic unpredictability of X25519 output is assumed, not proved).  "Starts at an
   unpredictable value" is likewise an assumption on the random source (48 random bits); the
   theorems hold for every start value. *)
From VpnModel Require Import Base Nonce NonceProofs Replay Core CoreProofs NoReuseProofs Conn InitProofs.

(* increment_nonce is +1 on the big-endian value, modulo 2^(8*len) *)
Theorem C04_increment : forall b, all_bytes b ->
  be_val (nonce_increment b) = (be_val b + 1) mod 256 ^ N.of_nat (length b).
Proof. exact increment_spec. Qed.

(* the first k seals of a slot: strictly increasing, all in the slot's half, for every start and every k < 2^95 - 2^48 *)
Theorem C04_strict_own_half : forall h r k, all_bytes r -> length r = 6%nat ->
  N.of_nat k < 2 ^ 95 - 2 ^ 48 ->
  be_val (inc_n k (nonce_start h r)) = be_val (nonce_start h r) + N.of_nat k /\
  in_half h (be_val (inc_n k (nonce_start h r))).
Proof. exact strict_and_own_half. Qed.

(* HEADLINE: over every history of seals, opens, ticks and rotations to fresh keys no (key, nonce) pair repeats and every nonce is in the sender's half *)
Theorem C04_no_reuse : forall k dummy hf r0 r1 r2 r3 h, all_bytes r0 -> length r0 = 6%nat ->
  N.of_nat (length h) <= 2 ^ 95 - 2 ^ 48 ->
  let c0 := core_new k dummy hf r0 r1 r2 r3 in
  fresh_rotations (c0, []) h ->
  NoDup (snd (crun (c0, []) h)) /\ forall key x, In (key, x) (snd (crun (c0, []) h)) -> in_half hf x.
Proof. exact no_nonce_reuse. Qed.

(* the invariant behind it, from any state satisfying it *)
Theorem C04_invariant : forall h c log m, wf_core c -> NInv (half c) (view c) log m ->
  m + N.of_nat (length h) <= 2 ^ 95 - 2 ^ 48 -> fresh_rotations (c, log) h ->
  let st := crun (c, log) h in
  wf_core (fst st) /\ half (fst st) = half c /\ NInv (half c) (view (fst st)) (snd st) (m + N.of_nat (length h)).
Proof. exact crun_inv. Qed.

(* the halves are disjoint, so the two ends never collide even under the shared handshake key *)
Theorem C04_halves_disjoint : forall x, in_half true x -> in_half false x -> False.
Proof. exact ends_disjoint. Qed.

(* and the two ends of a handshake take opposite halves (they compare the same two salted hashes) *)
Theorem C04_ends_opposite : forall s1 n1 s2 n2, (s1 <> s2 \/ n1 <> n2) ->
  hash_gt s1 n1 s2 n2 = negb (hash_gt s2 n2 s1 n1).
Proof. exact hash_gt_opposite. Qed.

(* a rotated-in key starts a fresh sequence (new random start in the own half, fresh window) *)
Theorem C04_rotated_fresh : forall c k id use r, wf_core c ->
  get_slot (core_rotate c k id use r) (id mod 4) = new_slot k (half c) r /\
  (forall i, i <> id mod 4 -> get_slot (core_rotate c k id use r) i = get_slot c i) /\
  current (core_rotate c k id use r) = (if use then id mod 4 else current c).
Proof. exact rotate_fresh_window. Qed.

(* a counter beyond the 56 transmitted bits is not what the receiver reconstructs: the seal does not open *)
Theorem C04_overflow : forall n k p rhalf,
  length n = 12%nat -> (exists i, (1 <= i <= 4)%nat /\ nth_b i n <> 0) ->
  aead_open k (nonce_rebuild rhalf (nonce_wire n)) (Seal k n p) = None.
Proof. exact overflow_undecryptable. Qed.

(* conversely the reconstruction is exact when bytes 1..4 are zero and the half byte is the opposite one *)
Theorem C04_rebuild : forall n (rhalf : bool), length n = 12%nat ->
  nth_b 0%nat n = (if rhalf then 0 else 128) -> nth_b 1%nat n = 0 -> nth_b 2%nat n = 0 -> nth_b 3%nat n = 0 -> nth_b 4%nat n = 0 ->
  nonce_rebuild rhalf (nonce_wire n) = n.
Proof. exact rebuild_exact. Qed.

Example C04_ex_history :
  let c0 := core_new 7 99 true [1;2;3;4;5;6] [0;0;0;0;0;1] [0;0;0;0;0;2] [0;0;0;0;0;3] in
  let h := [CSeal [1]; CSeal [2]; CRot 8 1 false [9;9;9;9;9;9]; CSeal [3]; CRot 9 2 true [1;2;3;4;5;6]; CSeal [4]; CTick; CSeal [5]] in
  fresh_rotations (c0, []) h /\ length (snd (crun (c0, []) h)) = 5%nat /\
  map fst (snd (crun (c0, []) h)) = [9; 9; 7; 7; 7].
Proof. vm_compute. repeat split; try (intros [H|H]; try discriminate; try contradiction); repeat constructor; try lia. Qed.

Print Assumptions C04_increment.
Print Assumptions C04_strict_own_half.
Print Assumptions C04_no_reuse.
Print Assumptions C04_invariant.
Print Assumptions C04_halves_disjoint.
Print Assumptions C04_ends_opposite.
Print Assumptions C04_rotated_fresh.
Print Assumptions C04_overflow.
Print Assumptions C04_rebuild.

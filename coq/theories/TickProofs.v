(* C03 at the PeerCrypto level: every housekeeping second advances the replay window of every key slot of a connection object that
   has a crypto core - whether or not the object still keeps a handshake state, whether or not a rotation happens in that second. *)
From VpnModel Require Import Base Nonce Replay Core CoreProofs Conn PeerCrypto Rotation2Proofs LockstepProofs.

Definition ticked (c c' : core) : Prop :=
  wf_core c' /\ forall i, i < 4 -> s_win (get_slot c' i) = tick (s_win (get_slot c i)) \/ s_win (get_slot c' i) = win0.

Lemma init_every_second_no_panic : forall i, match snd (init_every_second i) with Panic _ => False | _ => True end.
Proof.
  intros i. unfold init_every_second.
  destruct (i_stage i =? WAITING_TO_CLOSE); [destruct (i_close_time i =? 0); exact I|].
  destruct (i_stage i =? CLOSING); [exact I|]. destruct (i_retries i <? MAX_FAILED_RETRIES); exact I.
Qed.

Lemma ticked_tick : forall c, wf_core c -> ticked c (core_tick c).
Proof.
  intros c Hwf. split; [apply wf_tick; exact Hwf|]. intros i Hi. left. rewrite tick_all_slots.
  destruct Hwf as [Hl _]. assert ((N.to_nat i <? length (slots c))%nat = true) as -> by (apply Nat.ltb_lt; rewrite Hl; lia). reflexivity.
Qed.

Lemma ticked_rotate : forall c c1 rk rnd, ticked c c1 -> ticked c (apply_rotated c1 rk rnd).
Proof.
  intros c c1 rk rnd [Hwf H]. destruct rk as [k|]; [|split; assumption]. cbn [apply_rotated].
  pose proof (rotate_fresh_window c1 (rk_key k) (rk_id k) (rk_use k) rnd Hwf) as (G1 & G2 & _).
  split; [apply wf_rotate; exact Hwf|]. intros i Hi.
  destruct (N.eq_dec i (rk_id k mod 4)) as [->|Hne].
  - right. rewrite G1. reflexivity.
  - rewrite G2 by exact Hne. apply H. exact Hi.
Qed.

Lemma ticked_encrypt : forall c c1 pl, ticked c c1 -> ticked c (fst (core_encrypt c1 pl)).
Proof.
  intros c c1 pl [Hwf H]. destruct (enc_preserves c1 pl Hwf) as (W & _ & _ & K). split; [exact W|].
  intros i Hi. rewrite (proj2 (K i Hi)). apply H. exact Hi.
Qed.

Theorem every_second_ticks_windows : forall p c, pc_core p = Some c -> wf_core c ->
  exists c', pc_core (fst (fst (pc_every_second p))) = Some c' /\ ticked c c'.
Proof.
  intros p c Hc Hwf. pose proof (ticked_tick c Hwf) as T0. unfold pc_every_second. rewrite Hc. cbn [option_map].
  set (io_ir := match pc_init p with Some i => let '(i', r) := init_every_second i in (Some i', r) | None => (None, Ok None) end).
  assert (Hnp : match snd io_ir with Panic _ => False | _ => True end).
  { unfold io_ir. destruct (pc_init p) as [i|]; [|exact I]. pose proof (init_every_second_no_panic i) as H. destruct (init_every_second i). exact H. }
  destruct io_ir as [io ir]. cbn [snd] in Hnp.
  destruct ir as [out|e|s]; [|exists (core_tick c); split; [reflexivity|exact T0]|contradiction].
  destruct out as [m|]; [exists (core_tick c); split; [reflexivity|exact T0]|].
  destruct (pc_rot p) as [rs|]; [|exists (core_tick c); split; [reflexivity|exact T0]].
  destruct (pc_counter p + 1 <? ROTATE_INTERVAL); [exists (core_tick c); split; [reflexivity|exact T0]|].
  destruct (rot_cycle rs (pc_fresh p)) as [[[rs' rm] rk] fr].
  pose proof (ticked_rotate c (core_tick c) rk (pc_rnd p) T0) as T1.
  destruct rk as [k|]; cbn [option_map];
    (destruct rm as [m|]; [|eexists; split; [reflexivity|exact T1]]);
    unfold pc_seal; cbn [pc_set pc_plain pc_core];
    (destruct (pc_plain p); [eexists; split; [reflexivity|exact T1]|]);
    match goal with |- context [core_encrypt ?x ?y] => destruct (core_encrypt x y) as [c2 dg] eqn:Ee;
      cbn [fst snd pc_set pc_core]; exists c2; split; [reflexivity|];
      pose proof (ticked_encrypt c x y T1) as T2; rewrite Ee in T2; exact T2 end.
Qed.

(* A reusable induction principle for the node model: a predicate on connection / handshake objects that every PeerCrypto operation
   preserves and every newly created object satisfies holds for every object of every reachable node state (and the node's
   configuration never changes). *)
From VpnModel Require Import Base RangeMatch Table Nonce Replay Core Conn PeerCrypto NodeInfo Interval Node NodeProofs TrustProofs SurviveProofs NextHopProofs.

Section PcInvariant.
Variable P : ncfg -> peer_crypto -> Prop.
Hypothesis H_new : forall n salt, P (n_cfg n) (snd (new_instance n salt)).
Hypothesis H_init : forall c p, P c p -> P c (fst (pc_initialize p)).
Hypothesis H_handle : forall c ok p w, P c p -> P c (fst (fst (pc_handle ok p w))).
Hypothesis H_tick : forall c p, P c p -> P c (fst (fst (pc_every_second p))).
Hypothesis H_seal : forall c p ty b, P c p -> P c (fst (pc_seal p ty b)).

Definition AllPC (c : ncfg) (n : node) : Prop :=
  n_cfg n = c /\
  (forall a pc, aget (n_pending n) a = Some pc -> P c pc) /\
  (forall a pd, aget (n_peers n) a = Some pd -> P c (p_crypto pd)).

Lemma ap_pending_aset : forall c n a pc, AllPC c n -> P c pc -> AllPC c (upd n (n_peers n) (aset (n_pending n) a pc) (n_own n) (n_table n)).
Proof.
  intros c n a pc (Hc & Hq & Hp) Hpc. split; [exact Hc|]. split; [|exact Hp]. cbn [upd n_pending]. intros b pc' Hb.
  destruct (N.eq_dec a b) as [<-|Hne]; [rewrite aget_aset_same in Hb; inversion Hb; subst; exact Hpc|rewrite aget_aset_other in Hb by exact Hne; exact (Hq b pc' Hb)].
Qed.
Lemma ap_pending_adel : forall c n a, AllPC c n -> AllPC c (upd n (n_peers n) (adel (n_pending n) a) (n_own n) (n_table n)).
Proof.
  intros c n a (Hc & Hq & Hp). split; [exact Hc|]. split; [|exact Hp]. cbn [upd n_pending]. intros b pc' Hb.
  destruct (N.eq_dec b a) as [->|Hne]; [rewrite aget_adel_same in Hb; discriminate|rewrite aget_adel_other in Hb by congruence; exact (Hq b pc' Hb)].
Qed.
Lemma ap_peers_aset : forall c n a pd own t, AllPC c n -> P c (p_crypto pd) -> AllPC c (upd n (aset (n_peers n) a pd) (n_pending n) own t).
Proof.
  intros c n a pd own t (Hc & Hq & Hp) Hpd. split; [exact Hc|]. split; [exact Hq|]. cbn [upd n_peers]. intros b pd' Hb.
  destruct (N.eq_dec a b) as [<-|Hne]; [rewrite aget_aset_same in Hb; inversion Hb; subst; exact Hpd|rewrite aget_aset_other in Hb by exact Hne; exact (Hp b pd' Hb)].
Qed.
Lemma ap_peers_adel : forall c n a t, AllPC c n -> AllPC c (upd n (adel (n_peers n) a) (n_pending n) (n_own n) t).
Proof.
  intros c n a t (Hc & Hq & Hp). split; [exact Hc|]. split; [exact Hq|]. cbn [upd n_peers]. intros b pd' Hb.
  destruct (N.eq_dec b a) as [->|Hne]; [rewrite aget_adel_same in Hb; discriminate|rewrite aget_adel_other in Hb by congruence; exact (Hp b pd' Hb)].
Qed.
Lemma ap_same : forall c n n', n_cfg n' = n_cfg n -> n_peers n' = n_peers n -> n_pending n' = n_pending n -> AllPC c n -> AllPC c n'.
Proof. intros c n n' H1 H2 H3. unfold AllPC. rewrite H1, H2, H3. exact (fun H => H). Qed.

Lemma new_instance_ap : forall c n salt, AllPC c n -> AllPC c (fst (new_instance n salt)) /\ P c (snd (new_instance n salt)).
Proof.
  intros c n salt H. split; [exact H|]. destruct H as (Hc & _). rewrite <- Hc. apply H_new.
Qed.

Lemma connect_sock_ap : forall c salts n a, AllPC c n -> AllPC c (fst (connect_sock salts n a)).
Proof.
  intros c salts n a H. unfold connect_sock. destruct (ahas (n_peers n) a || memN a (n_own n) || ahas (n_pending n) a); [exact H|].
  pose proof (new_instance_ap c n (salt_for salts (c_num (n_cfg n)) a) H) as [H1 Hpc]. destruct (new_instance n _) as [n1 pc]. cbn [fst snd] in *.
  pose proof (H_init c pc Hpc) as Hpc'. destruct (pc_initialize pc) as [pc' [w|e|s]]; cbn [fst snd] in *; [apply ap_pending_aset; assumption|exact H1|exact H1].
Qed.

Lemma fold_ap : forall c (A : Type) (f : node * list effect -> A -> node * list effect) (l : list A) st,
  (forall st x, AllPC c (fst st) -> AllPC c (fst (f st x))) -> AllPC c (fst st) -> AllPC c (fst (fold_left f l st)).
Proof. intros c A f l. induction l as [|x t IH]; intros st H Hs; [exact Hs|]. cbn [fold_left]. apply IH; [exact H|apply H; exact Hs]. Qed.

Lemma connect_ap : forall c salts n addrs, AllPC c n -> AllPC c (fst (connect salts n addrs)).
Proof.
  intros c salts n addrs H. unfold connect. destruct (existsb _ addrs); [exact H|].
  apply (fold_ap c _ _ addrs (n, [])); [|exact H]. intros [m fx] a Hm. cbn [fst] in *.
  pose proof (connect_sock_ap c salts m a Hm) as G. destruct (connect_sock salts m a) as [m' fx']. exact G.
Qed.

Lemma connect_to_peers_ap : forall c salts ps n, AllPC c n -> AllPC c (fst (connect_to_peers salts n ps)).
Proof.
  intros c salts ps n H. unfold connect_to_peers. apply (fold_ap c _ _ ps (n, [])); [|exact H]. intros [m fx] p Hm. cbn [fst] in *.
  destruct (existsb _ (map addr_of_bytes (pi_addrs p))); [exact Hm|].
  pose proof (connect_ap c salts m (map addr_of_bytes (pi_addrs p)) Hm) as G.
  destruct (pi_node p) as [id|].
  - destruct (list_eqb id _); [cbn [fst]; eapply ap_same; [| | |exact Hm]; reflexivity|].
    destruct (existsb _ (n_peers m)); [exact Hm|]. destruct (connect salts m _) as [m' fx']. exact G.
  - destruct (connect salts m _) as [m' fx']. exact G.
Qed.

Lemma upi_ap : forall c salts now n addr info, AllPC c n -> AllPC c (fst (update_peer_info salts now n addr info)).
Proof.
  intros c salts now n addr info H. unfold update_peer_info. destruct (aget (n_peers n) addr) as [pd|] eqn:Ea; [|exact H].
  assert (Hpd : P c (p_crypto pd)) by (destruct H as (_ & _ & Hp); exact (Hp _ _ Ea)).
  destruct info as [i|].
  - apply connect_to_peers_ap. cbn [upd n_peers n_pending n_own n_table].
    match goal with |- AllPC c (upd (upd n ?ps ?q ?o ?t) _ _ _ ?t') => change (upd (upd n ps q o t) ps q o t') with (upd n ps q o t') end.
    apply ap_peers_aset; [exact H|exact Hpd].
  - cbn [fst]. apply ap_peers_aset; [exact H|exact Hpd].
Qed.

Lemma anp_ap : forall c salts now n addr info, AllPC c n -> AllPC c (fst (add_new_peer salts now n addr info)).
Proof.
  intros c salts now n addr info H. unfold add_new_peer. destruct (aget (n_pending n) addr) as [pc|] eqn:Ea; [|exact H].
  apply upi_ap. destruct H as (Hc & Hq & Hp). split; [exact Hc|]. split.
  - cbn [upd n_pending]. intros b pc' Hb. destruct (N.eq_dec b addr) as [->|Hne]; [rewrite aget_adel_same in Hb; discriminate|rewrite aget_adel_other in Hb by congruence; exact (Hq b pc' Hb)].
  - cbn [upd n_peers]. intros b pd' Hb. destruct (N.eq_dec addr b) as [<-|Hne].
    + rewrite aget_aset_same in Hb. inversion Hb; subst pd'. cbn [p_crypto]. exact (Hq _ _ Ea).
    + rewrite aget_aset_other in Hb by exact Hne. exact (Hp b pd' Hb).
Qed.

Lemma remove_peer_ap : forall c now n addr, AllPC c n -> AllPC c (remove_peer now n addr).
Proof. intros c now n addr H. unfold remove_peer. destruct (aget (n_peers n) addr); [|exact H]. apply ap_peers_adel. exact H. Qed.

Lemma hr_ap : forall c salts now n src r reply, AllPC c n -> AllPC c (fst (handle_result salts now n src r reply)).
Proof.
  intros c salts now n src r reply H. destruct r as [ty body|p|p| |]; cbn [handle_result].
  - destruct (ty =? MESSAGE_TYPE_DATA).
    + destruct (parse_frame (n_cfg n) body) as [[s d]|e|s]; try exact H.
      cbn [fst]. destruct (c_learning (n_cfg n)); [|exact H]. eapply ap_same; [| | |exact H]; reflexivity.
    + destruct (ty =? MESSAGE_TYPE_NODE_INFO).
      * destruct (ni_decode body) as [info|e|s]; [apply upi_ap; exact H|exact H|exact H].
      * destruct (ty =? MESSAGE_TYPE_KEEPALIVE); [apply upi_ap; exact H|].
        destruct (ty =? MESSAGE_TYPE_CLOSE); [cbn [fst]; apply remove_peer_ap; exact H|exact H].
  - destruct (ni_decode p) as [info|e|s]; [apply anp_ap; exact H|exact H|exact H].
  - destruct (ni_decode p) as [info|e|s]; [|exact H|exact H].
    pose proof (anp_ap c salts now n src info H) as G. destruct (add_new_peer salts now n src info) as [n1 fx]. exact G.
  - exact H.
  - exact H.
Qed.

Lemma handle_net_ap : forall c salts now n src w, AllPC c n -> AllPC c (fst (handle_net salts now n src w)).
Proof.
  intros c salts now n src w H. pose proof H as (Hc & Hq & Hp). unfold handle_net.
  destruct (if is_init_wire w || negb (ahas (n_peers n) src) then aget (n_pending n) src else None) as [pc|] eqn:Esel.
  - assert (Ha : aget (n_pending n) src = Some pc) by (destruct (is_init_wire w || negb (ahas (n_peers n) src)); [exact Esel|discriminate]).
    pose proof (H_handle c payload_ok pc w (Hq _ _ Ha)) as P1. destruct (pc_handle payload_ok pc w) as [[pc' r] reply]. cbn [fst snd] in *.
    pose proof (ap_pending_aset c n src pc' H P1) as H1.
    destruct r as [res|e|s]; [apply hr_ap; assumption| |exact H1].
    destruct (e =? 2); [|exact H1]. cbn [fst]. apply (ap_pending_adel _ _ src) in H1. exact H1.
  - destruct (is_init_wire w).
    + destruct (match aget (n_peers n) src with Some pd => if pc_has_init (p_crypto pd) then Some pd else None | None => None end) as [pd|] eqn:Epd.
      * assert (Ea : aget (n_peers n) src = Some pd) by (destruct (aget (n_peers n) src) as [pd0|]; [destruct (pc_has_init (p_crypto pd0)); [exact Epd|discriminate]|discriminate]).
        pose proof (H_handle c payload_ok (p_crypto pd) w (Hp _ _ Ea)) as P1. destruct (pc_handle payload_ok (p_crypto pd) w) as [[pc' r] reply]. cbn [fst snd] in *.
        match goal with |- AllPC c (fst (match r with Ok _ => _ | Err _ => (with_invalid ?m, _) | Panic _ => _ end)) => assert (H1 : AllPC c m) by (apply ap_peers_aset; [exact H|exact P1]) end.
        destruct r as [res|e|s]; [apply hr_ap; assumption|exact H1|exact H1].
      * pose proof (new_instance_ap c n (salt_for salts (c_num (n_cfg n)) src) H) as [H0 Hpc]. destruct (new_instance n _) as [n0 pc]. cbn [fst snd] in *.
        pose proof (H_handle c payload_ok pc w Hpc) as P1. destruct (pc_handle payload_ok pc w) as [[pc' r] reply]. cbn [fst snd] in *.
        destruct r as [res|e|s]; [|exact H0|exact H0].
        apply hr_ap. apply ap_pending_aset; assumption.
    + destruct (aget (n_peers n) src) as [pd|] eqn:Ea; [|exact H].
      pose proof (H_handle c payload_ok (p_crypto pd) w (Hp _ _ Ea)) as P1. destruct (pc_handle payload_ok (p_crypto pd) w) as [[pc' r] reply]. cbn [fst snd] in *.
      match goal with |- AllPC c (fst (match r with Ok _ => _ | Err _ => (with_invalid ?m, _) | Panic _ => _ end)) => assert (H1 : AllPC c m) by (apply ap_peers_aset; [exact H|exact P1]) end.
      destruct r as [res|e|s]; [apply hr_ap; assumption|exact H1|exact H1].
Qed.

Lemma send_data_ap : forall c n addr ty body, AllPC c n -> AllPC c (fst (send_data n addr ty body)).
Proof.
  intros c n addr ty body H. unfold send_data. destruct (aget (n_peers n) addr) as [pd|] eqn:Ea; [|exact H].
  unfold pc_send. pose proof (H_seal c (p_crypto pd) ty body (proj2 (proj2 H) _ _ Ea)) as P1.
  destruct (pc_seal (p_crypto pd) ty body) as [pc' [w|e|s]]; cbn [fst snd] in *; try exact H.
  apply ap_peers_aset; [exact H|exact P1].
Qed.

Lemma broadcast_ap : forall c n ty body, AllPC c n -> AllPC c (fst (broadcast n ty body)).
Proof.
  intros c n ty body H. unfold broadcast. apply (fold_ap c _ _ (n_peers n) (n, [])); [|exact H]. intros [m fx] e Hm. cbn [fst] in *.
  pose proof (send_data_ap c m (fst e) ty body Hm) as G. destruct (send_data m (fst e) ty body) as [m' fx']. exact G.
Qed.

Lemma handle_iface_ap : forall c salts now n frame, AllPC c n -> AllPC c (fst (handle_iface salts now n frame)).
Proof.
  intros c salts now n frame H. unfold handle_iface. destruct (parse_frame (n_cfg n) frame) as [[s dst]|e|s]; [|exact H|exact H].
  destruct (table_lookup (n_table n) now dst) as [r t'].
  assert (H1 : AllPC c (upd n (n_peers n) (n_pending n) (n_own n) t')) by (eapply ap_same; [| | |exact H]; reflexivity).
  destruct r as [addr|]; [apply send_data_ap; exact H1|]. destruct (c_broadcast (n_cfg n)); [apply broadcast_ap; exact H1|exact H1].
Qed.

Lemma tick_pending_ap : forall c n, AllPC c n -> AllPC c (fst (fst (tick_pending n))).
Proof.
  intros c n. unfold tick_pending.
  assert (G : forall l st, AllPC c (fst (fst st)) -> AllPC c (fst (fst (fold_left (fun (acc : node * list effect * list N) (e : N * peer_crypto) =>
    let '(m, fx, del) := acc in
    let addr := fst e in
    match aget (n_pending m) addr with
    | None => (m, fx, del)
    | Some pc =>
        let '(pc', r, w) := pc_every_second pc in
        let m' := upd m (n_peers m) (aset (n_pending m) addr pc') (n_own m) (n_table m) in
        match r with
        | Err _ => (m', fx, del ++ [addr])
        | Ok MReply => (m', fx ++ match w with Some x => [XSend addr x] | None => [] end, del)
        | _ => (m', fx, del)
        end
    end) l st)))).
  { induction l as [|e t IH]; intros [[m fx] del] H; [exact H|]. cbn [fold_left]. apply IH. cbn [fst] in *.
    destruct (aget (n_pending m) (fst e)) as [pc|] eqn:Ea; [|exact H].
    pose proof (H_tick c pc (proj1 (proj2 H) _ _ Ea)) as P1. destruct (pc_every_second pc) as [[pc' r] w]. cbn [fst] in *.
    pose proof (ap_pending_aset c m (fst e) pc' H P1) as H1. destruct r as [[ | | | | ]|x|s]; exact H1. }
  intros H. apply (G (n_pending n) (n, [], [])). exact H.
Qed.

Lemma tick_peers_ap : forall c n, AllPC c n -> AllPC c (fst (fst (tick_peers n))).
Proof.
  intros c n. unfold tick_peers.
  assert (G : forall l st, AllPC c (fst (fst st)) -> AllPC c (fst (fst (fold_left (fun (acc : node * list effect * list N) (e : N * peer_data) =>
    let '(m, fx, del) := acc in
    let addr := fst e in
    match aget (n_peers m) addr with
    | None => (m, fx, del)
    | Some pd =>
        let '(pc', r, w) := pc_every_second (p_crypto pd) in
        let pd' := {| p_addrs := p_addrs pd; p_timeout := p_timeout pd; p_peer_timeout := p_peer_timeout pd; p_node := p_node pd; p_crypto := pc' |} in
        let m' := upd m (aset (n_peers m) addr pd') (n_pending m) (n_own m) (n_table m) in
        match r with
        | Err _ => (m', fx, del ++ [addr])
        | Ok MReply => (m', fx ++ match w with Some x => [XSend addr x] | None => [] end, del)
        | _ => (m', fx, del)
        end
    end) l st)))).
  { induction l as [|e t IH]; intros [[m fx] del] H; [exact H|]. cbn [fold_left]. apply IH. cbn [fst] in *.
    destruct (aget (n_peers m) (fst e)) as [pd|] eqn:Ea; [|exact H].
    pose proof (H_tick c (p_crypto pd) (proj2 (proj2 H) _ _ Ea)) as P1. destruct (pc_every_second (p_crypto pd)) as [[pc' r] w]. cbn [fst] in *.
    match goal with |- AllPC c (fst (fst (match r with Ok _ => _ | Err _ => (?m', _, _) | Panic _ => _ end))) => assert (H1 : AllPC c m') by (apply ap_peers_aset; [exact H|exact P1]) end.
    destruct r as [[ | | | | ]|x|s]; exact H1. }
  intros H. apply (G (n_peers n) (n, [], [])). exact H.
Qed.

Lemma drop_and_redial_ap : forall c salts now m addr, AllPC c m ->
  AllPC c (fst (connect_sock salts (upd m (adel (n_peers m) addr) (n_pending m) (n_own m) (table_remove_claims (n_table m) now addr)) addr)).
Proof. intros c salts now m addr H. apply connect_sock_ap. apply ap_peers_adel. exact H. Qed.

Lemma crypto_housekeep_ap : forall c salts now n, AllPC c n -> AllPC c (fst (crypto_housekeep salts now n)).
Proof.
  intros c salts now n H. unfold crypto_housekeep.
  pose proof (tick_pending_ap c n H) as H1. destruct (tick_pending n) as [[n1 fx1] del1]. cbn [fst] in *.
  pose proof (tick_peers_ap c n1 H1) as H2. destruct (tick_peers n1) as [[n2 fx2] del2]. cbn [fst] in *.
  assert (H3 : forall l m, AllPC c m -> AllPC c (fold_left (fun m addr => upd m (n_peers m) (adel (n_pending m) addr) (n_own m) (n_table m)) l m)).
  { induction l as [|a t IH]; intros m Hm; [exact Hm|]. cbn [fold_left]. apply IH. apply ap_pending_adel. exact Hm. }
  specialize (H3 del1 n2 H2).
  set (n3 := fold_left _ del1 n2) in *.
  assert (H4 : forall l st, AllPC c (fst st) -> AllPC c (fst (fold_left (fun (acc : node * list effect) (addr : N) =>
    let '(m, fx) := acc in
    if ahas (n_peers m) addr then
      let m2 := upd m (adel (n_peers m) addr) (n_pending m) (n_own m) (table_remove_claims (n_table m) now addr) in
      let '(m3, fx') := connect_sock salts m2 addr in (m3, fx ++ fx')
    else (m, fx)) l st))).
  { induction l as [|a t IH]; intros [m fx] Hm; [exact Hm|]. cbn [fold_left]. apply IH. cbn [fst] in *.
    destruct (ahas (n_peers m) a); [|exact Hm].
    pose proof (drop_and_redial_ap c salts now m a Hm) as G. destruct (connect_sock salts _ a) as [m3 fx']. exact G. }
  apply (H4 del2 (n3, fx1 ++ fx2)). exact H3.
Qed.

Lemma reconnect_step_ap : forall c salts now n, AllPC c n -> AllPC c (fst (reconnect_step salts now n)).
Proof.
  intros c salts now n H. unfold reconnect_step.
  assert (G : AllPC c (fst (fold_left (fun (acc : node * list effect) (e : reconnect) =>
      let '(m, fx) := acc in
      if (now <? rc_next e)%Z then (m, fx) else let '(m', fx') := connect salts m (rc_addrs e) in (m', fx ++ fx'))
      (n_reconnect n) (n, [])))).
  { apply (fold_ap c _ _ (n_reconnect n) (n, [])); [|exact H]. intros [m fx] e Hm. cbn [fst] in *.
    destruct (now <? rc_next e)%Z; [exact Hm|].
    pose proof (connect_ap c salts m (rc_addrs e) Hm) as C1. destruct (connect salts m (rc_addrs e)) as [m' fx']. exact C1. }
  destruct (fold_left _ (n_reconnect n) (n, [])) as [n1 fx]. cbn [fst] in *. eapply ap_same; [| | |exact G]; reflexivity.
Qed.

Lemma housekeep_ap : forall c salts now n, AllPC c n -> AllPC c (fst (housekeep salts now n)).
Proof.
  intros c salts now n H. unfold housekeep.
  assert (H1 : forall l st, AllPC c (fst st) -> AllPC c (fst (fold_left (fun (acc : node * list effect) (addr : N) =>
      let '(m, fx) := acc in
      let m1 := upd m (adel (n_peers m) addr) (n_pending m) (n_own m) (table_remove_claims (n_table m) now addr) in
      let '(m2, fx') := connect_sock salts m1 addr in (m2, fx ++ fx')) l st))).
  { induction l as [|a t IH]; intros [m fx] Hm; [exact Hm|]. cbn [fold_left]. apply IH. cbn [fst] in *.
    pose proof (drop_and_redial_ap c salts now m a Hm) as G. destruct (connect_sock salts _ a) as [m2 fx']. exact G. }
  specialize (H1 (map fst (filter (fun e => (p_timeout (snd e) <? now)%Z) (n_peers n))) (n, []) H).
  destruct (fold_left _ _ (n, [])) as [n1 fx1]. cbn [fst] in *.
  set (n2 := upd n1 (n_peers n1) (n_pending n1) (n_own n1) (table_housekeep (n_table n1) now)).
  assert (N2 : AllPC c n2) by (eapply ap_same; [| | |exact H1]; reflexivity).
  pose proof (crypto_housekeep_ap c salts now n2 N2) as N3. destruct (crypto_housekeep salts now n2) as [n3 fx3]. cbn [fst] in *.
  assert (H4 : AllPC c (fst (if (n_next_peers n3 <=? now)%Z then
      let '(m, fx) := broadcast n3 MESSAGE_TYPE_NODE_INFO (ni_encode (create_node_info n3)) in
      let iv := announce_interval (update_freq (c_peer_timeout (n_cfg m)) (c_keepalive (n_cfg m)))
                                  (map (fun e => p_peer_timeout (snd e)) (n_peers m)) in
      (with_sched m (now + Z.of_N iv)%Z (n_next_own_reset m) (n_reconnect m), fx)
    else (n3, [])))).
  { destruct (n_next_peers n3 <=? now)%Z; [|exact N3].
    pose proof (broadcast_ap c n3 MESSAGE_TYPE_NODE_INFO (ni_encode (create_node_info n3)) N3) as G1.
    destruct (broadcast n3 _ _) as [m fx]. cbn [fst] in *. eapply ap_same; [| | |exact G1]; reflexivity. }
  destruct (if (n_next_peers n3 <=? now)%Z then _ else _) as [n4 fx4]. cbn [fst] in *.
  pose proof (reconnect_step_ap c salts now n4 H4) as N5. destruct (reconnect_step salts now n4) as [n5 fx5]. cbn [fst] in *.
  destruct (negb (c_hkfault (n_cfg n5)) && (n_next_own_reset n5 <=? now)%Z); [eapply ap_same; [| | |exact N5]; reflexivity|exact N5].
Qed.

Theorem step_ap : forall c salts now n e, AllPC c n -> AllPC c (fst (step salts now n e)).
Proof.
  intros c salts now n e H. destruct e as [src w|f| |a|addrs]; cbn [step].
  - apply handle_net_ap; exact H.
  - apply handle_iface_ap; exact H.
  - apply housekeep_ap; exact H.
  - apply connect_ap; exact H.
  - cbn [fst]. eapply ap_same; [| | |exact H]; reflexivity.
Qed.

Theorem reachable_ap : forall c salts t0 evs, AllPC c (nrun salts (node_new c t0) evs).
Proof.
  intros c salts t0 evs.
  assert (H0 : AllPC c (node_new c t0)) by (split; [reflexivity|split; intros a x Hx; discriminate Hx]).
  revert H0. generalize (node_new c t0). induction evs as [|[now e] t IH]; intros n Hn; [exact Hn|]. cbn [nrun]. apply IH. apply step_ap. exact Hn.
Qed.
End PcInvariant.

From VpnModel Require Import Base RangeMatch Table CoreProofs.
From Coq Require Import ZifyBool ZifyNat ZifyN.

(* ------------------------------------------------------------------------------------------ *)
(* swap_remove *)

Lemma swap_remove_snoc : forall (A:Type) (m : list A) z i,
  swap_remove i (m ++ [z]) =
  if Nat.eqb i (length m) then m else firstn i (m ++ [z]) ++ z :: skipn (S i) m.
Proof.
  intros A m z i. unfold swap_remove. rewrite rev_app_distr. cbn [rev app].
  rewrite app_length. cbn [length]. rewrite removelast_last.
  replace (Nat.eqb (S i) (length m + 1)) with (Nat.eqb i (length m)); [reflexivity|].
  destruct (Nat.eqb i (length m)) eqn:E1; destruct (Nat.eqb (S i) (length m + 1)) eqn:E2; try reflexivity;
    [apply Nat.eqb_eq in E1; apply Nat.eqb_neq in E2|apply Nat.eqb_neq in E1; apply Nat.eqb_eq in E2]; lia.
Qed.

Lemma snoc_cases : forall (A:Type) (l : list A), l = [] \/ exists m z, l = m ++ [z].
Proof.
  intros A l. destruct (rev l) as [|z t] eqn:E.
  - left. rewrite <- (rev_involutive l), E. reflexivity.
  - right. exists (rev t), z. rewrite <- (rev_involutive l), E. reflexivity.
Qed.

Lemma in_firstn : forall (A:Type) n (l : list A) x, In x (firstn n l) -> In x l.
Proof. intros A n l x H. rewrite <- (firstn_skipn n l). apply in_or_app. left. exact H. Qed.
Lemma in_skipn : forall (A:Type) n (l : list A) x, In x (skipn n l) -> In x l.
Proof. intros A n l x H. rewrite <- (firstn_skipn n l). apply in_or_app. right. exact H. Qed.

Lemma swap_remove_in : forall (A:Type) i (l : list A) x, In x (swap_remove i l) -> In x l.
Proof.
  intros A i l x H. destruct (snoc_cases A l) as [->|(m & z & ->)]; [exact H|].
  rewrite swap_remove_snoc in H. destruct (Nat.eqb i (length m)).
  - apply in_or_app. left. exact H.
  - apply in_app_or in H. destruct H as [H|[H|H]].
    + eapply in_firstn. exact H.
    + subst. apply in_or_app. right. left. reflexivity.
    + apply in_or_app. left. eapply in_skipn. exact H.
Qed.

Lemma in_split_nth : forall (A:Type) (l : list A) i x d, (i < length l)%nat -> In x l ->
  x = nth i l d \/ In x (firstn i l) \/ In x (skipn (S i) l).
Proof.
  intros A l i x d Hi Hx.
  rewrite <- (firstn_skipn i l) in Hx. apply in_app_or in Hx. destruct Hx as [Hx|Hx]; [right; left; exact Hx|].
  assert (Hs : skipn i l = nth i l d :: skipn (S i) l).
  { clear Hx. revert i Hi. induction l as [|h t IH]; intros i Hi; simpl in Hi; [lia|].
    destruct i; [reflexivity|]. simpl. apply IH. lia. }
  rewrite Hs in Hx. destruct Hx as [Hx|Hx]; [left; symmetry; exact Hx|right; right; exact Hx].
Qed.

Lemma swap_remove_cover : forall (A:Type) i (l : list A) x d, (i < length l)%nat -> In x l ->
  x = nth i l d \/ In x (swap_remove i l).
Proof.
  intros A i l x d Hi Hx. destruct (snoc_cases A l) as [->|(m & z & ->)]; [simpl in Hi; lia|].
  rewrite swap_remove_snoc. rewrite app_length in Hi. cbn [length] in Hi.
  destruct (Nat.eqb i (length m)) eqn:E.
  - apply Nat.eqb_eq in E. subst i. apply in_app_or in Hx. destruct Hx as [Hx|[Hx|[]]]; [right; exact Hx|].
    left. subst. rewrite app_nth2 by lia. rewrite Nat.sub_diag. reflexivity.
  - apply Nat.eqb_neq in E. assert (Him : (i < length m)%nat) by lia.
    apply in_app_or in Hx. destruct Hx as [Hx|[Hx|[]]].
    + destruct (in_split_nth A m i x d Him Hx) as [H|[H|H]].
      * left. rewrite app_nth1 by exact Him. exact H.
      * right. apply in_or_app. left. rewrite firstn_app. apply in_or_app. left. exact H.
      * right. apply in_or_app. right. right. exact H.
    + right. apply in_or_app. right. left. exact Hx.
Qed.

(* ------------------------------------------------------------------------------------------ *)
(* position *)

Lemma range_eqb_eq : forall b1 p1 b2 p2, range_eqb b1 p1 b2 p2 = true <-> (b1 = b2 /\ p1 = p2).
Proof.
  intros. unfold range_eqb. rewrite andb_true_iff, list_eqb_eq, N.eqb_eq. reflexivity.
Qed.

Lemma position_some : forall b p l i, position b p l = Some i ->
  (i < length l)%nat /\ nth i l ([], 0) = (b, p).
Proof.
  induction l as [|[b' p'] l IH]; intros i H; simpl in H; [discriminate|].
  destruct (range_eqb b' p' b p) eqn:E.
  - inversion H; subst. apply range_eqb_eq in E. destruct E; subst. simpl. split; [lia|reflexivity].
  - destruct (position b p l) as [j|] eqn:Ep; [|discriminate]. inversion H; subst.
    destruct (IH j eq_refl) as [H1 H2]. simpl. split; [lia|exact H2].
Qed.

Lemma position_none : forall b p l, position b p l = None -> ~ In (b, p) l.
Proof.
  induction l as [|[b' p'] l IH]; intros H Hin; simpl in *; [exact Hin|].
  destruct (range_eqb b' p' b p) eqn:E; [discriminate|].
  destruct (position b p l) eqn:Ep; [discriminate|].
  destruct Hin as [Hin|Hin]; [|exact (IH eq_refl Hin)].
  inversion Hin; subst. assert (range_eqb b p b p = true) by (apply range_eqb_eq; split; reflexivity). congruence.
Qed.

(* ------------------------------------------------------------------------------------------ *)
(* set_claims *)

Definition crange (c : claim) : bytes * N := (c_base c, c_prefix c).

(* relation between an old entry and what the first loop of set_claims makes of it *)
Definition sc_rel (peer : N) (fresh : Z) (new : list (bytes * N)) (e e' : claim) : Prop :=
  if c_peer e =? peer
  then c_peer e' = c_peer e /\ crange e' = crange e /\
       ((c_timeout e' = fresh /\ In (crange e) new) \/ c_timeout e' = 0%Z)
  else e' = e.

Lemma sc_rel_weaken : forall peer fresh new new' e e',
  (forall r, In r new -> In r new') -> sc_rel peer fresh new e e' -> sc_rel peer fresh new' e e'.
Proof.
  intros peer fresh new new' e e' Hs. unfold sc_rel. destruct (c_peer e =? peer); [|tauto].
  intros (H1 & H2 & [[H3 H4]|H3]); repeat split; try assumption; [left; split; [exact H3|apply Hs; exact H4]|right; exact H3].
Qed.

Lemma Forall2_impl : forall (A B : Type) (P Q : A -> B -> Prop) l l',
  (forall a b, P a b -> Q a b) -> Forall2 P l l' -> Forall2 Q l l'.
Proof. intros A B P Q l l' H F. induction F; constructor; auto. Qed.

Lemma sc_loop_spec : forall peer now cto es new removed es' rest removed',
  sc_loop peer now cto es new removed = (es', rest, removed') ->
  Forall2 (sc_rel peer (now + cto)%Z new) es es' /\
  (forall r, In r rest -> In r new) /\
  (forall r, In r new -> In r rest \/
      exists e', In e' es' /\ c_peer e' = peer /\ crange e' = r /\ c_timeout e' = (now + cto)%Z) /\
  (removed = true -> removed' = true) /\
  ((exists e, In e es /\ c_peer e = peer /\ ~ In (crange e) new) -> removed' = true).
Proof.
  intros peer now cto es. induction es as [|e es IH]; intros new removed es' rest removed' H.
  - simpl in H. inversion H; subst. repeat split.
    + constructor.
    + tauto.
    + intros r Hr. left. exact Hr.
    + tauto.
    + intros (e & [] & _).
  - cbn [sc_loop] in H. destruct (c_peer e =? peer) eqn:Ep.
    + destruct (position (c_base e) (c_prefix e) new) as [pos|] eqn:Epos.
      * destruct (sc_loop peer now cto es (swap_remove pos new) removed) as [[t' n'] r'] eqn:Er.
        inversion H; subst. clear H.
        destruct (IH _ _ _ _ _ Er) as (F & R1 & R2 & R3 & R4).
        destruct (position_some _ _ _ _ Epos) as [Hlt Hnth].
        assert (Hin : In (crange e) new).
        { unfold crange. rewrite <- Hnth. apply nth_In. exact Hlt. }
        repeat split.
        -- constructor.
           ++ unfold sc_rel. rewrite Ep. cbn [c_peer c_timeout crange c_base c_prefix]. repeat split. left. split; [reflexivity|exact Hin].
           ++ eapply Forall2_impl; [|exact F]. intros a b. apply sc_rel_weaken. intros r. apply swap_remove_in.
        -- intros r Hr. eapply swap_remove_in. apply R1. exact Hr.
        -- intros r Hr. destruct (swap_remove_cover _ pos new r ([], 0) Hlt Hr) as [Hx|Hx].
           ++ right. eexists. split; [left; reflexivity|]. cbn [c_peer c_timeout crange c_base c_prefix].
              apply N.eqb_eq in Ep. repeat split; [exact Ep|]. rewrite Hx, Hnth. reflexivity.
           ++ destruct (R2 r Hx) as [Hy|(e' & He' & Hy)]; [left; exact Hy|]. right. exists e'. split; [right; exact He'|exact Hy].
        -- exact R3.
        -- intros (e0 & [He0|He0] & Hp & Hn).
           ++ subst e0. contradiction.
           ++ apply R4. exists e0. repeat split; try assumption. intros Hc. apply Hn. eapply swap_remove_in. exact Hc.
      * destruct (sc_loop peer now cto es new true) as [[t' n'] r'] eqn:Er.
        inversion H; subst. clear H.
        destruct (IH _ _ _ _ _ Er) as (F & R1 & R2 & R3 & R4).
        repeat split.
        -- constructor; [|exact F].
           unfold sc_rel. rewrite Ep. cbn [c_peer c_timeout crange c_base c_prefix]. repeat split. right. reflexivity.
        -- exact R1.
        -- intros r Hr. destruct (R2 r Hr) as [Hy|(e' & He' & Hy)]; [left; exact Hy|]. right. exists e'. split; [right; exact He'|exact Hy].
        -- intros _. apply R3. reflexivity.
        -- intros _. apply R3. reflexivity.
    + destruct (sc_loop peer now cto es new removed) as [[t' n'] r'] eqn:Er.
      inversion H; subst. clear H.
      destruct (IH _ _ _ _ _ Er) as (F & R1 & R2 & R3 & R4).
      repeat split.
      -- constructor; [|exact F]. unfold sc_rel. rewrite Ep. reflexivity.
      -- exact R1.
      -- intros r Hr. destruct (R2 r Hr) as [Hy|(e' & He' & Hy)]; [left; exact Hy|]. right. exists e'. split; [right; exact He'|exact Hy].
      -- exact R3.
      -- intros (e0 & [He0|He0] & Hp & Hn).
         ++ subst e0. apply N.eqb_neq in Ep. contradiction.
         ++ apply R4. exists e0. repeat split; assumption.
Qed.

Lemma Forall2_in_r : forall (A B : Type) (P : A -> B -> Prop) l l' b, Forall2 P l l' -> In b l' -> exists a, In a l /\ P a b.
Proof.
  intros A B P l l' b F. induction F as [|x y l l' Hxy F IH]; intros Hb; [destruct Hb|].
  destruct Hb as [Hb|Hb]; [subst; exists x; split; [left; reflexivity|exact Hxy]|].
  destruct (IH Hb) as (a & Ha & Hp). exists a. split; [right; exact Ha|exact Hp].
Qed.

Lemma Forall2_in_l : forall (A B : Type) (P : A -> B -> Prop) l l' a, Forall2 P l l' -> In a l -> exists b, In b l' /\ P a b.
Proof.
  intros A B P l l' a F. induction F as [|x y l l' Hxy F IH]; intros Ha; [destruct Ha|].
  destruct Ha as [Ha|Ha]; [subst; exists y; split; [left; reflexivity|exact Hxy]|].
  destruct (IH Ha) as (b & Hb & Hp). exists b. split; [right; exact Hb|exact Hp].
Qed.

Definition mk_claim (peer : N) (to : Z) (r : bytes * N) : claim :=
  {| c_peer := peer; c_base := fst r; c_prefix := snd r; c_timeout := to |}.

(* C12-T1: after set_claims the claims attributed to the peer are exactly the announced ones,
   all refreshed; other peers' live entries are untouched; if anything was dropped, the peer's cached
   decisions are gone.  now > 0 is a real premise (expiry 0 is "delete", the sweep keeps >= now). *)
Theorem set_claims_exact : forall t now peer new,
  (0 < now)%Z -> (0 <= claim_timeout t)%Z ->
  let t' := table_set_claims t now peer new in
  (forall r, (exists c, In c (claims t') /\ c_peer c = peer /\ crange c = r) <-> In r new) /\
  (forall c, In c (claims t') -> c_peer c = peer -> c_timeout c = (now + claim_timeout t)%Z) /\
  (forall c, c_peer c <> peer -> (In c (claims t') <-> (In c (claims t) /\ (now <= c_timeout c)%Z))) /\
  ((exists e, In e (claims t) /\ c_peer e = peer /\ ~ In (crange e) new) ->
     forall e, In e (cache t') -> e_peer e <> peer) /\
  (forall e, In e (cache t') -> e_peer e <> peer -> In e (cache t)) /\
  cache_timeout t' = cache_timeout t /\ claim_timeout t' = claim_timeout t.
Proof.
  intros t now peer new Hnow Hcto. unfold table_set_claims.
  destruct (sc_loop peer now (claim_timeout t) (claims t) new false) as [[es rest] removed] eqn:E.
  destruct (sc_loop_spec _ _ _ _ _ _ _ _ _ E) as (F & R1 & R2 & R3 & R4).
  cbn zeta. unfold table_housekeep. cbn [claims cache cache_timeout claim_timeout].
  split.
  { intros r. split.
    - (* -> *) intros (c & Hc & Hp & Hr). apply filter_In in Hc. destruct Hc as [Hc Halive].
      apply in_app_or in Hc. destruct Hc as [Hc|Hc].
      + destruct (Forall2_in_r _ _ _ _ _ c F Hc) as (e & He & Hrel). unfold sc_rel in Hrel.
        destruct (c_peer e =? peer) eqn:Ep.
        * destruct Hrel as (_ & Hcr & [[_ Hin]|Hz]); [rewrite <- Hr, Hcr; exact Hin|]. lia.
        * subst c. apply N.eqb_neq in Ep. contradiction.
      + apply in_map_iff in Hc. destruct Hc as (r0 & Hr0 & Hin). subst c. unfold crange in Hr. cbn in Hr.
        rewrite <- Hr. destruct r0. apply R1. exact Hin.
    - (* <- *) intros Hr. destruct (R2 r Hr) as [Hin|(e' & He' & Hp & Hcr & Hto)].
      + exists (mk_claim peer (now + claim_timeout t) r). split; [|split].
        * apply filter_In. split; [apply in_or_app; right; apply in_map_iff; exists r; split; [reflexivity|exact Hin]|].
          cbn. lia.
        * reflexivity.
        * destruct r; reflexivity.
      + exists e'. split; [|split; assumption]. apply filter_In. split; [apply in_or_app; left; exact He'|]. lia. }
  split.
  { intros c Hc Hp. apply filter_In in Hc. destruct Hc as [Hc Halive].
    apply in_app_or in Hc. destruct Hc as [Hc|Hc].
    + destruct (Forall2_in_r _ _ _ _ _ c F Hc) as (e & He & Hrel). unfold sc_rel in Hrel.
      destruct (c_peer e =? peer) eqn:Ep.
      * destruct Hrel as (_ & _ & [[Hto _]|Hz]); [exact Hto|lia].
      * subst c. apply N.eqb_neq in Ep. contradiction.
    + apply in_map_iff in Hc. destruct Hc as (r0 & Hr0 & _). subst c. reflexivity. }
  split.
  { intros c Hne. split.
    - intros Hc. apply filter_In in Hc. destruct Hc as [Hc Halive]. apply in_app_or in Hc. destruct Hc as [Hc|Hc].
      + destruct (Forall2_in_r _ _ _ _ _ c F Hc) as (e & He & Hrel). unfold sc_rel in Hrel.
        destruct (c_peer e =? peer) eqn:Ep.
        * destruct Hrel as (Hpe & _). apply N.eqb_eq in Ep. congruence.
        * subst c. split; [exact He|lia].
      + apply in_map_iff in Hc. destruct Hc as (r0 & Hr0 & _). subst c. cbn in Hne. congruence.
    - intros [Hc Halive]. apply filter_In. split; [|lia]. apply in_or_app. left.
      destruct (Forall2_in_l _ _ _ _ _ c F Hc) as (e' & He' & Hrel). unfold sc_rel in Hrel.
      assert ((c_peer c =? peer) = false) as Ep by lia. rewrite Ep in Hrel. subst e'. exact He'. }
  split.
  { intros Hdrop e He Hpe. rewrite (R4 Hdrop) in He. apply filter_In in He. destruct He as [He Halive].
    apply in_map_iff in He. destruct He as (e0 & He0 & Hin).
    destruct (e_peer e0 =? peer) eqn:Ep.
    + subst e. cbn in Halive. lia.
    + subst e. apply N.eqb_neq in Ep. contradiction. }
  split.
  { intros e He Hpe. apply filter_In in He. destruct He as [He _]. destruct removed; [|exact He].
    apply in_map_iff in He. destruct He as (e0 & He0 & Hin). destruct (e_peer e0 =? peer) eqn:Ep.
    + subst e. cbn in Hpe. apply N.eqb_eq in Ep. contradiction.
    + subst e. exact Hin. }
  split; reflexivity.
Qed.

(* the F3 witness: announce [a, b], then [a]: b is gone at once *)
Example set_claims_shrink :
  let t := table_set_claims (table_new 300 300) 5 1 [([10;0;0;0], 8); ([10;1;0;0], 16)] in
  map crange (claims (table_set_claims t 6 1 [([10;0;0;0], 8)])) = [([10;0;0;0], 8)].
Proof. vm_compute. reflexivity. Qed.

(* remove_claims: nothing of the peer stays behind (C12-T3's table half) *)
Theorem remove_claims_clean : forall t now peer, (0 < now)%Z ->
  let t' := table_remove_claims t now peer in
  (forall c, In c (claims t') -> c_peer c <> peer) /\
  (forall e, In e (cache t') -> e_peer e <> peer) /\
  (forall c, c_peer c <> peer -> (In c (claims t') <-> (In c (claims t) /\ (now <= c_timeout c)%Z))) /\
  (forall e, e_peer e <> peer -> (In e (cache t') <-> (In e (cache t) /\ (now <= e_timeout e)%Z))).
Proof.
  intros t now peer Hnow. unfold table_remove_claims, table_housekeep. cbn [claims cache].
  split.
  { intros c Hc. apply filter_In in Hc. destruct Hc as [Hc Ha]. apply in_map_iff in Hc. destruct Hc as (c0 & Hc0 & _).
    destruct (c_peer c0 =? peer) eqn:Ep; subst c; [cbn in Ha; lia|]. apply N.eqb_neq in Ep. exact Ep. }
  split.
  { intros e He. apply filter_In in He. destruct He as [He Ha]. apply in_map_iff in He. destruct He as (e0 & He0 & _).
    destruct (e_peer e0 =? peer) eqn:Ep; subst e; [cbn in Ha; lia|]. apply N.eqb_neq in Ep. exact Ep. }
  split.
  { intros c Hne. split.
    - intros Hc. apply filter_In in Hc. destruct Hc as [Hc Ha]. apply in_map_iff in Hc. destruct Hc as (c0 & Hc0 & Hin).
      destruct (c_peer c0 =? peer) eqn:Ep; subst c; [cbn in Hne; apply N.eqb_eq in Ep; contradiction|]. split; [exact Hin|lia].
    - intros [Hc Ha]. apply filter_In. split; [|lia]. apply in_map_iff. exists c. split; [|exact Hc].
      assert ((c_peer c =? peer) = false) as -> by lia. reflexivity. }
  { intros e Hne. split.
    - intros He. apply filter_In in He. destruct He as [He Ha]. apply in_map_iff in He. destruct He as (e0 & He0 & Hin).
      destruct (e_peer e0 =? peer) eqn:Ep; subst e; [cbn in Hne; apply N.eqb_eq in Ep; contradiction|]. split; [exact Hin|lia].
    - intros [He Ha]. apply filter_In. split; [|lia]. apply in_map_iff. exists e. split; [|exact He].
      assert ((e_peer e =? peer) = false) as -> by lia. reflexivity. }
Qed.

(* housekeep: exactly the entries with expiry >= now survive (C12-T2, C13-T2) *)
Theorem housekeep_exact : forall t now,
  (forall c, In c (claims (table_housekeep t now)) <-> (In c (claims t) /\ (now <= c_timeout c)%Z)) /\
  (forall e, In e (cache (table_housekeep t now)) <-> (In e (cache t) /\ (now <= e_timeout e)%Z)).
Proof.
  intros t now. unfold table_housekeep. cbn [claims cache]. split; intros x; rewrite filter_In; split; intros [H1 H2]; split; try assumption; lia.
Qed.

(* ------------------------------------------------------------------------------------------ *)
(* lookup *)

Definition cmatches (a : bytes) (c : claim) : bool := range_matches (c_base c) (c_prefix c) a.

Lemma best_claim_spec : forall a cs best,
  match best_claim cs a best with
  | None => best = None /\ forall c, In c cs -> cmatches a c = false
  | Some x => (best = Some x \/ (In x cs /\ cmatches a x = true)) /\
              (forall c, In c cs -> cmatches a c = true -> c_prefix c <= c_prefix x) /\
              (forall b, best = Some b -> c_prefix b <= c_prefix x)
  end.
Proof.
  intros a cs. induction cs as [|c cs IH]; intros best; cbn [best_claim].
  - destruct best as [b|]; [|split; [reflexivity|intros c []]].
    split; [left; reflexivity|]. split; [intros c []|]. intros b0 H. inversion H. lia.
  - fold (cmatches a c).
    set (better := match best with None => true | Some b => c_prefix b <? c_prefix c end).
    destruct (better && cmatches a c) eqn:E.
    + apply andb_true_iff in E. destruct E as [Eb Em]. specialize (IH (Some c)).
      destruct (best_claim cs a (Some c)) as [x|]; [|destruct IH as [IH _]; discriminate].
      destruct IH as (I1 & I2 & I3). split; [|split].
      * right. destruct I1 as [I1|[I1 I1']]; [inversion I1; subst; split; [left; reflexivity|exact Em]|split; [right; exact I1|exact I1']].
      * intros c0 [Hc0|Hc0] Hm; [subst; apply I3; reflexivity|apply I2; assumption].
      * intros b Hb. subst best. unfold better in Eb. specialize (I3 c eq_refl). lia.
    + specialize (IH best). destruct (best_claim cs a best) as [x|].
      * destruct IH as (I1 & I2 & I3). split; [|split].
        -- destruct I1 as [I1|[I1 I1']]; [left; exact I1|right; split; [right; exact I1|exact I1']].
        -- intros c0 [Hc0|Hc0] Hm; [|apply I2; assumption]. subst c0. rewrite Hm in E. rewrite andb_true_r in E.
           unfold better in E. destruct best as [b|]; [|discriminate]. specialize (I3 b eq_refl). lia.
        -- exact I3.
      * destruct IH as [I1 I2]. split; [exact I1|]. intros c0 [Hc0|Hc0]; [|apply I2; exact Hc0].
        subst c0. subst best. unfold better in E. simpl in E. exact E.
Qed.

Lemma cache_get_insert_same : forall c a p to, cache_get (cache_insert c a p to) a = Some {| e_addr := a; e_peer := p; e_timeout := to |}.
Proof. intros. unfold cache_insert. cbn [cache_get e_addr]. rewrite list_eqb_refl. reflexivity. Qed.

(* C11-T2: an uncached destination goes to a live claim that matches with maximal prefix length;
   none iff no claim in the table matches.  C11-T3 (first half): the decision cached from it expires
   no later than now + switch timeout and no later than the claim itself. *)
Theorem lookup_uncached : forall t now a, cache_get (cache t) a = None ->
  match fst (table_lookup t now a) with
  | Some p => exists c, In c (claims t) /\ c_peer c = p /\ cmatches a c = true /\
                (forall c', In c' (claims t) -> cmatches a c' = true -> c_prefix c' <= c_prefix c) /\
                cache_get (cache (snd (table_lookup t now a))) a =
                  Some {| e_addr := a; e_peer := p; e_timeout := Z.min (now + cache_timeout t) (c_timeout c) |} /\
                claims (snd (table_lookup t now a)) = claims t
  | None => (forall c, In c (claims t) -> cmatches a c = false) /\ snd (table_lookup t now a) = t
  end.
Proof.
  intros t now a Hc. unfold table_lookup. rewrite Hc.
  pose proof (best_claim_spec a (claims t) None) as B.
  destruct (best_claim (claims t) a None) as [x|]; cbn [fst snd].
  - destruct B as ([B1|[B1 B1']] & B2 & _); [discriminate|].
    exists x. repeat split; try assumption. cbn [cache set_cache]. apply cache_get_insert_same.
  - destruct B as [_ B]. split; [exact B|reflexivity].
Qed.

Theorem lookup_cached : forall t now a e, cache_get (cache t) a = Some e ->
  table_lookup t now a = (Some (e_peer e), t).
Proof. intros t now a e H. unfold table_lookup. rewrite H. reflexivity. Qed.

(* learning (C13-T1): the learned address maps to exactly that peer, expiring after the switch timeout,
   replacing whatever was cached for it; other addresses are untouched *)
Lemma cache_get_insert_other : forall c a b p to, list_eqb b a = false ->
  cache_get (cache_insert c a p to) b = cache_get c b.
Proof.
  intros c a b p to H. unfold cache_insert. cbn [cache_get e_addr].
  assert (list_eqb a b = false) as ->.
  { destruct (list_eqb a b) eqn:E; [|reflexivity]. apply list_eqb_eq in E. subst. rewrite list_eqb_refl in H. discriminate. }
  induction c as [|e c IH]; [reflexivity|]. cbn [filter].
  destruct (list_eqb (e_addr e) a) eqn:E1; cbn [negb cache_get].
  - apply list_eqb_eq in E1. rewrite E1.
    assert (list_eqb a b = false) as ->.
    { destruct (list_eqb a b) eqn:E; [|reflexivity]. apply list_eqb_eq in E. subst. rewrite list_eqb_refl in H. discriminate. }
    exact IH.
  - destruct (list_eqb (e_addr e) b); [reflexivity|exact IH].
Qed.

Theorem learn_exact : forall t now a p,
  cache_get (cache (table_cache t now a p)) a = Some {| e_addr := a; e_peer := p; e_timeout := (now + cache_timeout t)%Z |} /\
  (forall b, b <> a -> cache_get (cache (table_cache t now a p)) b = cache_get (cache t) b) /\
  claims (table_cache t now a p) = claims t.
Proof.
  intros t now a p. unfold table_cache. cbn [cache set_cache claims]. split; [apply cache_get_insert_same|]. split; [|reflexivity].
  intros b Hb. apply cache_get_insert_other. destruct (list_eqb b a) eqn:E; [|reflexivity]. apply list_eqb_eq in E. contradiction.
Qed.

From VpnModel Require Import Base Dissect.
From Coq Require Import ZifyBool ZifyNat ZifyN.
Ltac Zify.zify_post_hook ::= Z.div_mod_to_equations.

Lemma nth_b_app_r : forall (l1 l2 : bytes) i, (length l1 <= i)%nat ->
  nth_b i (l1 ++ l2) = nth_b (i - length l1) l2.
Proof. intros. unfold nth_b. apply app_nth2. lia. Qed.

Lemma firstn_app_exact : forall (A:Type) (l1 l2 : list A) n, length l1 = n -> firstn n (l1 ++ l2) = l1.
Proof. intros. subst. rewrite firstn_app, Nat.sub_diag, firstn_all. simpl. apply app_nil_r. Qed.

Lemma skipn_app_exact : forall (A:Type) (l1 l2 : list A) n, length l1 = n -> skipn n (l1 ++ l2) = l2.
Proof. intros. subst. rewrite skipn_app, Nat.sub_diag, skipn_all. reflexivity. Qed.

Lemma land15 : forall a, N.land a 15 = a mod 16.
Proof. intros. change 15 with (N.ones 4). rewrite N.land_ones. reflexivity. Qed.

Lemma frame_short : forall d, (length d < 14)%nat -> frame_parse d = Err 1.
Proof. intros d H. unfold frame_parse. apply Nat.ltb_lt in H. rewrite H. reflexivity. Qed.

Lemma frame_hdr : forall dst src e0 e1 rest,
  length dst = 6%nat -> length src = 6%nat ->
  let d := dst ++ src ++ e0 :: e1 :: rest in
  firstn 6 d = dst /\ firstn 6 (skipn 6 d) = src /\ nth_b 12 d = e0 /\ nth_b 13 d = e1
  /\ (length d <? 14)%nat = false.
Proof.
  intros dst src e0 e1 rest Hd Hs d. subst d.
  rewrite (firstn_app_exact _ dst _ 6 Hd), (skipn_app_exact _ dst _ 6 Hd), (firstn_app_exact _ src _ 6 Hs).
  repeat split.
  - rewrite nth_b_app_r by lia. rewrite Hd. rewrite nth_b_app_r by lia. rewrite Hs. reflexivity.
  - rewrite nth_b_app_r by lia. rewrite Hd. rewrite nth_b_app_r by lia. rewrite Hs. reflexivity.
  - apply Nat.ltb_ge. rewrite !app_length. simpl. lia.
Qed.

Lemma frame_untagged : forall dst src e0 e1 rest,
  length dst = 6%nat -> length src = 6%nat -> (e0, e1) <> (129, 0) ->
  frame_parse (dst ++ src ++ e0 :: e1 :: rest) = Ok (src, dst).
Proof.
  intros dst src e0 e1 rest Hd Hs Hne.
  destruct (frame_hdr dst src e0 e1 rest Hd Hs) as (H1 & H2 & H3 & H4 & H5).
  unfold frame_parse. rewrite H5, H1, H2, H3, H4.
  destruct (e0 =? 129) eqn:E0; destruct (e1 =? 0) eqn:E1; simpl; try reflexivity.
  apply N.eqb_eq in E0, E1. subst. congruence.
Qed.

Lemma frame_tag_short : forall dst src rest,
  length dst = 6%nat -> length src = 6%nat -> (length rest < 2)%nat ->
  frame_parse (dst ++ src ++ 129 :: 0 :: rest) = Err 2.
Proof.
  intros dst src rest Hd Hs Hr.
  destruct (frame_hdr dst src 129 0 rest Hd Hs) as (H1 & H2 & H3 & H4 & H5).
  unfold frame_parse. rewrite H5, H3, H4. simpl.
  assert (Nat.ltb (length (dst ++ src ++ 129 :: 0 :: rest)) 16%nat = true) as ->.
  { apply Nat.ltb_lt. rewrite !app_length. simpl. lia. }
  reflexivity.
Qed.

(* the 12-bit VLAN id of tag-control bytes a b *)
Definition vid (a b : N) : N := (a * 256 + b) mod 4096.

Lemma frame_tagged : forall dst src a b rest,
  length dst = 6%nat -> length src = 6%nat -> a < 256 -> b < 256 ->
  frame_parse (dst ++ src ++ 129 :: 0 :: a :: b :: rest) =
    if vid a b =? 0 then Ok (src, dst)
    else Ok (be_enc 2 (vid a b) ++ src, be_enc 2 (vid a b) ++ dst).
Proof.
  intros dst src a b rest Hd Hs Ha Hb.
  destruct (frame_hdr dst src 129 0 (a :: b :: rest) Hd Hs) as (H1 & H2 & H3 & H4 & H5).
  unfold frame_parse. rewrite H5, H1, H2, H3, H4. simpl.
  assert (Nat.ltb (length (dst ++ src ++ 129 :: 0 :: a :: b :: rest)) 16%nat = false) as ->.
  { apply Nat.ltb_ge. rewrite !app_length. simpl. lia. }
  assert (nth_b 14 (dst ++ src ++ 129 :: 0 :: a :: b :: rest) = a) as ->.
  { rewrite nth_b_app_r by lia. rewrite Hd. rewrite nth_b_app_r by lia. rewrite Hs. reflexivity. }
  assert (nth_b 15 (dst ++ src ++ 129 :: 0 :: a :: b :: rest) = b) as ->.
  { rewrite nth_b_app_r by lia. rewrite Hd. rewrite nth_b_app_r by lia. rewrite Hs. reflexivity. }
  rewrite land15.
  assert (Hq : vid a b / 256 = a mod 16) by (unfold vid; lia).
  assert (Hr : vid a b mod 256 = b) by (unfold vid; lia).
  assert (Hz : (vid a b =? 0) = ((a mod 16 =? 0) && (b =? 0))).
  { unfold vid. destruct (a mod 16 =? 0) eqn:E1; destruct (b =? 0) eqn:E2; simpl; lia. }
  rewrite Hz.
  destruct ((a mod 16 =? 0) && (b =? 0)); [reflexivity|].
  unfold be_enc. simpl app. rewrite Hr, Hq.
  assert ((a mod 16) mod 256 = a mod 16) as -> by lia.
  reflexivity.
Qed.

Lemma frame_no_panic : forall d, is_panic (frame_parse d) = false.
Proof.
  intros d. unfold frame_parse.
  destruct (length d <? 14)%nat; [reflexivity|].
  destruct ((nth_b 12 d =? 129) && (nth_b 13 d =? 0)); [|reflexivity].
  destruct (length d <? 16)%nat; [reflexivity|].
  destruct ((N.land (nth_b 14 d) 15 =? 0) && (nth_b 15 d =? 0)); reflexivity.
Qed.

(* every byte string of length >= 14 has the header shape the lemmas above speak about *)
Lemma skipn_add : forall (A:Type) (n m : nat) (l : list A), skipn n (skipn m l) = skipn (m + n) l.
Proof.
  intros A n m. induction m as [|m IH]; intros l; [reflexivity|].
  destruct l as [|x l]; simpl; [destruct n; reflexivity|apply IH].
Qed.

Lemma frame_shape : forall d : bytes, (14 <= length d)%nat ->
  exists dst src e0 e1 rest, length dst = 6%nat /\ length src = 6%nat /\ d = dst ++ src ++ e0 :: e1 :: rest.
Proof.
  intros d H.
  exists (firstn 6 d), (firstn 6 (skipn 6 d)).
  remember (skipn 6 (skipn 6 d)) as t eqn:Ht.
  assert (Hlt : (2 <= length t)%nat) by (subst t; rewrite !skipn_length; lia).
  destruct t as [|e0 [|e1 rest]]; simpl in Hlt; try lia.
  exists e0, e1, rest. repeat split.
  - rewrite firstn_length. lia.
  - rewrite firstn_length, skipn_length. lia.
  - rewrite Ht. rewrite firstn_skipn. rewrite firstn_skipn. reflexivity.
Qed.

(* Packet *)
Lemma packet_empty : packet_parse [] = Err 3.
Proof. reflexivity. Qed.

Lemma packet_v4 : forall src dst rest b0 h,
  b0 / 16 = 4 -> length (b0 :: h) = 12%nat -> length src = 4%nat -> length dst = 4%nat ->
  packet_parse ((b0 :: h) ++ src ++ dst ++ rest) = Ok (src, dst).
Proof.
  intros src dst rest b0 h Hv Hl Hs Hd.
  unfold packet_parse. cbn [app]. rewrite Hv. cbn [N.eqb Pos.eqb].
  change (b0 :: h ++ src ++ dst ++ rest) with ((b0 :: h) ++ src ++ dst ++ rest).
  assert (Nat.ltb (length ((b0 :: h) ++ src ++ dst ++ rest)) 20%nat = false) as ->.
  { apply Nat.ltb_ge. rewrite !app_length. lia. }
  rewrite (skipn_app_exact _ (b0 :: h) _ 12 Hl).
  rewrite (firstn_app_exact _ src _ 4 Hs).
  replace (skipn 16 ((b0 :: h) ++ src ++ dst ++ rest)) with (dst ++ rest).
  - rewrite (firstn_app_exact _ dst _ 4 Hd). reflexivity.
  - rewrite app_assoc. rewrite skipn_app_exact; [reflexivity|]. rewrite app_length. lia.
Qed.

Lemma packet_v6 : forall src dst rest b0 h,
  b0 / 16 = 6 -> length (b0 :: h) = 8%nat -> length src = 16%nat -> length dst = 16%nat ->
  packet_parse ((b0 :: h) ++ src ++ dst ++ rest) = Ok (src, dst).
Proof.
  intros src dst rest b0 h Hv Hl Hs Hd.
  unfold packet_parse. cbn [app]. rewrite Hv. cbn [N.eqb Pos.eqb].
  change (b0 :: h ++ src ++ dst ++ rest) with ((b0 :: h) ++ src ++ dst ++ rest).
  assert (Nat.ltb (length ((b0 :: h) ++ src ++ dst ++ rest)) 40%nat = false) as ->.
  { apply Nat.ltb_ge. rewrite !app_length. lia. }
  rewrite (skipn_app_exact _ (b0 :: h) _ 8 Hl).
  rewrite (firstn_app_exact _ src _ 16 Hs).
  replace (skipn 24 ((b0 :: h) ++ src ++ dst ++ rest)) with (dst ++ rest).
  - rewrite (firstn_app_exact _ dst _ 16 Hd). reflexivity.
  - rewrite app_assoc. rewrite skipn_app_exact; [reflexivity|]. rewrite app_length. lia.
Qed.

Lemma packet_v4_short : forall b0 t, b0 / 16 = 4 -> (length (b0 :: t) < 20)%nat -> packet_parse (b0 :: t) = Err 4.
Proof.
  intros b0 t Hv Hl. unfold packet_parse. rewrite Hv. cbn [N.eqb Pos.eqb].
  apply Nat.ltb_lt in Hl. rewrite Hl. reflexivity.
Qed.

Lemma packet_v6_short : forall b0 t, b0 / 16 = 6 -> (length (b0 :: t) < 40)%nat -> packet_parse (b0 :: t) = Err 5.
Proof.
  intros b0 t Hv Hl. unfold packet_parse. rewrite Hv. cbn [N.eqb Pos.eqb].
  apply Nat.ltb_lt in Hl. rewrite Hl. reflexivity.
Qed.

Lemma packet_other : forall b0 t, b0 / 16 <> 4 -> b0 / 16 <> 6 -> packet_parse (b0 :: t) = Err 6.
Proof.
  intros b0 t H4 H6. unfold packet_parse.
  apply N.eqb_neq in H4, H6. rewrite H4, H6. reflexivity.
Qed.

Lemma packet_no_panic : forall d, is_panic (packet_parse d) = false.
Proof.
  intros [|b0 t]; [reflexivity|]. unfold packet_parse.
  destruct (b0 / 16 =? 4).
  - destruct (length (b0 :: t) <? 20)%nat; reflexivity.
  - destruct (b0 / 16 =? 6); [|reflexivity].
    destruct (length (b0 :: t) <? 40)%nat; reflexivity.
Qed.

(* Per-connection state machines of src/crypto/{init,rotate,common}.rs over symbolic cryptography:
   select_algorithm, RotationState, InitState, PeerCrypto.

   Symbolic values
   - ECDH private keys are fresh names (N); the public key of `a` is the 32-byte string be_enc 32 a;
     dh a (pub b) is the symmetric, injective name `dh_name a b`; strings that are not 32 bytes make
     agree_ephemeral fail (the code unwraps: Panic site 10/11, reachable by insiders only).
   - Ed25519: an init message carries the name of the key pair that signed it; anything that does not
     verify is the separate constructor WBadInit (unforgeability is this modelling decision).
   - The salted node-id hash is (salt, node): `>` compares the salt first; equality of `node` stands
     for check_salted_node_id_hash (after the fix of finding F13).
   - Payloads are byte strings (the Payload trait's encoding), sealed with Core.v's ideal AEAD. *)
From VpnModel Require Import Base Nonce Replay Core.

(* ---------------------------------------------------------------------------------------- *)
(* symbolic ECDH *)

Definition ecdh_pub (a : N) : bytes := be_enc 32 a.
Definition dh_name (a b : N) : N := 2 ^ 200 + N.min a b * 2 ^ 96 + N.max a b.
(* names are taken modulo 2^256 (the width of a public key), which makes the agreement symmetric for
   all names without side conditions *)
Definition ecdh (priv : N) (pub : bytes) : option N :=
  if Nat.eqb (length pub) 32 then Some (dh_name (priv mod 2 ^ 256) (be_val pub)) else None.

(* ---------------------------------------------------------------------------------------- *)
(* algorithms: wire ids 1 = AES128, 2 = AES256, 3 = CHACHA20; speeds are f32 bit patterns of
   non-negative floats, whose numeric order is the order of the patterns *)

Record algos := { a_list : list (N * N); a_plain : bool }.

Fixpoint find_algo (a : N) (l : list (N * N)) : option N :=
  match l with
  | [] => None
  | (a', s) :: t => if a =? a' then Some s else find_algo a t
  end.

(* candidates in own-list order: (algo, min(own speed, peer speed)) *)
Fixpoint candidates (own peer : list (N * N)) : list (N * N) :=
  match own with
  | [] => []
  | (a, s1) :: t =>
      match find_algo a peer with
      | Some s2 => (a, if s1 <? s2 then s1 else s2) :: candidates t peer
      | None => candidates t peer
      end
  end.

(* max_by (speed, then smaller wire id wins) — after the fix of finding F6 *)
Definition better (x y : N * N) : bool :=   (* is y strictly better than x *)
  (snd x <? snd y) || ((snd x =? snd y) && (fst y <? fst x)).
Fixpoint best_of (acc : N * N) (l : list (N * N)) : N * N :=
  match l with [] => acc | y :: t => best_of (if better acc y then y else acc) t end.

(* Ok None = plain, Ok (Some (algo, speed)), Err = no common algorithm (fatal) *)
Definition select_algorithm (own peer : algos) : res (option (N * N)) :=
  if a_plain own && a_plain peer then Ok None
  else match candidates (a_list own) (a_list peer) with
       | [] => Err 20
       | c :: t => Ok (Some (best_of c t))
       end.

(* ---------------------------------------------------------------------------------------- *)
(* key rotation (rotate.rs) *)

Record rot_msg := { rm_id : N; rm_propose : bytes; rm_confirm : option bytes }.

Record rot_state := {
  r_confirmed : option (bytes * N);
  r_pending : option (N * bytes);       (* key derived from the peer's proposal, my public key for it *)
  r_proposed : option N;                (* my private key, proposed but not confirmed *)
  r_mid : N;
  r_timeout : bool }.

Record rotated := { rk_key : N; rk_id : N; rk_use : bool }.

(* RotationMessage wire form *)
Definition rot_encode (m : rot_msg) : bytes :=
  be_enc 8 (rm_id m) ++ [lenN (rm_propose m) mod 256] ++ rm_propose m ++
  match rm_confirm m with Some c => [lenN c mod 256] ++ c | None => [0] end.

Definition rot_decode (d : bytes) : option rot_msg :=
  if (length d <? 9)%nat then None else
  let id := be_val (firstn 8 d) in
  let kl := N.to_nat (nth_b 8 d) in
  let r1 := skipn 9 d in
  if (length r1 <? kl)%nat then None else
  let prop := firstn kl r1 in
  match skipn kl r1 with
  | [] => None
  | cl :: r2 =>
      if cl =? 0 then Some {| rm_id := id; rm_propose := prop; rm_confirm := None |}
      else if (length r2 <? N.to_nat cl)%nat then None
      else Some {| rm_id := id; rm_propose := prop; rm_confirm := Some (firstn (N.to_nat cl) r2) |}
  end.

(* fresh : supply of new private-key names.  Every function returns the next unused name. *)
Definition rot_new (initiator : bool) (fresh : N) : rot_state * option rot_msg * N :=
  if initiator then
    ({| r_confirmed := None; r_pending := None; r_proposed := Some fresh; r_mid := 1; r_timeout := false |},
     Some {| rm_id := 1; rm_propose := ecdh_pub fresh; rm_confirm := None |}, fresh + 1)
  else ({| r_confirmed := None; r_pending := None; r_proposed := None; r_mid := 0; r_timeout := false |}, None, fresh).

(* process_message; Panic 10 = derive_key unwrap on an invalid public key *)
Definition rot_process (s : rot_state) (m : rot_msg) (fresh : N) : res (rot_state * option rotated) * N :=
  if rm_id m <=? r_mid s then (Ok (s, None), fresh) else
  match ecdh fresh (rm_propose m) with
  | None => (Panic 10, fresh + 1)
  | Some key =>
      let s1 := {| r_confirmed := r_confirmed s; r_pending := Some (key, ecdh_pub fresh); r_proposed := r_proposed s;
                   r_mid := r_mid s; r_timeout := false |} in
      match rm_confirm m, r_proposed s with
      | Some peer_key, Some priv =>
          match ecdh priv peer_key with
          | None => (Panic 10, fresh + 1)
          | Some k2 =>
              (Ok ({| r_confirmed := r_confirmed s1; r_pending := r_pending s1; r_proposed := None; r_mid := r_mid s1; r_timeout := false |},
                   Some {| rk_key := k2; rk_id := rm_id m; rk_use := true |}), fresh + 1)
          end
      | _, _ => (Ok (s1, None), fresh + 1)
      end
  end.

Definition rot_handle (s : rot_state) (data : bytes) (fresh : N) : res (rot_state * option rotated) * N :=
  match rot_decode data with
  | None => (Err 21, fresh)
  | Some m => rot_process s m fresh
  end.

Definition rot_cycle (s : rot_state) (fresh : N) : rot_state * option rot_msg * option rotated * N :=
  match r_proposed s with
  | Some priv =>
      if r_timeout s then
        let m := match r_confirmed s with
                 | Some (ck, mid) => {| rm_id := mid; rm_propose := ecdh_pub priv; rm_confirm := Some ck |}
                 | None => {| rm_id := 1; rm_propose := ecdh_pub priv; rm_confirm := None |}
                 end in
        (s, Some m, None, fresh)
      else ({| r_confirmed := r_confirmed s; r_pending := r_pending s; r_proposed := r_proposed s; r_mid := r_mid s; r_timeout := true |},
            None, None, fresh)
  | None =>
      match r_pending s with
      | Some (key, ck) =>
          let mid := r_mid s + 2 in
          ({| r_confirmed := Some (ck, mid); r_pending := None; r_proposed := Some fresh; r_mid := mid; r_timeout := r_timeout s |},
           Some {| rm_id := mid; rm_propose := ecdh_pub fresh; rm_confirm := Some ck |},
           Some {| rk_key := key; rk_id := mid; rk_use := false |}, fresh + 1)
      | None => (s, None, None, fresh)
      end
  end.

(* ---------------------------------------------------------------------------------------- *)
(* the 3-way handshake (init.rs) *)

Definition STAGE_PING := 1. Definition STAGE_PONG := 2. Definition STAGE_PENG := 3.
Definition WAITING_TO_CLOSE := 4. Definition CLOSING := 5.
Definition MAX_FAILED_RETRIES := 120.

(* payload of pong / peng: sealed by the prepared core, or plain when plain was negotiated *)
Inductive ipayload := PSealed (d : dgram) | PPlain (b : bytes).

Record imsg := {
  im_signer : N;                 (* key pair that signed the message *)
  im_stage : N;
  im_salt : N; im_node : N;      (* salted node-id hash *)
  im_ecdh : option bytes;
  im_algos : option algos;
  im_payload : option ipayload }.

Record init_state := {
  i_node : N; i_salt : N;
  i_payload : bytes;
  i_key : N;                     (* own key pair *)
  i_trusted : list N;            (* trusted public keys (names of key pairs) *)
  i_ecdh : option N;
  i_stage : N;
  i_close_time : N;
  i_last : option imsg;
  i_core : option core;
  i_algos : algos;
  i_selected : option N;
  i_retries : N;
  i_fresh : N;                   (* fresh-name supply of this object *)
  i_rnd : bytes                  (* 6 random start bytes for counters (oracle, any value) *)
}.

Definition init_new (node salt : N) (payload : bytes) (key : N) (trusted : list N) (al : algos) (fresh : N) (rnd : bytes) : init_state :=
  {| i_node := node; i_salt := salt; i_payload := payload; i_key := key; i_trusted := trusted; i_ecdh := None;
     i_stage := STAGE_PING; i_close_time := 60; i_last := None; i_core := None; i_algos := al; i_selected := None;
     i_retries := 0; i_fresh := fresh; i_rnd := rnd |}.

Definition hash_gt (s1 n1 s2 n2 : N) : bool := (s2 <? s1) || ((s1 =? s2) && (n2 <? n1)).

Definition upd_init (s : init_state) (ecdh_ : option N) (stage close : N) (last : option imsg) (c : option core)
  (sel : option N) (retries fresh : N) : init_state :=
  {| i_node := i_node s; i_salt := i_salt s; i_payload := i_payload s; i_key := i_key s; i_trusted := i_trusted s;
     i_ecdh := ecdh_; i_stage := stage; i_close_time := close; i_last := last; i_core := c; i_algos := i_algos s;
     i_selected := sel; i_retries := retries; i_fresh := fresh; i_rnd := i_rnd s |}.

(* encrypt_payload: through the prepared core if there is one (advances its counter) *)
Definition init_encrypt_payload (s : init_state) : option core * ipayload :=
  match i_core s with
  | Some c => let '(c', d) := core_encrypt c (i_payload s) in (Some c', PSealed d)
  | None => (None, PPlain (i_payload s))
  end.

(* send_message: builds, signs and remembers the message *)
Definition init_send (s : init_state) (stage : N) (pub : option bytes) : init_state * imsg :=
  let '(c', pl) := if stage =? STAGE_PING then (i_core s, None)
                   else let '(c, p) := init_encrypt_payload s in (c, Some p) in
  let m := {| im_signer := i_key s; im_stage := stage; im_salt := i_salt s; im_node := i_node s;
              im_ecdh := pub; im_algos := if stage =? STAGE_PENG then None else Some (i_algos s); im_payload := pl |} in
  (upd_init s (i_ecdh s) (i_stage s) (i_close_time s) (Some m) c' (i_selected s) (i_retries s) (i_fresh s), m).

Definition init_send_ping (s : init_state) : init_state * imsg :=
  let priv := i_fresh s in
  let s1 := upd_init s (Some priv) (i_stage s) (i_close_time s) (i_last s) (i_core s) (i_selected s) (i_retries s) (priv + 1) in
  let '(s2, m) := init_send s1 STAGE_PING (Some (ecdh_pub priv)) in
  (upd_init s2 (i_ecdh s2) STAGE_PONG (i_close_time s2) (i_last s2) (i_core s2) (i_selected s2) (i_retries s2) (i_fresh s2), m).

(* every_second: Err 30 = "Initialization timeout" (fatal) *)
Definition init_every_second (s : init_state) : init_state * res (option imsg) :=
  if i_stage s =? WAITING_TO_CLOSE then
    if i_close_time s =? 0
    then (upd_init s (i_ecdh s) CLOSING (i_close_time s) (i_last s) (i_core s) (i_selected s) (i_retries s) (i_fresh s), Ok None)
    else (upd_init s (i_ecdh s) (i_stage s) (i_close_time s - 1) (i_last s) (i_core s) (i_selected s) (i_retries s) (i_fresh s), Ok None)
  else if i_stage s =? CLOSING then (s, Ok None)
  else if i_retries s <? MAX_FAILED_RETRIES then
    (upd_init s (i_ecdh s) (i_stage s) (i_close_time s) (i_last s) (i_core s) (i_selected s) (i_retries s + 1) (i_fresh s), Ok (i_last s))
  else (upd_init s (i_ecdh s) CLOSING (i_close_time s) (i_last s) (i_core s) (i_selected s) (i_retries s) (i_fresh s), Err 30).

Inductive init_result := IContinue | ISuccess (peer_payload : bytes) (is_initiator : bool).

(* decrypt of the pong / peng payload followed by the Payload decoder (payload_ok: does the byte
   string decode; the node supplies NodeInfo's decoder, object-level tests use "always") *)
Definition init_decrypt (payload_ok : bytes -> bool) (c : option core) (p : ipayload) : option core * option bytes :=
  match c, p with
  | Some c0, PSealed d =>
      match core_decrypt c0 d with
      | (c1, Ok b) => (Some c1, if payload_ok b then Some b else None)
      | (c1, _) => (Some c1, None)
      end
  | Some c0, PPlain b =>
      (* plain bytes fed to a core: they are not a genuine seal *)
      let '(c1, _) := core_decrypt c0 (dgram_of_bytes b) in (Some c1, None)
  | None, PPlain b => (None, if payload_ok b then Some b else None)
  | None, PSealed d => (None, None)   (* sealed bytes read as a plain payload: modelled as undecodable *)
  end.

Definition core_of_key (s : init_state) (alg_key : option (N * N)) (hf : bool) (dummy : N) : option core :=
  match alg_key with
  | Some (_, k) => Some (core_new k dummy hf (i_rnd s) (i_rnd s) (i_rnd s) (i_rnd s))
  | None => None
  end.

(* handle_init on a message that verified under a trusted key.
   Error classes: Err 1 = not fatal (ignored), Err 2 = fatal (CryptoInitFatal).
   Panic 11 = ecdh_private_key.take().unwrap() on None, Panic 10 = agree_ephemeral unwrap.
   Returns new state, result, reply (None = nothing written to the buffer). *)
Definition handle_init (payload_ok : bytes -> bool) (s : init_state) (m : imsg)
  : init_state * res init_result * option imsg :=
  if negb (existsb (N.eqb (im_signer m)) (i_trusted s)) then (s, Err 1, None) else
  (* field presence checks of read_from (after the signature) *)
  let fields_ok :=
    if im_stage m =? STAGE_PING then (match im_ecdh m, im_algos m with Some _, Some _ => true | _, _ => false end)
    else if im_stage m =? STAGE_PONG then (match im_ecdh m, im_algos m, im_payload m with Some _, Some _, Some _ => true | _, _, _ => false end)
    else if im_stage m =? STAGE_PENG then (match im_payload m with Some _ => true | None => false end)
    else false in
  if negb fields_ok then (s, Err 1, None) else
  (* connected to self *)
  if ((i_salt s =? im_salt m) && (i_node s =? im_node m)) || (i_node s =? im_node m) then (s, Err 2, None) else
  let mismatch := negb (im_stage m =? i_stage s) in
  let dual := mismatch && (i_stage s =? STAGE_PONG) && (im_stage m =? STAGE_PING) in
  if dual && negb (hash_gt (im_salt m) (im_node m) (i_salt s) (i_node s)) then (s, Ok IContinue, None)
  else if mismatch && negb dual && (i_stage s =? CLOSING) then (s, Ok IContinue, None)
  else if mismatch && negb dual && (match i_last s with Some _ => true | None => false end) then (s, Ok IContinue, i_last s)
  else if mismatch && negb dual then (s, Err 2, None)
  else
    (* either the expected stage, or the dual-open reset: continue as a fresh responder *)
    let s0 := if dual then upd_init s None STAGE_PING (i_close_time s) None (i_core s) (i_selected s) 0 (i_fresh s)
              else upd_init s (i_ecdh s) (i_stage s) (i_close_time s) (i_last s) (i_core s) (i_selected s) 0 (i_fresh s) in
    let hf := hash_gt (i_salt s0) (i_node s0) (im_salt m) (im_node m) in
    if im_stage m =? STAGE_PING then
      let priv := i_fresh s0 in
      let dummy := i_fresh s0 + 1 in
      let s1 := upd_init s0 (i_ecdh s0) (i_stage s0) (i_close_time s0) (i_last s0) (i_core s0) (i_selected s0) (i_retries s0) (priv + 2) in
      match select_algorithm (i_algos s1) (match im_algos m with Some a => a | None => {| a_list := []; a_plain := false |} end) with
      | Err _ => (s1, Err 2, None)
      | Panic p => (s1, Panic p, None)
      | Ok alg =>
          let keyo := match alg with
                      | Some (a, _) => match ecdh priv (match im_ecdh m with Some b => b | None => [] end) with
                                       | Some k => Some (Some (a, k)) | None => None end
                      | None => Some None
                      end in
          match keyo with
          | None => (s1, Panic 10, None)
          | Some ak =>
              let c := match ak with Some _ => core_of_key s1 ak hf dummy | None => i_core s1 end in
              let s2 := upd_init s1 (i_ecdh s1) (i_stage s1) (i_close_time s1) (i_last s1) c
                                 (match alg with Some (a, _) => Some a | None => None end) (i_retries s1) (i_fresh s1) in
              let '(s3, reply) := init_send s2 STAGE_PONG (Some (ecdh_pub priv)) in
              (upd_init s3 (i_ecdh s3) STAGE_PENG (i_close_time s3) (i_last s3) (i_core s3) (i_selected s3) (i_retries s3) (i_fresh s3),
               Ok IContinue, Some reply)
          end
      end
    else if im_stage m =? STAGE_PONG then
      match i_ecdh s0 with
      | None => (s0, Panic 11, None)
      | Some priv =>
          let dummy := i_fresh s0 in
          let s1 := upd_init s0 None (i_stage s0) (i_close_time s0) (i_last s0) (i_core s0) (i_selected s0) (i_retries s0) (i_fresh s0 + 1) in
          match select_algorithm (i_algos s1) (match im_algos m with Some a => a | None => {| a_list := []; a_plain := false |} end) with
          | Err _ => (s1, Err 2, None)
          | Panic p => (s1, Panic p, None)
          | Ok alg =>
              let keyo := match alg with
                          | Some (a, _) => match ecdh priv (match im_ecdh m with Some b => b | None => [] end) with
                                           | Some k => Some (Some (a, k)) | None => None end
                          | None => Some None
                          end in
              match keyo with
              | None => (s1, Panic 10, None)
              | Some ak =>
                  let c := match ak with Some _ => core_of_key s1 ak hf dummy | None => i_core s1 end in
                  let sel := match alg with Some (a, _) => Some a | None => None end in
                  let '(c', pp) := init_decrypt payload_ok c (match im_payload m with Some p => p | None => PPlain [] end) in
                  let s2 := upd_init s1 (i_ecdh s1) (i_stage s1) (i_close_time s1) (i_last s1) c' sel (i_retries s1) (i_fresh s1) in
                  match pp with
                  | None => (s2, Err 2, None)
                  | Some peer_payload =>
                      let '(s3, reply) := init_send s2 STAGE_PENG None in
                      (upd_init s3 (i_ecdh s3) WAITING_TO_CLOSE 60 (i_last s3) (i_core s3) (i_selected s3) (i_retries s3) (i_fresh s3),
                       Ok (ISuccess peer_payload true), Some reply)
                  end
              end
          end
      end
    else
      (* PENG *)
      let '(c', pp) := init_decrypt payload_ok (i_core s0) (match im_payload m with Some p => p | None => PPlain [] end) in
      let s1 := upd_init s0 (i_ecdh s0) (i_stage s0) (i_close_time s0) (i_last s0) c' (i_selected s0) (i_retries s0) (i_fresh s0) in
      match pp with
      | None => (s1, Err 2, None)
      | Some peer_payload =>
          (upd_init s1 (i_ecdh s1) CLOSING (i_close_time s1) (i_last s1) (i_core s1) (i_selected s1) (i_retries s1) (i_fresh s1),
           Ok (ISuccess peer_payload false), None)
      end.

(* C15 at node level: the announcement schedule of housekeeping. *)
From VpnModel Require Import Base Interval IntervalProofs Nonce Replay Core Conn PeerCrypto NodeInfo Table Node NodeProofs.

Lemma send_data_peer_timeouts : forall n addr ty body,
  map (fun e => p_peer_timeout (snd e)) (n_peers (fst (send_data n addr ty body))) = map (fun e => p_peer_timeout (snd e)) (n_peers n).
Proof.
  intros n addr ty body. unfold send_data. destruct (aget (n_peers n) addr) as [pd|] eqn:E; [|reflexivity].
  destruct (pc_send (p_crypto pd) ty body) as [pc' [w|e|s]]; try reflexivity. cbn [fst upd n_peers].
  induction (n_peers n) as [|[k v] t IH]; [discriminate|]. cbn [aget] in E. cbn [aset].
  destruct (addr =? k) eqn:Ek.
  - inversion E; subst v. reflexivity.
  - cbn [map snd]. f_equal. apply IH. exact E.
Qed.

Lemma broadcast_peer_timeouts : forall n ty body,
  map (fun e => p_peer_timeout (snd e)) (n_peers (fst (broadcast n ty body))) = map (fun e => p_peer_timeout (snd e)) (n_peers n) /\
  n_cfg (fst (broadcast n ty body)) = n_cfg n.
Proof.
  intros n ty body. unfold broadcast.
  assert (G : forall (l : list (N * peer_data)) (m : node) (fx : list effect), map (fun e => p_peer_timeout (snd e)) (n_peers (fst (fold_left (fun acc e => let '(m, fx) := acc in let '(m', fx') := send_data m (fst e) ty body in (m', fx ++ fx')) l (m, fx)))) = map (fun e => p_peer_timeout (snd e)) (n_peers m) /\
          n_cfg (fst (fold_left (fun acc e => let '(m, fx) := acc in let '(m', fx') := send_data m (fst e) ty body in (m', fx ++ fx')) l (m, fx))) = n_cfg m).
  { induction l as [|e t IH]; intros m fx; [split; reflexivity|]. cbn [fold_left].
    pose proof (send_data_peer_timeouts m (fst e) ty body) as S.
    assert (C : n_cfg (fst (send_data m (fst e) ty body)) = n_cfg m).
    { unfold send_data. destruct (aget (n_peers m) (fst e)); [|reflexivity]. destruct (pc_send _ ty body) as [pc' [w|er|s]]; reflexivity. }
    destruct (send_data m (fst e) ty body) as [m' fx']. cbn [fst] in S, C. destruct (IH m' (fx ++ fx')) as [I1 I2]. rewrite I1, I2, S, C. split; reflexivity. }
  apply G.
Qed.

(* whenever housekeeping sends the announcement it schedules the next one after a delay that is at most one second
   or strictly shorter than the timeout every current peer advertised *)
Theorem announcement_schedule_safe : forall now n3,
  let '(m, fx) := broadcast n3 MESSAGE_TYPE_NODE_INFO (ni_encode (create_node_info n3)) in
  let advertised := map (fun e => p_peer_timeout (snd e)) (n_peers n3) in
  let iv := announce_interval (update_freq (c_peer_timeout (n_cfg m)) (c_keepalive (n_cfg m)))
                              (map (fun e => p_peer_timeout (snd e)) (n_peers m)) in
  n_next_peers (with_sched m (now + Z.of_N iv)%Z (n_next_own_reset m) (n_reconnect m)) = (now + Z.of_N iv)%Z /\
  (advertised <> [] -> iv <= 1 \/ forall x, In x advertised -> iv < x).
Proof.
  intros now n3. pose proof (broadcast_peer_timeouts n3 MESSAGE_TYPE_NODE_INFO (ni_encode (create_node_info n3))) as [B1 B2].
  destruct (broadcast n3 MESSAGE_TYPE_NODE_INFO (ni_encode (create_node_info n3))) as [m fx]. cbn [fst] in B1, B2.
  cbn zeta. split; [reflexivity|]. intros Hne. rewrite B1. apply interval_safe. exact Hne.
Qed.

(* C12 at node level: every path that removes a peer removes its routes in the same step. *)
From VpnModel Require Import Base Nonce Replay Core Conn PeerCrypto NodeInfo Table TableProofs Node NodeProofs.

Definition no_routes (n : node) (addr : N) : Prop :=
  aget (n_peers n) addr = None /\
  (forall c, In c (claims (n_table n)) -> c_peer c <> addr) /\
  (forall e, In e (cache (n_table n)) -> e_peer e <> addr).

(* 1. the peer said goodbye (CLOSE message) *)
Theorem close_removes_routes : forall salts now n src body reply, (0 < now)%Z ->
  no_routes (fst (handle_result salts now n src (MMessage MESSAGE_TYPE_CLOSE body) reply)) src \/
  (aget (n_peers n) src = None /\ fst (handle_result salts now n src (MMessage MESSAGE_TYPE_CLOSE body) reply) = n).
Proof.
  intros salts now n src body reply Hnow. cbn [handle_result].
  change (MESSAGE_TYPE_CLOSE =? MESSAGE_TYPE_DATA) with false. change (MESSAGE_TYPE_CLOSE =? MESSAGE_TYPE_NODE_INFO) with false.
  change (MESSAGE_TYPE_CLOSE =? MESSAGE_TYPE_KEEPALIVE) with false. change (MESSAGE_TYPE_CLOSE =? MESSAGE_TYPE_CLOSE) with true.
  cbn iota. cbn [fst]. unfold remove_peer. destruct (aget (n_peers n) src) as [pd|] eqn:E.
  - left. unfold no_routes. cbn [upd n_peers n_table]. split; [apply aget_adel_same|].
    destruct (remove_claims_clean (n_table n) now src Hnow) as (R1 & R2 & _). split; assumption.
  - right. split; reflexivity.
Qed.

(* 2. the peer's connection object failed in the crypto housekeeping (after the fix of F4) *)
Definition remove_failed (salts : list (N * N)) (now : Z) (del : list N) (st : node * list effect) : node * list effect :=
  fold_left (fun acc addr =>
    let '(m, fx) := acc in
    if ahas (n_peers m) addr then
      let m2 := upd m (adel (n_peers m) addr) (n_pending m) (n_own m) (table_remove_claims (n_table m) now addr) in
      let '(m3, fx') := connect_sock salts m2 addr in (m3, fx ++ fx')
    else (m, fx)) del st.

Lemma crypto_housekeep_shape : forall salts now n,
  crypto_housekeep salts now n =
  let '(n1, fx1, del1) := tick_pending n in
  let '(n2, fx2, del2) := tick_peers n1 in
  remove_failed salts now del2
    (fold_left (fun m addr => upd m (n_peers m) (adel (n_pending m) addr) (n_own m) (n_table m)) del1 n2, fx1 ++ fx2).
Proof. reflexivity. Qed.

Lemma no_routes_step : forall salts now m a addr, (0 < now)%Z -> no_routes m addr ->
  let m2 := upd m (adel (n_peers m) a) (n_pending m) (n_own m) (table_remove_claims (n_table m) now a) in
  no_routes (fst (connect_sock salts m2 a)) addr.
Proof.
  intros salts now m a addr Hnow (H1 & H2 & H3) m2. destruct (connect_sock_peers salts m2 a) as [C1 C2].
  unfold no_routes. rewrite C1, C2. unfold m2. cbn [upd n_peers n_table].
  destruct (N.eq_dec a addr) as [->|Hne].
  - split; [apply aget_adel_same|]. destruct (remove_claims_clean (n_table m) now addr Hnow) as (R1 & R2 & _). split; assumption.
  - split; [rewrite aget_adel_other by exact Hne; exact H1|].
    destruct (remove_claims_clean (n_table m) now a Hnow) as (_ & _ & R3 & R4). split.
    + intros c Hc Hcp. destruct (N.eq_dec (c_peer c) a) as [Ha|Ha]; [congruence|]. apply (R3 c Ha) in Hc. destruct Hc as [Hc _]. exact (H2 c Hc Hcp).
    + intros e He Hep. destruct (N.eq_dec (e_peer e) a) as [Ha|Ha]; [congruence|]. apply (R4 e Ha) in He. destruct He as [He _]. exact (H3 e He Hep).
Qed.

Theorem failed_peer_routes_removed : forall salts now del m fx addr, (0 < now)%Z ->
  In addr del -> ahas (n_peers m) addr = true ->
  no_routes (fst (remove_failed salts now del (m, fx))) addr.
Proof.
  intros salts now del m fx addr Hnow Hin Hpeer.
  assert (G : forall l m fx, ((In addr l /\ ahas (n_peers m) addr = true) \/ no_routes m addr) ->
              no_routes (fst (remove_failed salts now l (m, fx))) addr).
  { clear - Hnow. induction l as [|a l IH]; intros m fx H.
    - destruct H as [[[] _]|H]. exact H.
    - unfold remove_failed. cbn [fold_left]. fold (remove_failed salts now l).
      destruct (ahas (n_peers m) a) eqn:Ea.
      + set (m2 := upd m (adel (n_peers m) a) (n_pending m) (n_own m) (table_remove_claims (n_table m) now a)).
        pose proof (connect_sock_peers salts m2 a) as [C1 C2].
        destruct (connect_sock salts m2 a) as [m3 fx'] eqn:Ec. cbn [fst] in C1, C2. apply IH.
        destruct (N.eq_dec a addr) as [->|Hne].
        * right. unfold no_routes. rewrite C1, C2. unfold m2. cbn [upd n_peers n_table]. split; [apply aget_adel_same|].
          destruct (remove_claims_clean (n_table m) now addr Hnow) as (R1 & R2 & _). split; assumption.
        * destruct H as [[[H|H] Hp]|H]; [congruence| |].
          -- left. split; [exact H|]. rewrite C1. unfold m2. cbn [upd n_peers]. unfold ahas in *. rewrite aget_adel_other by exact Hne. exact Hp.
          -- right. pose proof (no_routes_step salts now m a addr Hnow H) as S. cbn zeta in S. fold m2 in S. rewrite Ec in S. exact S.
      + apply IH. destruct H as [[[H|H] Hp]|H].
        * subst a. congruence.
        * left. split; assumption.
        * right. exact H. }
  apply G. left. split; assumption.
Qed.

(* C01 over whole runs: every peer a node has in any reachable state was admitted by a handshake message that arrived from that very
   address and verified under a key of the node's trusted list (own key if none is configured). *)
From VpnModel Require Import Base RangeMatch Table Nonce Replay Core Conn PeerCrypto NodeInfo Interval Node NodeProofs InitProofs TrustProofs SurviveProofs NextHopProofs PcInvariant.

(* handshake objects keep the trusted list they were created with *)
Definition TI (c : ncfg) (p : peer_crypto) : Prop := forall i, pc_init p = Some i -> i_trusted i = eff_trusted c.

Lemma init_send_trusted : forall s stage pub, i_trusted (fst (init_send s stage pub)) = i_trusted s.
Proof. intros. unfold init_send. destruct (stage =? STAGE_PING); [reflexivity|]. destruct (init_encrypt_payload s) as [c p]. reflexivity. Qed.

Lemma handle_init_trusted : forall ok s m, i_trusted (fst (fst (handle_init ok s m))) = i_trusted s.
Proof.
  intros ok s m. unfold handle_init.
  repeat (match goal with
          | |- context [init_send ?a ?b ?c] => let H := fresh in pose proof (init_send_trusted a b c) as H; destruct (init_send a b c)
          | |- context [match ?x with _ => _ end] => destruct x
          | |- context [if ?x then _ else _] => destruct x
          end); cbn [fst snd upd_init i_trusted] in *; try reflexivity; try congruence;
  match goal with H : i_trusted ?i = i_trusted (if ?b then _ else _) |- _ => destruct b; cbn [upd_init i_trusted] in H; exact H end.
Qed.

Lemma ti_new : forall n salt, TI (n_cfg n) (snd (new_instance n salt)).
Proof. intros n salt i H. apply (new_instance_trust n salt i H). Qed.

Lemma ti_initialize : forall c p, TI c p -> TI c (fst (pc_initialize p)).
Proof.
  intros c p H. unfold pc_initialize. destruct (pc_init p) as [i|] eqn:Ei; [|exact H].
  destruct (negb (i_stage i =? STAGE_PING)); [exact H|]. unfold init_send_ping.
  match goal with |- context [init_send ?a ?b ?d] => pose proof (init_send_trusted a b d) as Ht; destruct (init_send a b d) as [s2 m] end.
  cbn [fst] in *. intros i0 H0. cbn [pc_set pc_init] in H0. inversion H0; subst i0. cbn [upd_init i_trusted] in *. rewrite Ht. apply H. exact Ei.
Qed.

Lemma ti_set : forall c p io r pl co cnt fr, (forall i, io = Some i -> i_trusted i = eff_trusted c) -> TI c (pc_set p io r pl co cnt fr).
Proof. intros. intros i Hi. apply H. exact Hi. Qed.

Lemma ti_rotate : forall c p data, TI c p -> TI c (fst (pc_handle_rotate p data)).
Proof.
  intros c p data H. unfold pc_handle_rotate. destruct (pc_plain p); [exact H|]. destruct (pc_rot p) as [rs|]; [|exact H].
  destruct (rot_handle rs data (pc_fresh p)) as [[[rs' rk]|e|s] fr]; cbn [fst]; [|exact H|exact H].
  destruct rk as [k|]; [destruct (pc_core p)|]; exact H.
Qed.

Lemma ti_handle : forall c ok p w, TI c p -> TI c (fst (fst (pc_handle ok p w))).
Proof.
  intros c ok p w H. destruct w as [m| | |d|b]; cbn [pc_handle].
  - unfold pc_handle_init. destruct (pc_init p) as [i|] eqn:Ei; [|exact H].
    pose proof (handle_init_trusted ok i m) as Ht. destruct (handle_init ok i m) as [[i' r0] reply]. cbn [fst] in Ht.
    assert (T' : i_trusted i' = eff_trusted c) by (rewrite Ht; apply H; exact Ei).
    assert (P1 : TI c (pc_set p (Some i') (pc_rot p) (pc_plain p) (pc_core p) (pc_counter p) (pc_fresh p))) by (apply ti_set; intros i0 H0; inversion H0; subst; exact T').
    assert (IO : forall i0, (if i_stage (upd_init i' (i_ecdh i') (i_stage i') (i_close_time i') (i_last i') None (i_selected i') (i_retries i') (i_fresh i')) =? CLOSING then None
                             else Some (upd_init i' (i_ecdh i') (i_stage i') (i_close_time i') (i_last i') None (i_selected i') (i_retries i') (i_fresh i'))) = Some i0 -> i_trusted i0 = eff_trusted c).
    { intros i0 H0. destruct (_ =? CLOSING); [discriminate H0|]. inversion H0; subst i0. exact T'. }
    destruct r0 as [[|payload ini]|e|s]; cbn [fst]; try exact P1.
    destruct ini.
    + destruct (rot_new false (pc_fresh p)) as [[rs rm] fr]. cbn [fst]. intros i0 H0. cbn [with_alg pc_set pc_init] in H0. apply IO. exact H0.
    + destruct (i_core i') as [c0|].
      * destruct (rot_new true (pc_fresh p)) as [[rs rm] fr]. destruct rm as [m1|]; [|exact P1].
        destruct (core_encrypt c0 _) as [c1 dd]. cbn [fst]. intros i0 H0. cbn [with_alg pc_set pc_init] in H0. apply IO. exact H0.
      * cbn [fst]. intros i0 H0. cbn [pc_set pc_init] in H0. apply IO. exact H0.
  - destruct (pc_init p); exact H.
  - exact H.
  - destruct (pc_plain p).
    + destruct d as [keyid a b c0|[|k]]; cbn [fst]; try exact H. destruct (keyid =? MESSAGE_TYPE_ROTATION); exact H.
    + destruct (pc_core p) as [c0|]; [|exact H]. destruct (core_decrypt c0 d) as [c' [plain|e|s]]; cbn [fst]; [|exact H|exact H].
      destruct plain as [|ty body]; [exact H|]. destruct (ty =? MESSAGE_TYPE_ROTATION); [|exact H].
      match goal with |- context [pc_handle_rotate ?q body] => pose proof (ti_rotate c q body H) as T2; destruct (pc_handle_rotate q body) as [p2 [u|e|s]]; exact T2 end.
  - destruct (pc_plain p).
    + destruct b as [|ty body]; [exact H|]. destruct (ty =? MESSAGE_TYPE_ROTATION); exact H.
    + destruct (pc_core p) as [c0|]; [|exact H]. destruct (core_decrypt c0 (dgram_of_bytes b)) as [c' x]. exact H.
Qed.

Lemma ti_seal : forall c p ty b, TI c p -> TI c (fst (pc_seal p ty b)).
Proof.
  intros c p ty b H. unfold pc_seal. destruct (pc_plain p); [exact H|]. destruct (pc_core p) as [c0|]; [|exact H].
  destruct (core_encrypt c0 (ty :: b)) as [c' d]. exact H.
Qed.

Lemma ti_tick : forall c p, TI c p -> TI c (fst (fst (pc_every_second p))).
Proof.
  intros c p H. unfold pc_every_second.
  assert (Hio : forall io ir, (match pc_init p with Some i => let '(i', r) := init_every_second i in (Some i', r) | None => (None, Ok None) end) = (io, ir) ->
                forall i, io = Some i -> i_trusted i = eff_trusted c).
  { intros io ir E i Hi. destruct (pc_init p) as [i0|] eqn:Ei.
    - specialize (H i0 Ei). assert (Ht : i_trusted (fst (init_every_second i0)) = i_trusted i0).
      { unfold init_every_second. repeat (match goal with |- context [if ?x then _ else _] => destruct x end); reflexivity. }
      destruct (init_every_second i0) as [i' r]. cbn [fst] in Ht. injection E as E1 E2. rewrite <- E1 in Hi. injection Hi as Hi. rewrite <- Hi, Ht. exact H.
    - injection E as E1 E2. rewrite <- E1 in Hi. discriminate Hi. }
  destruct (match pc_init p with Some i => let '(i', r) := init_every_second i in (Some i', r) | None => (None, Ok None) end) as [io ir].
  specialize (Hio io ir eq_refl).
  assert (Hio' : forall i, match io with Some i => if i_stage i =? CLOSING then None else Some i | None => None end = Some i -> i_trusted i = eff_trusted c).
  { intros i E. destruct io as [i0|]; [|discriminate E]. destruct (i_stage i0 =? CLOSING); [discriminate E|]. inversion E; subst i. apply Hio. reflexivity. }
  destruct ir as [out|e|s]; cbn [fst]; [|apply ti_set; exact Hio|exact H].
  destruct out as [m|]; cbn [fst]; [apply ti_set; exact Hio'|].
  destruct (pc_rot p) as [rs|]; cbn [fst]; [|apply ti_set; exact Hio'].
  destruct (pc_counter p + 1 <? ROTATE_INTERVAL); cbn [fst]; [apply ti_set; exact Hio'|].
  destruct (rot_cycle rs (pc_fresh p)) as [[[rs' rm] rk] fr].
  destruct rk as [k|]; [destruct (option_map core_tick (pc_core p)); cbn [fst]; [|apply ti_set; exact Hio']|];
    (destruct rm as [m|]; cbn [fst]; [|apply ti_set; exact Hio'];
     match goal with |- context [pc_seal ?p2 ?t ?b] => pose proof (ti_seal c p2 t b (ti_set c _ _ _ _ _ _ _ Hio')) as S; destruct (pc_seal p2 t b) as [p3 [w|e|s]]; exact S end).
Qed.

Theorem reachable_ti : forall c salts t0 evs,
  let n := nrun salts (node_new c t0) evs in
  n_cfg n = c /\
  (forall a pc i, aget (n_pending n) a = Some pc -> pc_init pc = Some i -> i_trusted i = eff_trusted c) /\
  (forall a pd i, aget (n_peers n) a = Some pd -> pc_init (p_crypto pd) = Some i -> i_trusted i = eff_trusted c).
Proof.
  intros c salts t0 evs n. destruct (reachable_ap TI ti_new ti_initialize ti_handle ti_tick ti_seal c salts t0 evs) as (H1 & H2 & H3).
  split; [exact H1|]. split; [intros a pc i Ha Hi; exact (H2 a pc Ha i Hi)|intros a pd i Ha Hi; exact (H3 a pd Ha i Hi)].
Qed.

(* ---- only a datagram can make a peer ---- *)
Definition nonew (n n' : node) : Prop := forall a, ahas (n_peers n') a = true -> ahas (n_peers n) a = true.
Lemma nonew_refl : forall n, nonew n n. Proof. intros n a H. exact H. Qed.
Lemma nonew_trans : forall a b c, nonew a b -> nonew b c -> nonew a c. Proof. intros a b c H1 H2 x H. apply H1, H2, H. Qed.
Lemma nonew_eq : forall n n', n_peers n' = n_peers n -> nonew n n'. Proof. intros n n' E a H. rewrite E in H. exact H. Qed.

Lemma fold_nonew : forall (A : Type) (f : node * list effect -> A -> node * list effect) (l : list A) st,
  (forall st x, nonew (fst st) (fst (f st x))) -> nonew (fst st) (fst (fold_left f l st)).
Proof.
  intros A f l. induction l as [|x t IH]; intros st H; [apply nonew_refl|]. cbn [fold_left].
  eapply nonew_trans; [apply H|apply IH; exact H].
Qed.

Lemma send_data_nonew : forall n addr ty body, nonew n (fst (send_data n addr ty body)).
Proof. intros n addr ty body a H. rewrite send_data_peers_keys in H. exact H. Qed.

Lemma broadcast_nonew : forall n ty body, nonew n (fst (broadcast n ty body)).
Proof.
  intros n ty body. unfold broadcast. apply (fold_nonew _ _ (n_peers n) (n, [])). intros [m fx] e. cbn [fst].
  pose proof (send_data_nonew m (fst e) ty body) as G. destruct (send_data m (fst e) ty body) as [m' fx']. exact G.
Qed.

Lemma handle_iface_nonew : forall salts now n frame, nonew n (fst (handle_iface salts now n frame)).
Proof.
  intros salts now n frame. unfold handle_iface. destruct (parse_frame (n_cfg n) frame) as [[s dst]|e|s]; try apply nonew_refl.
  destruct (table_lookup (n_table n) now dst) as [r t'].
  destruct r as [addr|]; [apply (send_data_nonew (upd n (n_peers n) (n_pending n) (n_own n) t'))|].
  destruct (c_broadcast (n_cfg n)); [apply (broadcast_nonew (upd n (n_peers n) (n_pending n) (n_own n) t'))|apply nonew_eq; reflexivity].
Qed.

Lemma tick_pending_peers_eq : forall n, n_peers (fst (fst (tick_pending n))) = n_peers n.
Proof.
  intros n. unfold tick_pending.
  assert (G : forall l st, n_peers (fst (fst (fold_left (fun (acc : node * list effect * list N) (e : N * peer_crypto) =>
    let '(m, fx, del) := acc in
    let addr := fst e in
    match aget (n_pending m) addr with
    | None => (m, fx, del)
    | Some pc =>
        let '(pc', r, w) := pc_every_second pc in
        let m' := upd m (n_peers m) (aset (n_pending m) addr pc') (n_own m) (n_table m) in
        match r with
        | Err _ => (m', fx, del ++ [addr])
        | Ok MReply => (m', fx ++ match w with Some x => [XSend addr x] | None => [] end, del)
        | _ => (m', fx, del)
        end
    end) l st))) = n_peers (fst (fst st))).
  { induction l as [|e t IH]; intros [[m fx] del]; [reflexivity|]. cbn [fold_left]. rewrite IH. cbn [fst].
    destruct (aget (n_pending m) (fst e)) as [pc|]; [|reflexivity].
    destruct (pc_every_second pc) as [[pc' r] w]. destruct r as [[ | | | | ]|c|s]; reflexivity. }
  apply (G (n_pending n) (n, [], [])).
Qed.

Lemma tick_peers_nonew : forall n, nonew n (fst (fst (tick_peers n))).
Proof.
  intros n. unfold tick_peers.
  assert (G : forall l st, nonew (fst (fst st)) (fst (fst (fold_left (fun (acc : node * list effect * list N) (e : N * peer_data) =>
    let '(m, fx, del) := acc in
    let addr := fst e in
    match aget (n_peers m) addr with
    | None => (m, fx, del)
    | Some pd =>
        let '(pc', r, w) := pc_every_second (p_crypto pd) in
        let pd' := {| p_addrs := p_addrs pd; p_timeout := p_timeout pd; p_peer_timeout := p_peer_timeout pd; p_node := p_node pd; p_crypto := pc' |} in
        let m' := upd m (aset (n_peers m) addr pd') (n_pending m) (n_own m) (n_table m) in
        match r with
        | Err _ => (m', fx, del ++ [addr])
        | Ok MReply => (m', fx ++ match w with Some x => [XSend addr x] | None => [] end, del)
        | _ => (m', fx, del)
        end
    end) l st)))).
  { induction l as [|e t IH]; intros [[m fx] del]; [apply nonew_refl|]. cbn [fold_left]. eapply nonew_trans; [|apply IH]. cbn [fst].
    destruct (aget (n_peers m) (fst e)) as [pd|] eqn:Ea; [|apply nonew_refl].
    destruct (pc_every_second (p_crypto pd)) as [[pc' r] w].
    assert (K : forall pd', nonew m (upd m (aset (n_peers m) (fst e) pd') (n_pending m) (n_own m) (n_table m))).
    { intros pd' a H. cbn [upd n_peers] in H. rewrite ahas_aset in H. destruct (a =? fst e) eqn:E; [|exact H].
      apply N.eqb_eq in E. subst a. unfold ahas. rewrite Ea. reflexivity. }
    destruct r as [[ | | | | ]|c|s]; apply K. }
  apply (G (n_peers n) (n, [], [])).
Qed.

Lemma drop_and_redial_nonew : forall salts now m addr,
  nonew m (fst (connect_sock salts (upd m (adel (n_peers m) addr) (n_pending m) (n_own m) (table_remove_claims (n_table m) now addr)) addr)).
Proof.
  intros salts now m addr a H. destruct (connect_sock_peers salts (upd m (adel (n_peers m) addr) (n_pending m) (n_own m) (table_remove_claims (n_table m) now addr)) addr) as [E _].
  rewrite E in H. cbn [upd n_peers] in H. apply ahas_adel in H. exact H.
Qed.

Lemma crypto_housekeep_nonew : forall salts now n, nonew n (fst (crypto_housekeep salts now n)).
Proof.
  intros salts now n. unfold crypto_housekeep.
  pose proof (tick_pending_peers_eq n) as P1. destruct (tick_pending n) as [[n1 fx1] del1]. cbn [fst] in *.
  pose proof (tick_peers_nonew n1) as P2. destruct (tick_peers n1) as [[n2 fx2] del2]. cbn [fst] in *.
  assert (H3 : forall l m, n_peers (fold_left (fun m addr => upd m (n_peers m) (adel (n_pending m) addr) (n_own m) (n_table m)) l m) = n_peers m).
  { induction l as [|a t IH]; intros m; [reflexivity|]. cbn [fold_left]. rewrite IH. reflexivity. }
  specialize (H3 del1 n2).
  set (n3 := fold_left _ del1 n2) in *.
  assert (H4 : forall l st, nonew (fst st) (fst (fold_left (fun (acc : node * list effect) (addr : N) =>
    let '(m, fx) := acc in
    if ahas (n_peers m) addr then
      let m2 := upd m (adel (n_peers m) addr) (n_pending m) (n_own m) (table_remove_claims (n_table m) now addr) in
      let '(m3, fx') := connect_sock salts m2 addr in (m3, fx ++ fx')
    else (m, fx)) l st))).
  { induction l as [|a t IH]; intros [m fx]; [apply nonew_refl|]. cbn [fold_left]. eapply nonew_trans; [|apply IH]. cbn [fst].
    destruct (ahas (n_peers m) a); [|apply nonew_refl].
    pose proof (drop_and_redial_nonew salts now m a) as G. destruct (connect_sock salts _ a) as [m3 fx']. exact G. }
  specialize (H4 del2 (n3, fx1 ++ fx2)). cbn [fst] in H4.
  intros a H. apply H4 in H. rewrite H3 in H. apply P2 in H. rewrite P1 in H. exact H.
Qed.

Lemma reconnect_step_nonew : forall salts now n, nonew n (fst (reconnect_step salts now n)).
Proof.
  intros salts now n. unfold reconnect_step.
  assert (G : nonew n (fst (fold_left (fun (acc : node * list effect) (e : reconnect) =>
      let '(m, fx) := acc in
      if (now <? rc_next e)%Z then (m, fx) else let '(m', fx') := connect salts m (rc_addrs e) in (m', fx ++ fx'))
      (n_reconnect n) (n, [])))).
  { apply (fold_nonew _ _ (n_reconnect n) (n, [])). intros [m fx] e. cbn [fst].
    destruct (now <? rc_next e)%Z; [apply nonew_refl|].
    pose proof (connect_peers salts m (rc_addrs e)) as C1. destruct (connect salts m (rc_addrs e)) as [m' fx']. apply nonew_eq. exact C1. }
  destruct (fold_left _ (n_reconnect n) (n, [])) as [n1 fx]. exact G.
Qed.

Lemma housekeep_nonew : forall salts now n, nonew n (fst (housekeep salts now n)).
Proof.
  intros salts now n. unfold housekeep.
  assert (H1 : forall l st, nonew (fst st) (fst (fold_left (fun (acc : node * list effect) (addr : N) =>
      let '(m, fx) := acc in
      let m1 := upd m (adel (n_peers m) addr) (n_pending m) (n_own m) (table_remove_claims (n_table m) now addr) in
      let '(m2, fx') := connect_sock salts m1 addr in (m2, fx ++ fx')) l st))).
  { induction l as [|a t IH]; intros [m fx]; [apply nonew_refl|]. cbn [fold_left]. eapply nonew_trans; [|apply IH]. cbn [fst].
    pose proof (drop_and_redial_nonew salts now m a) as G. destruct (connect_sock salts _ a) as [m2 fx']. exact G. }
  specialize (H1 (map fst (filter (fun e => (p_timeout (snd e) <? now)%Z) (n_peers n))) (n, [])).
  destruct (fold_left _ _ (n, [])) as [n1 fx1]. cbn [fst] in *.
  set (n2 := upd n1 (n_peers n1) (n_pending n1) (n_own n1) (table_housekeep (n_table n1) now)).
  pose proof (crypto_housekeep_nonew salts now n2) as N3. destruct (crypto_housekeep salts now n2) as [n3 fx3]. cbn [fst] in *.
  assert (H4 : nonew n3 (fst (if (n_next_peers n3 <=? now)%Z then
      let '(m, fx) := broadcast n3 MESSAGE_TYPE_NODE_INFO (ni_encode (create_node_info n3)) in
      let iv := announce_interval (update_freq (c_peer_timeout (n_cfg m)) (c_keepalive (n_cfg m)))
                                  (map (fun e => p_peer_timeout (snd e)) (n_peers m)) in
      (with_sched m (now + Z.of_N iv)%Z (n_next_own_reset m) (n_reconnect m), fx)
    else (n3, [])))).
  { destruct (n_next_peers n3 <=? now)%Z; [|apply nonew_refl].
    pose proof (broadcast_nonew n3 MESSAGE_TYPE_NODE_INFO (ni_encode (create_node_info n3))) as G1.
    destruct (broadcast n3 _ _) as [m fx]. exact G1. }
  destruct (if (n_next_peers n3 <=? now)%Z then _ else _) as [n4 fx4]. cbn [fst] in *.
  pose proof (reconnect_step_nonew salts now n4) as N5. destruct (reconnect_step salts now n4) as [n5 fx5]. cbn [fst] in *.
  intros a H.
  assert (H5 : ahas (n_peers n5) a = true) by (destruct (negb (c_hkfault (n_cfg n5)) && (n_next_own_reset n5 <=? now)%Z); exact H).
  apply H1. change (n_peers n1) with (n_peers n2). apply N3, H4, N5, H5.
Qed.

(* the per-step fact of TrustProofs, with the trusted list pinned to the configuration by the object invariant *)
Lemma new_peer_needs_trusted_message : forall c salts now n e a, AllPC TI c n ->
  ahas (n_peers n) a = false -> ahas (n_peers (fst (step salts now n e))) a = true ->
  exists m, e = ENet a (WInit m) /\ existsb (N.eqb (im_signer m)) (eff_trusted c) = true.
Proof.
  intros c salts now n e a (Hc & Hq & Hp) Hno H. destruct e as [src w|f| |x|addrs]; cbn [step] in H.
  - destruct (peer_creation_needs_trust salts now n src w a Hno H) as (Ea & pc & i & m & Hobj & Ew & Hi & Ht). subst a w.
    exists m. split; [reflexivity|].
    assert (T : i_trusted i = eff_trusted c).
    { destruct Hobj as [Hpend|[(pd & Hpd & Epc)|Epc]]; try subst pc.
      - exact (Hq _ _ Hpend i Hi).
      - exact (Hp _ _ Hpd i Hi).
      - rewrite <- Hc. apply (new_instance_trust n _ i Hi). }
    rewrite <- T. exact Ht.
  - apply handle_iface_nonew in H. congruence.
  - apply housekeep_nonew in H. congruence.
  - rewrite connect_peers in H. congruence.
  - cbn [fst with_sched n_peers] in H. congruence.
Qed.

(* C01, whole runs *)
Theorem every_peer_was_admitted : forall salts c t0 evs a,
  ahas (n_peers (nrun salts (node_new c t0) evs)) a = true ->
  exists now m, In (now, ENet a (WInit m)) evs /\ existsb (N.eqb (im_signer m)) (eff_trusted c) = true.
Proof.
  intros salts c t0 evs a.
  assert (G : forall evs n, AllPC TI c n -> ahas (n_peers (nrun salts n evs)) a = true ->
              ahas (n_peers n) a = true \/ exists now m, In (now, ENet a (WInit m)) evs /\ existsb (N.eqb (im_signer m)) (eff_trusted c) = true).
  { clear evs. induction evs as [|[now e] t IH]; intros n Hn H; [left; exact H|]. cbn [nrun] in H.
    pose proof (step_ap TI ti_new ti_initialize ti_handle ti_tick ti_seal c salts now n e Hn) as Hn1.
    destruct (IH _ Hn1 H) as [H1|(now' & m & Hin & Ht)].
    - destruct (ahas (n_peers n) a) eqn:E; [left; reflexivity|]. right.
      destruct (new_peer_needs_trusted_message c salts now n e a Hn E H1) as (m & Ee & Ht). subst e. exists now, m. split; [left; reflexivity|exact Ht].
    - right. exists now', m. split; [right; exact Hin|exact Ht]. }
  intros H. assert (H0 : AllPC TI c (node_new c t0)) by (split; [reflexivity|split; intros x y Hy; discriminate Hy]).
  destruct (G evs (node_new c t0) H0 H) as [Hn|Hex]; [discriminate Hn|exact Hex].
Qed.

(* Model of parse_ip_netmask (src/main.rs): split at '/', u8::from_str of the prefix, mask.
   The IPv4 text parser (std) is an oracle argument: ip_ok says whether the part before '/' parses. *)
From VpnModel Require Import Base.

Fixpoint find_byte (c : N) (l : bytes) : option nat :=
  match l with
  | [] => None
  | x :: t => if x =? c then Some O else option_map S (find_byte c t)
  end.

(* u8::from_str: optional '+', then one or more ASCII digits, value <= 255 *)
Fixpoint digits_val (acc : N) (l : bytes) : option N :=
  match l with
  | [] => Some acc
  | c :: t => if (48 <=? c) && (c <=? 57)
              then let v := acc * 10 + (c - 48) in if 255 <? v then None else digits_val v t
              else None
  end.
Definition parse_u8 (l : bytes) : option N :=
  let l' := match l with 43 :: t => t | _ => l end in
  match l' with [] => None | _ => digits_val 0 l' end.

(* u32::MAX.checked_shl(32 - p).unwrap_or(0) *)
Definition mask_of_prefix (p : N) : N :=
  if p =? 0 then 0 else (N.shiftl 4294967295 (32 - p)) mod 4294967296.

(* the text after the first '/', or "24" *)
Definition len_part (text : bytes) : bytes :=
  match find_byte 47 text with
  | Some pos => skipn (S pos) text
  | None => [50; 52]
  end.

(* Err 1 = invalid prefix length, Err 2 = invalid ip *)
Definition parse_ip_netmask (text : bytes) (ip_ok : bool) : res N :=
  match parse_u8 (len_part text) with
  | None => Err 1
  | Some p => if 32 <? p then Err 1
              else if negb ip_ok then Err 2
              else Ok (mask_of_prefix p)
  end.

Definition ip_part (text : bytes) : bytes :=
  match find_byte 47 text with Some pos => firstn pos text | None => text end.

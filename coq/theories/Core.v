(* Model of CryptoCore (src/crypto/core.rs): four key slots, send counters, receive windows,
   encrypt / decrypt / rotate_key / every_second.

   AEAD is ideal (symbolic): a ciphertext-with-tag is either a genuine seal `Seal k nonce p`, which
   opens exactly under its own key and nonce, or `Junk`, which never opens.  Key material is a
   symbolic name (N); different names stand for different key material. *)
From VpnModel Require Import Base Nonce Replay.

Inductive ct :=
| Seal (k : N) (nonce : bytes) (p : bytes)
| Junk.

Definition aead_open (k : N) (nonce : bytes) (c : ct) : option bytes :=
  match c with
  | Seal k' n' p => if (k =? k') && list_eqb nonce n' then Some p else None
  | Junk => None
  end.

Definition ct_len (c : ct) (junk_len : nat) : nat :=
  match c with Seal _ _ p => (length p + 16)%nat | Junk => junk_len end.

(* a datagram as decrypt sees it: key-id byte, 7 counter bytes, ciphertext+tag; or a byte string too
   short to have that shape *)
Inductive dgram :=
| DG (keyid : N) (ctr7 : bytes) (c : ct) (junk_len : nat)   (* junk_len: length of c when it is Junk *)
| DShort (len : nat).                                        (* fewer than 8+16 bytes *)

Definition dgram_len (d : dgram) : nat :=
  match d with DG _ _ c j => (8 + ct_len c j)%nat | DShort n => n end.

Record slot := { s_key : N; s_send : bytes; s_win : win }.
Record core := { slots : list slot; current : N; half : bool }.

Definition new_slot (k : N) (hf : bool) (rnd6 : bytes) : slot :=
  {| s_key := k; s_send := nonce_start hf rnd6; s_win := win0 |}.

(* CryptoCore::new: slot 0 = the negotiated key, slots 1..3 = one random dummy key *)
Definition core_new (k dummy : N) (hf : bool) (r0 r1 r2 r3 : bytes) : core :=
  {| slots := [new_slot k hf r0; new_slot dummy hf r1; new_slot dummy hf r2; new_slot dummy hf r3];
     current := 0; half := hf |}.

Definition get_slot (c : core) (i : N) : slot :=
  nth (N.to_nat i) (slots c) {| s_key := 0; s_send := zeros 12; s_win := win0 |}.

Fixpoint set_nth {A} (i : nat) (x : A) (l : list A) : list A :=
  match l, i with
  | [], _ => []
  | _ :: t, O => x :: t
  | h :: t, S j => h :: set_nth j x t
  end.

Definition set_slot (c : core) (i : N) (s : slot) : core :=
  {| slots := set_nth (N.to_nat i) s (slots c); current := current c; half := half c |}.

(* encrypt: increment the counter first, then seal under the incremented nonce.
   (the assert on buffer head-room belongs to MsgBuffer and is modelled in Buffer/PeerCrypto) *)
Definition core_encrypt (c : core) (p : bytes) : core * dgram :=
  let s := get_slot c (current c) in
  let n := nonce_increment (s_send s) in
  (set_slot c (current c) {| s_key := s_key s; s_send := n; s_win := s_win s |},
   DG (current c) (nonce_wire n) (Seal (s_key s) n p) 0).

(* decrypt.  Err 1 = too short (after the fix of finding F1: was assert!), Err 2 = old nonce,
   Err 3 = failed to decrypt, Err 4 = key id byte out of range (after the fix of finding F2). *)
Definition core_decrypt (c : core) (d : dgram) : core * res bytes :=
  match d with
  | DShort _ => (c, Err 1)
  | DG keyid ctr7 x _ =>
      if 4 <=? keyid then (c, Err 4) else
      let s := get_slot c keyid in
      let n := nonce_rebuild (half c) ctr7 in
      let nv := be_val n in
      if nv <? minn (s_win s) then (c, Err 2)
      else match aead_open (s_key s) n x with
           | None => (c, Err 3)
           | Some p =>
               (set_slot c keyid {| s_key := s_key s; s_send := s_send s; s_win := snd (deliver (s_win s) nv) |}, Ok p)
           end
  end.

Definition core_rotate (c : core) (k : N) (id : N) (use_for_sending : bool) (rnd6 : bytes) : core :=
  let i := id mod 4 in
  let c' := set_slot c i (new_slot k (half c) rnd6) in
  {| slots := slots c'; current := if use_for_sending then i else current c; half := half c |}.

Definition core_tick (c : core) : core :=
  {| slots := map (fun s => {| s_key := s_key s; s_send := s_send s; s_win := tick (s_win s) |}) (slots c);
     current := current c; half := half c |}.

(* what tampering does to a datagram (this is where the ideal-AEAD assumption lives):
   a flipped bit in byte 0 changes the key id, in bytes 1..7 the counter, anywhere else turns the
   ciphertext/tag into something that is not a genuine seal; truncation below 24 bytes leaves no
   room for header and tag, above that it destroys the ciphertext/tag. *)
Definition flip_bit_byte (b : N) (bit : N) : N := N.lxor b (N.shiftl 1 bit).

Definition dgram_flip (d : dgram) (pos : nat) (bit : N) : dgram :=
  match d with
  | DShort n => DShort n
  | DG keyid ctr7 x j =>
      match pos with
      | O => DG (flip_bit_byte keyid bit) ctr7 x j
      | S q => if (q <? 7)%nat
               then DG keyid (set_nth q (flip_bit_byte (nth q ctr7 0) bit) ctr7) x j
               else DG keyid ctr7 Junk (ct_len x j)
      end
  end.

Definition dgram_truncate (d : dgram) (len : nat) : dgram :=
  if (dgram_len d <=? len)%nat then d
  else if (len <? 24)%nat then DShort len
  else match d with
       | DG keyid ctr7 _ _ => DG keyid ctr7 Junk (len - 8)
       | DShort n => DShort len
       end.

(* arbitrary bytes as a datagram: never a genuine seal *)
Definition dgram_of_bytes (b : bytes) : dgram :=
  if (length b <? 24)%nat then DShort (length b)
  else DG (nth_b 0 b) (firstn 7 (skipn 1 b)) Junk (length b - 8).

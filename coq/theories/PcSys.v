(* Operation language over PeerCrypto objects and the list of all datagrams produced so far (the
   harness' own network): shared by the correspondence driver op `pc` and by the C05/C07 theorems. *)
From VpnModel Require Import Base Nonce Replay Core Conn PeerCrypto.

(* byte length of a genuine init datagram: marker, key salt+hash, parts, end, signature length, signature *)
Definition algos_len (a : algos) : nat := (5 * length (a_list a) + (if a_plain a then 5 else 0))%nat.
Definition ipayload_len (p : ipayload) : nat := match p with PSealed d => dgram_len d | PPlain b => length b end.
Definition init_len (m : imsg) : nat :=
  (1 + 8 + 4 + 23
   + (match im_ecdh m with Some k => 3 + length k | None => 0 end)
   + (match im_algos m with Some a => 3 + algos_len a | None => 0 end)
   + (match im_payload m with Some p => 3 + ipayload_len p | None => 0 end)
   + 1 + 1 + 64)%nat.

Definition wire_len (w : wire) : nat :=
  match w with
  | WInit m => init_len m
  | WBadInit => 1%nat
  | WEmpty => 0%nat
  | WData d => dgram_len d
  | WPlain b => length b
  end.

Definition wire_of_bytes (b : bytes) : wire :=
  match b with
  | [] => WEmpty
  | x :: _ => if x =? 255 then WBadInit else WData (dgram_of_bytes b)
  end.

(* one flipped bit: every byte of an init datagram is covered by the signature (or is the signature),
   so the result never verifies; sealed datagrams per Core.dgram_flip *)
Definition wire_flip (w : wire) (pos : nat) (bit : N) : wire :=
  match w with
  | WInit _ => WBadInit
  | WData d => WData (dgram_flip d pos bit)
  | WPlain b => WPlain (set_nth pos (flip_bit_byte (nth pos b 0) bit) b)
  | other => other
  end.

Definition wire_trunc (w : wire) (len : nat) : wire :=
  if (wire_len w <=? len)%nat then w
  else if Nat.eqb len 0 then WEmpty
  else match w with
       | WInit _ => WBadInit
       | WData d => WData (dgram_truncate d len)
       | WPlain b => WPlain (firstn len b)
       | other => other
       end.

Inductive pop :=
| PNew (id : nat) (node salt : N) (payload : bytes) (key : N) (trusted : list N) (al : algos)
| PInitialize (id : nat)
| PDeliver (id : nat) (k : nat)
| PFlip (id : nat) (k : nat) (pos : nat) (bit : N)
| PTrunc (id : nat) (k : nat) (len : nat)
| PRaw (id : nat) (b : bytes)
| PTick (id : nat)
| PSend (id : nat) (ty : N) (body : bytes)
| PSetCounter (id : nat) (v : N)
| PDrop (id : nat)
| PQuery (id : nat)
| PLast (id : nat) (src : nat) (kind : N) (n : nat)
| PSealLog
| PStale (id : nat) (k : nat) (cut : nat).        (* datagram k cut to `cut` bytes, received into a buffer that still holds datagram k behind it *)                                        (* harness: seal log of the real run (no model counterpart: random start counters) *)   (* deliver the n-th last datagram of that source and kind *)

Inductive pout :=
| ONone                                   (* "-" *)
| OOk (w : wire)                          (* ok + emitted datagram *)
| ORes (r : res msg_result) (w : option wire)
| OQuery (p : peer_crypto)
| OSealLog.

(* every datagram produced so far with its producer and kind: 0 = init, 1 = rotation, 2 = data, 3 = empty *)
Record pst := { objs : list (nat * peer_crypto); psent : list (nat * N * wire) }.
Definition kind_of (is_send : bool) (w : wire) : N :=
  match w with
  | WInit _ => 0 | WBadInit => 0
  | WEmpty => 3
  | _ => if is_send then 2 else 1
  end.
Definition pst0 : pst := {| objs := []; psent := [] |}.

Fixpoint get_obj (l : list (nat * peer_crypto)) (id : nat) : option peer_crypto :=
  match l with [] => None | (i, p) :: t => if Nat.eqb i id then Some p else get_obj t id end.
Fixpoint set_obj (l : list (nat * peer_crypto)) (id : nat) (p : peer_crypto) : list (nat * peer_crypto) :=
  match l with
  | [] => [(id, p)]
  | (i, q) :: t => if Nat.eqb i id then (id, p) :: t else (i, q) :: set_obj t id p
  end.
Definition del_obj (l : list (nat * peer_crypto)) (id : nat) := filter (fun x => negb (Nat.eqb (fst x) id)) l.

Definition emit_from (src : nat) (is_send : bool) (s : pst) (objs' : list (nat * peer_crypto)) (w : option wire) : pst :=
  {| objs := objs'; psent := match w with Some x => psent s ++ [(src, kind_of is_send x, x)] | None => psent s end |}.
Definition emit (s : pst) (objs' : list (nat * peer_crypto)) (w : option wire) : pst := emit_from 0 false s objs' w.
Definition nth_wire (s : pst) (k : nat) : option wire := option_map snd (nth_error (psent s) k).
Definition last_of (s : pst) (src : nat) (kind : N) (n : nat) : option wire :=
  option_map snd (nth_error (filter (fun e => Nat.eqb (fst (fst e)) src && (snd (fst e) =? kind)) (rev (psent s))) n).

Definition always_ok (b : bytes) : bool := true.

Definition deliver_wire (payload_ok : bytes -> bool) (s : pst) (id : nat) (w : wire) : pst * pout :=
  match get_obj (objs s) id with
  | None => (s, ONone)
  | Some p =>
      let '(p', r, reply) := pc_handle payload_ok p w in
      (* the harness records a datagram exactly when the result is Reply / InitializedWithReply *)
      let rep := match r with Ok MReply => reply | Ok (MInitializedWithReply _) => reply | _ => None end in
      (emit_from id false s (set_obj (objs s) id p') rep, ORes r rep)
  end.

Definition pstep (payload_ok : bytes -> bool) (s : pst) (o : pop) : pst * pout :=
  match o with
  | PNew id node salt payload key trusted al =>
      (emit s (set_obj (objs s) id (pc_new node salt payload key trusted al (N.of_nat id * 2 ^ 40 + 1) (zeros 6))) None, ONone)
  | PInitialize id =>
      match get_obj (objs s) id with
      | None => (s, ONone)
      | Some p => match pc_initialize p with
                  | (p', Ok w) => (emit_from id false s (set_obj (objs s) id p') (Some w), OOk w)
                  | (p', r) => (emit s (set_obj (objs s) id p') None, ORes (Err 1) None)
                  end
      end
  | PDeliver id k =>
      match nth_wire s k with Some w => deliver_wire payload_ok s id w | None => (s, ONone) end
  | PFlip id k pos bit =>
      match nth_wire s k with
      | Some w => if (pos <? wire_len w)%nat then deliver_wire payload_ok s id (wire_flip w pos bit) else (s, ONone)
      | None => (s, ONone)
      end
  | PTrunc id k len =>
      match nth_wire s k with Some w => deliver_wire payload_ok s id (wire_trunc w len) | None => (s, ONone) end
  | PRaw id b => deliver_wire payload_ok s id (wire_of_bytes b)
  | PTick id =>
      match get_obj (objs s) id with
      | None => (s, ONone)
      | Some p =>
          let '(p', r, reply) := pc_every_second p in
          let rep := match r with Ok MReply => reply | _ => None end in
          (emit_from id false s (set_obj (objs s) id p') rep, ORes r rep)
      end
  | PSend id ty body =>
      match get_obj (objs s) id with
      | None => (s, ONone)
      | Some p => match pc_send p ty body with
                  | (p', Ok w) => (emit_from id true s (set_obj (objs s) id p') (Some w), OOk w)
                  | (p', r) => (emit s (set_obj (objs s) id p') None, ORes (Err 1) None)
                  end
      end
  | PSetCounter id v =>
      match get_obj (objs s) id with
      | None => (s, ONone)
      | Some p => (emit s (set_obj (objs s) id (pc_set p (pc_init p) (pc_rot p) (pc_plain p) (pc_core p) v (pc_fresh p))) None, ONone)
      end
  | PDrop id => (emit s (del_obj (objs s) id) None, ONone)
  | PQuery id =>
      match get_obj (objs s) id with None => (s, ONone) | Some p => (s, OQuery p) end
  | PSealLog => (s, OSealLog)
  | PStale id k cut =>
      (* the handshake parser is given MsgBuffer::buffer(), i.e. the datagram AND the stale bytes behind it (finding F11):
         for an init datagram the view is the complete message again; everything else is parsed from message() *)
      match nth_wire s k with
      | None => (s, ONone)
      | Some w => if Nat.eqb cut 0 then deliver_wire payload_ok s id WEmpty
                  else match w with
                       | WInit _ => deliver_wire payload_ok s id w
                       | _ => deliver_wire payload_ok s id (wire_trunc w cut)
                       end
      end
  | PLast id src kind n =>
      match last_of s src kind n with Some w => deliver_wire payload_ok s id w | None => (s, ONone) end
  end.

Fixpoint prun (payload_ok : bytes -> bool) (s : pst) (ops : list pop) : pst * list pout :=
  match ops with
  | [] => (s, [])
  | o :: t => let '(s', r) := pstep payload_ok s o in let '(s'', rs) := prun payload_ok s' t in (s'', r :: rs)
  end.

From VpnModel Require Import Base Replay.
From Coq Require Import ZifyBool ZifyNat ZifyN.

Fixpoint maxl (l : list N) : N := match l with [] => 0 | x :: t => N.max x (maxl t) end.

Lemma maxl_app : forall a b, maxl (a ++ b) = N.max (maxl a) (maxl b).
Proof. induction a as [|x a IH]; intros b; simpl; [lia|]. rewrite IH. lia. Qed.

Lemma forallb_maxl : forall l n, 1 <= n -> forallb (fun m => m <? n) l = (maxl l <? n).
Proof.
  induction l as [|x l IH]; intros n Hn; simpl.
  - symmetry. apply N.ltb_lt. lia.
  - rewrite IH by exact Hn. destruct (x <? n) eqn:E1; destruct (maxl l <? n) eqn:E2; simpl; lia.
Qed.

Definition all_g (g : ghost) : list N := g2 g ++ g1 g ++ g0 g.

(* the three registers are exactly a summary of the history *)
Definition Inv (w : win) (g : ghost) : Prop :=
  (minn w = maxl (g2 g) + 1 \/ (minn w = 0 /\ g2 g = [])) /\
  (next_min w = maxl (g2 g ++ g1 g) + 1 \/ (next_min w = 0 /\ g2 g ++ g1 g = [])) /\
  seen w = maxl (all_g g) /\
  minn w <= next_min w /\ next_min w <= seen w + 1.

Lemma inv0 : Inv win0 ghost0.
Proof. unfold Inv, win0, ghost0, all_g; simpl. repeat split; try (right; split; reflexivity); lia. Qed.

Lemma accepts_agree : forall w g n, Inv w g -> 1 <= n -> accepts w n = ref_accepts g n.
Proof.
  intros w g n (Hm & _ & _ & _) Hn. unfold accepts, ref_accepts.
  rewrite forallb_maxl by exact Hn.
  destruct Hm as [Hm | [Hm Hg]].
  - rewrite Hm. lia.
  - rewrite Hm, Hg. simpl. lia.
Qed.

Lemma inv_deliver : forall w g n, Inv w g -> 1 <= n ->
  Inv (snd (deliver w n)) (ref_step g (Deliver n)).
Proof.
  intros w g n HI Hn. pose proof (accepts_agree w g n HI Hn) as Ha.
  unfold deliver, ref_step. rewrite <- Ha. destruct (accepts w n); [|exact HI].
  destruct HI as (H1 & H2 & H3 & H4 & H5). unfold Inv, all_g in *. simpl.
  repeat split; try assumption.
  - rewrite !maxl_app in *. simpl. destruct (seen w <? n) eqn:E; lia.
  - destruct (seen w <? n) eqn:E; lia.
Qed.

Lemma inv_tick : forall w g, Inv w g -> Inv (tick w) (ref_step g Tick).
Proof.
  intros w g (H1 & H2 & H3 & H4 & H5). unfold Inv, all_g, tick in *. simpl.
  rewrite app_nil_r. repeat split.
  - exact H2.
  - left. rewrite H3. rewrite <- app_assoc. reflexivity.
  - rewrite H3. rewrite <- app_assoc. reflexivity.
  - exact H5.
  - lia.
Qed.

Definition pos_hist (h : list ev) : Prop := Forall (fun e => match e with Deliver n => 1 <= n | Tick => True end) h.

Lemma run_cons_deliver : forall w n t,
  run w (Deliver n :: t) = (fst (deliver w n) :: fst (run (snd (deliver w n)) t), snd (run (snd (deliver w n)) t)).
Proof. intros. simpl. destruct (deliver w n) as [b w']. simpl. destruct (run w' t). reflexivity. Qed.

Lemma ref_run_cons_deliver : forall g n t,
  ref_run g (Deliver n :: t) =
  (ref_accepts g n :: fst (ref_run (ref_step g (Deliver n)) t), snd (ref_run (ref_step g (Deliver n)) t)).
Proof. intros. cbn [ref_run]. destruct (ref_run (ref_step g (Deliver n)) t). reflexivity. Qed.

Lemma fst_deliver : forall w n, fst (deliver w n) = accepts w n.
Proof. intros. unfold deliver. destruct (accepts w n); reflexivity. Qed.

Theorem run_agrees : forall h w g, Inv w g -> pos_hist h ->
  fst (run w h) = fst (ref_run g h) /\ Inv (snd (run w h)) (snd (ref_run g h)).
Proof.
  induction h as [|e h IH]; intros w g HI Hp.
  - split; [reflexivity|exact HI].
  - inversion Hp as [|e' h' He Hh]; subst. destruct e as [n|].
    + rewrite run_cons_deliver, ref_run_cons_deliver. cbn [fst snd].
      pose proof (accepts_agree w g n HI He) as Ha.
      pose proof (inv_deliver w g n HI He) as HI'.
      destruct (IH _ _ HI' Hh) as [IH1 IH2].
      split; [|exact IH2]. rewrite fst_deliver, Ha, IH1. reflexivity.
    + cbn [run ref_run]. apply IH; [apply inv_tick; exact HI|exact Hh].
Qed.

(* C03-T1 for every history from the initial state *)
Corollary accept_iff_history : forall h, pos_hist h -> fst (run win0 h) = fst (ref_run ghost0 h).
Proof. intros h Hp. apply (run_agrees h win0 ghost0 inv0 Hp). Qed.

(* the final state after a history *)
Definition after (h : list ev) : win := snd (run win0 h).
Definition gafter (h : list ev) : ghost := snd (ref_run ghost0 h).

Lemma inv_after : forall h, pos_hist h -> Inv (after h) (gafter h).
Proof. intros h Hp. apply (run_agrees h win0 ghost0 inv0 Hp). Qed.

Lemma run_app : forall h1 h2 w, snd (run w (h1 ++ h2)) = snd (run (snd (run w h1)) h2).
Proof.
  induction h1 as [|e h1 IH]; intros h2 w; [reflexivity|].
  destruct e as [n|].
  - rewrite <- app_comm_cons. rewrite !run_cons_deliver. cbn [snd]. apply IH.
  - cbn [app run]. apply IH.
Qed.

(* min never decreases: along any history *)
Lemma minn_le_next : forall w g, Inv w g -> minn w <= next_min w /\ next_min w <= seen w + 1.
Proof. intros w g (_ & _ & _ & H4 & H5). split; assumption. Qed.

Lemma deliver_keeps_min : forall w n, minn (snd (deliver w n)) = minn w /\ next_min (snd (deliver w n)) = next_min w
  /\ seen w <= seen (snd (deliver w n)).
Proof. intros w n. unfold deliver. destruct (accepts w n); simpl; [|lia]. destruct (seen w <? n) eqn:E; lia. Qed.

(* C03-T3: a datagram newer than everything seen is always accepted *)
Theorem newest_accepted : forall h n, pos_hist h -> seen (after h) < n -> accepts (after h) n = true.
Proof.
  intros h n Hp Hn. pose proof (minn_le_next _ _ (inv_after h Hp)) as [H1 H2].
  unfold accepts. lia.
Qed.

(* C03-T2: once something at least as new as n was accepted and two ticks have followed,
   n is rejected, and stays rejected whatever happens afterwards *)
Lemma accepted_in_seen : forall w m, accepts w m = true -> m <= seen (snd (deliver w m)).
Proof. intros w m H. unfold deliver. rewrite H. simpl. destruct (seen w <? m) eqn:E; lia. Qed.

Lemma run_monotone : forall h w g, Inv w g -> pos_hist h ->
  minn w <= minn (snd (run w h)) /\ next_min w <= next_min (snd (run w h)) /\ seen w <= seen (snd (run w h)).
Proof.
  induction h as [|e h IH]; intros w g HI Hp; [cbn [run snd]; lia|].
  inversion Hp as [|e' h' He Hh]; subst. destruct e as [n|].
  - rewrite run_cons_deliver. cbn [snd].
    pose proof (inv_deliver w g n HI He) as HI'.
    pose proof (deliver_keeps_min w n) as (D1 & D2 & D3).
    specialize (IH _ _ HI' Hh). lia.
  - cbn [run]. pose proof (inv_tick w g HI) as HI'. pose proof (minn_le_next w g HI) as [M1 M2].
    specialize (IH (tick w) _ HI' Hh). unfold tick in IH at 1 3 5. cbn [minn next_min seen] in IH. lia.
Qed.

Theorem dies_in_two_ticks : forall h m n rest,
  pos_hist h -> 1 <= m -> n <= m -> accepts (after h) m = true -> pos_hist rest ->
  accepts (snd (run (after (h ++ [Deliver m; Tick; Tick])) rest)) n = false.
Proof.
  intros h m n rest Hp Hm Hnm Hacc Hr.
  assert (Hp' : pos_hist (h ++ [Deliver m; Tick; Tick])).
  { apply Forall_app. split; [exact Hp|]. repeat constructor. exact Hm. }
  pose proof (inv_after _ Hp') as HI.
  pose proof (run_monotone rest _ _ HI Hr) as (M1 & _ & _).
  assert (Hmin : m + 1 <= minn (after (h ++ [Deliver m; Tick; Tick]))).
  { unfold after. rewrite run_app. fold (after h). rewrite run_cons_deliver. cbn [snd run tick minn next_min seen].
    pose proof (accepted_in_seen (after h) m Hacc) as Hs. lia. }
  unfold accepts. lia.
Qed.

(* SHA-512 (FIPS 180-4) on byte strings, bit-exact, so that the beacon model needs no hash oracle.
   64-bit words are N with explicit `mod 2^64`.  Validated against ring through the correspondence
   run (beacon keystream, markers, seed bytes all go through it). *)
From VpnModel Require Import Base.

Definition w64 : N := 18446744073709551616.
Definition mask64 : N := 18446744073709551615.
(* `land mask64` = `mod 2^64` (N.land_ones), but much cheaper to evaluate than a division *)
Definition add64 (a b : N) : N := N.land (a + b) mask64.
Definition rotr64 (x n : N) : N := N.lor (N.shiftr x n) (N.land (N.shiftl x (64 - n)) mask64).
Definition not64 (x : N) : N := w64 - 1 - x.

Definition K512 : list N := [4794697086780616226; 8158064640168781261; 13096744586834688815; 16840607885511220156; 4131703408338449720; 6480981068601479193; 10538285296894168987; 12329834152419229976; 15566598209576043074; 1334009975649890238; 2608012711638119052; 6128411473006802146; 8268148722764581231; 9286055187155687089; 11230858885718282805; 13951009754708518548; 16472876342353939154; 17275323862435702243; 1135362057144423861; 2597628984639134821; 3308224258029322869; 5365058923640841347; 6679025012923562964; 8573033837759648693; 10970295158949994411; 12119686244451234320; 12683024718118986047; 13788192230050041572; 14330467153632333762; 15395433587784984357; 489312712824947311; 1452737877330783856; 2861767655752347644; 3322285676063803686; 5560940570517711597; 5996557281743188959; 7280758554555802590; 8532644243296465576; 9350256976987008742; 10552545826968843579; 11727347734174303076; 12113106623233404929; 14000437183269869457; 14369950271660146224; 15101387698204529176; 15463397548674623760; 17586052441742319658; 1182934255886127544; 1847814050463011016; 2177327727835720531; 2830643537854262169; 3796741975233480872; 4115178125766777443; 5681478168544905931; 6601373596472566643; 7507060721942968483; 8399075790359081724; 8693463985226723168; 9568029438360202098; 10144078919501101548; 10430055236837252648; 11840083180663258601; 13761210420658862357; 14299343276471374635; 14566680578165727644; 15097957966210449927; 16922976911328602910; 17689382322260857208; 500013540394364858; 748580250866718886; 1242879168328830382; 1977374033974150939; 2944078676154940804; 3659926193048069267; 4368137639120453308; 4836135668995329356; 5532061633213252278; 6448918945643986474; 6902733635092675308; 7801388544844847127].
Definition H512 : list N := [7640891576956012808; 13503953896175478587; 4354685564936845355; 11912009170470909681; 5840696475078001361; 11170449401992604703; 2270897969802886507; 6620516959819538809].

Definition bsig0 (x : N) := N.lxor (N.lxor (rotr64 x 28) (rotr64 x 34)) (rotr64 x 39).
Definition bsig1 (x : N) := N.lxor (N.lxor (rotr64 x 14) (rotr64 x 18)) (rotr64 x 41).
Definition ssig0 (x : N) := N.lxor (N.lxor (rotr64 x 1) (rotr64 x 8)) (N.shiftr x 7).
Definition ssig1 (x : N) := N.lxor (N.lxor (rotr64 x 19) (rotr64 x 61)) (N.shiftr x 6).
Definition ch (e f g : N) := N.lxor (N.land e f) (N.land (not64 e) g).
Definition maj (a b c : N) := N.lxor (N.lxor (N.land a b) (N.land a c)) (N.land b c).

(* message schedule: w holds the words so far in reverse order (newest first) *)
Fixpoint schedule (n : nat) (w : list N) : list N :=
  match n with
  | O => w
  | S k =>
      let x := add64 (add64 (add64 (nth 15 w 0) (ssig0 (nth 14 w 0))) (nth 6 w 0)) (ssig1 (nth 1 w 0)) in
      schedule k (x :: w)
  end.

Record st8 := { sa : N; sb : N; sc : N; sd : N; se : N; sf : N; sg : N; sh : N }.

Definition round (s : st8) (k w : N) : st8 :=
  let t1 := add64 (add64 (add64 (add64 (sh s) (bsig1 (se s))) (ch (se s) (sf s) (sg s))) k) w in
  let t2 := add64 (bsig0 (sa s)) (maj (sa s) (sb s) (sc s)) in
  {| sa := add64 t1 t2; sb := sa s; sc := sb s; sd := sc s; se := add64 (sd s) t1; sf := se s; sg := sf s; sh := sg s |}.

Fixpoint rounds (s : st8) (ks ws : list N) : st8 :=
  match ks, ws with
  | k :: ks', w :: ws' => rounds (round s k w) ks' ws'
  | _, _ => s
  end.

Fixpoint words_of (n : nat) (b : bytes) : list N :=
  match n with
  | O => []
  | S k => be_val (firstn 8 b) :: words_of k (skipn 8 b)
  end.

Definition compress (h : st8) (block : bytes) : st8 :=
  let w16 := words_of 16 block in
  let w := rev (schedule 64 (rev w16)) in
  let r := rounds h K512 w in
  {| sa := add64 (sa h) (sa r); sb := add64 (sb h) (sb r); sc := add64 (sc h) (sc r); sd := add64 (sd h) (sd r);
     se := add64 (se h) (se r); sf := add64 (sf h) (sf r); sg := add64 (sg h) (sg r); sh := add64 (sh h) (sh r) |}.

Fixpoint blocks (n : nat) (h : st8) (m : bytes) : st8 :=
  match n with
  | O => h
  | S k => blocks k (compress h (firstn 128 m)) (skipn 128 m)
  end.

Definition pad512 (m : bytes) : bytes :=
  let l := length m in
  let zeros_n := ((128 - ((l + 17) mod 128)) mod 128)%nat in
  m ++ [128] ++ zeros zeros_n ++ be_enc 16 (8 * N.of_nat l).

Definition h0 : st8 :=
  {| sa := nth 0 H512 0; sb := nth 1 H512 0; sc := nth 2 H512 0; sd := nth 3 H512 0;
     se := nth 4 H512 0; sf := nth 5 H512 0; sg := nth 6 H512 0; sh := nth 7 H512 0 |}.

Definition sha512 (m : bytes) : bytes :=
  let p := pad512 m in
  let r := blocks (length p / 128) h0 p in
  flat_map (be_enc 8) [sa r; sb r; sc r; sd r; se r; sf r; sg r; sh r].

(* FIPS 180-4 test vector "abc" *)
Example sha512_abc : firstn 8 (sha512 [97; 98; 99]) = [221; 175; 53; 161; 147; 97; 122; 186].
Proof. vm_compute. reflexivity. Qed.

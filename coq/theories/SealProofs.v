(* C02 at the PeerCrypto level: payload leaves sealed and arrives byte-identical. *)
From VpnModel Require Import Base Nonce Replay Core CoreProofs Conn PeerCrypto.

Lemma pc_seal_sealed : forall p ty body p' w, pc_plain p = false -> pc_seal p ty body = (p', Ok w) ->
  exists c, pc_core p = Some c /\ w = WData (snd (core_encrypt c (ty :: body))) /\
            pc_core p' = Some (fst (core_encrypt c (ty :: body))).
Proof.
  intros p ty body p' w Hp H. unfold pc_seal in H. rewrite Hp in H. destruct (pc_core p) as [c|]; [|discriminate].
  exists c. split; [reflexivity|]. destruct (core_encrypt c (ty :: body)) as [c' d]. inversion H; subst. split; reflexivity.
Qed.

(* the wire form of a sealed message is an AEAD seal of (type :: body) and nothing else *)
Lemma sealed_wire_shape : forall c pl, exists keyid ctr7 k n j,
  snd (core_encrypt c pl) = DG keyid ctr7 (Seal k n pl) j /\ k = s_key (get_slot c (current c)).
Proof. intros c pl. unfold core_encrypt. cbn [snd]. do 5 eexists. split; reflexivity. Qed.

Lemma pc_open_delivers : forall ok p c d ty body, pc_plain p = false -> pc_core p = Some c ->
  snd (core_decrypt c d) = Ok (ty :: body) -> (ty =? MESSAGE_TYPE_ROTATION) = false ->
  snd (fst (pc_handle ok p (WData d))) = Ok (MMessage ty body).
Proof.
  intros ok p c d ty body Hp Hc Hd Ht. cbn [pc_handle]. rewrite Hp, Hc.
  destruct (core_decrypt c d) as [c' r]. cbn [snd] in Hd. subst r. rewrite Ht. reflexivity.
Qed.

Lemma pc_reject_silent : forall ok p c d, pc_plain p = false -> pc_core p = Some c ->
  is_ok (snd (core_decrypt c d)) = false ->
  snd (fst (pc_handle ok p (WData d))) = Err 1 /\ snd (pc_handle ok p (WData d)) = None.
Proof.
  intros ok p c d Hp Hc Hd. cbn [pc_handle]. rewrite Hp, Hc.
  pose proof (decrypt_never_panics c d) as Hn.
  destruct (core_decrypt c d) as [c' [pl|e|s]]; cbn [snd] in *; try discriminate. split; reflexivity.
Qed.

(* end to end at the PeerCrypto level *)
Theorem pc_roundtrip : forall ok p1 p2 c1 c2 ty body p1' w, pc_plain p1 = false -> pc_plain p2 = false ->
  pc_core p1 = Some c1 -> pc_core p2 = Some c2 -> wf_core c1 -> wf_core c2 ->
  s_key (get_slot c2 (current c1)) = s_key (get_slot c1 (current c1)) ->
  let n' := nonce_increment (s_send (get_slot c1 (current c1))) in
  nonce_rebuild (half c2) (nonce_wire n') = n' ->
  accepts (s_win (get_slot c2 (current c1))) (be_val n') = true ->
  (ty =? MESSAGE_TYPE_ROTATION) = false ->
  pc_seal p1 ty body = (p1', Ok w) ->
  snd (fst (pc_handle ok p2 w)) = Ok (MMessage ty body).
Proof.
  intros ok p1 p2 c1 c2 ty body p1' w Hp1 Hp2 Hc1 Hc2 W1 W2 Hk n' Hn Ha Ht Hs.
  destruct (pc_seal_sealed _ _ _ _ _ Hp1 Hs) as (c & Hc & Hw & _). rewrite Hc1 in Hc. inversion Hc; subst c. subst w.
  eapply pc_open_delivers; [exact Hp2|exact Hc2| |exact Ht].
  apply core_roundtrip; assumption.
Qed.

(* Model of Range::matches (src/types.rs) and the Range wire codec. *)
From VpnModel Require Import Base.

(* u8::leading_zeros *)
Definition lz8 (m : N) : N := if m =? 0 then 8 else 7 - N.log2 m.

(* the loop of Range::matches: match_len += leading_zeros(addr[i] ^ base[i]); stop at first difference.
   match_len is a u8; the sum is at most 16*8 = 128, so it cannot overflow. *)
Fixpoint match_len (a b : bytes) : N :=
  match a, b with
  | x :: a', y :: b' =>
      let m := N.lxor x y in
      if m =? 0 then 8 + match_len a' b' else lz8 m
  | _, _ => 0
  end.

Definition range_matches (base : bytes) (prefix : N) (addr : bytes) : bool :=
  if negb (Nat.eqb (length base) (length addr)) then false
  else prefix <=? match_len addr base.

(* bit-by-bit reference *)
Definition bits8 (b : N) : list bool :=
  [N.testbit b 7; N.testbit b 6; N.testbit b 5; N.testbit b 4; N.testbit b 3; N.testbit b 2; N.testbit b 1; N.testbit b 0].
Definition bits (l : bytes) : list bool := flat_map bits8 l.

(* Address::read_from / Range::read_from on a byte cursor: returns value and rest.
   Err 1 = too short, Err 2 = address too long (> 16). *)
Definition addr_read (d : bytes) : res (bytes * bytes) :=
  match d with
  | [] => Err 1
  | len :: t =>
      if 16 <? len then Err 2
      else if (length t <? N.to_nat len)%nat then Err 1
      else Ok (firstn (N.to_nat len) t, skipn (N.to_nat len) t)
  end.

Definition range_read (d : bytes) : res ((bytes * N) * bytes) :=
  match addr_read d with
  | Ok (a, rest) => match rest with [] => Err 1 | p :: rest' => Ok ((a, p), rest') end
  | Err c => Err c
  | Panic s => Panic s
  end.

Definition range_write (r : bytes * N) : bytes := lenN (fst r) :: fst r ++ [snd r].

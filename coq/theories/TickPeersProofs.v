(* C03 at node level: "the tick is driven once per second for every peer".  The peer and pending maps of every reachable node state
   hold each address at most once (ND), and one run of tick_peers applies PeerCrypto::every_second exactly once to every peer. *)
From VpnModel Require Import Base RangeMatch Table Nonce Replay Core Conn PeerCrypto NodeInfo Interval Node NodeProofs TrustProofs SurviveProofs NextHopProofs.

Definition keys {A} (l : list (N * A)) : list N := map fst l.

Lemma in_keys_aset : forall (A : Type) (l : list (N * A)) k v x, In x (keys (aset l k v)) -> x = k \/ In x (keys l).
Proof.
  intros A l k v x. induction l as [|[k' v'] t IH]; cbn [aset keys map fst].
  - intros [H|[]]. left; symmetry; exact H.
  - destruct (k =? k') eqn:E; cbn [map fst].
    + apply N.eqb_eq in E. subst k'. intros [H|H]; [left; symmetry; exact H|right; right; exact H].
    + intros [H|H]; [right; left; exact H|]. destruct (IH H) as [G|G]; [left; exact G|right; right; exact G].
Qed.

Lemma nodup_aset : forall (A : Type) (l : list (N * A)) k v, NoDup (keys l) -> NoDup (keys (aset l k v)).
Proof.
  intros A l k v. induction l as [|[k' v'] t IH]; cbn [aset keys map fst]; intros H.
  - constructor; [intros []|constructor].
  - inversion H as [|? ? Hnin Hnd]; subst. destruct (k =? k') eqn:E; cbn [map fst].
    + apply N.eqb_eq in E. subst k'. constructor; assumption.
    + constructor; [|apply IH; exact Hnd]. intros Hin. apply in_keys_aset in Hin. destruct Hin as [->|Hin]; [rewrite N.eqb_refl in E; discriminate|exact (Hnin Hin)].
Qed.

Lemma nodup_adel : forall (A : Type) (l : list (N * A)) k, NoDup (keys l) -> NoDup (keys (adel l k)).
Proof.
  intros A l k. unfold adel. induction l as [|[k' v'] t IH]; cbn [filter keys map fst]; intros H; [constructor|].
  inversion H as [|? ? Hnin Hnd]; subst. destruct (negb (k' =? k)); cbn [map fst]; [|apply IH; exact Hnd].
  constructor; [|apply IH; exact Hnd]. intros Hin. apply Hnin. clear - Hin. induction t as [|[a b] t IH]; [exact Hin|].
  cbn [filter] in Hin. cbn [fst] in Hin. destruct (negb (a =? k)); cbn [map fst] in *; [destruct Hin as [H|H]; [left; exact H|right; apply IH; exact H]|right; apply IH; exact Hin].
Qed.

Definition ND (n : node) : Prop := NoDup (keys (n_peers n)) /\ NoDup (keys (n_pending n)).

Lemma nd_eq : forall n n', n_peers n' = n_peers n -> n_pending n' = n_pending n -> ND n -> ND n'.
Proof. intros n n' Hp Hq. unfold ND. rewrite Hp, Hq. exact (fun H => H). Qed.

Lemma connect_sock_nd : forall salts n a, ND n -> ND (fst (connect_sock salts n a)).
Proof.
  intros salts n a [Hp Hq]. unfold connect_sock. destruct (ahas (n_peers n) a || memN a (n_own n) || ahas (n_pending n) a); [split; assumption|].
  unfold new_instance. destruct (pc_initialize _) as [pc' [w|e|s]]; cbn [fst]; split; cbn [with_objs upd n_peers n_pending]; try assumption. apply nodup_aset. exact Hq.
Qed.

Lemma fold_nd : forall (A : Type) (f : node * list effect -> A -> node * list effect) (l : list A) st,
  (forall st x, ND (fst st) -> ND (fst (f st x))) -> ND (fst st) -> ND (fst (fold_left f l st)).
Proof. intros A f l. induction l as [|x t IH]; intros st H Hs; [exact Hs|]. cbn [fold_left]. apply IH; [exact H|apply H; exact Hs]. Qed.

Lemma connect_nd : forall salts n addrs, ND n -> ND (fst (connect salts n addrs)).
Proof.
  intros salts n addrs H. unfold connect. destruct (existsb _ addrs); [exact H|].
  apply (fold_nd _ _ addrs (n, [])); [|exact H]. intros [m fx] a Hm. cbn [fst] in *.
  pose proof (connect_sock_nd salts m a Hm) as G. destruct (connect_sock salts m a) as [m' fx']. exact G.
Qed.

Lemma connect_to_peers_nd : forall salts ps n, ND n -> ND (fst (connect_to_peers salts n ps)).
Proof.
  intros salts ps n H. unfold connect_to_peers. apply (fold_nd _ _ ps (n, [])); [|exact H]. intros [m fx] p Hm. cbn [fst] in *.
  destruct (existsb _ (map addr_of_bytes (pi_addrs p))); [exact Hm|].
  pose proof (connect_nd salts m (map addr_of_bytes (pi_addrs p)) Hm) as G.
  destruct (pi_node p) as [id|].
  - destruct (list_eqb id _); [exact Hm|]. destruct (existsb _ (n_peers m)); [exact Hm|]. destruct (connect salts m _) as [m' fx']. exact G.
  - destruct (connect salts m _) as [m' fx']. exact G.
Qed.

Lemma upi_nd : forall salts now n addr info, ND n -> ND (fst (update_peer_info salts now n addr info)).
Proof.
  intros salts now n addr info [Hp Hq]. unfold update_peer_info. destruct (aget (n_peers n) addr) as [pd|]; [|split; assumption].
  destruct info as [i|].
  - apply connect_to_peers_nd. split; cbn; [apply nodup_aset; exact Hp|exact Hq].
  - split; cbn; [apply nodup_aset; exact Hp|exact Hq].
Qed.

Lemma anp_nd : forall salts now n addr info, ND n -> ND (fst (add_new_peer salts now n addr info)).
Proof.
  intros salts now n addr info [Hp Hq]. unfold add_new_peer. destruct (aget (n_pending n) addr) as [pc|]; [|split; assumption].
  apply upi_nd. split; cbn; [apply nodup_aset; exact Hp|apply nodup_adel; exact Hq].
Qed.

Lemma remove_peer_nd : forall now n addr, ND n -> ND (remove_peer now n addr).
Proof.
  intros now n addr [Hp Hq]. unfold remove_peer. destruct (aget (n_peers n) addr); [|split; assumption].
  split; cbn; [apply nodup_adel; exact Hp|exact Hq].
Qed.

Lemma hr_nd : forall salts now n src r reply, ND n -> ND (fst (handle_result salts now n src r reply)).
Proof.
  intros salts now n src r reply H. destruct r as [ty body|p|p| |]; cbn [handle_result].
  - destruct (ty =? MESSAGE_TYPE_DATA).
    + destruct (parse_frame (n_cfg n) body) as [[s d]|e|s]; cbn [fst]; try exact H. destruct (c_learning (n_cfg n)); exact H.
    + destruct (ty =? MESSAGE_TYPE_NODE_INFO).
      * destruct (ni_decode body) as [info|e|s]; [apply upi_nd; exact H|exact H|exact H].
      * destruct (ty =? MESSAGE_TYPE_KEEPALIVE); [apply upi_nd; exact H|].
        destruct (ty =? MESSAGE_TYPE_CLOSE); [cbn [fst]; apply remove_peer_nd; exact H|exact H].
  - destruct (ni_decode p) as [info|e|s]; [apply anp_nd; exact H|exact H|exact H].
  - destruct (ni_decode p) as [info|e|s]; [|exact H|exact H].
    pose proof (anp_nd salts now n src info H) as G. destruct (add_new_peer salts now n src info) as [n1 fx]. exact G.
  - exact H.
  - exact H.
Qed.

Lemma handle_net_nd : forall salts now n src w, ND n -> ND (fst (handle_net salts now n src w)).
Proof.
  intros salts now n src w [Hp Hq]. unfold handle_net.
  destruct (if is_init_wire w || negb (ahas (n_peers n) src) then aget (n_pending n) src else None) as [pc|].
  - destruct (pc_handle payload_ok pc w) as [[pc' r] reply].
    assert (H1 : ND (upd n (n_peers n) (aset (n_pending n) src pc') (n_own n) (n_table n))) by (split; cbn; [exact Hp|apply nodup_aset; exact Hq]).
    destruct r as [res|c|s]; [apply hr_nd; exact H1| |exact H1].
    destruct (c =? 2); cbn [fst]; [|exact H1]. split; cbn; [exact Hp|apply nodup_adel, nodup_aset; exact Hq].
  - destruct (is_init_wire w).
    + destruct (match aget (n_peers n) src with Some pd => if pc_has_init (p_crypto pd) then Some pd else None | None => None end) as [pd|].
      * destruct (pc_handle payload_ok (p_crypto pd) w) as [[pc' r] reply].
        match goal with |- ND (fst (match r with Ok _ => _ | Err _ => (with_invalid ?m, _) | Panic _ => _ end)) => assert (H1 : ND m) by (split; cbn; [apply nodup_aset; exact Hp|exact Hq]) end.
        destruct r as [res|c|s]; [apply hr_nd; exact H1|exact H1|exact H1].
      * unfold new_instance. destruct (pc_handle payload_ok _ w) as [[pc' r] reply].
        destruct r as [res|c|s]; [apply hr_nd| |]; split; cbn [fst with_objs with_invalid upd n_peers n_pending]; try assumption. apply nodup_aset; exact Hq.
    + destruct (aget (n_peers n) src) as [pd|]; [|split; assumption].
      destruct (pc_handle payload_ok (p_crypto pd) w) as [[pc' r] reply].
      match goal with |- ND (fst (match r with Ok _ => _ | Err _ => (with_invalid ?m, _) | Panic _ => _ end)) => assert (H1 : ND m) by (split; cbn; [apply nodup_aset; exact Hp|exact Hq]) end.
      destruct r as [res|c|s]; [apply hr_nd; exact H1|exact H1|exact H1].
Qed.

Lemma send_data_nd : forall n addr ty body, ND n -> ND (fst (send_data n addr ty body)).
Proof.
  intros n addr ty body [Hp Hq]. unfold send_data. destruct (aget (n_peers n) addr) as [pd|]; [|split; assumption].
  destruct (pc_send (p_crypto pd) ty body) as [pc' [w|e|s]]; cbn [fst]; split; cbn; try assumption. apply nodup_aset; exact Hp.
Qed.

Lemma broadcast_nd : forall n ty body, ND n -> ND (fst (broadcast n ty body)).
Proof.
  intros n ty body H. unfold broadcast. apply (fold_nd _ _ (n_peers n) (n, [])); [|exact H]. intros [m fx] e Hm. cbn [fst] in *.
  pose proof (send_data_nd m (fst e) ty body Hm) as G. destruct (send_data m (fst e) ty body) as [m' fx']. exact G.
Qed.

Lemma handle_iface_nd : forall salts now n frame, ND n -> ND (fst (handle_iface salts now n frame)).
Proof.
  intros salts now n frame H. unfold handle_iface. destruct (parse_frame (n_cfg n) frame) as [[s dst]|e|s]; [|exact H|exact H].
  destruct (table_lookup (n_table n) now dst) as [r t'].
  destruct r as [addr|]; [apply send_data_nd; exact H|]. destruct (c_broadcast (n_cfg n)); [apply broadcast_nd; exact H|exact H].
Qed.

Lemma tick_pending_nd : forall n, ND n -> ND (fst (fst (tick_pending n))).
Proof.
  intros n. unfold tick_pending.
  assert (G : forall l st, ND (fst (fst st)) -> ND (fst (fst (fold_left (fun (acc : node * list effect * list N) (e : N * peer_crypto) =>
    let '(m, fx, del) := acc in
    let addr := fst e in
    match aget (n_pending m) addr with
    | None => (m, fx, del)
    | Some pc =>
        let '(pc', r, w) := pc_every_second pc in
        let m' := upd m (n_peers m) (aset (n_pending m) addr pc') (n_own m) (n_table m) in
        match r with
        | Err _ => (m', fx, del ++ [addr])
        | Ok MReply => (m', fx ++ match w with Some x => [XSend addr x] | None => [] end, del)
        | _ => (m', fx, del)
        end
    end) l st)))).
  { induction l as [|e t IH]; intros [[m fx] del] H; [exact H|]. cbn [fold_left]. apply IH. cbn [fst] in H.
    destruct (aget (n_pending m) (fst e)) as [pc|]; [|exact H]. destruct H as [Hp Hq].
    destruct (pc_every_second pc) as [[pc' r] w].
    assert (Hm : ND (upd m (n_peers m) (aset (n_pending m) (fst e) pc') (n_own m) (n_table m))) by (split; cbn [upd n_peers n_pending]; [exact Hp|apply nodup_aset; exact Hq]).
    destruct r as [[ | | | | ]|c|s]; exact Hm. }
  intros H. apply (G (n_pending n) (n, [], [])). exact H.
Qed.

Definition tick_pd (pd : peer_data) : peer_data :=
  {| p_addrs := p_addrs pd; p_timeout := p_timeout pd; p_peer_timeout := p_peer_timeout pd; p_node := p_node pd;
     p_crypto := fst (fst (pc_every_second (p_crypto pd))) |}.

(* what tick_peers does to the peer map: exactly one every_second per listed address *)
Lemma tick_peers_fold : forall l st, NoDup (keys l) ->
  let st' := fold_left (fun (acc : node * list effect * list N) (e : N * peer_data) =>
    let '(m, fx, del) := acc in
    let addr := fst e in
    match aget (n_peers m) addr with
    | None => (m, fx, del)
    | Some pd =>
        let '(pc', r, w) := pc_every_second (p_crypto pd) in
        let pd' := {| p_addrs := p_addrs pd; p_timeout := p_timeout pd; p_peer_timeout := p_peer_timeout pd; p_node := p_node pd; p_crypto := pc' |} in
        let m' := upd m (aset (n_peers m) addr pd') (n_pending m) (n_own m) (n_table m) in
        match r with
        | Err _ => (m', fx, del ++ [addr])
        | Ok MReply => (m', fx ++ match w with Some x => [XSend addr x] | None => [] end, del)
        | _ => (m', fx, del)
        end
    end) l st in
  (forall a, aget (n_peers (fst (fst st'))) a =
             if memN a (keys l) then option_map tick_pd (aget (n_peers (fst (fst st))) a) else aget (n_peers (fst (fst st))) a) /\
  n_pending (fst (fst st')) = n_pending (fst (fst st)) /\ n_table (fst (fst st')) = n_table (fst (fst st)).
Proof.
  induction l as [|e t IH]; intros [[m fx] del] Hnd; cbn [fold_left fst keys map memN existsb].
  - split; [intros a; reflexivity|split; reflexivity].
  - inversion Hnd as [|? ? Hnin Hnd']; subst.
    set (st1 := match aget (n_peers m) (fst e) with None => (m, fx, del) | Some pd => _ end).
    specialize (IH st1 Hnd'). cbn zeta in IH. destruct IH as (IH1 & IH2 & IH3).
    assert (H1 : (forall a, aget (n_peers (fst (fst st1))) a = if a =? fst e then option_map tick_pd (aget (n_peers m) a) else aget (n_peers m) a)
                 /\ n_pending (fst (fst st1)) = n_pending m /\ n_table (fst (fst st1)) = n_table m).
    { unfold st1. destruct (aget (n_peers m) (fst e)) as [pd|] eqn:Ea.
      - assert (Hs : forall pc' r w, pc_every_second (p_crypto pd) = (pc', r, w) -> pc' = fst (fst (pc_every_second (p_crypto pd)))) by (intros ? ? ? ->; reflexivity).
        destruct (pc_every_second (p_crypto pd)) as [[pc' r] w] eqn:Et. specialize (Hs _ _ _ eq_refl). cbn [fst] in Hs.
        assert (Hm : forall a, aget (aset (n_peers m) (fst e) {| p_addrs := p_addrs pd; p_timeout := p_timeout pd; p_peer_timeout := p_peer_timeout pd; p_node := p_node pd; p_crypto := pc' |}) a
                               = if a =? fst e then option_map tick_pd (aget (n_peers m) a) else aget (n_peers m) a).
        { intros a. destruct (a =? fst e) eqn:E.
          - apply N.eqb_eq in E. subst a. rewrite aget_aset_same, Ea. cbn [option_map]. unfold tick_pd. rewrite Et. reflexivity.
          - apply N.eqb_neq in E. rewrite aget_aset_other by congruence. reflexivity. }
        destruct r as [[ | | | | ]|c|s]; cbn [fst upd n_peers n_pending n_table]; (split; [exact Hm|split; reflexivity]).
      - cbn [fst]. split; [|split; reflexivity]. intros a. destruct (a =? fst e) eqn:E; [|reflexivity].
        apply N.eqb_eq in E. subst a. rewrite Ea. reflexivity. }
    destruct H1 as (H1 & H2 & H3). split; [|split; [rewrite IH2; exact H2|rewrite IH3; exact H3]].
    intros a. rewrite IH1, H1. destruct (a =? fst e) eqn:E; cbn [orb].
    + apply N.eqb_eq in E. subst a. destruct (memN (fst e) (keys t)) eqn:Em; [|reflexivity].
      exfalso. apply Hnin. unfold memN in Em. apply existsb_exists in Em. destruct Em as (x & Hx & Ex). apply N.eqb_eq in Ex. subst x. exact Hx.
    + reflexivity.
Qed.

Lemma aget_in_keys : forall (A : Type) (l : list (N * A)) a v, aget l a = Some v -> memN a (keys l) = true.
Proof.
  intros A l a v. induction l as [|[k x] t IH]; cbn [aget keys map fst memN existsb]; [discriminate|].
  destruct (a =? k); [reflexivity|]. cbn [orb]. exact IH.
Qed.
Lemma aget_notin_keys : forall (A : Type) (l : list (N * A)) a, aget l a = None -> memN a (keys l) = false.
Proof.
  intros A l a. induction l as [|[k x] t IH]; cbn [aget keys map fst memN existsb]; [reflexivity|].
  destruct (a =? k); [discriminate|]. cbn [orb]. exact IH.
Qed.

(* C03: one run of tick_peers = PeerCrypto::every_second applied exactly once to every peer, nothing else touched *)
Theorem tick_peers_ticks_each_once : forall n, NoDup (keys (n_peers n)) ->
  (forall a, aget (n_peers (fst (fst (tick_peers n)))) a = option_map tick_pd (aget (n_peers n) a)) /\
  n_pending (fst (fst (tick_peers n))) = n_pending n /\ n_table (fst (fst (tick_peers n))) = n_table n.
Proof.
  intros n Hnd. unfold tick_peers. destruct (tick_peers_fold (n_peers n) (n, [], []) Hnd) as (H1 & H2 & H3). cbn [fst] in *.
  split; [|split; assumption]. intros a. rewrite H1. destruct (aget (n_peers n) a) as [pd|] eqn:Ea.
  - rewrite (aget_in_keys _ _ _ _ Ea). reflexivity.
  - rewrite (aget_notin_keys _ _ _ Ea). reflexivity.
Qed.

Lemma tick_peers_nd : forall n, ND n -> ND (fst (fst (tick_peers n))).
Proof.
  intros n. unfold tick_peers.
  assert (G : forall l st, ND (fst (fst st)) -> ND (fst (fst (fold_left (fun (acc : node * list effect * list N) (e : N * peer_data) =>
    let '(m, fx, del) := acc in
    let addr := fst e in
    match aget (n_peers m) addr with
    | None => (m, fx, del)
    | Some pd =>
        let '(pc', r, w) := pc_every_second (p_crypto pd) in
        let pd' := {| p_addrs := p_addrs pd; p_timeout := p_timeout pd; p_peer_timeout := p_peer_timeout pd; p_node := p_node pd; p_crypto := pc' |} in
        let m' := upd m (aset (n_peers m) addr pd') (n_pending m) (n_own m) (n_table m) in
        match r with
        | Err _ => (m', fx, del ++ [addr])
        | Ok MReply => (m', fx ++ match w with Some x => [XSend addr x] | None => [] end, del)
        | _ => (m', fx, del)
        end
    end) l st)))).
  { induction l as [|e t IH]; intros [[m fx] del] H; [exact H|]. cbn [fold_left]. apply IH. cbn [fst] in H.
    destruct (aget (n_peers m) (fst e)) as [pd|]; [|exact H]. destruct H as [Hp Hq].
    destruct (pc_every_second (p_crypto pd)) as [[pc' r] w].
    match goal with |- ND (fst (fst (match r with Ok _ => _ | Err _ => (?m', _, _) | Panic _ => _ end))) => assert (Hm : ND m') by (split; cbn [upd n_peers n_pending]; [apply nodup_aset; exact Hp|exact Hq]) end.
    destruct r as [[ | | | | ]|c|s]; exact Hm. }
  intros H. apply (G (n_peers n) (n, [], [])). exact H.
Qed.

Lemma drop_and_redial_nd : forall salts now m addr, ND m ->
  ND (fst (connect_sock salts (upd m (adel (n_peers m) addr) (n_pending m) (n_own m) (table_remove_claims (n_table m) now addr)) addr)).
Proof. intros salts now m addr [Hp Hq]. apply connect_sock_nd. split; cbn [upd n_peers n_pending]; [apply nodup_adel; exact Hp|exact Hq]. Qed.

Lemma crypto_housekeep_nd : forall salts now n, ND n -> ND (fst (crypto_housekeep salts now n)).
Proof.
  intros salts now n H. unfold crypto_housekeep.
  pose proof (tick_pending_nd n H) as H1. destruct (tick_pending n) as [[n1 fx1] del1]. cbn [fst] in H1.
  pose proof (tick_peers_nd n1 H1) as H2. destruct (tick_peers n1) as [[n2 fx2] del2]. cbn [fst] in H2.
  assert (H3 : forall l m, ND m -> ND (fold_left (fun m addr => upd m (n_peers m) (adel (n_pending m) addr) (n_own m) (n_table m)) l m)).
  { induction l as [|a t IH]; intros m Hm; [exact Hm|]. cbn [fold_left]. apply IH. destruct Hm as [A B]. split; cbn [upd n_peers n_pending]; [exact A|apply nodup_adel; exact B]. }
  specialize (H3 del1 n2 H2).
  set (n3 := fold_left _ del1 n2) in *.
  assert (H4 : forall l st, ND (fst st) -> ND (fst (fold_left (fun (acc : node * list effect) (addr : N) =>
    let '(m, fx) := acc in
    if ahas (n_peers m) addr then
      let m2 := upd m (adel (n_peers m) addr) (n_pending m) (n_own m) (table_remove_claims (n_table m) now addr) in
      let '(m3, fx') := connect_sock salts m2 addr in (m3, fx ++ fx')
    else (m, fx)) l st))).
  { induction l as [|a t IH]; intros [m fx] Hm; [exact Hm|]. cbn [fold_left]. apply IH. cbn [fst] in Hm.
    destruct (ahas (n_peers m) a); [|exact Hm].
    pose proof (drop_and_redial_nd salts now m a Hm) as G. destruct (connect_sock salts _ a) as [m3 fx']. exact G. }
  apply (H4 del2 (n3, fx1 ++ fx2)). exact H3.
Qed.

Lemma reconnect_step_nd : forall salts now n, ND n -> ND (fst (reconnect_step salts now n)).
Proof.
  intros salts now n H. unfold reconnect_step.
  assert (G : ND (fst (fold_left (fun (acc : node * list effect) (e : reconnect) =>
      let '(m, fx) := acc in
      if (now <? rc_next e)%Z then (m, fx) else let '(m', fx') := connect salts m (rc_addrs e) in (m', fx ++ fx'))
      (n_reconnect n) (n, [])))).
  { apply (fold_nd _ _ (n_reconnect n) (n, [])); [|exact H]. intros [m fx] e Hm. cbn [fst] in *.
    destruct (now <? rc_next e)%Z; [exact Hm|].
    pose proof (connect_nd salts m (rc_addrs e) Hm) as C. destruct (connect salts m (rc_addrs e)) as [m' fx']. exact C. }
  destruct (fold_left _ (n_reconnect n) (n, [])) as [n1 fx]. exact G.
Qed.

Lemma housekeep_nd : forall salts now n, ND n -> ND (fst (housekeep salts now n)).
Proof.
  intros salts now n H. unfold housekeep.
  assert (H1 : forall l st, ND (fst st) -> ND (fst (fold_left (fun (acc : node * list effect) (addr : N) =>
      let '(m, fx) := acc in
      let m1 := upd m (adel (n_peers m) addr) (n_pending m) (n_own m) (table_remove_claims (n_table m) now addr) in
      let '(m2, fx') := connect_sock salts m1 addr in (m2, fx ++ fx')) l st))).
  { induction l as [|a t IH]; intros [m fx] Hm; [exact Hm|]. cbn [fold_left]. apply IH. cbn [fst] in Hm.
    pose proof (drop_and_redial_nd salts now m a Hm) as G. destruct (connect_sock salts _ a) as [m2 fx']. exact G. }
  specialize (H1 (map fst (filter (fun e => (p_timeout (snd e) <? now)%Z) (n_peers n))) (n, []) H).
  destruct (fold_left _ _ (n, [])) as [n1 fx1]. cbn [fst] in H1.
  set (n2 := upd n1 (n_peers n1) (n_pending n1) (n_own n1) (table_housekeep (n_table n1) now)).
  assert (H2 : ND n2) by exact H1.
  pose proof (crypto_housekeep_nd salts now n2 H2) as H3. destruct (crypto_housekeep salts now n2) as [n3 fx3]. cbn [fst] in H3.
  assert (H4 : ND (fst (if (n_next_peers n3 <=? now)%Z then
      let '(m, fx) := broadcast n3 MESSAGE_TYPE_NODE_INFO (ni_encode (create_node_info n3)) in
      let iv := announce_interval (update_freq (c_peer_timeout (n_cfg m)) (c_keepalive (n_cfg m)))
                                  (map (fun e => p_peer_timeout (snd e)) (n_peers m)) in
      (with_sched m (now + Z.of_N iv)%Z (n_next_own_reset m) (n_reconnect m), fx)
    else (n3, [])))).
  { destruct (n_next_peers n3 <=? now)%Z; [|exact H3].
    pose proof (broadcast_nd n3 MESSAGE_TYPE_NODE_INFO (ni_encode (create_node_info n3)) H3) as G.
    destruct (broadcast n3 _ _) as [m fx]. exact G. }
  destruct (if (n_next_peers n3 <=? now)%Z then _ else _) as [n4 fx4]. cbn [fst] in H4.
  pose proof (reconnect_step_nd salts now n4 H4) as H5. destruct (reconnect_step salts now n4) as [n5 fx5]. cbn [fst] in *.
  destruct (negb (c_hkfault (n_cfg n5)) && (n_next_own_reset n5 <=? now)%Z); exact H5.
Qed.

Theorem step_nd : forall salts now n e, ND n -> ND (fst (step salts now n e)).
Proof.
  intros salts now n e H. destruct e as [src w|f| |a|addrs]; cbn [step].
  - apply handle_net_nd; exact H.
  - apply handle_iface_nd; exact H.
  - apply housekeep_nd; exact H.
  - apply connect_nd; exact H.
  - exact H.
Qed.

Lemma node_new_nd : forall c now, ND (node_new c now).
Proof. intros. split; constructor. Qed.

Theorem reachable_nd : forall salts c t0 evs, ND (nrun salts (node_new c t0) evs).
Proof.
  intros salts c t0 evs. generalize (node_new_nd c t0). generalize (node_new c t0).
  induction evs as [|[now e] t IH]; intros n Hn; [exact Hn|]. cbn [nrun]. apply IH. apply step_nd. exact Hn.
Qed.

(* in every reachable state, the crypto housekeeping's pass over the peers ticks every connection exactly once *)
Theorem reachable_tick_peers_once : forall salts c t0 evs,
  let n := nrun salts (node_new c t0) evs in
  forall a, aget (n_peers (fst (fst (tick_peers n)))) a = option_map tick_pd (aget (n_peers n) a).
Proof. intros salts c t0 evs n. apply tick_peers_ticks_each_once. apply reachable_nd. Qed.

Theorem reachable_tick_peers_once_full : forall salts c t0 evs,
  let n := nrun salts (node_new c t0) evs in
  NoDup (map fst (n_peers n)) /\ NoDup (map fst (n_pending n)) /\
  forall a, aget (n_peers (fst (fst (tick_peers n)))) a = option_map tick_pd (aget (n_peers n) a).
Proof.
  intros salts c t0 evs n. destruct (reachable_nd salts c t0 evs) as [A B]. split; [exact A|split; [exact B|]].
  exact (reachable_tick_peers_once salts c t0 evs).
Qed.

(* non-vacuity: the reachable example state of NextHopProofs has a peer, and it is ticked *)
Lemma ex_tick_peers : map fst (n_peers (fst (fst (tick_peers ex_b)))) = [1001].
Proof. vm_compute. reflexivity. Qed.

(* C08: no sequence of handshake messages reaches the unwrap of a consumed ECDH key. *)
From VpnModel Require Import Base Nonce Replay Core CoreProofs Conn PeerCrypto InitProofs.

Definition fatal (r : res init_result) : bool := match r with Err 2 => true | _ => false end.
Definition panics {A} (r : res A) : bool := match r with Panic _ => true | _ => false end.

(* every outcome of handle_init that is neither fatal (the node then deletes the object) nor a panic leaves the
   invariant of no_panic11 intact: a handshake object waiting for a pong still holds its ECDH key *)
Theorem ecdh_inv_preserved : forall ok s m, ecdh_inv s ->
  fatal (snd (fst (handle_init ok s m))) = false -> panics (snd (fst (handle_init ok s m))) = false ->
  ecdh_inv (fst (fst (handle_init ok s m))).
Proof.
  intros ok s m Hinv. unfold handle_init.
  hi_cases; cbn [fst snd fatal panics]; intros Hf Hp; try discriminate; try exact Hinv;
    unfold ecdh_inv; cbn [upd_init i_stage i_ecdh init_send fst snd]; intros Hst; try discriminate.
Qed.

(* lifted to PeerCrypto: the invariant of every connection object that still has a handshake state *)
Definition pinv (p : peer_crypto) : Prop := match pc_init p with Some i => ecdh_inv i | None => True end.

Lemma pinv_new : forall node salt payload key trusted al fresh rnd, pinv (pc_new node salt payload key trusted al fresh rnd).
Proof. intros. unfold pinv, pc_new. cbn [pc_init]. apply ecdh_inv_new. Qed.

Ltac leaf :=
  repeat match goal with
         | |- context [match ?x with _ => _ end] => destruct x
         | |- context [if ?x then _ else _] => destruct x
         end;
  cbn [fst snd]; let H := fresh in intro H; discriminate H.

Lemma rot_handle_no11 : forall rs body fr s fr', rot_handle rs body fr = (Panic s, fr') -> s <> 11.
Proof.
  intros rs body fr s fr' H. unfold rot_handle, rot_process in H.
  repeat (match type of H with
          | context [match ?x with _ => _ end] => destruct x eqn:?
          | context [if ?x then _ else _] => destruct x eqn:?
          end; try discriminate H);
  inversion H; subst; intro Hc; discriminate Hc.
Qed.

(* the unwrap is never reached from a state satisfying the invariant, whatever arrives *)
Theorem pc_no_panic11 : forall ok p w, pinv p -> snd (fst (pc_handle ok p w)) <> Panic 11.
Proof.
  intros ok p w Hinv. destruct w as [m| | |d|b]; cbn [pc_handle].
  - unfold pc_handle_init. unfold pinv in Hinv. destruct (pc_init p) as [i|] eqn:Ei; [|leaf].
    pose proof (no_panic11 ok i m Hinv) as Hn.
    destruct (handle_init ok i m) as [[i' r] reply]. cbn [fst snd] in Hn.
    destruct r as [[|payload ini]|e|s]; try leaf.
    cbn [fst snd]. intro H. apply Hn. inversion H. reflexivity.
  - leaf.
  - leaf.
  - destruct (pc_plain p) eqn:Epl; [leaf|].
    destruct (pc_core p) as [c|] eqn:Ec; [|leaf].
    pose proof (decrypt_never_panics c d) as Hp.
    destruct (core_decrypt c d) as [c' [pl|e|s]] eqn:Ed; cbn [snd] in Hp; try discriminate Hp; try leaf.
    destruct pl as [|ty body]; [leaf|].
    destruct (ty =? MESSAGE_TYPE_ROTATION); [|leaf].
    match goal with |- context [pc_handle_rotate ?q body] => set (p1 := q) end.
    destruct (pc_handle_rotate p1 body) as [p2 [u|e|s]] eqn:Er; try leaf.
    cbn [fst snd]. intro H. inversion H; subst s. clear H.
    unfold pc_handle_rotate in Er.
    destruct (pc_plain p1); [discriminate|]. destruct (pc_rot p1) as [rs|]; [|discriminate].
    destruct (rot_handle rs body (pc_fresh p1)) as [[[rs' rk]|e|s2] fr] eqn:Eh.
    + destruct rk; destruct (pc_core p1); discriminate.
    + discriminate.
    + inversion Er; subst. exact (rot_handle_no11 _ _ _ _ _ Eh eq_refl).
  - leaf.
Qed.

Definition pfatal (r : res msg_result) : bool := match r with Err 2 => true | _ => false end.

Lemma closed_inv : forall i, closed_stage i -> ecdh_inv i.
Proof. intros i [H|H] Hs; rewrite H in Hs; discriminate Hs. Qed.

(* the invariant survives every outcome that is neither fatal nor a panic *)
Theorem pinv_preserved : forall ok p w, pinv p ->
  pfatal (snd (fst (pc_handle ok p w))) = false -> panics (snd (fst (pc_handle ok p w))) = false ->
  pinv (fst (fst (pc_handle ok p w))).
Proof.
  intros ok p w Hinv. destruct w as [m| | |d|b]; cbn [pc_handle].
  - unfold pc_handle_init. unfold pinv in Hinv. destruct (pc_init p) as [i|] eqn:Ei; [|cbn [fst snd]; intros _ _; unfold pinv; rewrite Ei; exact I].
    pose proof (ecdh_inv_preserved ok i m Hinv) as Hpres. pose proof (success_closes ok i m) as Hclose.
    destruct (handle_init ok i m) as [[i' r] reply]. cbn [fst snd] in Hpres, Hclose.
    destruct r as [[|payload ini]|e|s].
    + cbn [fst snd pfatal panics]. intros _ _. unfold pinv. cbn [pc_set pc_init]. apply Hpres; reflexivity.
    + assert (Hc : closed_stage i') by (eapply Hclose; reflexivity).
      assert (K : forall c, pinv (pc_set p (if i_stage (upd_init i' (i_ecdh i') (i_stage i') (i_close_time i') (i_last i') None (i_selected i') (i_retries i') (i_fresh i')) =? CLOSING
                                            then None else Some (upd_init i' (i_ecdh i') (i_stage i') (i_close_time i') (i_last i') None (i_selected i') (i_retries i') (i_fresh i')))
                                 (fst (fst c)) (snd (fst c)) (snd c) (pc_counter p) (pc_fresh p)) -> True) by (intros; exact I).
      clear K. intros _ _.
      assert (Hio : forall rot pl co cnt fr al,
                 pinv (with_alg (pc_set p (if i_stage (upd_init i' (i_ecdh i') (i_stage i') (i_close_time i') (i_last i') None (i_selected i') (i_retries i') (i_fresh i')) =? CLOSING
                                           then None else Some (upd_init i' (i_ecdh i') (i_stage i') (i_close_time i') (i_last i') None (i_selected i') (i_retries i') (i_fresh i')))
                                       rot pl co cnt fr) al)).
      { intros. unfold pinv, with_alg. cbn [pc_set pc_init upd_init i_stage].
        destruct (i_stage i' =? CLOSING); [exact I|]. apply closed_inv. exact Hc. }
      destruct ini.
      * destruct (rot_new false (pc_fresh p)) as [[rs rm] fr]. cbn [fst snd]. apply Hio.
      * destruct (i_core i') as [c0|].
        -- destruct (rot_new true (pc_fresh p)) as [[rs rm] fr]. destruct rm as [m1|].
           ++ destruct (core_encrypt c0 _) as [c1 dg]. cbn [fst snd]. apply Hio.
           ++ cbn [fst snd]. unfold pinv. cbn [pc_set pc_init]. apply closed_inv. exact Hc.
        -- cbn [fst snd]. unfold pinv. cbn [pc_set pc_init upd_init i_stage].
           destruct (i_stage i' =? CLOSING); [exact I|]. apply closed_inv. exact Hc.
    + cbn [fst snd pfatal panics]. intros Hf _. unfold pinv. cbn [pc_set pc_init]. apply Hpres; [|reflexivity].
      exact Hf.
    + cbn [fst snd panics]. intros _ H. discriminate H.
  - intros _ _. destruct (pc_init p); exact Hinv.
  - intros _ _. exact Hinv.
  - intros _ _. unfold pinv in *.
    destruct (pc_plain p); [destruct d as [keyid ctr x j|[|n]]; [destruct (keyid =? MESSAGE_TYPE_ROTATION)| |]; exact Hinv|].
    destruct (pc_core p) as [c|]; [|exact Hinv].
    destruct (core_decrypt c d) as [c' [pl|e|s]]; [|exact Hinv|exact Hinv].
    destruct pl as [|ty body]; [exact Hinv|].
    destruct (ty =? MESSAGE_TYPE_ROTATION); [|exact Hinv].
    match goal with |- context [pc_handle_rotate ?q body] => set (p1 := q) end.
    assert (Hp1 : pc_init p1 = pc_init p) by reflexivity.
    assert (Hrot : pc_init (fst (pc_handle_rotate p1 body)) = pc_init p1).
    { unfold pc_handle_rotate. destruct (pc_plain p1); [reflexivity|]. destruct (pc_rot p1) as [rs|]; [|reflexivity].
      destruct (rot_handle rs body (pc_fresh p1)) as [[[rs' rk]|e|s2] fr]; try reflexivity.
      destruct rk; destruct (pc_core p1); reflexivity. }
    destruct (pc_handle_rotate p1 body) as [p2 [u|e|s]]; cbn [fst snd] in *; rewrite Hrot, Hp1; exact Hinv.
  - intros _ _. unfold pinv in *.
    destruct (pc_plain p); [destruct b as [|ty body]; [|destruct (ty =? MESSAGE_TYPE_ROTATION)]; exact Hinv|].
    destruct (pc_core p) as [c|]; [|exact Hinv]. destruct (core_decrypt c (dgram_of_bytes b)). exact Hinv.
Qed.

From VpnModel Require Import NodeInfo Table Node NodeProofs.

(* the cooperating site at node level: a fatal handshake error from a pending object removes that object, so a state that
   violates the invariant (ECDH key consumed, still waiting for a pong) never survives the step that produced it *)
Theorem pending_fatal_deleted : forall salts now n src w pc,
  aget (n_pending n) src = Some pc -> (is_init_wire w || negb (ahas (n_peers n) src)) = true ->
  snd (fst (pc_handle payload_ok pc w)) = Err 2 ->
  aget (n_pending (fst (handle_net salts now n src w))) src = None.
Proof.
  intros salts now n src w pc Hp Hc Hr. unfold handle_net. rewrite Hc, Hp.
  destruct (pc_handle payload_ok pc w) as [[pc' r] reply]. cbn [fst snd] in Hr. subst r.
  cbn [N.eqb Pos.eqb fst upd with_invalid n_pending]. apply aget_adel_same.
Qed.

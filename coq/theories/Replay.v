(* Model of the per-key receive window of CryptoKey (src/crypto/core.rs): seen / next_min / min.
   Nonces are compared as 12-byte big-endian arrays, i.e. as numbers; modelled on N. *)
From VpnModel Require Import Base.

Record win := { seen : N; next_min : N; minn : N }.
Definition win0 : win := {| seen := 0; next_min := 0; minn := 0 |}.

Inductive ev := Deliver (n : N) | Tick.

(* decrypt_with_key after a successful open (the open itself is the AEAD's business) *)
Definition accepts (w : win) (n : N) : bool := negb (n <? minn w).
Definition deliver (w : win) (n : N) : bool * win :=
  if accepts w n
  then (true, {| seen := if seen w <? n then n else seen w; next_min := next_min w; minn := minn w |})
  else (false, w).
(* update_min_nonce *)
Definition tick (w : win) : win := {| seen := seen w; next_min := seen w + 1; minn := next_min w |}.

Fixpoint run (w : win) (h : list ev) : list bool * win :=
  match h with
  | [] => ([], w)
  | Deliver n :: t => let '(b, w') := deliver w n in let '(bs, w'') := run w' t in (b :: bs, w'')
  | Tick :: t => run (tick w) t
  end.

(* History-only reference: G2 = counters accepted before the tick preceding the most recent tick,
   G1 = accepted between those two ticks, G0 = accepted since the most recent tick. *)
Record ghost := { g2 : list N; g1 : list N; g0 : list N }.
Definition ghost0 : ghost := {| g2 := []; g1 := []; g0 := [] |}.
Definition ref_accepts (g : ghost) (n : N) : bool := forallb (fun m => m <? n) (g2 g).
Definition ref_step (g : ghost) (e : ev) : ghost :=
  match e with
  | Deliver n => if ref_accepts g n then {| g2 := g2 g; g1 := g1 g; g0 := n :: g0 g |} else g
  | Tick => {| g2 := g2 g ++ g1 g; g1 := g0 g; g0 := [] |}
  end.
Fixpoint ref_run (g : ghost) (h : list ev) : list bool * ghost :=
  match h with
  | [] => ([], g)
  | Deliver n :: t => let '(bs, g') := ref_run (ref_step g (Deliver n)) t in (ref_accepts g n :: bs, g')
  | Tick :: t => ref_run (ref_step g Tick) t
  end.

(* C03 / C04 at node level: the crypto core of every connection and handshake object of every reachable node state is well-formed
   (four key slots, sending slot in range) - the premise under which the window, nonce and tick theorems about a core apply.  An
   instance of PcInvariant.  Consequence: in every reachable state one housekeeping pass moves the replay window of every key
   slot of every peer (or re-keys the slot). *)
From VpnModel Require Import Base RangeMatch Table Nonce Replay Core CoreProofs Conn PeerCrypto NodeInfo Interval Node NodeProofs InitProofs TrustProofs SurviveProofs
  LockstepProofs Rotation2Proofs TickProofs NextHopProofs TickPeersProofs PcInvariant.

Definition owf (o : option core) : Prop := match o with Some c => wf_core c | None => True end.
Definition WFC (_ : ncfg) (p : peer_crypto) : Prop := owf (pc_core p) /\ (forall i, pc_init p = Some i -> owf (i_core i)).

Lemma owf_decrypt : forall c d, wf_core c -> wf_core (fst (core_decrypt c d)).
Proof. intros c d H. apply (dec_preserves c d H). Qed.

Lemma init_decrypt_wf : forall ok o p, owf o -> owf (fst (init_decrypt ok o p)).
Proof.
  intros ok o p H. unfold init_decrypt. destruct o as [c|]; destruct p as [d|b]; cbn [owf] in *.
  - pose proof (owf_decrypt c d H) as K. destruct (core_decrypt c d) as [c1 [pl|e|s]]; exact K.
  - pose proof (owf_decrypt c (dgram_of_bytes b) H) as K. destruct (core_decrypt c (dgram_of_bytes b)) as [c1 x]. exact K.
  - exact I.
  - exact I.
Qed.

Lemma init_send_wf : forall s stage pub, owf (i_core s) -> owf (i_core (fst (init_send s stage pub))).
Proof.
  intros s stage pub H. unfold init_send. destruct (stage =? STAGE_PING); [exact H|].
  unfold init_encrypt_payload. destruct (i_core s) as [c|]; [|exact I].
  pose proof (wf_encrypt c (i_payload s) H) as K. destruct (core_encrypt c (i_payload s)) as [c' d]. exact K.
Qed.

Lemma handle_init_wf : forall ok s m, owf (i_core s) -> owf (i_core (fst (fst (handle_init ok s m)))).
Proof.
  intros ok s m H. unfold handle_init.
  repeat (match goal with
          | |- context [init_send ?a ?b ?c] =>
              let K := fresh "K" in assert (K : owf (i_core a) -> owf (i_core (fst (init_send a b c)))) by apply init_send_wf; destruct (init_send a b c)
          | |- context [init_decrypt ?a ?b ?c] =>
              let K := fresh "K" in assert (K : owf b -> owf (fst (init_decrypt a b c))) by apply init_decrypt_wf; destruct (init_decrypt a b c)
          | |- context [match ?x with _ => _ end] => destruct x
          | |- context [if ?x then _ else _] => destruct x
          end); cbn [fst snd upd_init i_core core_of_key owf] in *; try exact H; try exact I; try apply core_new_wf; auto.
  all: repeat match goal with
              | Hx : context [if ?b then _ else _] |- _ => destruct b
              | Hx : context [match ?x with Some _ => _ | None => _ end] |- _ => destruct x
              | pp : prod _ _ |- _ => destruct pp
              end;
       cbn [fst snd upd_init i_core core_of_key owf] in *;
       repeat match goal with
              | Hx : owf (i_core ?ss) -> _, Hs : owf (i_core ?ss) |- _ => specialize (Hx Hs)
              | Hx : True -> _ |- _ => specialize (Hx I)
              | Hx : wf_core (core_new ?k ?d ?hf ?r0 ?r1 ?r2 ?r3) -> _ |- _ => specialize (Hx (core_new_wf k d hf r0 r1 r2 r3))
              | Hx : owf ?o -> _, Hy : owf ?o |- _ => specialize (Hx Hy)
              end; auto.
Qed.

Lemma wfc_new : forall n salt, WFC (n_cfg n) (snd (new_instance n salt)).
Proof. intros n salt. split; [exact I|]. intros i Hi. unfold new_instance, pc_new in Hi. cbn in Hi. inversion Hi. exact I. Qed.

Lemma wfc_initialize : forall c p, WFC c p -> WFC c (fst (pc_initialize p)).
Proof.
  intros c p [H1 H2]. pose proof (conj H1 H2 : WFC c p) as HW. unfold pc_initialize. destruct (pc_init p) as [i|] eqn:Ei; [|exact HW].
  destruct (negb (i_stage i =? STAGE_PING)); [exact HW|]. unfold init_send_ping.
  match goal with |- context [init_send ?a ?b ?d] => pose proof (init_send_wf a b d) as K; destruct (init_send a b d) as [s2 m] end.
  cbn [fst] in *. split; [exact H1|]. intros i0 H0. cbn [pc_set pc_init] in H0. inversion H0; subst i0. cbn [upd_init i_core] in *. apply K. apply (H2 i eq_refl).
Qed.

Lemma wfc_seal : forall c p ty b, WFC c p -> WFC c (fst (pc_seal p ty b)).
Proof.
  intros c p ty b [H1 H2]. pose proof (conj H1 H2 : WFC c p) as HW. unfold pc_seal. destruct (pc_plain p); [exact HW|]. destruct (pc_core p) as [c0|] eqn:Ec; [|exact HW].
  pose proof (wf_encrypt c0 (ty :: b) H1) as K. destruct (core_encrypt c0 (ty :: b)) as [c' d]. split; [exact K|exact H2].
Qed.

Lemma apply_rotated_wf : forall c rk r, wf_core c -> wf_core (apply_rotated c rk r).
Proof. intros c rk r H. unfold apply_rotated. destruct rk as [k|]; [apply wf_rotate; exact H|exact H]. Qed.

Lemma wfc_rotate : forall c p data, WFC c p -> WFC c (fst (pc_handle_rotate p data)).
Proof.
  intros c p data [H1 H2]. unfold pc_handle_rotate. destruct (pc_plain p); [split; assumption|]. destruct (pc_rot p) as [rs|]; [|split; assumption].
  destruct (rot_handle rs data (pc_fresh p)) as [[[rs' rk]|e|s] fr]; cbn [fst]; [|split; assumption|split; assumption].
  destruct (pc_core p) as [c0|] eqn:Ec.
  - assert (G : WFC c (pc_set p (pc_init p) (Some rs') (pc_plain p) (option_map (fun c1 => apply_rotated c1 rk (pc_rnd p)) (Some c0)) (pc_counter p) fr)).
    { split; [cbn [pc_set pc_core option_map owf]; apply apply_rotated_wf; exact H1|exact H2]. }
    destruct rk; exact G.
  - destruct rk; (split; [exact I|exact H2]).
Qed.

Lemma wfc_handle : forall c ok p w, WFC c p -> WFC c (fst (fst (pc_handle ok p w))).
Proof.
  intros c ok p w [H1 H2]. pose proof (conj H1 H2 : WFC c p) as HW. destruct w as [m| | |d|b]; cbn [pc_handle].
  - unfold pc_handle_init. destruct (pc_init p) as [i|] eqn:Ei; [|exact HW].
    pose proof (handle_init_wf ok i m (H2 i eq_refl)) as K. destruct (handle_init ok i m) as [[i' r0] reply]. cbn [fst] in K.
    assert (P1 : WFC c (pc_set p (Some i') (pc_rot p) (pc_plain p) (pc_core p) (pc_counter p) (pc_fresh p))).
    { split; [exact H1|]. intros i0 H0. inversion H0; subst i0. exact K. }
    assert (IO : forall i0, (if i_stage (upd_init i' (i_ecdh i') (i_stage i') (i_close_time i') (i_last i') None (i_selected i') (i_retries i') (i_fresh i')) =? CLOSING then None
                             else Some (upd_init i' (i_ecdh i') (i_stage i') (i_close_time i') (i_last i') None (i_selected i') (i_retries i') (i_fresh i'))) = Some i0 -> owf (i_core i0)).
    { intros i0 H0. destruct (_ =? CLOSING); [discriminate H0|]. inversion H0; subst i0. exact I. }
    destruct r0 as [[|payload ini]|e|s]; cbn [fst]; try exact P1.
    destruct ini.
    + destruct (rot_new false (pc_fresh p)) as [[rs rm] fr]. cbn [fst]. split; [cbn [with_alg pc_set pc_core]; exact K|].
      intros i0 H0. cbn [with_alg pc_set pc_init] in H0. apply IO. exact H0.
    + destruct (i_core i') as [c0|] eqn:Ec.
      * destruct (rot_new true (pc_fresh p)) as [[rs rm] fr]. destruct rm as [m1|]; [|exact P1].
        match goal with |- context [core_encrypt c0 ?x] => pose proof (wf_encrypt c0 x K) as K2; destruct (core_encrypt c0 x) as [c1 dd] end.
        cbn [fst] in *. split; [cbn [with_alg pc_set pc_core]; exact K2|]. intros i0 H0. cbn [with_alg pc_set pc_init] in H0. apply IO. exact H0.
      * cbn [fst]. split; [exact I|]. intros i0 H0. cbn [pc_set pc_init] in H0. apply IO. exact H0.
  - destruct (pc_init p); exact HW.
  - exact HW.
  - destruct (pc_plain p).
    + destruct d as [keyid a b c0|[|k]]; cbn [fst]; try exact HW. destruct (keyid =? MESSAGE_TYPE_ROTATION); exact HW.
    + destruct (pc_core p) as [c0|] eqn:Ec; [|exact HW]. cbn [owf] in H1.
      pose proof (owf_decrypt c0 d H1) as K. destruct (core_decrypt c0 d) as [c' [plain|e|s]]; cbn [fst] in *; [| |exact HW].
      * assert (P1 : WFC c (pc_set p (pc_init p) (pc_rot p) false (Some c') (pc_counter p) (pc_fresh p))) by (split; [exact K|exact H2]).
        destruct plain as [|ty body]; [exact P1|]. destruct (ty =? MESSAGE_TYPE_ROTATION); [|exact P1].
        match goal with |- context [pc_handle_rotate ?q body] => pose proof (wfc_rotate c q body P1) as T2; destruct (pc_handle_rotate q body) as [p2 [u|e|s]]; exact T2 end.
      * split; [exact K|exact H2].
  - destruct (pc_plain p).
    + destruct b as [|ty body]; [exact HW|]. destruct (ty =? MESSAGE_TYPE_ROTATION); exact HW.
    + destruct (pc_core p) as [c0|] eqn:Ec; [|exact HW]. cbn [owf] in H1.
      pose proof (owf_decrypt c0 (dgram_of_bytes b) H1) as K. destruct (core_decrypt c0 (dgram_of_bytes b)) as [c' x]. split; [exact K|exact H2].
Qed.

Lemma wfc_tick : forall c p, WFC c p -> WFC c (fst (fst (pc_every_second p))).
Proof.
  intros c p [H1 H2]. pose proof (conj H1 H2 : WFC c p) as HW. unfold pc_every_second.
  assert (C1 : owf (option_map core_tick (pc_core p))) by (destruct (pc_core p) as [c0|]; [apply wf_tick; exact H1|exact I]).
  assert (Hio : forall io ir, (match pc_init p with Some i => let '(i', r) := init_every_second i in (Some i', r) | None => (None, Ok None) end) = (io, ir) ->
                forall i, io = Some i -> owf (i_core i)).
  { intros io ir E i Hi. destruct (pc_init p) as [i0|] eqn:Ei.
    - specialize (H2 i0 eq_refl). assert (Ht : i_core (fst (init_every_second i0)) = i_core i0).
      { unfold init_every_second. repeat (match goal with |- context [if ?x then _ else _] => destruct x end); reflexivity. }
      destruct (init_every_second i0) as [i' r]. cbn [fst] in Ht. injection E as E1 E2. rewrite <- E1 in Hi. injection Hi as Hi. rewrite <- Hi, Ht. exact H2.
    - injection E as E1 E2. rewrite <- E1 in Hi. discriminate Hi. }
  destruct (match pc_init p with Some i => let '(i', r) := init_every_second i in (Some i', r) | None => (None, Ok None) end) as [io ir].
  specialize (Hio io ir eq_refl).
  assert (Hio' : forall i, match io with Some i => if i_stage i =? CLOSING then None else Some i | None => None end = Some i -> owf (i_core i)).
  { intros i E. destruct io as [i0|]; [|discriminate E]. destruct (i_stage i0 =? CLOSING); [discriminate E|]. inversion E; subst i. apply Hio. reflexivity. }
  destruct ir as [out|e|s]; cbn [fst]; [|split; [exact C1|exact Hio]|exact HW].
  destruct out as [m|]; cbn [fst]; [split; [exact C1|exact Hio']|].
  destruct (pc_rot p) as [rs|]; cbn [fst]; [|split; [exact C1|exact Hio']].
  destruct (pc_counter p + 1 <? ROTATE_INTERVAL); cbn [fst]; [split; [exact C1|exact Hio']|].
  destruct (rot_cycle rs (pc_fresh p)) as [[[rs' rm] rk] fr].
  assert (C2 : owf (option_map (fun c0 => apply_rotated c0 rk (pc_rnd p)) (option_map core_tick (pc_core p)))).
  { destruct (option_map core_tick (pc_core p)) as [c1|]; [apply apply_rotated_wf; exact C1|exact I]. }
  destruct rk as [k|]; [destruct (option_map core_tick (pc_core p)) as [c1|] eqn:E1; cbn [fst]; [|split; [exact I|exact Hio']]|];
    (destruct rm as [m|]; cbn [fst]; [|split; [exact C2|exact Hio']];
     match goal with |- context [pc_seal ?p2 ?t ?b] => assert (W2 : WFC c p2) by (split; [exact C2|exact Hio']); pose proof (wfc_seal c p2 t b W2) as S; destruct (pc_seal p2 t b) as [p3 [w|e|s]]; exact S end).
Qed.

(* every connection and handshake object of every reachable state has a well-formed core *)
Theorem reachable_cores_wf : forall c salts t0 evs,
  let n := nrun salts (node_new c t0) evs in
  (forall a pd co, aget (n_peers n) a = Some pd -> pc_core (p_crypto pd) = Some co -> wf_core co) /\
  (forall a pc co, aget (n_pending n) a = Some pc -> pc_core pc = Some co -> wf_core co).
Proof.
  intros c salts t0 evs n. destruct (reachable_ap WFC wfc_new wfc_initialize wfc_handle wfc_tick wfc_seal c salts t0 evs) as (_ & Hq & Hp). fold n in Hq, Hp.
  split.
  - intros a pd co Ha Hc. destruct (Hp a pd Ha) as [K _]. rewrite Hc in K. exact K.
  - intros a pc co Ha Hc. destruct (Hq a pc Ha) as [K _]. rewrite Hc in K. exact K.
Qed.

(* C03, node level, closing the chain: in every reachable state, one housekeeping pass over the peers moves the replay window of every
   key slot of every encrypted peer connection (or re-keys the slot: fresh window) *)
Theorem reachable_housekeeping_moves_every_window : forall c salts t0 evs a pd co,
  let n := nrun salts (node_new c t0) evs in
  aget (n_peers n) a = Some pd -> pc_core (p_crypto pd) = Some co ->
  exists pd' co', aget (n_peers (fst (fst (tick_peers n)))) a = Some pd' /\ pc_core (p_crypto pd') = Some co' /\ wf_core co' /\
    forall i, i < 4 -> s_win (get_slot co' i) = tick (s_win (get_slot co i)) \/ s_win (get_slot co' i) = win0.
Proof.
  intros c salts t0 evs a pd co n Ha Hc.
  destruct (reachable_cores_wf c salts t0 evs) as [Hwf _]. fold n in Hwf. specialize (Hwf a pd co Ha Hc).
  pose proof (reachable_tick_peers_once salts c t0 evs a) as Ht. fold n in Ht. rewrite Ha in Ht. cbn [option_map] in Ht.
  destruct (every_second_ticks_windows (p_crypto pd) co Hc Hwf) as (co' & Hc' & Hw' & Hticks).
  exists (tick_pd pd), co'. split; [exact Ht|]. split; [exact Hc'|]. split; [exact Hw'|exact Hticks].
Qed.

(* non-vacuity: the example state's peer has an encrypted connection *)
Lemma ex_peer_has_core : exists pd co, aget (n_peers ex_b) 1001 = Some pd /\ pc_core (p_crypto pd) = Some co.
Proof. vm_compute. eexists. eexists. split; reflexivity. Qed.

(* C14, "a node never peers with itself", the address side: in every reachable state a node's own-address list contains every
   address it was configured to advertise and its socket address - the list only grows (addresses reported under the own node id
   are adopted) or is reset to exactly that configured list - and connect_sock never dials an address on the list.  So no reachable
   node ever starts a handshake with one of its configured own addresses. *)
From VpnModel Require Import Base RangeMatch Table Nonce Replay Core Conn PeerCrypto NodeInfo Interval Node NodeProofs NextHopProofs.

Definition keeps (n n' : node) : Prop := n_cfg n' = n_cfg n /\ incl (n_own n) (n_own n').

Lemma keeps_refl : forall n, keeps n n. Proof. intros n. split; [reflexivity|apply incl_refl]. Qed.
Lemma keeps_trans : forall a b c, keeps a b -> keeps b c -> keeps a c.
Proof. intros a b c [A1 A2] [B1 B2]. split; [congruence|eapply incl_tran; eassumption]. Qed.
Lemma keeps_same : forall n n', n_cfg n' = n_cfg n -> n_own n' = n_own n -> keeps n n'.
Proof. intros n n' A B. split; [exact A|rewrite B; apply incl_refl]. Qed.

Ltac same := apply keeps_same; reflexivity.

Lemma connect_sock_keeps : forall salts n a, keeps n (fst (connect_sock salts n a)).
Proof.
  intros. unfold connect_sock. destruct (ahas (n_peers n) a || memN a (n_own n) || ahas (n_pending n) a); [apply keeps_refl|].
  unfold new_instance. destruct (pc_initialize _) as [pc' [w|e|s]]; same.
Qed.

Lemma fold_keeps : forall (A : Type) (f : node * list effect -> A -> node * list effect),
  (forall m fx a, keeps m (fst (f (m, fx) a))) -> forall l m fx, keeps m (fst (fold_left f l (m, fx))).
Proof.
  intros A f H l. induction l as [|a l IH]; intros m fx; [apply keeps_refl|]. cbn [fold_left].
  pose proof (H m fx a) as H1. destruct (f (m, fx) a) as [m1 fx1]. cbn [fst] in H1. eapply keeps_trans; [exact H1|apply IH].
Qed.

Lemma connect_keeps : forall salts n addrs, keeps n (fst (connect salts n addrs)).
Proof.
  intros. unfold connect. destruct (existsb _ addrs); [apply keeps_refl|]. apply fold_keeps. intros m fx a.
  pose proof (connect_sock_keeps salts m a) as H. destruct (connect_sock salts m a) as [m' fx']. exact H.
Qed.

Lemma adopt_grows : forall addrs own, incl own (fold_left (fun own a => if memN a own then own else own ++ [a]) addrs own).
Proof.
  induction addrs as [|a t IH]; intros own; [apply incl_refl|]. cbn [fold_left]. destruct (memN a own); [apply IH|].
  eapply incl_tran; [|apply IH]. apply incl_appl. apply incl_refl.
Qed.

Lemma connect_to_peers_keeps : forall salts n ps, keeps n (fst (connect_to_peers salts n ps)).
Proof.
  intros. unfold connect_to_peers. apply fold_keeps. intros m fx p.
  destruct (existsb _ (map addr_of_bytes (pi_addrs p))); [apply keeps_refl|].
  destruct (pi_node p) as [id|].
  - destruct (list_eqb id (node_id_bytes (c_num (n_cfg m)))).
    + cbn [fst]. split; [reflexivity|]. cbn [upd n_own]. apply adopt_grows.
    + destruct (existsb _ (n_peers m)); [apply keeps_refl|].
      pose proof (connect_keeps salts m (map addr_of_bytes (pi_addrs p))) as H. destruct (connect salts m _) as [m' fx']. exact H.
  - pose proof (connect_keeps salts m (map addr_of_bytes (pi_addrs p))) as H. destruct (connect salts m _) as [m' fx']. exact H.
Qed.

Lemma update_peer_info_keeps : forall salts now n addr info, keeps n (fst (update_peer_info salts now n addr info)).
Proof.
  intros. unfold update_peer_info. destruct (aget (n_peers n) addr) as [pd|]; [|apply keeps_refl].
  destruct info as [i|]; [|same]. eapply keeps_trans; [|apply connect_to_peers_keeps]. same.
Qed.

Lemma add_new_peer_keeps : forall salts now n addr info, keeps n (fst (add_new_peer salts now n addr info)).
Proof.
  intros. unfold add_new_peer. destruct (aget (n_pending n) addr) as [pc|]; [|apply keeps_refl].
  eapply keeps_trans; [|apply update_peer_info_keeps]. same.
Qed.

Lemma handle_result_keeps : forall salts now n src r reply, keeps n (fst (handle_result salts now n src r reply)).
Proof.
  intros. unfold handle_result. destruct r as [ty body|p|p| |].
  - destruct (ty =? MESSAGE_TYPE_DATA).
    + destruct (parse_frame (n_cfg n) body) as [[s d]|e|s]; try apply keeps_refl. destruct (c_learning (n_cfg n)); [same|apply keeps_refl].
    + destruct (ty =? MESSAGE_TYPE_NODE_INFO).
      * destruct (ni_decode body) as [info|e|s]; [apply update_peer_info_keeps|same|same].
      * destruct (ty =? MESSAGE_TYPE_KEEPALIVE); [apply update_peer_info_keeps|].
        destruct (ty =? MESSAGE_TYPE_CLOSE); [|same]. cbn [fst]. unfold remove_peer. destruct (aget (n_peers n) src); [same|apply keeps_refl].
  - destruct (ni_decode p) as [info|e|s]; [apply add_new_peer_keeps|apply keeps_refl|apply keeps_refl].
  - destruct (ni_decode p) as [info|e|s]; [|apply keeps_refl|apply keeps_refl].
    pose proof (add_new_peer_keeps salts now n src info) as H. destruct (add_new_peer salts now n src info) as [n1 fx]. exact H.
  - apply keeps_refl.
  - apply keeps_refl.
Qed.

Lemma handle_net_keeps : forall salts now n src w, keeps n (fst (handle_net salts now n src w)).
Proof.
  intros. unfold handle_net.
  destruct (if is_init_wire w || negb (ahas (n_peers n) src) then aget (n_pending n) src else None) as [pc|].
  - destruct (pc_handle payload_ok pc w) as [[pc' r] reply]. destruct r as [res|c|s].
    + eapply keeps_trans; [|apply handle_result_keeps]. same.
    + destruct (c =? 2); same.
    + same.
  - destruct (is_init_wire w).
    + destruct (match aget (n_peers n) src with Some pd => if pc_has_init (p_crypto pd) then Some pd else None | None => None end) as [pd|].
      * destruct (pc_handle payload_ok (p_crypto pd) w) as [[pc' r] reply]. destruct r as [res|c|s].
        -- eapply keeps_trans; [|apply handle_result_keeps]. same.
        -- same.
        -- same.
      * unfold new_instance. destruct (pc_handle payload_ok _ w) as [[pc' r] reply]. destruct r as [res|c|s].
        -- eapply keeps_trans; [|apply handle_result_keeps]. same.
        -- same.
        -- same.
    + destruct (aget (n_peers n) src) as [pd|]; [|same].
      destruct (pc_handle payload_ok (p_crypto pd) w) as [[pc' r] reply]. destruct r as [res|c|s].
      * eapply keeps_trans; [|apply handle_result_keeps]. same.
      * same.
      * same.
Qed.

Lemma send_data_keeps : forall n addr ty body, keeps n (fst (send_data n addr ty body)).
Proof.
  intros. unfold send_data. destruct (aget (n_peers n) addr) as [pd|]; [|apply keeps_refl].
  destruct (pc_send (p_crypto pd) ty body) as [pc' [w|e|s]]; [same|apply keeps_refl|apply keeps_refl].
Qed.

Lemma broadcast_keeps : forall n ty body, keeps n (fst (broadcast n ty body)).
Proof.
  intros. unfold broadcast. apply fold_keeps. intros m fx e.
  pose proof (send_data_keeps m (fst e) ty body) as H. destruct (send_data m (fst e) ty body) as [m' fx']. exact H.
Qed.

Lemma handle_iface_keeps : forall salts now n frame, keeps n (fst (handle_iface salts now n frame)).
Proof.
  intros. unfold handle_iface. destruct (parse_frame (n_cfg n) frame) as [[s dst]|e|s]; [|apply keeps_refl|apply keeps_refl].
  destruct (table_lookup (n_table n) now dst) as [r t']. destruct r as [addr|].
  - eapply keeps_trans; [|apply send_data_keeps]. same.
  - destruct (c_broadcast (n_cfg n)); [eapply keeps_trans; [|apply broadcast_keeps]; same|same].
Qed.

Lemma fold3_keeps : forall (A B : Type) (f : node * list effect * B -> A -> node * list effect * B),
  (forall m fx d a, keeps m (fst (fst (f (m, fx, d) a)))) -> forall l m fx d, keeps m (fst (fst (fold_left f l (m, fx, d)))).
Proof.
  intros A B f H l. induction l as [|a l IH]; intros m fx d; [apply keeps_refl|]. cbn [fold_left].
  pose proof (H m fx d a) as H1. destruct (f (m, fx, d) a) as [[m1 fx1] d1]. cbn [fst] in H1. eapply keeps_trans; [exact H1|apply IH].
Qed.

Lemma tick_pending_keeps : forall n, keeps n (fst (fst (tick_pending n))).
Proof.
  intros. unfold tick_pending. apply fold3_keeps. intros m fx d e.
  destruct (aget (n_pending m) (fst e)) as [pc|]; [|apply keeps_refl].
  destruct (pc_every_second pc) as [[pc' r] w]. destruct r as [[]|c|s]; same.
Qed.

Lemma tick_peers_keeps : forall n, keeps n (fst (fst (tick_peers n))).
Proof.
  intros. unfold tick_peers. apply fold3_keeps. intros m fx d e.
  destruct (aget (n_peers m) (fst e)) as [pd|]; [|apply keeps_refl].
  destruct (pc_every_second (p_crypto pd)) as [[pc' r] w]. destruct r as [[]|c|s]; same.
Qed.

Lemma fold1_keeps : forall (A : Type) (f : node -> A -> node), (forall m a, keeps m (f m a)) -> forall l m, keeps m (fold_left f l m).
Proof.
  intros A f H l. induction l as [|a l IH]; intros m; [apply keeps_refl|]. cbn [fold_left]. eapply keeps_trans; [apply H|apply IH].
Qed.

Lemma crypto_housekeep_keeps : forall salts now n, keeps n (fst (crypto_housekeep salts now n)).
Proof.
  intros. unfold crypto_housekeep.
  pose proof (tick_pending_keeps n) as H1. destruct (tick_pending n) as [[n1 fx1] del1]. cbn [fst] in H1.
  pose proof (tick_peers_keeps n1) as H2. destruct (tick_peers n1) as [[n2 fx2] del2]. cbn [fst] in H2.
  eapply keeps_trans; [exact H1|]. eapply keeps_trans; [exact H2|].
  eapply keeps_trans; [apply (fold1_keeps N (fun m addr => upd m (n_peers m) (adel (n_pending m) addr) (n_own m) (n_table m))); intros; same|].
  apply fold_keeps. intros m fx a. destruct (ahas (n_peers m) a); [|apply keeps_refl].
  set (m2 := upd m (adel (n_peers m) a) (n_pending m) (n_own m) (table_remove_claims (n_table m) now a)).
  pose proof (connect_sock_keeps salts m2 a) as H. destruct (connect_sock salts m2 a) as [m3 fx']. cbn [fst] in *.
  eapply keeps_trans; [|exact H]. same.
Qed.

Lemma reconnect_step_keeps : forall salts now n, keeps n (fst (reconnect_step salts now n)).
Proof.
  intros. unfold reconnect_step.
  match goal with |- context [fold_left ?f (n_reconnect n) (n, [])] => pose proof (fold_keeps reconnect f) as F end.
  match type of F with ?P -> _ => assert (HP : P) end.
  { intros m fx e. destruct (now <? rc_next e)%Z; [apply keeps_refl|].
    pose proof (connect_keeps salts m (rc_addrs e)) as H. destruct (connect salts m (rc_addrs e)) as [m' fx']. exact H. }
  specialize (F HP (n_reconnect n) n []).
  destruct (fold_left _ (n_reconnect n) (n, [])) as [n1 fx]. cbn [fst] in *. eapply keeps_trans; [exact F|]. same.
Qed.

Lemma expire_phase_keeps : forall salts now n, keeps n (fst (expire_phase salts now n)).
Proof.
  intros. unfold expire_phase. apply fold_keeps. intros m fx a.
  set (m1 := upd m (adel (n_peers m) a) (n_pending m) (n_own m) (table_remove_claims (n_table m) now a)).
  pose proof (connect_sock_keeps salts m1 a) as H. destruct (connect_sock salts m1 a) as [m2 fx']. cbn [fst] in *.
  eapply keeps_trans; [|exact H]. same.
Qed.

(* the configured own addresses are on the node's own-address list *)
Definition OW (n : node) : Prop := incl (c_advertise (n_cfg n) ++ [c_addr (n_cfg n)]) (n_own n).

Lemma keeps_ow : forall n n', keeps n n' -> OW n -> OW n'.
Proof. intros n n' [A B] H. unfold OW in *. rewrite A. eapply incl_tran; eassumption. Qed.

Lemma housekeep_ow : forall salts now n, OW n -> OW (fst (housekeep salts now n)).
Proof.
  intros salts now n H. rewrite housekeep_starts_with_expire.
  pose proof (expire_phase_keeps salts now n) as K1. destruct (expire_phase salts now n) as [n1 fx1]. cbn [fst] in K1.
  assert (K2 : keeps n (upd n1 (n_peers n1) (n_pending n1) (n_own n1) (table_housekeep (n_table n1) now))) by (eapply keeps_trans; [exact K1|same]).
  pose proof (crypto_housekeep_keeps salts now (upd n1 (n_peers n1) (n_pending n1) (n_own n1) (table_housekeep (n_table n1) now))) as K3.
  cbv zeta.
  destruct (crypto_housekeep salts now (upd n1 (n_peers n1) (n_pending n1) (n_own n1) (table_housekeep (n_table n1) now))) as [n3 fx3]. cbn [fst] in K3.
  assert (T : forall n4 n5, keeps n3 n4 -> keeps n4 n5 ->
     OW (if negb (c_hkfault (n_cfg n5)) && (n_next_own_reset n5 <=? now)%Z
         then with_sched (upd n5 (n_peers n5) (n_pending n5) (c_advertise (n_cfg n5) ++ [c_addr (n_cfg n5)]) (n_table n5)) (n_next_peers n5) (now + 300)%Z (n_reconnect n5)
         else n5)).
  { intros n4 n5 K4 K5.
    assert (K : keeps n n5) by (eapply keeps_trans; [exact K2|]; eapply keeps_trans; [exact K3|]; eapply keeps_trans; [exact K4|exact K5]).
    destruct (negb (c_hkfault (n_cfg n5)) && (n_next_own_reset n5 <=? now)%Z).
    - unfold OW. cbn [with_sched upd n_cfg n_own]. apply incl_refl.
    - exact (keeps_ow n n5 K H). }
  destruct (n_next_peers n3 <=? now)%Z.
  - pose proof (broadcast_keeps n3 MESSAGE_TYPE_NODE_INFO (ni_encode (create_node_info n3))) as B.
    destruct (broadcast n3 MESSAGE_TYPE_NODE_INFO (ni_encode (create_node_info n3))) as [m fx]. cbn [fst] in B. cbv beta iota zeta.
    match goal with |- context [reconnect_step salts now ?x] =>
      pose proof (reconnect_step_keeps salts now x) as K5; assert (K4 : keeps n3 x) by (eapply keeps_trans; [exact B|same]);
      destruct (reconnect_step salts now x) as [n5 fx5] end.
    cbn [fst] in *. eapply T; eassumption.
  - cbv beta iota zeta.
    pose proof (reconnect_step_keeps salts now n3) as K5. destruct (reconnect_step salts now n3) as [n5 fx5].
    cbn [fst] in *. eapply T; [apply keeps_refl|exact K5].
Qed.

Lemma step_ow : forall salts now n e, OW n -> OW (fst (step salts now n e)).
Proof.
  intros salts now n e H. destruct e as [src w|f| |a|addrs]; cbn [step].
  - exact (keeps_ow _ _ (handle_net_keeps salts now n src w) H).
  - exact (keeps_ow _ _ (handle_iface_keeps salts now n f) H).
  - apply housekeep_ow. exact H.
  - exact (keeps_ow _ _ (connect_keeps salts n [a]) H).
  - cbn [fst]. exact H.
Qed.

Lemma node_new_ow : forall c t0, OW (node_new c t0).
Proof. intros. unfold OW, node_new. cbn [n_cfg n_own]. apply incl_refl. Qed.

Theorem reachable_ow : forall salts c t0 evs, OW (nrun salts (node_new c t0) evs).
Proof.
  intros salts c t0 evs. generalize (node_new_ow c t0). generalize (node_new c t0).
  induction evs as [|[now e] t IH]; intros n Hn; [exact Hn|]. cbn [nrun]. apply IH. apply step_ow. exact Hn.
Qed.

Lemma memN_in : forall a l, In a l -> memN a l = true.
Proof. intros a l H. unfold memN. apply existsb_exists. exists a. split; [exact H|apply N.eqb_refl]. Qed.

(* in every reachable state: dialling one of the configured own addresses (advertised or socket address) does nothing *)
Theorem never_dials_own_address : forall salts c t0 evs a,
  let n := nrun salts (node_new c t0) evs in
  In a (c_advertise (n_cfg n) ++ [c_addr (n_cfg n)]) -> connect_sock salts n a = (n, []).
Proof.
  intros salts c t0 evs a n H. pose proof (reachable_ow salts c t0 evs) as O. fold n in O.
  unfold connect_sock. rewrite (memN_in a (n_own n) (O a H)). rewrite Bool.orb_true_r. reflexivity.
Qed.

(* non-vacuity: the example state of NextHopProofs knows its socket address 1002 *)
Lemma ex_own : In 1002 (c_advertise (n_cfg ex_b) ++ [c_addr (n_cfg ex_b)]) /\ memN 1002 (n_own ex_b) = true.
Proof. split; vm_compute; [left; reflexivity|reflexivity]. Qed.

(* C14 over whole runs: a node never peers with itself - every peer of every reachable state was admitted by a handshake message
   carrying ANOTHER node's id. *)
From VpnModel Require Import Base RangeMatch Table Nonce Replay Core Conn PeerCrypto NodeInfo Interval Node NodeProofs InitProofs TrustProofs SurviveProofs NextHopProofs PcInvariant AdmissionProofs.

(* ... and the node number they were created with *)
Definition NI (c : ncfg) (p : peer_crypto) : Prop := forall i, pc_init p = Some i -> i_node i = c_num c.

Lemma init_send_nodeid : forall s stage pub, i_node (fst (init_send s stage pub)) = i_node s.
Proof. intros. unfold init_send. destruct (stage =? STAGE_PING); [reflexivity|]. destruct (init_encrypt_payload s) as [c p]. reflexivity. Qed.

Lemma handle_init_nodeid : forall ok s m, i_node (fst (fst (handle_init ok s m))) = i_node s.
Proof.
  intros ok s m. unfold handle_init.
  repeat (match goal with
          | |- context [init_send ?a ?b ?c] => let H := fresh in pose proof (init_send_nodeid a b c) as H; destruct (init_send a b c)
          | |- context [match ?x with _ => _ end] => destruct x
          | |- context [if ?x then _ else _] => destruct x
          end); cbn [fst snd upd_init i_node] in *; try reflexivity; try congruence;
  match goal with H : i_node ?i = i_node (if ?b then _ else _) |- _ => destruct b; cbn [upd_init i_node] in H; exact H end.
Qed.

Lemma ni_new : forall n salt, NI (n_cfg n) (snd (new_instance n salt)).
Proof. intros n salt i H. unfold new_instance, pc_new in H. cbn in H. inversion H. reflexivity. Qed.

Lemma ni_initialize : forall c p, NI c p -> NI c (fst (pc_initialize p)).
Proof.
  intros c p H. unfold pc_initialize. destruct (pc_init p) as [i|] eqn:Ei; [|exact H].
  destruct (negb (i_stage i =? STAGE_PING)); [exact H|]. unfold init_send_ping.
  match goal with |- context [init_send ?a ?b ?d] => pose proof (init_send_nodeid a b d) as Ht; destruct (init_send a b d) as [s2 m] end.
  cbn [fst] in *. intros i0 H0. cbn [pc_set pc_init] in H0. inversion H0; subst i0. cbn [upd_init i_node] in *. rewrite Ht. apply H. exact Ei.
Qed.

Lemma ni_set : forall c p io r pl co cnt fr, (forall i, io = Some i -> i_node i = c_num c) -> NI c (pc_set p io r pl co cnt fr).
Proof. intros. intros i Hi. apply H. exact Hi. Qed.

Lemma ni_rotate : forall c p data, NI c p -> NI c (fst (pc_handle_rotate p data)).
Proof.
  intros c p data H. unfold pc_handle_rotate. destruct (pc_plain p); [exact H|]. destruct (pc_rot p) as [rs|]; [|exact H].
  destruct (rot_handle rs data (pc_fresh p)) as [[[rs' rk]|e|s] fr]; cbn [fst]; [|exact H|exact H].
  destruct rk as [k|]; [destruct (pc_core p)|]; exact H.
Qed.

Lemma ni_handle : forall c ok p w, NI c p -> NI c (fst (fst (pc_handle ok p w))).
Proof.
  intros c ok p w H. destruct w as [m| | |d|b]; cbn [pc_handle].
  - unfold pc_handle_init. destruct (pc_init p) as [i|] eqn:Ei; [|exact H].
    pose proof (handle_init_nodeid ok i m) as Ht. destruct (handle_init ok i m) as [[i' r0] reply]. cbn [fst] in Ht.
    assert (T' : i_node i' = c_num c) by (rewrite Ht; apply H; exact Ei).
    assert (P1 : NI c (pc_set p (Some i') (pc_rot p) (pc_plain p) (pc_core p) (pc_counter p) (pc_fresh p))) by (apply ni_set; intros i0 H0; inversion H0; subst; exact T').
    assert (IO : forall i0, (if i_stage (upd_init i' (i_ecdh i') (i_stage i') (i_close_time i') (i_last i') None (i_selected i') (i_retries i') (i_fresh i')) =? CLOSING then None
                             else Some (upd_init i' (i_ecdh i') (i_stage i') (i_close_time i') (i_last i') None (i_selected i') (i_retries i') (i_fresh i'))) = Some i0 -> i_node i0 = c_num c).
    { intros i0 H0. destruct (_ =? CLOSING); [discriminate H0|]. inversion H0; subst i0. exact T'. }
    destruct r0 as [[|payload ini]|e|s]; cbn [fst]; try exact P1.
    destruct ini.
    + destruct (rot_new false (pc_fresh p)) as [[rs rm] fr]. cbn [fst]. intros i0 H0. cbn [with_alg pc_set pc_init] in H0. apply IO. exact H0.
    + destruct (i_core i') as [c0|].
      * destruct (rot_new true (pc_fresh p)) as [[rs rm] fr]. destruct rm as [m1|]; [|exact P1].
        destruct (core_encrypt c0 _) as [c1 dd]. cbn [fst]. intros i0 H0. cbn [with_alg pc_set pc_init] in H0. apply IO. exact H0.
      * cbn [fst]. intros i0 H0. cbn [pc_set pc_init] in H0. apply IO. exact H0.
  - destruct (pc_init p); exact H.
  - exact H.
  - destruct (pc_plain p).
    + destruct d as [keyid a b c0|[|k]]; cbn [fst]; try exact H. destruct (keyid =? MESSAGE_TYPE_ROTATION); exact H.
    + destruct (pc_core p) as [c0|]; [|exact H]. destruct (core_decrypt c0 d) as [c' [plain|e|s]]; cbn [fst]; [|exact H|exact H].
      destruct plain as [|ty body]; [exact H|]. destruct (ty =? MESSAGE_TYPE_ROTATION); [|exact H].
      match goal with |- context [pc_handle_rotate ?q body] => pose proof (ni_rotate c q body H) as T2; destruct (pc_handle_rotate q body) as [p2 [u|e|s]]; exact T2 end.
  - destruct (pc_plain p).
    + destruct b as [|ty body]; [exact H|]. destruct (ty =? MESSAGE_TYPE_ROTATION); exact H.
    + destruct (pc_core p) as [c0|]; [|exact H]. destruct (core_decrypt c0 (dgram_of_bytes b)) as [c' x]. exact H.
Qed.

Lemma ni_seal : forall c p ty b, NI c p -> NI c (fst (pc_seal p ty b)).
Proof.
  intros c p ty b H. unfold pc_seal. destruct (pc_plain p); [exact H|]. destruct (pc_core p) as [c0|]; [|exact H].
  destruct (core_encrypt c0 (ty :: b)) as [c' d]. exact H.
Qed.

Lemma ni_tick : forall c p, NI c p -> NI c (fst (fst (pc_every_second p))).
Proof.
  intros c p H. unfold pc_every_second.
  assert (Hio : forall io ir, (match pc_init p with Some i => let '(i', r) := init_every_second i in (Some i', r) | None => (None, Ok None) end) = (io, ir) ->
                forall i, io = Some i -> i_node i = c_num c).
  { intros io ir E i Hi. destruct (pc_init p) as [i0|] eqn:Ei.
    - specialize (H i0 Ei). assert (Ht : i_node (fst (init_every_second i0)) = i_node i0).
      { unfold init_every_second. repeat (match goal with |- context [if ?x then _ else _] => destruct x end); reflexivity. }
      destruct (init_every_second i0) as [i' r]. cbn [fst] in Ht. injection E as E1 E2. rewrite <- E1 in Hi. injection Hi as Hi. rewrite <- Hi, Ht. exact H.
    - injection E as E1 E2. rewrite <- E1 in Hi. discriminate Hi. }
  destruct (match pc_init p with Some i => let '(i', r) := init_every_second i in (Some i', r) | None => (None, Ok None) end) as [io ir].
  specialize (Hio io ir eq_refl).
  assert (Hio' : forall i, match io with Some i => if i_stage i =? CLOSING then None else Some i | None => None end = Some i -> i_node i = c_num c).
  { intros i E. destruct io as [i0|]; [|discriminate E]. destruct (i_stage i0 =? CLOSING); [discriminate E|]. inversion E; subst i. apply Hio. reflexivity. }
  destruct ir as [out|e|s]; cbn [fst]; [|apply ni_set; exact Hio|exact H].
  destruct out as [m|]; cbn [fst]; [apply ni_set; exact Hio'|].
  destruct (pc_rot p) as [rs|]; cbn [fst]; [|apply ni_set; exact Hio'].
  destruct (pc_counter p + 1 <? ROTATE_INTERVAL); cbn [fst]; [apply ni_set; exact Hio'|].
  destruct (rot_cycle rs (pc_fresh p)) as [[[rs' rm] rk] fr].
  destruct rk as [k|]; [destruct (option_map core_tick (pc_core p)); cbn [fst]; [|apply ni_set; exact Hio']|];
    (destruct rm as [m|]; cbn [fst]; [|apply ni_set; exact Hio'];
     match goal with |- context [pc_seal ?p2 ?t ?b] => pose proof (ni_seal c p2 t b (ni_set c _ _ _ _ _ _ _ Hio')) as S; destruct (pc_seal p2 t b) as [p3 [w|e|s]]; exact S end).
Qed.


(* a handshake completes only on a message of another node *)
Lemma success_not_self : forall ok s m p ini, snd (fst (handle_init ok s m)) = Ok (ISuccess p ini) -> im_node m <> i_node s.
Proof.
  intros ok s m p ini H Heq. destruct (own_message_rejected ok s m Heq) as [[K|K] _]; rewrite K in H; discriminate H.
Qed.

Lemma pc_initialized_not_self : forall ok p w p' r rep, pc_handle ok p w = (p', Ok r, rep) -> is_initialized r = true ->
  exists i m, w = WInit m /\ pc_init p = Some i /\ im_node m <> i_node i.
Proof.
  intros ok p w p' r rep H Hr. destruct (pc_initialized_needs_trust ok p w p' r rep H Hr) as (i & m & Ew & Ei & _). subst w.
  exists i, m. split; [reflexivity|]. split; [exact Ei|].
  cbn [pc_handle] in H. unfold pc_handle_init in H. rewrite Ei in H.
  pose proof (success_not_self ok i m) as K. destruct (handle_init ok i m) as [[i' r0] reply]. cbn [fst snd] in K.
  destruct r0 as [[|payload ini]|e|s]; try (inversion H; subst; discriminate Hr).
  eapply K. reflexivity.
Qed.

(* the per-step fact behind C01 and C14, in its general form: a new peer entry appears only when the object answering for that
   address completes a handshake *)
Theorem peer_creation_by_completion : forall salts now n src w a,
  ahas (n_peers n) a = false -> ahas (n_peers (fst (handle_net salts now n src w))) a = true ->
  a = src /\ exists pc pc' r reply, answering_object salts n src pc /\ pc_handle payload_ok pc w = (pc', Ok r, reply) /\ is_initialized r = true.
Proof.
  intros salts now n src w a Hno H. unfold handle_net in H.
  assert (K : forall n1 pc pc' r reply, answering_object salts n src pc -> pc_handle payload_ok pc w = (pc', Ok r, reply) ->
              ahas (n_peers n1) a = false ->
              ahas (n_peers (fst (handle_result salts now n1 src r reply))) a = true ->
              a = src /\ exists pc pc' r reply, answering_object salts n src pc /\ pc_handle payload_ok pc w = (pc', Ok r, reply) /\ is_initialized r = true).
  { intros n1 pc pc' r reply Ho Hh Hn1 Hr. apply handle_result_has in Hr. destruct Hr as [Hr|[Ha Hi]]; [congruence|].
    split; [exact Ha|]. exists pc, pc', r, reply. split; [exact Ho|]. split; [exact Hh|exact Hi]. }
  destruct (if is_init_wire w || negb (ahas (n_peers n) src) then aget (n_pending n) src else None) as [pc|] eqn:Ep.
  - assert (Hpend : aget (n_pending n) src = Some pc) by (destruct (is_init_wire w || negb (ahas (n_peers n) src)); [exact Ep|discriminate]).
    destruct (pc_handle payload_ok pc w) as [[pc' r] reply] eqn:Eh. destruct r as [res|c|s].
    + eapply K; [left; exact Hpend|exact Eh| |exact H]. cbn [upd n_peers]. exact Hno.
    + exfalso. destruct (c =? 2); cbn [fst upd with_invalid n_peers] in H; congruence.
    + exfalso. cbn [fst upd n_peers] in H. congruence.
  - destruct (is_init_wire w) eqn:Ew.
    + destruct (match aget (n_peers n) src with Some pd => if pc_has_init (p_crypto pd) then Some pd else None | None => None end) as [pd|] eqn:Epd.
      * assert (Hpd : aget (n_peers n) src = Some pd).
        { destruct (aget (n_peers n) src) as [pd0|]; [|discriminate]. destruct (pc_has_init (p_crypto pd0)); [exact Epd|discriminate]. }
        destruct (pc_handle payload_ok (p_crypto pd) w) as [[pc' r] reply] eqn:Eh.
        assert (Hn1 : forall v, ahas (aset (n_peers n) src v) a = false).
        { intro v. rewrite ahas_aset. destruct (a =? src) eqn:Ea; [|exact Hno]. apply N.eqb_eq in Ea. subst. unfold ahas in Hno. rewrite Hpd in Hno. discriminate. }
        destruct r as [res|c|s].
        -- eapply K; [right; left; exists pd; split; [exact Hpd|reflexivity]|exact Eh| |exact H]. cbn [upd n_peers]. apply Hn1.
        -- exfalso. cbn [fst with_invalid upd n_peers] in H. rewrite Hn1 in H. discriminate.
        -- exfalso. cbn [fst upd n_peers] in H. rewrite Hn1 in H. discriminate.
      * destruct (new_instance n (salt_for salts (c_num (n_cfg n)) src)) as [n0 pc] eqn:En.
        assert (Hn0 : n_peers n0 = n_peers n) by (unfold new_instance in En; inversion En; reflexivity).
        destruct (pc_handle payload_ok pc w) as [[pc' r] reply] eqn:Eh. destruct r as [res|c|s].
        -- eapply K; [right; right; rewrite En; reflexivity|exact Eh| |exact H]. cbn [upd n_peers]. rewrite Hn0. exact Hno.
        -- exfalso. cbn [fst with_invalid n_peers] in H. rewrite Hn0 in H. congruence.
        -- exfalso. cbn [fst] in H. rewrite Hn0 in H. congruence.
    + destruct (aget (n_peers n) src) as [pd|] eqn:Hpd.
      * destruct (pc_handle payload_ok (p_crypto pd) w) as [[pc' r] reply] eqn:Eh.
        assert (Hn1 : forall v, ahas (aset (n_peers n) src v) a = false).
        { intro v. rewrite ahas_aset. destruct (a =? src) eqn:Ea; [|exact Hno]. apply N.eqb_eq in Ea. subst. unfold ahas in Hno. rewrite Hpd in Hno. discriminate. }
        destruct r as [res|c|s].
        -- eapply K; [right; left; exists pd; split; [exact Hpd|reflexivity]|exact Eh| |exact H]. cbn [upd n_peers]. apply Hn1.
        -- exfalso. cbn [fst with_invalid upd n_peers] in H. rewrite Hn1 in H. discriminate.
        -- exfalso. cbn [fst upd n_peers] in H. rewrite Hn1 in H. discriminate.
      * exfalso. cbn [fst with_invalid n_peers] in H. congruence.
Qed.

Lemma new_peer_is_another_node : forall c salts now n e a, AllPC NI c n ->
  ahas (n_peers n) a = false -> ahas (n_peers (fst (step salts now n e))) a = true ->
  exists m, e = ENet a (WInit m) /\ im_node m <> c_num c.
Proof.
  intros c salts now n e a (Hc & Hq & Hp) Hno H. destruct e as [src w|f| |x|addrs]; cbn [step] in H.
  - destruct (peer_creation_by_completion salts now n src w a Hno H) as (Ea & pc & pc' & r & reply & Hobj & Hh & Hi). subst a.
    destruct (pc_initialized_not_self _ _ _ _ _ _ Hh Hi) as (i & m & Ew & Ei & Hne). subst w.
    exists m. split; [reflexivity|].
    assert (T : i_node i = c_num c).
    { destruct Hobj as [Hpend|[(pd & Hpd & Epc)|Epc]]; try subst pc.
      - exact (Hq _ _ Hpend i Ei).
      - exact (Hp _ _ Hpd i Ei).
      - rewrite <- Hc. apply (ni_new n _ i Ei). }
    rewrite <- T. exact Hne.
  - apply handle_iface_nonew in H. congruence.
  - apply housekeep_nonew in H. congruence.
  - rewrite connect_peers in H. congruence.
  - cbn [fst with_sched n_peers] in H. congruence.
Qed.

(* C14, whole runs: every peer of every reachable state was admitted by a handshake message of ANOTHER node - a node never peers
   with itself, through whatever address its own messages come back *)
Theorem never_peers_with_itself : forall salts c t0 evs a,
  ahas (n_peers (nrun salts (node_new c t0) evs)) a = true ->
  exists now m, In (now, ENet a (WInit m)) evs /\ im_node m <> c_num c.
Proof.
  intros salts c t0 evs a.
  assert (G : forall evs n, AllPC NI c n -> ahas (n_peers (nrun salts n evs)) a = true ->
              ahas (n_peers n) a = true \/ exists now m, In (now, ENet a (WInit m)) evs /\ im_node m <> c_num c).
  { clear evs. induction evs as [|[now e] t IH]; intros n Hn H; [left; exact H|]. cbn [nrun] in H.
    pose proof (step_ap NI ni_new ni_initialize ni_handle ni_tick ni_seal c salts now n e Hn) as Hn1.
    destruct (IH _ Hn1 H) as [H1|(now' & m & Hin & Ht)].
    - destruct (ahas (n_peers n) a) eqn:E; [left; reflexivity|]. right.
      destruct (new_peer_is_another_node c salts now n e a Hn E H1) as (m & Ee & Ht). subst e. exists now, m. split; [left; reflexivity|exact Ht].
    - right. exists now', m. split; [right; exact Hin|exact Ht]. }
  intros H. assert (H0 : AllPC NI c (node_new c t0)) by (split; [reflexivity|split; intros x y Hy; discriminate Hy]).
  destruct (G evs (node_new c t0) H0 H) as [Hn|Hex]; [discriminate Hn|exact Hex].
Qed.

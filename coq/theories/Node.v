(* Model of GenericCloud (src/cloud.rs) as a step function over events, with mock socket / device /
   clock semantics.  Socket addresses are numbers (N): the 18-byte form (IPv6 address + port) read as
   a big-endian number; IPv4 addresses are IPv4-mapped first, as `mapped_addr` does.
   Left out: beacons, statistics output, hook scripts, port forwarding, DNS re-resolution (no property
   depends on them) - except that a lasting FAULT in one of those late housekeeping steps is modelled by
   ncfg.c_hkfault: housekeep then returns early and never reaches the own-address reset behind them.  HashMap iteration order is not modelled: effects of one step are compared as a
   list sorted by destination, and the random salts of new handshake objects are oracle inputs
   (`salts`: destination -> salt) read back from the real run. *)
From VpnModel Require Import Base RangeMatch Dissect Table Nonce Replay Core Conn PeerCrypto NodeInfo Interval.

Definition addr_bytes (a : N) : bytes := be_enc 18 a.
Definition addr_of_bytes (b : bytes) : N :=
  if Nat.eqb (length b) 6
  then be_val (zeros 10 ++ [255; 255] ++ b)    (* ::ffff:a.b.c.d : port *)
  else be_val b.

Record ncfg := {
  c_num : N;                      (* node number: stands for the random node id *)
  c_addr : N;                     (* own socket address *)
  c_peer_timeout : N;
  c_keepalive : option N;
  c_switch_timeout : N;
  c_learning : bool;
  c_broadcast : bool;
  c_tap : bool;                   (* Frame (true) or Packet (false) dissector *)
  c_claims : list (bytes * N);
  c_key : N;
  c_trusted : list N;
  c_algos : algos;
  c_advertise : list N;           (* advertise_addresses: extra own addresses the node reports (listed before the socket address) *)
  c_hkfault : bool                (* a lasting local fault in a housekeeping step behind the configured-peer step (e.g. a beacon file that cannot be
                                     read): housekeep returns early there on every tick, the own-address reset behind it is never reached *) }.

(* Crypto::new: without configured trusted keys a node trusts exactly its own key *)
Definition eff_trusted (c : ncfg) : list N := match c_trusted c with [] => [c_key c] | l => l end.

Definition node_id_bytes (n : N) : bytes := be_enc 16 n.

Record peer_data := {
  p_addrs : list N;
  p_timeout : Z;
  p_peer_timeout : N;
  p_node : bytes;
  p_crypto : peer_crypto }.

Record reconnect := { rc_addrs : list N; rc_tries : N; rc_timeout : N; rc_next : Z }.

Record node := {
  n_cfg : ncfg;
  n_peers : list (N * peer_data);
  n_pending : list (N * peer_crypto);
  n_own : list N;
  n_table : table;
  n_next_peers : Z;
  n_next_own_reset : Z;
  n_reconnect : list reconnect;
  n_dropped : N;                  (* dropped payload counter *)
  n_invalid : N;                  (* invalid protocol traffic counter *)
  n_objs : N                      (* number of handshake objects created so far: fresh-name supply *)
}.

Inductive effect := XSend (dst : N) (w : wire) | XWrite (frame : bytes).

Definition node_new (c : ncfg) (now : Z) : node :=
  {| n_cfg := c; n_peers := []; n_pending := []; n_own := c_advertise c ++ [c_addr c];
     n_table := table_new (Z.of_N (c_switch_timeout c)) (Z.of_N (c_peer_timeout c));
     n_next_peers := now; n_next_own_reset := (now + 300)%Z; n_reconnect := [];
     n_dropped := 0; n_invalid := 0; n_objs := 0 |}.

(* association lists keyed by address *)
Fixpoint aget {A} (l : list (N * A)) (k : N) : option A :=
  match l with [] => None | (k', v) :: t => if k =? k' then Some v else aget t k end.
Fixpoint aset {A} (l : list (N * A)) (k : N) (v : A) : list (N * A) :=
  match l with
  | [] => [(k, v)]
  | (k', v') :: t => if k =? k' then (k, v) :: t else (k', v') :: aset t k v
  end.
Definition adel {A} (l : list (N * A)) (k : N) : list (N * A) := filter (fun x => negb (fst x =? k)) l.
Definition ahas {A} (l : list (N * A)) (k : N) : bool := match aget l k with Some _ => true | None => false end.
Definition memN (x : N) (l : list N) : bool := existsb (N.eqb x) l.

Definition upd (n : node) (peers : list (N * peer_data)) (pending : list (N * peer_crypto)) (own : list N) (t : table) : node :=
  {| n_cfg := n_cfg n; n_peers := peers; n_pending := pending; n_own := own; n_table := t;
     n_next_peers := n_next_peers n; n_next_own_reset := n_next_own_reset n; n_reconnect := n_reconnect n;
     n_dropped := n_dropped n; n_invalid := n_invalid n; n_objs := n_objs n |}.
Definition with_invalid (n : node) : node :=
  {| n_cfg := n_cfg n; n_peers := n_peers n; n_pending := n_pending n; n_own := n_own n; n_table := n_table n;
     n_next_peers := n_next_peers n; n_next_own_reset := n_next_own_reset n; n_reconnect := n_reconnect n;
     n_dropped := n_dropped n; n_invalid := n_invalid n + 1; n_objs := n_objs n |}.
Definition with_dropped (n : node) : node :=
  {| n_cfg := n_cfg n; n_peers := n_peers n; n_pending := n_pending n; n_own := n_own n; n_table := n_table n;
     n_next_peers := n_next_peers n; n_next_own_reset := n_next_own_reset n; n_reconnect := n_reconnect n;
     n_dropped := n_dropped n + 1; n_invalid := n_invalid n; n_objs := n_objs n |}.
Definition with_objs (n : node) (k : N) : node :=
  {| n_cfg := n_cfg n; n_peers := n_peers n; n_pending := n_pending n; n_own := n_own n; n_table := n_table n;
     n_next_peers := n_next_peers n; n_next_own_reset := n_next_own_reset n; n_reconnect := n_reconnect n;
     n_dropped := n_dropped n; n_invalid := n_invalid n; n_objs := k |}.
Definition with_sched (n : node) (next_peers next_own : Z) (rc : list reconnect) : node :=
  {| n_cfg := n_cfg n; n_peers := n_peers n; n_pending := n_pending n; n_own := n_own n; n_table := n_table n;
     n_next_peers := next_peers; n_next_own_reset := next_own; n_reconnect := rc;
     n_dropped := n_dropped n; n_invalid := n_invalid n; n_objs := n_objs n |}.

(* create_node_info *)
Definition create_node_info (n : node) : node_info :=
  {| ni_node := node_id_bytes (c_num (n_cfg n));
     ni_peers := map (fun e => {| pi_node := Some (p_node (snd e)); pi_addrs := map addr_bytes (p_addrs (snd e)) |}) (n_peers n);
     ni_claims := c_claims (n_cfg n);
     ni_timeout := Some (c_peer_timeout (n_cfg n) mod 65536);
     ni_addrs := map addr_bytes (n_own n) |}.

Definition payload_ok (b : bytes) : bool := is_ok (ni_decode b).

(* crypto.peer_instance(create_node_info()): a new handshake object (its salt is an oracle value) *)
Definition new_instance (n : node) (salt : N) : node * peer_crypto :=
  let k := n_objs n + 1 in
  let c := n_cfg n in
  (with_objs n k,
   pc_new (c_num c) salt (ni_encode (create_node_info n)) (c_key c) (eff_trusted c) (c_algos c)
          ((c_num c * 2 ^ 20 + k) * 2 ^ 40 + 1) (zeros 6)).

(* oracle key: creating node and destination *)
Definition salt_key (node dst : N) : N := node * 2 ^ 160 + dst.
Definition salt_for (salts : list (N * N)) (node dst : N) : N := match aget salts (salt_key node dst) with Some s => s | None => 0 end.

(* connect_sock *)
Definition connect_sock (salts : list (N * N)) (n : node) (addr : N) : node * list effect :=
  if ahas (n_peers n) addr || memN addr (n_own n) || ahas (n_pending n) addr then (n, [])
  else
    let '(n1, pc) := new_instance n (salt_for salts (c_num (n_cfg n)) addr) in
    match pc_initialize pc with
    | (pc', Ok w) => (upd n1 (n_peers n1) (aset (n_pending n1) addr pc') (n_own n1) (n_table n1), [XSend addr w])
    | (_, _) => (n1, [])
    end.

(* connect: skip if any of the addresses is already known *)
Definition connect (salts : list (N * N)) (n : node) (addrs : list N) : node * list effect :=
  if existsb (fun a => memN a (n_own n) || ahas (n_peers n) a || ahas (n_pending n) a) addrs then (n, [])
  else fold_left (fun acc a => let '(m, fx) := acc in let '(m', fx') := connect_sock salts m a in (m', fx ++ fx')) addrs (n, []).

(* connect_to_peers *)
Definition connect_to_peers (salts : list (N * N)) (n : node) (ps : list peer_info) : node * list effect :=
  fold_left (fun acc p =>
    let '(m, fx) := acc in
    let addrs := map addr_of_bytes (pi_addrs p) in
    if existsb (fun a => ahas (n_peers m) a) addrs then (m, fx)
    else
      match pi_node p with
      | Some id =>
          if list_eqb id (node_id_bytes (c_num (n_cfg m))) then
            (upd m (n_peers m) (n_pending m)
                 (fold_left (fun own a => if memN a own then own else own ++ [a]) addrs (n_own m)) (n_table m), fx)
          else if existsb (fun e => list_eqb (p_node (snd e)) id) (n_peers m) then (m, fx)
          else let '(m', fx') := connect salts m addrs in (m', fx ++ fx')
      | None => let '(m', fx') := connect salts m addrs in (m', fx ++ fx')
      end) ps (n, []).

(* update_peer_info *)
Definition update_peer_info (salts : list (N * N)) (now : Z) (n : node) (addr : N) (info : option node_info) : node * list effect :=
  match aget (n_peers n) addr with
  | None => (n, [])
  | Some pd =>
      let addrs' := match info with
                    | Some i => fold_left (fun l a => if memN a l then l else l ++ [a]) (map addr_of_bytes (ni_addrs i)) [addr]
                    | None => p_addrs pd
                    end in
      let pd' := {| p_addrs := addrs'; p_timeout := (now + Z.of_N (c_peer_timeout (n_cfg n)))%Z; p_peer_timeout := p_peer_timeout pd;
                    p_node := p_node pd; p_crypto := p_crypto pd |} in
      let n1 := upd n (aset (n_peers n) addr pd') (n_pending n) (n_own n) (n_table n) in
      match info with
      | None => (n1, [])
      | Some i =>
          let n2 := upd n1 (n_peers n1) (n_pending n1) (n_own n1) (table_set_claims (n_table n1) now addr (ni_claims i)) in
          connect_to_peers salts n2 (ni_peers i)
      end
  end.

(* add_new_peer *)
Definition add_new_peer (salts : list (N * N)) (now : Z) (n : node) (addr : N) (info : node_info) : node * list effect :=
  match aget (n_pending n) addr with
  | None => (n, [])
  | Some pc =>
      let pd := {| p_addrs := map addr_of_bytes (ni_addrs info); p_timeout := (now + Z.of_N (c_peer_timeout (n_cfg n)))%Z;
                   p_peer_timeout := match ni_timeout info with Some t => t | None => 300 end;
                   p_node := ni_node info; p_crypto := pc |} in
      let n1 := upd n (aset (n_peers n) addr pd) (adel (n_pending n) addr) (n_own n) (n_table n) in
      update_peer_info salts now n1 addr (Some info)
  end.

Definition remove_peer (now : Z) (n : node) (addr : N) : node :=
  match aget (n_peers n) addr with
  | None => n
  | Some _ => upd n (adel (n_peers n) addr) (n_pending n) (n_own n) (table_remove_claims (n_table n) now addr)
  end.

Definition parse_frame (c : ncfg) (d : bytes) : res (bytes * bytes) := if c_tap c then frame_parse d else packet_parse d.

Definition MESSAGE_TYPE_DATA := 0. Definition MESSAGE_TYPE_NODE_INFO := 1.
Definition MESSAGE_TYPE_KEEPALIVE := 2. Definition MESSAGE_TYPE_CLOSE := 255.

(* handle_message after the crypto layer; returns (node, effects, fatal?) *)
Definition handle_result (salts : list (N * N)) (now : Z) (n : node) (src : N) (r : msg_result) (reply : option wire) : node * list effect :=
  match r with
  | MMessage ty body =>
      if ty =? MESSAGE_TYPE_DATA then
        match parse_frame (n_cfg n) body with
        | Ok (s, _) =>
            let n1 := if c_learning (n_cfg n) then upd n (n_peers n) (n_pending n) (n_own n) (table_cache (n_table n) now s src) else n in
            (n1, [XWrite body])
        | _ => (n, [])
        end
      else if ty =? MESSAGE_TYPE_NODE_INFO then
        match ni_decode body with
        | Ok info => update_peer_info salts now n src (Some info)
        | _ => (with_invalid n, [])
        end
      else if ty =? MESSAGE_TYPE_KEEPALIVE then update_peer_info salts now n src None
      else if ty =? MESSAGE_TYPE_CLOSE then (remove_peer now n src, [])
      else (with_invalid n, [])
  | MInitialized p =>
      match ni_decode p with Ok info => add_new_peer salts now n src info | _ => (n, []) end
  | MInitializedWithReply p =>
      match ni_decode p with
      | Ok info => let '(n1, fx) := add_new_peer salts now n src info in
                   (n1, fx ++ match reply with Some w => [XSend src w] | None => [] end)
      | _ => (n, [])
      end
  | MReply => (n, match reply with Some w => [XSend src w] | None => [] end)
  | MNone => (n, [])
  end.

Definition is_init_wire (w : wire) : bool := match w with WInit _ => true | WBadInit => true | _ => false end.

(* handle_socket_event = handle_net_message + removal of the pending handshake on a fatal error *)
Definition handle_net (salts : list (N * N)) (now : Z) (n : node) (src : N) (w : wire) : node * list effect :=
  (* after the fix of finding F8: a pending handshake takes the handshake messages of an established
     peer only; the peer's other traffic still belongs to the established connection *)
  match (if is_init_wire w || negb (ahas (n_peers n) src) then aget (n_pending n) src else None) with
  | Some pc =>
      let '(pc', r, reply) := pc_handle payload_ok pc w in
      let n1 := upd n (n_peers n) (aset (n_pending n) src pc') (n_own n) (n_table n) in
      match r with
      | Ok res => handle_result salts now n1 src res reply
      | Err c => let n2 := with_invalid n1 in
                 if c =? 2 then (upd n2 (n_peers n2) (adel (n_pending n2) src) (n_own n2) (n_table n2), []) else (n2, [])
      | Panic _ => (n1, [])
      end
  | None =>
      if is_init_wire w then
        match (match aget (n_peers n) src with
               | Some pd => if pc_has_init (p_crypto pd) then Some pd else None
               | None => None end) with
        | Some pd =>
            let '(pc', r, reply) := pc_handle payload_ok (p_crypto pd) w in
            let pd' := {| p_addrs := p_addrs pd; p_timeout := p_timeout pd; p_peer_timeout := p_peer_timeout pd; p_node := p_node pd; p_crypto := pc' |} in
            let n1 := upd n (aset (n_peers n) src pd') (n_pending n) (n_own n) (n_table n) in
            match r with
            | Ok res => handle_result salts now n1 src res reply
            | Err _ => (with_invalid n1, [])
            | Panic _ => (n1, [])
            end
        | None =>
            let '(n0, pc) := new_instance n (salt_for salts (c_num (n_cfg n)) src) in
            let '(pc', r, reply) := pc_handle payload_ok pc w in
            match r with
            | Ok res =>
                let n1 := upd n0 (n_peers n0) (aset (n_pending n0) src pc') (n_own n0) (n_table n0) in
                handle_result salts now n1 src res reply
            | Err _ => (with_invalid n0, [])
            | Panic _ => (n0, [])
            end
        end
      else
        match aget (n_peers n) src with
        | Some pd =>
            let '(pc', r, reply) := pc_handle payload_ok (p_crypto pd) w in
            let pd' := {| p_addrs := p_addrs pd; p_timeout := p_timeout pd; p_peer_timeout := p_peer_timeout pd; p_node := p_node pd; p_crypto := pc' |} in
            let n1 := upd n (aset (n_peers n) src pd') (n_pending n) (n_own n) (n_table n) in
            match r with
            | Ok res => handle_result salts now n1 src res reply
            | Err _ => (with_invalid n1, [])
            | Panic _ => (n1, [])
            end
        | None => (with_invalid n, [])
        end
  end.

(* send_msg / broadcast_msg of a data frame *)
Definition send_data (n : node) (addr : N) (ty : N) (body : bytes) : node * list effect :=
  match aget (n_peers n) addr with
  | None => (n, [])
  | Some pd =>
      match pc_send (p_crypto pd) ty body with
      | (pc', Ok w) =>
          let pd' := {| p_addrs := p_addrs pd; p_timeout := p_timeout pd; p_peer_timeout := p_peer_timeout pd; p_node := p_node pd; p_crypto := pc' |} in
          (upd n (aset (n_peers n) addr pd') (n_pending n) (n_own n) (n_table n), [XSend addr w])
      | (_, _) => (n, [])
      end
  end.

Definition broadcast (n : node) (ty : N) (body : bytes) : node * list effect :=
  fold_left (fun acc e => let '(m, fx) := acc in let '(m', fx') := send_data m (fst e) ty body in (m', fx ++ fx')) (n_peers n) (n, []).

(* handle_interface_data *)
Definition handle_iface (salts : list (N * N)) (now : Z) (n : node) (frame : bytes) : node * list effect :=
  match parse_frame (n_cfg n) frame with
  | Ok (_, dst) =>
      let '(r, t') := table_lookup (n_table n) now dst in
      let n1 := upd n (n_peers n) (n_pending n) (n_own n) t' in
      match r with
      | Some addr => send_data n1 addr MESSAGE_TYPE_DATA frame   (* not a peer: error "not a peer", nothing sent *)
      | None => if c_broadcast (n_cfg n) then broadcast n1 MESSAGE_TYPE_DATA frame else (with_dropped n1, [])
      end
  | _ => (n, [])
  end.

(* crypto_housekeep *)
Definition tick_pending (n : node) : node * list effect * list N :=
  fold_left (fun acc e =>
    let '(m, fx, del) := acc in
    let addr := fst e in
    match aget (n_pending m) addr with
    | None => (m, fx, del)
    | Some pc =>
        let '(pc', r, w) := pc_every_second pc in
        let m' := upd m (n_peers m) (aset (n_pending m) addr pc') (n_own m) (n_table m) in
        match r with
        | Err _ => (m', fx, del ++ [addr])
        | Ok MReply => (m', fx ++ match w with Some x => [XSend addr x] | None => [] end, del)
        | _ => (m', fx, del)
        end
    end) (n_pending n) (n, [], []).

Definition tick_peers (n : node) : node * list effect * list N :=
  fold_left (fun acc e =>
    let '(m, fx, del) := acc in
    let addr := fst e in
    match aget (n_peers m) addr with
    | None => (m, fx, del)
    | Some pd =>
        let '(pc', r, w) := pc_every_second (p_crypto pd) in
        let pd' := {| p_addrs := p_addrs pd; p_timeout := p_timeout pd; p_peer_timeout := p_peer_timeout pd; p_node := p_node pd; p_crypto := pc' |} in
        let m' := upd m (aset (n_peers m) addr pd') (n_pending m) (n_own m) (n_table m) in
        match r with
        | Err _ => (m', fx, del ++ [addr])
        | Ok MReply => (m', fx ++ match w with Some x => [XSend addr x] | None => [] end, del)
        | _ => (m', fx, del)
        end
    end) (n_peers n) (n, [], []).

Definition crypto_housekeep (salts : list (N * N)) (now : Z) (n : node) : node * list effect :=
  let '(n1, fx1, del1) := tick_pending n in
  let '(n2, fx2, del2) := tick_peers n1 in
  (* after the fix of finding F8: a failed pending handshake does not take an established peer with it *)
  let n3 := fold_left (fun m addr => upd m (n_peers m) (adel (n_pending m) addr) (n_own m) (n_table m)) del1 n2 in
  fold_left (fun acc addr =>
    let '(m, fx) := acc in
    if ahas (n_peers m) addr then
      (* after the fix of finding F4: the removed peer's claims go with it *)
      let m2 := upd m (adel (n_peers m) addr) (n_pending m) (n_own m) (table_remove_claims (n_table m) now addr) in
      let '(m3, fx') := connect_sock salts m2 addr in (m3, fx ++ fx')
    else (m, fx)) del2 (n3, fx1 ++ fx2).

(* reconnect_to_peers *)
Definition reconnect_step (salts : list (N * N)) (now : Z) (n : node) : node * list effect :=
  let '(n1, fx) := fold_left (fun acc e =>
      let '(m, fx) := acc in
      if (now <? rc_next e)%Z then (m, fx) else let '(m', fx') := connect salts m (rc_addrs e) in (m', fx ++ fx'))
      (n_reconnect n) (n, []) in
  let rcs := map (fun e =>
      let e1 := if existsb (fun a => ahas (n_peers n1) a) (rc_addrs e)
                then {| rc_addrs := rc_addrs e; rc_tries := 0; rc_timeout := 1; rc_next := (now + 1)%Z |} else e in
      if (now <? rc_next e1)%Z then e1 else
      let tr := rc_tries e1 + 1 in
      let '(tr, to) := if 10 <? tr then (0, u16 (rc_timeout e1 * 2)) else (tr, rc_timeout e1) in
      let to := if 3600 <? to then 3600 else to in
      {| rc_addrs := rc_addrs e1; rc_tries := tr; rc_timeout := to; rc_next := (now + Z.of_N to)%Z |}) (n_reconnect n1) in
  (with_sched n1 (n_next_peers n1) (n_next_own_reset n1) rcs, fx).

(* housekeep *)
Definition housekeep (salts : list (N * N)) (now : Z) (n : node) : node * list effect :=
  (* 1. peers whose timeout has passed *)
  let expired := map fst (filter (fun e => (p_timeout (snd e) <? now)%Z) (n_peers n)) in
  let '(n1, fx1) := fold_left (fun acc addr =>
      let '(m, fx) := acc in
      let m1 := upd m (adel (n_peers m) addr) (n_pending m) (n_own m) (table_remove_claims (n_table m) now addr) in
      let '(m2, fx') := connect_sock salts m1 addr in (m2, fx ++ fx')) expired (n, []) in
  (* 2. table sweep *)
  let n2 := upd n1 (n_peers n1) (n_pending n1) (n_own n1) (table_housekeep (n_table n1) now) in
  (* 3. crypto housekeeping *)
  let '(n3, fx3) := crypto_housekeep salts now n2 in
  (* 4. announcement *)
  let '(n4, fx4) :=
    if (n_next_peers n3 <=? now)%Z then
      let '(m, fx) := broadcast n3 MESSAGE_TYPE_NODE_INFO (ni_encode (create_node_info n3)) in
      let iv := announce_interval (update_freq (c_peer_timeout (n_cfg m)) (c_keepalive (n_cfg m)))
                                  (map (fun e => p_peer_timeout (snd e)) (n_peers m)) in
      (with_sched m (now + Z.of_N iv)%Z (n_next_own_reset m) (n_reconnect m), fx)
    else (n3, []) in
  (* 5. configured peers *)
  let '(n5, fx5) := reconnect_step salts now n4 in
  (* 7. own addresses reset *)
  let n6 := if negb (c_hkfault (n_cfg n5)) && (n_next_own_reset n5 <=? now)%Z
            then with_sched (upd n5 (n_peers n5) (n_pending n5) (c_advertise (n_cfg n5) ++ [c_addr (n_cfg n5)]) (n_table n5)) (n_next_peers n5) (now + 300)%Z (n_reconnect n5)
            else n5 in
  (n6, fx1 ++ fx3 ++ fx4 ++ fx5).

Inductive event :=
| ENet (src : N) (w : wire)
| EIface (frame : bytes)
| EHousekeep
| EConnect (addr : N)
| EAddReconnect (addrs : list N).

Definition step (salts : list (N * N)) (now : Z) (n : node) (e : event) : node * list effect :=
  match e with
  | ENet src w => handle_net salts now n src w
  | EIface f => handle_iface salts now n f
  | EHousekeep => housekeep salts now n
  | EConnect a => connect salts n [a]
  | EAddReconnect addrs =>
      (with_sched n (n_next_peers n) (n_next_own_reset n)
         (n_reconnect n ++ [{| rc_addrs := addrs; rc_tries := 0; rc_timeout := 1; rc_next := now |}]), [])
  end.

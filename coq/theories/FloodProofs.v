(* C10 / C11 node clause: a frame that is flooded (unknown destination in switch / hub mode, or a broadcast) goes to every peer exactly
   once.  Needs two facts about every reachable node state: the peer map lists no address twice (TickPeersProofs.ND) and every peer's
   connection object can seal (SE: it is in unencrypted mode or holds a crypto core). *)
From VpnModel Require Import Base RangeMatch Table Nonce Replay Core Conn PeerCrypto NodeInfo Interval Node NodeProofs TrustProofs SurviveProofs NextHopProofs TickPeersProofs.

Definition sendable (p : peer_crypto) : Prop := pc_plain p = true \/ exists c, pc_core p = Some c.

Lemma sendable_seal : forall p ty body, sendable p -> sendable (fst (pc_seal p ty body)) /\ exists w, snd (pc_seal p ty body) = Ok w.
Proof.
  intros p ty body H. unfold pc_seal. destruct (pc_plain p) eqn:Ep.
  - split; [left; exact Ep|eexists; reflexivity].
  - destruct H as [H|[c Hc]]; [congruence|]. rewrite Hc. destruct (core_encrypt c (ty :: body)) as [c' d]. cbn [fst snd].
    split; [right; eexists; reflexivity|eexists; reflexivity].
Qed.

Lemma sendable_rotate : forall p data, sendable p -> sendable (fst (pc_handle_rotate p data)).
Proof.
  intros p data H. unfold pc_handle_rotate. destruct (pc_plain p) eqn:Ep; [exact H|].
  destruct H as [H|[c Hc]]; [congruence|].
  destruct (pc_rot p) as [rs|]; [|right; eexists; exact Hc].
  destruct (rot_handle rs data (pc_fresh p)) as [[[rs' rk]|e|s] fr]; cbn [fst].
  - rewrite Hc. destruct rk; cbn [fst]; right; eexists; reflexivity.
  - right; eexists; exact Hc.
  - right; eexists; exact Hc.
Qed.

Lemma sendable_handle : forall ok p w, 
  (sendable p -> sendable (fst (fst (pc_handle ok p w)))) /\
  (forall r, snd (fst (pc_handle ok p w)) = Ok r -> is_initialized r = true -> sendable (fst (fst (pc_handle ok p w)))).
Proof.
  intros ok p w. destruct w as [m| | |d|b]; cbn [pc_handle].
  - unfold pc_handle_init. destruct (pc_init p) as [i|]; [|split; [exact (fun H => H)|intros r H; discriminate H]].
    destruct (handle_init ok i m) as [[i' r0] reply].
    destruct r0 as [[|payload ini]|e|s]; cbn [fst snd]; try (split; [exact (fun H => H)|intros r H Hr; inversion H; subst; discriminate Hr]).
    destruct ini.
    + destruct (rot_new false (pc_fresh p)) as [[rs rm] fr]. cbn [fst snd].
      assert (G : sendable (with_alg (pc_set p (if i_stage (upd_init i' (i_ecdh i') (i_stage i') (i_close_time i') (i_last i') None (i_selected i') (i_retries i') (i_fresh i')) =? CLOSING then None else Some (upd_init i' (i_ecdh i') (i_stage i') (i_close_time i') (i_last i') None (i_selected i') (i_retries i') (i_fresh i')))
                    match i_core i' with Some _ => Some rs | None => pc_rot p end match i_core i' with Some _ => pc_plain p | None => true end (i_core i') (pc_counter p) fr) (i_selected i'))).
      { destruct (i_core i') as [c|]; [right; eexists; reflexivity|left; reflexivity]. }
      split; [intros _; exact G|intros r _ _; exact G].
    + destruct (i_core i') as [c0|].
      * destruct (rot_new true (pc_fresh p)) as [[rs rm] fr]. destruct rm as [m1|].
        -- destruct (core_encrypt c0 _) as [c1 dd]. cbn [fst snd].
           split; [intros _; right; eexists; reflexivity|intros r _ _; right; eexists; reflexivity].
        -- cbn [fst snd]. split; [exact (fun H => H)|intros r H; discriminate H].
      * cbn [fst snd]. split; [intros _; left; reflexivity|intros r _ _; left; reflexivity].
  - destruct (pc_init p); cbn [fst snd]; (split; [exact (fun H => H)|intros r H; discriminate H]).
  - cbn [fst snd]. split; [exact (fun H => H)|intros r H; discriminate H].
  - destruct (pc_plain p) eqn:Ep.
    + destruct d as [keyid a b c|[|k]]; cbn [fst snd]; try (split; [exact (fun H => H)|intros r H Hr; inversion H; subst; discriminate Hr]).
      destruct (keyid =? MESSAGE_TYPE_ROTATION); cbn [fst snd]; (split; [exact (fun H => H)|intros r H Hr; inversion H; subst; discriminate Hr]).
    + destruct (pc_core p) as [c|] eqn:Ec; [|cbn [fst snd]; split; [exact (fun H => H)|intros r H; discriminate H]].
      destruct (core_decrypt c d) as [c' [plain|e|s]].
      * assert (S1 : forall pl, sendable (pc_set p (pc_init p) (pc_rot p) pl (Some c') (pc_counter p) (pc_fresh p))) by (intros pl; right; eexists; reflexivity).
        destruct plain as [|ty body]; [cbn [fst snd]; split; [intros _; apply S1|intros r H; discriminate H]|].
        destruct (ty =? MESSAGE_TYPE_ROTATION).
        -- pose proof (sendable_rotate _ body (S1 false)) as S2. destruct (pc_handle_rotate _ body) as [p2 [u|e|s]]; cbn [fst snd] in *;
             (split; [intros _; exact S2|intros r H Hr; inversion H; subst; discriminate Hr]).
        -- cbn [fst snd]. split; [intros _; apply S1|intros r H Hr; inversion H; subst; discriminate Hr].
      * cbn [fst snd]. split; [intros _; right; eexists; reflexivity|intros r H; discriminate H].
      * cbn [fst snd]. split; [exact (fun H => H)|intros r H; discriminate H].
  - destruct (pc_plain p) eqn:Ep.
    + destruct b as [|ty body]; cbn [fst snd]; [split; [exact (fun H => H)|intros r H; discriminate H]|].
      destruct (ty =? MESSAGE_TYPE_ROTATION); cbn [fst snd]; (split; [exact (fun H => H)|intros r H Hr; inversion H; subst; discriminate Hr]).
    + destruct (pc_core p) as [c|] eqn:Ec; [|cbn [fst snd]; split; [exact (fun H => H)|intros r H; discriminate H]].
      destruct (core_decrypt c (dgram_of_bytes b)) as [c' x]. cbn [fst snd]. split; [intros _; right; eexists; reflexivity|intros r H; discriminate H].
Qed.

Lemma sendable_tick : forall p, sendable p -> sendable (fst (fst (pc_every_second p))).
Proof.
  intros p H. unfold pc_every_second.
  destruct (match pc_init p with Some i => let '(i', r) := init_every_second i in (Some i', r) | None => (None, Ok None) end) as [io ir].
  destruct (pc_core p) as [c|] eqn:Hc; cbn [option_map].
  - (* a core stays a core *)
    destruct ir as [out|e|s]; cbn [fst]; [|right; eexists; reflexivity|exact H].
    destruct out as [m|]; cbn [fst]; [right; eexists; reflexivity|].
    destruct (pc_rot p) as [rs|]; cbn [fst]; [|right; eexists; reflexivity].
    destruct (pc_counter p + 1 <? ROTATE_INTERVAL); cbn [fst]; [right; eexists; reflexivity|].
    destruct (rot_cycle rs (pc_fresh p)) as [[[rs' rm] rk] fr].
    assert (G : forall p2 : peer_crypto, (exists c2, pc_core p2 = Some c2) ->
                match rm with
                | None => sendable p2
                | Some m => sendable (fst (pc_seal p2 MESSAGE_TYPE_ROTATION (rot_encode m)))
                end).
    { intros p2 Hp2. destruct rm as [m|]; [|right; exact Hp2]. apply sendable_seal. right; exact Hp2. }
    destruct rk as [k|]; cbn [option_map].
    + specialize (G (pc_set p (match io with Some i => if i_stage i =? CLOSING then None else Some i | None => None end) (Some rs') (pc_plain p) (Some (apply_rotated (core_tick c) (Some k) (pc_rnd p))) 0 fr) (ex_intro _ _ eq_refl)).
      destruct rm as [m|]; cbn [fst]; [|exact G]. destruct (pc_seal _ MESSAGE_TYPE_ROTATION (rot_encode m)) as [p3 [w|e|s]]; exact G.
    + specialize (G (pc_set p (match io with Some i => if i_stage i =? CLOSING then None else Some i | None => None end) (Some rs') (pc_plain p) (Some (apply_rotated (core_tick c) None (pc_rnd p))) 0 fr) (ex_intro _ _ eq_refl)).
      destruct rm as [m|]; cbn [fst]; [|exact G]. destruct (pc_seal _ MESSAGE_TYPE_ROTATION (rot_encode m)) as [p3 [w|e|s]]; exact G.
  - (* no core: unencrypted mode, which no branch leaves *)
    destruct H as [Hp|[c Hc']]; [|congruence].
    destruct ir as [out|e|s]; cbn [fst]; [|left; exact Hp|left; exact Hp].
    destruct out as [m|]; cbn [fst]; [left; exact Hp|].
    destruct (pc_rot p) as [rs|]; cbn [fst]; [|left; exact Hp].
    destruct (pc_counter p + 1 <? ROTATE_INTERVAL); cbn [fst]; [left; exact Hp|].
    destruct (rot_cycle rs (pc_fresh p)) as [[[rs' rm] rk] fr].
    destruct rk as [k|]; cbn [fst]; [left; exact Hp|].
    destruct rm as [m|]; cbn [fst]; [|left; exact Hp].
    unfold pc_seal. cbn [pc_set pc_plain]. rewrite Hp. cbn [fst]. left; reflexivity.
Qed.

(* ---- node layer ---- *)
Definition SEp (l : list (N * peer_data)) : Prop := forall a pd, aget l a = Some pd -> sendable (p_crypto pd).
Definition SE (n : node) : Prop := SEp (n_peers n).

Lemma sep_aset : forall l a pd, SEp l -> sendable (p_crypto pd) -> SEp (aset l a pd).
Proof.
  intros l a pd H Hs b pd' Hb. destruct (N.eq_dec a b) as [<-|Hne].
  - rewrite aget_aset_same in Hb. inversion Hb; subst. exact Hs.
  - rewrite aget_aset_other in Hb by exact Hne. exact (H b pd' Hb).
Qed.
Lemma sep_adel : forall l a, SEp l -> SEp (adel l a).
Proof.
  intros l a H b pd Hb. destruct (N.eq_dec b a) as [->|Hne].
  - rewrite aget_adel_same in Hb. discriminate.
  - rewrite aget_adel_other in Hb by congruence. exact (H b pd Hb).
Qed.

Lemma se_eq : forall n n', n_peers n' = n_peers n -> SE n -> SE n'.
Proof. intros n n' Hp. unfold SE. rewrite Hp. exact (fun H => H). Qed.

Lemma upi_se : forall salts now n addr info, SE n -> SE (fst (update_peer_info salts now n addr info)).
Proof.
  intros salts now n addr info H. unfold update_peer_info. destruct (aget (n_peers n) addr) as [pd|] eqn:Ea; [|exact H].
  destruct info as [i|].
  - eapply se_eq; [apply connect_to_peers_peers|]. unfold SE. cbn [upd n_peers]. apply sep_aset; [exact H|]. cbn [p_crypto]. exact (H _ _ Ea).
  - unfold SE. cbn [fst upd n_peers]. apply sep_aset; [exact H|]. cbn [p_crypto]. exact (H _ _ Ea).
Qed.

Lemma anp_se : forall salts now n addr info, SE n -> (forall pc, aget (n_pending n) addr = Some pc -> sendable pc) ->
  SE (fst (add_new_peer salts now n addr info)).
Proof.
  intros salts now n addr info H Hq. unfold add_new_peer. destruct (aget (n_pending n) addr) as [pc|]; [|exact H].
  apply upi_se. unfold SE. cbn [upd n_peers]. apply sep_aset; [exact H|]. cbn [p_crypto]. apply Hq. reflexivity.
Qed.

Lemma remove_peer_se : forall now n addr, SE n -> SE (remove_peer now n addr).
Proof. intros now n addr H. unfold remove_peer. destruct (aget (n_peers n) addr); [|exact H]. unfold SE. cbn [upd n_peers]. apply sep_adel. exact H. Qed.

Lemma hr_se : forall salts now n src r reply, SE n ->
  (is_initialized r = true -> forall pc, aget (n_pending n) src = Some pc -> sendable pc) ->
  SE (fst (handle_result salts now n src r reply)).
Proof.
  intros salts now n src r reply H Hq. destruct r as [ty body|p|p| |]; cbn [handle_result].
  - destruct (ty =? MESSAGE_TYPE_DATA).
    + destruct (parse_frame (n_cfg n) body) as [[s d]|e|s]; cbn [fst]; try exact H. destruct (c_learning (n_cfg n)); exact H.
    + destruct (ty =? MESSAGE_TYPE_NODE_INFO).
      * destruct (ni_decode body) as [info|e|s]; [apply upi_se; exact H|exact H|exact H].
      * destruct (ty =? MESSAGE_TYPE_KEEPALIVE); [apply upi_se; exact H|].
        destruct (ty =? MESSAGE_TYPE_CLOSE); [cbn [fst]; apply remove_peer_se; exact H|exact H].
  - destruct (ni_decode p) as [info|e|s]; [apply anp_se; [exact H|exact (Hq eq_refl)]|exact H|exact H].
  - destruct (ni_decode p) as [info|e|s]; [|exact H|exact H].
    pose proof (anp_se salts now n src info H (Hq eq_refl)) as G. destruct (add_new_peer salts now n src info) as [n1 fx]. exact G.
  - exact H.
  - exact H.
Qed.

Lemma handle_net_se : forall salts now n src w, SE n -> SE (fst (handle_net salts now n src w)).
Proof.
  intros salts now n src w H. unfold handle_net.
  destruct (if is_init_wire w || negb (ahas (n_peers n) src) then aget (n_pending n) src else None) as [pc|] eqn:Esel.
  - pose proof (sendable_handle payload_ok pc w) as [_ S2].
    destruct (pc_handle payload_ok pc w) as [[pc' r] reply]. cbn [fst snd] in S2.
    destruct r as [res|c|s]; [|destruct (c =? 2); exact H|exact H].
    apply hr_se; [exact H|]. intros Hi pc0 Hpc0. cbn [upd n_pending] in Hpc0. rewrite aget_aset_same in Hpc0. inversion Hpc0; subst.
    exact (S2 res eq_refl Hi).
  - destruct (is_init_wire w) eqn:Einit.
    + cbn [orb] in Esel.
      destruct (match aget (n_peers n) src with Some pd => if pc_has_init (p_crypto pd) then Some pd else None | None => None end) as [pd|] eqn:Epd.
      * assert (Ea : aget (n_peers n) src = Some pd) by (destruct (aget (n_peers n) src) as [pd0|]; [destruct (pc_has_init (p_crypto pd0)); [exact Epd|discriminate]|discriminate]).
        pose proof (sendable_handle payload_ok (p_crypto pd) w) as [S1 _]. specialize (S1 (H _ _ Ea)).
        destruct (pc_handle payload_ok (p_crypto pd) w) as [[pc' r] reply]. cbn [fst] in S1.
        match goal with |- SE (fst (match r with Ok _ => _ | Err _ => (with_invalid ?m, _) | Panic _ => _ end)) => assert (H1 : SE m) by (unfold SE; cbn [upd n_peers]; apply sep_aset; [exact H|exact S1]) end.
        destruct r as [res|c|s]; [|exact H1|exact H1].
        apply hr_se; [exact H1|]. intros _ pc0 Hpc0. cbn [upd n_pending] in Hpc0. rewrite Esel in Hpc0. discriminate.
      * pose proof (sendable_handle payload_ok (snd (new_instance n (salt_for salts (c_num (n_cfg n)) src))) w) as [_ S2].
        pose proof (new_instance_state n (salt_for salts (c_num (n_cfg n)) src)) as (Hp0 & _ & _).
        destruct (new_instance n (salt_for salts (c_num (n_cfg n)) src)) as [n0 pc]. cbn [fst snd] in *.
        destruct (pc_handle payload_ok pc w) as [[pc' r] reply]. cbn [fst snd] in S2.
        assert (H0 : SE n0) by (unfold SE; rewrite Hp0; exact H).
        destruct r as [res|c|s]; [|exact H0|exact H0].
        apply hr_se; [exact H0|]. intros Hi pc0 Hpc0. cbn [upd n_pending] in Hpc0. rewrite aget_aset_same in Hpc0. inversion Hpc0; subst.
        exact (S2 res eq_refl Hi).
    + destruct (aget (n_peers n) src) as [pd|] eqn:Ea; [|exact H].
      pose proof (sendable_handle payload_ok (p_crypto pd) w) as [S1 _]. specialize (S1 (H _ _ Ea)).
      destruct (pc_handle payload_ok (p_crypto pd) w) as [[pc' r] reply] eqn:Eh. cbn [fst] in S1.
      match goal with |- SE (fst (match r with Ok _ => _ | Err _ => (with_invalid ?m, _) | Panic _ => _ end)) => assert (H1 : SE m) by (unfold SE; cbn [upd n_peers]; apply sep_aset; [exact H|exact S1]) end.
      destruct r as [res|c|s]; [|exact H1|exact H1].
      apply hr_se; [exact H1|]. intros Hi. exfalso.
      destruct (pc_initialized_needs_trust _ _ _ _ _ _ Eh Hi) as (i & m & -> & _). discriminate Einit.
Qed.

Lemma send_data_se : forall n addr ty body, SE n -> SE (fst (send_data n addr ty body)).
Proof.
  intros n addr ty body H. unfold send_data. destruct (aget (n_peers n) addr) as [pd|] eqn:Ea; [|exact H].
  unfold pc_send. pose proof (sendable_seal (p_crypto pd) ty body (H _ _ Ea)) as [S _].
  destruct (pc_seal (p_crypto pd) ty body) as [pc' [w|e|s]]; cbn [fst] in *; try exact H.
  unfold SE. cbn [upd n_peers]. apply sep_aset; [exact H|exact S].
Qed.

Lemma fold_se : forall (A : Type) (f : node * list effect -> A -> node * list effect) (l : list A) st,
  (forall st x, SE (fst st) -> SE (fst (f st x))) -> SE (fst st) -> SE (fst (fold_left f l st)).
Proof. intros A f l. induction l as [|x t IH]; intros st H Hs; [exact Hs|]. cbn [fold_left]. apply IH; [exact H|apply H; exact Hs]. Qed.

Lemma broadcast_se : forall n ty body, SE n -> SE (fst (broadcast n ty body)).
Proof.
  intros n ty body H. unfold broadcast. apply (fold_se _ _ (n_peers n) (n, [])); [|exact H]. intros [m fx] e Hm. cbn [fst] in *.
  pose proof (send_data_se m (fst e) ty body Hm) as G. destruct (send_data m (fst e) ty body) as [m' fx']. exact G.
Qed.

Lemma handle_iface_se : forall salts now n frame, SE n -> SE (fst (handle_iface salts now n frame)).
Proof.
  intros salts now n frame H. unfold handle_iface. destruct (parse_frame (n_cfg n) frame) as [[s dst]|e|s]; [|exact H|exact H].
  destruct (table_lookup (n_table n) now dst) as [r t'].
  destruct r as [addr|]; [apply send_data_se; exact H|]. destruct (c_broadcast (n_cfg n)); [apply broadcast_se; exact H|exact H].
Qed.

Lemma tick_pending_peers : forall n, n_peers (fst (fst (tick_pending n))) = n_peers n.
Proof.
  intros n. unfold tick_pending.
  assert (G : forall l st, n_peers (fst (fst (fold_left (fun (acc : node * list effect * list N) (e : N * peer_crypto) =>
    let '(m, fx, del) := acc in
    let addr := fst e in
    match aget (n_pending m) addr with
    | None => (m, fx, del)
    | Some pc =>
        let '(pc', r, w) := pc_every_second pc in
        let m' := upd m (n_peers m) (aset (n_pending m) addr pc') (n_own m) (n_table m) in
        match r with
        | Err _ => (m', fx, del ++ [addr])
        | Ok MReply => (m', fx ++ match w with Some x => [XSend addr x] | None => [] end, del)
        | _ => (m', fx, del)
        end
    end) l st))) = n_peers (fst (fst st))).
  { induction l as [|e t IH]; intros [[m fx] del]; [reflexivity|]. cbn [fold_left]. rewrite IH. cbn [fst].
    destruct (aget (n_pending m) (fst e)) as [pc|]; [|reflexivity].
    destruct (pc_every_second pc) as [[pc' r] w]. destruct r as [[ | | | | ]|c|s]; reflexivity. }
  apply (G (n_pending n) (n, [], [])).
Qed.

Lemma tick_peers_se : forall n, NoDup (keys (n_peers n)) -> SE n -> SE (fst (fst (tick_peers n))).
Proof.
  intros n Hnd H a pd Ha. destruct (tick_peers_ticks_each_once n Hnd) as (H1 & _ & _). rewrite H1 in Ha.
  destruct (aget (n_peers n) a) as [pd0|] eqn:E0; [|discriminate]. cbn [option_map] in Ha. inversion Ha; subst.
  unfold tick_pd. cbn [p_crypto]. apply sendable_tick. exact (H _ _ E0).
Qed.

Lemma drop_and_redial_se : forall salts now m addr, SE m ->
  SE (fst (connect_sock salts (upd m (adel (n_peers m) addr) (n_pending m) (n_own m) (table_remove_claims (n_table m) now addr)) addr)).
Proof.
  intros salts now m addr H. eapply se_eq; [apply connect_sock_peers|]. unfold SE. cbn [upd n_peers]. apply sep_adel. exact H.
Qed.

Lemma crypto_housekeep_se : forall salts now n, ND n -> SE n -> SE (fst (crypto_housekeep salts now n)).
Proof.
  intros salts now n Hnd H. unfold crypto_housekeep.
  pose proof (tick_pending_peers n) as P1. pose proof (tick_pending_nd n Hnd) as N1.
  destruct (tick_pending n) as [[n1 fx1] del1]. cbn [fst] in *.
  assert (H1 : SE n1) by (unfold SE; rewrite P1; exact H).
  pose proof (tick_peers_se n1 (proj1 N1) H1) as H2. destruct (tick_peers n1) as [[n2 fx2] del2]. cbn [fst] in H2.
  assert (H3 : forall l m, SE m -> SE (fold_left (fun m addr => upd m (n_peers m) (adel (n_pending m) addr) (n_own m) (n_table m)) l m)).
  { induction l as [|a t IH]; intros m Hm; [exact Hm|]. cbn [fold_left]. apply IH. exact Hm. }
  specialize (H3 del1 n2 H2).
  set (n3 := fold_left _ del1 n2) in *.
  assert (H4 : forall l st, SE (fst st) -> SE (fst (fold_left (fun (acc : node * list effect) (addr : N) =>
    let '(m, fx) := acc in
    if ahas (n_peers m) addr then
      let m2 := upd m (adel (n_peers m) addr) (n_pending m) (n_own m) (table_remove_claims (n_table m) now addr) in
      let '(m3, fx') := connect_sock salts m2 addr in (m3, fx ++ fx')
    else (m, fx)) l st))).
  { induction l as [|a t IH]; intros [m fx] Hm; [exact Hm|]. cbn [fold_left]. apply IH. cbn [fst] in Hm.
    destruct (ahas (n_peers m) a); [|exact Hm].
    pose proof (drop_and_redial_se salts now m a Hm) as G. destruct (connect_sock salts _ a) as [m3 fx']. exact G. }
  apply (H4 del2 (n3, fx1 ++ fx2)). exact H3.
Qed.

Lemma reconnect_step_se : forall salts now n, SE n -> SE (fst (reconnect_step salts now n)).
Proof.
  intros salts now n H. unfold reconnect_step.
  assert (G : SE (fst (fold_left (fun (acc : node * list effect) (e : reconnect) =>
      let '(m, fx) := acc in
      if (now <? rc_next e)%Z then (m, fx) else let '(m', fx') := connect salts m (rc_addrs e) in (m', fx ++ fx'))
      (n_reconnect n) (n, [])))).
  { apply (fold_se _ _ (n_reconnect n) (n, [])); [|exact H]. intros [m fx] e Hm. cbn [fst] in *.
    destruct (now <? rc_next e)%Z; [exact Hm|].
    pose proof (connect_peers salts m (rc_addrs e)) as C. destruct (connect salts m (rc_addrs e)) as [m' fx']. cbn [fst] in *. unfold SE. rewrite C. exact Hm. }
  destruct (fold_left _ (n_reconnect n) (n, [])) as [n1 fx]. exact G.
Qed.

Lemma housekeep_se : forall salts now n, ND n -> SE n -> SE (fst (housekeep salts now n)).
Proof.
  intros salts now n Hnd H. unfold housekeep.
  assert (H1 : forall l st, ND (fst st) /\ SE (fst st) -> ND (fst (fold_left (fun (acc : node * list effect) (addr : N) =>
      let '(m, fx) := acc in
      let m1 := upd m (adel (n_peers m) addr) (n_pending m) (n_own m) (table_remove_claims (n_table m) now addr) in
      let '(m2, fx') := connect_sock salts m1 addr in (m2, fx ++ fx')) l st)) /\ SE (fst (fold_left (fun (acc : node * list effect) (addr : N) =>
      let '(m, fx) := acc in
      let m1 := upd m (adel (n_peers m) addr) (n_pending m) (n_own m) (table_remove_claims (n_table m) now addr) in
      let '(m2, fx') := connect_sock salts m1 addr in (m2, fx ++ fx')) l st))).
  { induction l as [|a t IH]; intros [m fx] Hm; [exact Hm|]. cbn [fold_left]. apply IH. cbn [fst] in Hm. destruct Hm as [A B].
    pose proof (drop_and_redial_se salts now m a B) as G. pose proof (drop_and_redial_nd salts now m a A) as G2.
    destruct (connect_sock salts _ a) as [m2 fx']. split; assumption. }
  specialize (H1 (map fst (filter (fun e => (p_timeout (snd e) <? now)%Z) (n_peers n))) (n, []) (conj Hnd H)).
  destruct (fold_left _ _ (n, [])) as [n1 fx1]. cbn [fst] in H1. destruct H1 as [N1 H1].
  set (n2 := upd n1 (n_peers n1) (n_pending n1) (n_own n1) (table_housekeep (n_table n1) now)).
  assert (H2 : SE n2) by exact H1. assert (N2 : ND n2) by exact N1.
  pose proof (crypto_housekeep_se salts now n2 N2 H2) as H3. destruct (crypto_housekeep salts now n2) as [n3 fx3]. cbn [fst] in H3.
  assert (H4 : SE (fst (if (n_next_peers n3 <=? now)%Z then
      let '(m, fx) := broadcast n3 MESSAGE_TYPE_NODE_INFO (ni_encode (create_node_info n3)) in
      let iv := announce_interval (update_freq (c_peer_timeout (n_cfg m)) (c_keepalive (n_cfg m)))
                                  (map (fun e => p_peer_timeout (snd e)) (n_peers m)) in
      (with_sched m (now + Z.of_N iv)%Z (n_next_own_reset m) (n_reconnect m), fx)
    else (n3, [])))).
  { destruct (n_next_peers n3 <=? now)%Z; [|exact H3].
    pose proof (broadcast_se n3 MESSAGE_TYPE_NODE_INFO (ni_encode (create_node_info n3)) H3) as G.
    destruct (broadcast n3 _ _) as [m fx]. exact G. }
  destruct (if (n_next_peers n3 <=? now)%Z then _ else _) as [n4 fx4]. cbn [fst] in H4.
  pose proof (reconnect_step_se salts now n4 H4) as H5. destruct (reconnect_step salts now n4) as [n5 fx5]. cbn [fst] in *.
  destruct (negb (c_hkfault (n_cfg n5)) && (n_next_own_reset n5 <=? now)%Z); exact H5.
Qed.

Theorem step_se : forall salts now n e, ND n -> SE n -> SE (fst (step salts now n e)).
Proof.
  intros salts now n e Hnd H. destruct e as [src w|f| |a|addrs]; cbn [step].
  - apply handle_net_se; exact H.
  - apply handle_iface_se; exact H.
  - apply housekeep_se; assumption.
  - unfold SE. rewrite connect_peers. exact H.
  - exact H.
Qed.

Theorem reachable_se : forall salts c t0 evs, SE (nrun salts (node_new c t0) evs) /\ ND (nrun salts (node_new c t0) evs).
Proof.
  intros salts c t0 evs.
  assert (H0 : SE (node_new c t0) /\ ND (node_new c t0)) by (split; [intros a pd Ha; discriminate Ha|apply node_new_nd]).
  revert H0. generalize (node_new c t0).
  induction evs as [|[now e] t IH]; intros n Hn; [exact Hn|]. cbn [nrun]. apply IH. destruct Hn as [A B].
  split; [apply step_se; assumption|apply step_nd; exact B].
Qed.

(* ---- what a flood emits ---- *)
Definition seal_fx (ty : N) (body : bytes) (e : N * peer_data) : list effect :=
  match snd (pc_send (p_crypto (snd e)) ty body) with Ok w => [XSend (fst e) w] | _ => [] end.

Lemma aget_head_nodup : forall (A : Type) (k : N) (v : A) t, aget ((k, v) :: t) k = Some v.
Proof. intros. cbn [aget]. rewrite N.eqb_refl. reflexivity. Qed.

(* the fold of broadcast over a suffix l of the peer list: entries of l are still the original ones in the current map *)
Lemma broadcast_fold : forall ty body l m fx, NoDup (keys l) ->
  (forall k v, In (k, v) l -> aget (n_peers m) k = Some v) ->
  snd (fold_left (fun (acc : node * list effect) (e : N * peer_data) => let '(m, fx) := acc in let '(m', fx') := send_data m (fst e) ty body in (m', fx ++ fx')) l (m, fx))
  = fx ++ flat_map (seal_fx ty body) l.
Proof.
  intros ty body. induction l as [|[k v] t IH]; intros m fx Hnd Hin; cbn [fold_left flat_map]; [rewrite app_nil_r; reflexivity|].
  inversion Hnd as [|? ? Hnin Hnd']; subst. cbn [fst].
  assert (Hk : aget (n_peers m) k = Some v) by (apply Hin; left; reflexivity).
  destruct (send_data m k ty body) as [m' fx'] eqn:Es. unfold send_data in Es. rewrite Hk in Es.
  unfold seal_fx at 1. cbn [fst snd].
  destruct (pc_send (p_crypto v) ty body) as [pc' [w|e|s]]; cbn [snd]; inversion Es; subst m' fx'; clear Es.
  - rewrite IH; [rewrite <- app_assoc; reflexivity|exact Hnd'|].
    intros k' v' Hin'. cbn [upd n_peers]. rewrite aget_aset_other; [apply Hin; right; exact Hin'|].
    intros ->. apply Hnin. change k' with (fst (k', v')). apply in_map. exact Hin'.
  - rewrite IH; [rewrite app_nil_r; reflexivity|exact Hnd'|]. intros k' v' Hin'. apply Hin. right; exact Hin'.
  - rewrite IH; [rewrite app_nil_r; reflexivity|exact Hnd'|]. intros k' v' Hin'. apply Hin. right; exact Hin'.
Qed.

Lemma aget_of_in : forall (A : Type) (l : list (N * A)) k v, NoDup (keys l) -> In (k, v) l -> aget l k = Some v.
Proof.
  intros A l k v. induction l as [|[k' v'] t IH]; intros Hnd Hin; [destruct Hin|].
  inversion Hnd as [|? ? Hnin Hnd']; subst. cbn [aget]. destruct Hin as [Heq|Hin].
  - inversion Heq; subst. rewrite N.eqb_refl. reflexivity.
  - destruct (k =? k') eqn:E; [|apply IH; assumption]. apply N.eqb_eq in E. subst k'. exfalso. apply Hnin.
    change k with (fst (k, v)). apply in_map. exact Hin.
Qed.

Theorem broadcast_exact : forall n ty body, NoDup (keys (n_peers n)) ->
  snd (broadcast n ty body) = flat_map (seal_fx ty body) (n_peers n).
Proof.
  intros n ty body Hnd. unfold broadcast. rewrite broadcast_fold; [reflexivity|exact Hnd|].
  intros k v Hin. apply aget_of_in; assumption.
Qed.

Definition dst_of (e : effect) : option N := match e with XSend d _ => Some d | XWrite _ => None end.

(* when every peer can seal, that is one datagram per peer, in the order of the peer map *)
Theorem broadcast_every_peer_once : forall n ty body, NoDup (keys (n_peers n)) -> SE n ->
  map dst_of (snd (broadcast n ty body)) = map (fun e => Some (fst e)) (n_peers n).
Proof.
  intros n ty body Hnd Hse. rewrite broadcast_exact by exact Hnd.
  assert (G : forall l, (forall k v, In (k, v) l -> sendable (p_crypto v)) ->
              map dst_of (flat_map (seal_fx ty body) l) = map (fun e => Some (fst e)) l).
  { induction l as [|[k v] t IH]; intros H; [reflexivity|]. cbn [flat_map map]. rewrite map_app, IH by (intros k' v' Hin; apply (H k' v'); right; exact Hin).
    unfold seal_fx, pc_send. cbn [fst snd]. destruct (sendable_seal (p_crypto v) ty body (H k v (or_introl eq_refl))) as [_ [w Hw]]. rewrite Hw. reflexivity. }
  apply G. intros k v Hin. apply (Hse k v). apply aget_of_in; assumption.
Qed.

(* C10 / C11 node clause, for every reachable state: a frame whose destination the table does not know is, in a flooding mode,
   sent to every peer exactly once and written nowhere; in router mode it causes nothing and is counted (iface_unknown_router_drops) *)
Theorem reachable_flood_every_peer_once : forall salts c t0 evs now frame s d t',
  let n := nrun salts (node_new c t0) evs in
  parse_frame (n_cfg n) frame = Ok (s, d) -> table_lookup (n_table n) now d = (None, t') -> c_broadcast (n_cfg n) = true ->
  map dst_of (snd (handle_iface salts now n frame)) = map (fun e => Some (fst e)) (n_peers n).
Proof.
  intros salts c t0 evs now frame s d t' n Hp Hl Hb. destruct (reachable_se salts c t0 evs) as [Hse [Hnd _]]. fold n in Hse, Hnd.
  unfold handle_iface. rewrite Hp, Hl, Hb.
  apply (broadcast_every_peer_once (upd n (n_peers n) (n_pending n) (n_own n) t') MESSAGE_TYPE_DATA frame); assumption.
Qed.

(* non-vacuity: the example state of NextHopProofs floods to its one peer *)
Lemma ex_flood : map dst_of (snd (broadcast ex_b MESSAGE_TYPE_DATA [1;2;3])) = [Some 1001].
Proof. vm_compute. reflexivity. Qed.

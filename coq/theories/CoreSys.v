(* Two CryptoCore ends and the list of every datagram sealed so far: the operation language shared by
   the correspondence harness (driver op `core`) and by the C02/C03/C04 theorems. *)
From VpnModel Require Import Base Nonce Replay Core.

Inductive cop :=
| OSeal (x : bool) (p : bytes)                 (* end x (false = A, true = B) seals p *)
| ODeliver (x : bool) (i : nat)                (* datagram i delivered verbatim to end x *)
| OFlip (x : bool) (i : nat) (pos : nat) (bit : N)
| OTrunc (x : bool) (i : nat) (len : nat)
| ORaw (x : bool) (b : bytes)
| OTick (x : bool)
| ORotate (x : bool) (k : N) (id : N) (use : bool) (rnd6 : bytes)
| OState (x : bool)
| OSetNonce (x : bool) (slot : N) (n : bytes)     (* harness: put a send counter at a chosen value *)
| OLog.                                           (* harness: the seal log so far (ghost) *)

Inductive cout :=
| CSealed (keyid : N) (ctr7 : bytes) (len : nat)
| COk (p : bytes)
| CErr
| CPanic
| CNone
| CState (cur : N) (st : list (bytes * N * N * N))   (* per slot: send nonce, min, next_min, seen *)
| CLog (l : list (N * bytes)).                      (* (key, nonce) of every seal so far *)

Record cst := { ea : core; eb : core; sent : list dgram }.

Definition get_end (s : cst) (x : bool) : core := if x then eb s else ea s.
Definition set_end (s : cst) (x : bool) (c : core) : cst :=
  if x then {| ea := ea s; eb := c; sent := sent s |} else {| ea := c; eb := eb s; sent := sent s |}.

Definition out_of_res (r : res bytes) : cout :=
  match r with Ok p => COk p | Err _ => CErr | Panic _ => CPanic end.

Definition do_decrypt (s : cst) (x : bool) (d : dgram) : cst * cout :=
  let '(c', r) := core_decrypt (get_end s x) d in (set_end s x c', out_of_res r).

Definition cstep (s : cst) (o : cop) : cst * cout :=
  match o with
  | OSeal x p =>
      let '(c', d) := core_encrypt (get_end s x) p in
      let s' := set_end s x c' in
      ({| ea := ea s'; eb := eb s'; sent := sent s' ++ [d] |},
       match d with DG k c7 _ _ => CSealed k c7 (dgram_len d) | DShort n => CNone end)
  | ODeliver x i =>
      match nth_error (sent s) i with
      | Some d => do_decrypt s x d
      | None => (s, CNone)
      end
  | OFlip x i pos bit =>
      match nth_error (sent s) i with
      | Some d => if (pos <? dgram_len d)%nat then do_decrypt s x (dgram_flip d pos bit) else (s, CNone)
      | None => (s, CNone)
      end
  | OTrunc x i len =>
      match nth_error (sent s) i with
      | Some d => do_decrypt s x (dgram_truncate d len)
      | None => (s, CNone)
      end
  | ORaw x b => do_decrypt s x (dgram_of_bytes b)
  | OTick x => (set_end s x (core_tick (get_end s x)), CNone)
  | ORotate x k id use r => (set_end s x (core_rotate (get_end s x) k id use r), CNone)
  | OSetNonce x i nn =>
      let c := get_end s x in
      let sl := get_slot c i in
      (set_end s x (set_slot c i {| s_key := s_key sl; s_send := nn; s_win := s_win sl |}), CNone)
  | OLog => (s, CLog (flat_map (fun d => match d with DG _ _ (Seal k nn _) _ => [(k, nn)] | _ => [] end) (sent s)))
  | OState x =>
      let c := get_end s x in
      (s, CState (current c) (map (fun sl => (s_send sl, minn (s_win sl), next_min (s_win sl), seen (s_win sl))) (slots c)))
  end.

Fixpoint crun (s : cst) (ops : list cop) : cst * list cout :=
  match ops with
  | [] => (s, [])
  | o :: t => let '(s', r) := cstep s o in let '(s'', rs) := crun s' t in (s'', r :: rs)
  end.

(* the pair create_dummy_pair builds: same key, A has half = true, B has half = false *)
Definition cst_init (k da db : N) (ra rb : list bytes) : cst :=
  let r i l := nth i l (zeros 6) in
  {| ea := core_new k da true (r 0%nat ra) (r 1%nat ra) (r 2%nat ra) (r 3%nat ra);
     eb := core_new k db false (r 0%nat rb) (r 1%nat rb) (r 2%nat rb) (r 3%nat rb);
     sent := [] |}.

(* Model of src/payload.rs: Frame::parse and Packet::parse (address dissection).
   Error classes: 1 = "too short", 2 = "vlan frame too short", 3 = empty, 4 = truncated v4,
   5 = truncated v6, 6 = invalid version. *)
From VpnModel Require Import Base.

(* Frame::parse.  read_exact on a Cursor fails (-> Err) when fewer bytes remain; no slice index in
   this function can be out of range, so there is no Panic site. *)
Definition frame_parse (d : bytes) : res (bytes * bytes) :=
  if (length d <? 14)%nat then Err 1 else
  let dst := firstn 6 d in
  let src := firstn 6 (skipn 6 d) in
  if (nth_b 12 d =? 129) && (nth_b 13 d =? 0) then
    if (length d <? 16)%nat then Err 2 else
    let t0 := N.land (nth_b 14 d) 15 in
    let t1 := nth_b 15 d in
    (* `src[0..2] == [0, 0]`: vlan id 0 is treated as untagged *)
    if (t0 =? 0) && (t1 =? 0) then Ok (src, dst)
    else Ok (t0 :: t1 :: src, t0 :: t1 :: dst)
  else Ok (src, dst).

(* Packet::parse.  data[12..] etc. are guarded by the length tests; read_from_fixed(len<=16). *)
Definition packet_parse (d : bytes) : res (bytes * bytes) :=
  match d with
  | [] => Err 3
  | b0 :: _ =>
    let version := b0 / 16 in
    if version =? 4 then
      if (length d <? 20)%nat then Err 4
      else Ok (firstn 4 (skipn 12 d), firstn 4 (skipn 16 d))
    else if version =? 6 then
      if (length d <? 40)%nat then Err 5
      else Ok (firstn 16 (skipn 8 d), firstn 16 (skipn 24 d))
    else Err 6
  end.
